"""C05 / C09 / C12 constructor unit: the cached annotations `ty` / `ext` every `Miniscript` value carries are the ones
`Type::type_check(&node)` / `ExtData::type_check(&node)` return.

All other units ASSUME this invariant; it is established by `Miniscript::from_ast` and by the hand-written
constructors of `mod private` in src/miniscript/mod.rs that assign `ty` / `ext` manually (TRUE, FALSE, pk, pkh, pk_k,
pk_h, expr_raw_pkh, after, older, the four hashes, multi, sortedmulti, multi_a, sortedmulti_a), plus the cast table of
the policy compiler (`all_casts` / `Cast::cast`, which pairs a node builder with hand-picked `ast_type` / `ext_data`
functions).

Vocabulary: every `Type::*` rule and `ExtData::*` row is an UNINTERPRETED function of its arguments (style of
c09_dispatch); `ty_of(node)` / `ext_of(node)` name the rule / row the SPECIFICATION assigns to the fragment kind, applied
to the children's annotations in source order.  That these two are not an opinion is checked in the same file: the two
dispatchers `Type::type_check` / `ExtData::type_check` are extracted whole and must agree with `ty_of` / `ext_of` variant
by variant.  Then every constructor (extracted verbatim) must produce `Ok(r.ty) == ty_of(r.node)`, `r.ext == ext_of(r.node)`
and the node the caller asked for.  `from_ast` additionally: accepts exactly when the rule accepts, the depth limit holds and
the context's global check accepts the annotated value (C12).

C12 `context_checked`: from_ast consults `Ctx::check_global_validity` for every node it builds and the descriptor constructors
(`Wsh::new`, `Sh::new`, `Wsh::new_sortedmulti`, ...) rely on that -- they run only the top-level type checks.  The hand-written
key-bearing constructors must therefore hand out context-checked values too.  They do not (open finding, see the unit report):
those clauses are RED on the unchanged tree and are kept.
"""
import re

from vlib.verus import VerusFile, Contract, Clause, Undecided, sub, lit, rule, replace_arm
from units import _tree
from units import c05_types as T
from units import c09_dispatch as D

NAME = "c05_ctors"
ENGINE = "verus"
PROPS = ("C05", "C09", "C12", "C11", "C04", "C08")
MSMOD, TYPES, EXT, CORR, MALL = _tree.MSMOD, _tree.TYPES, _tree.EXT, _tree.CORR, _tree.MALL
LIB = "src/lib.rs"
SEGWIT, SH = "src/descriptor/segwitv0.rs", "src/descriptor/sh.rs"
COMPILER = "src/policy/compiler.rs"
MSIMPL = "mod:private/impl:Miniscript<Pk, Ctx>"
A = ("C05", "C09", "C04")     # annotation clauses (C04: decode builds its result through these constructors and promises the identical type)

DROPPED = [
    "Miniscript::from_components_unchecked: documented as unchecked (the caller supplies ty / ext); only its frame "
    "`r.node == node && r.ty == ty && r.ext == ext` is proved and used. Its callers: Cast::cast and AstElemExt::binary / ternary "
    "(covered here), substitute_raw_pkh and Miniscript::clone (copy ty / ext of a node of the same kind: c20_translate)",
    "AstElemExt::binary / ternary: the closure `lookup_ext` and CompilerExtData::type_check_with_child (f64 cost figures) are replaced "
    "by an unconstrained stub; AstElemExt::terminal stores a Miniscript it was given (no annotation is built)",
    "Type::type_check / ExtData::type_check: the Thresh arm (iterator adapters / closure) is excluded (R9); ty_of / ext_of of a "
    "Thresh node are BY DEFINITION what the excluded arm computes (an uninterpreted function of the threshold), so the from_ast "
    "clauses hold for Thresh nodes too but say nothing about the thresh row (k05_thresh / k09_extdata do)",
    "Type::type_check: the error-wrapping closure (fragment.to_string()) is replaced by the stub wrap_err; Type::sanity_checks is a "
    "no-op stub here (its debug_asserts are discharged in c05_types / c05_dispatch)",
    "crate::Error is reduced to the three variants from_ast can return; From<types::Error> keeps the error instead of its string. WHICH "
    "error a rejected node gets is claimed for the depth check only: Verus leaves the `From` conversion done by `?` unspecified, so "
    "`Err(TypeCheck(..))` / `Err(ContextError(..))` cannot be stated (rejection itself is: accepts_iff)",
    "from_ast: `tree_height as u32` truncates; the clauses are proved under the stated precondition ext_of(t).tree_height <= u32::MAX "
    "(a height is bounded by the number of allocated nodes); without it accepts_iff / err_depth fail (checked)",
    "Cast::cast: the four fn-pointer fields are instantiated with the entries of all_casts() (rule R6: one instance per table "
    "row, `(|ms| BODY)(arg)` beta-reduced); the f64 compiler data (comp_ext_data) is an opaque value",
    "context_checked (C12) is claimed for the key-bearing constructors only (pk_k, pk_h, pk, pkh, multi, sortedmulti, multi_a, "
    "sortedmulti_a): with an uninterpreted verdict nothing can be said for TRUE / FALSE / after / older / hashes / expr_raw_pkh, where the "
    "real contexts have no per-node rule",
]

# ---------------------------------------------------------------------------------------------------------------------
# vocabulary: Type rules
# ---------------------------------------------------------------------------------------------------------------------
T_LEAVES = ["pk_k", "pk_h", "multi", "sortedmulti", "multi_a", "sortedmulti_a", "hash", "time"]
T_UNARY = ["cast_alt", "cast_swap", "cast_check", "cast_dupif", "cast_verify", "cast_nonzero", "cast_zeronotequal",
           "cast_true", "cast_unlikely", "cast_likely"]
T_BINARY = ["and_b", "and_v", "or_b", "or_d", "or_c", "or_i"]

TYPE_VOCAB = "\n".join(
    ["// ---- the typing rules as uninterpreted functions of their arguments (proved rule by rule in c05_types) ----"]
    + ["uninterp spec fn t_%s() -> Type;" % f for f in T_LEAVES]
    + ["uninterp spec fn t_%s(x: Type) -> Result<Type, ErrorKind>;" % f for f in T_UNARY]
    + ["uninterp spec fn t_%s(l: Type, r: Type) -> Result<Type, ErrorKind>;" % f for f in T_BINARY]
    + ["uninterp spec fn t_and_or(a: Type, b: Type, c: Type) -> Result<Type, ErrorKind>;",
       "uninterp spec fn t_thresh<Pk: MiniscriptKey, Ctx: ScriptContext>(t: Threshold<Arc<Miniscript<Pk, Ctx>>, 0>) -> Result<Type, ErrorKind>;",
       "uninterp spec fn e_thresh<Pk: MiniscriptKey, Ctx: ScriptContext>(t: Threshold<Arc<Miniscript<Pk, Ctx>>, 0>) -> ExtData;",
       ]) + "\n"

WRAPPERS = [("Alt", "cast_alt"), ("Swap", "cast_swap"), ("Check", "cast_check"), ("DupIf", "cast_dupif"), ("Verify", "cast_verify"),
            ("NonZero", "cast_nonzero"), ("ZeroNotEqual", "cast_zeronotequal")]
BINARIES = [("AndV", "and_v"), ("AndB", "and_b"), ("OrB", "or_b"), ("OrD", "or_d"), ("OrC", "or_c"), ("OrI", "or_i")]
T_LEAF_OF = [("PkK", "pk_k"), ("PkH", "pk_h"), ("RawPkH", "pk_h"), ("Multi", "multi"), ("SortedMulti", "sortedmulti"),
             ("MultiA", "multi_a"), ("SortedMultiA", "sortedmulti_a"), ("After", "time"), ("Older", "time"),
             ("Sha256", "hash"), ("Hash256", "hash"), ("Ripemd160", "hash"), ("Hash160", "hash")]
LEAF_VARIANTS = ["True", "False"] + [v for v, _ in T_LEAF_OF]
VARIANTS = ["True", "False"] + [v for v, _ in T_LEAF_OF] + [v for v, _ in WRAPPERS] + [v for v, _ in BINARIES] + ["AndOr", "Thresh"]

# the specification's assignment fragment kind -> rule / row, children in source order
ORACLE = r"""
// ---- ty_of / ext_of: the rule / row the specification assigns to each fragment kind, applied to the children's
// ---- annotations in source order (first child = X, second = Y / Z, third = Z) -------------------------------------
spec fn ty_of<Pk: MiniscriptKey, Ctx: ScriptContext>(t: Terminal<Pk, Ctx>) -> Result<Type, ErrorKind> {
    match t {
        Terminal::True => Ok(Type::TRUE),
        Terminal::False => Ok(Type::FALSE),
%(t_leaves)s
%(t_wrappers)s
%(t_binaries)s
        Terminal::AndOr(x, y, z) => t_and_or(x.ty, y.ty, z.ty),
        Terminal::Thresh(th) => t_thresh(th),
    }
}
// sortedmulti_a has the script template of multi_a, hence the same figures
spec fn e_sortedmulti_a(k: usize, n: usize) -> ExtData { e_multi_a(k, n) }
spec fn ext_of<Pk: MiniscriptKey, Ctx: ScriptContext>(t: Terminal<Pk, Ctx>) -> ExtData {
    match t {
        Terminal::True => e_true_(),
        Terminal::False => e_false_(),
        Terminal::PkK(k) => e_pk_k::<Pk, Ctx>(k),
        Terminal::PkH(k) => e_pk_h::<Pk, Ctx>(Some(k)),
        Terminal::RawPkH(_) => e_pk_h::<Pk, Ctx>(None),
        Terminal::Multi(th) => e_multi(th),
        Terminal::SortedMulti(th) => e_sortedmulti(th),
        Terminal::MultiA(th) => e_multi_a(th.spec_k(), th.spec_n() as usize),
        Terminal::SortedMultiA(th) => e_sortedmulti_a(th.spec_k(), th.spec_n() as usize),
        Terminal::After(n) => e_after(n),
        Terminal::Older(n) => e_older(n),
        Terminal::Sha256(_) => e_sha256(),
        Terminal::Hash256(_) => e_hash256(),
        Terminal::Ripemd160(_) => e_ripemd160(),
        Terminal::Hash160(_) => e_hash160(),
%(e_wrappers)s
%(e_binaries)s
        Terminal::AndOr(x, y, z) => e_and_or(x.ext, y.ext, z.ext),
        Terminal::Thresh(th) => e_thresh(th),
    }
}
// the annotated value from_ast hands to the context check
spec fn annotated<Pk: MiniscriptKey, Ctx: ScriptContext>(t: Terminal<Pk, Ctx>) -> Miniscript<Pk, Ctx> {
    Miniscript { node: t, ty: ty_of(t)->Ok_0, ext: ext_of(t), phantom: PhantomData }
}
spec fn is_annotated<Pk: MiniscriptKey, Ctx: ScriptContext>(m: Miniscript<Pk, Ctx>) -> bool {
    Ok::<Type, ErrorKind>(m.ty) == ty_of(m.node) && m.ext == ext_of(m.node)
}
""" % dict(
    t_leaves="\n".join("        Terminal::%s(_) => Ok(t_%s())," % (v, f) for v, f in T_LEAF_OF),
    t_wrappers="\n".join("        Terminal::%s(x) => t_%s(x.ty)," % (v, f) for v, f in WRAPPERS),
    t_binaries="\n".join("        Terminal::%s(x, y) => t_%s(x.ty, y.ty)," % (v, f) for v, f in BINARIES),
    e_wrappers="\n".join("        Terminal::%s(x) => e_%s(x.ext)," % (v, f) for v, f in WRAPPERS),
    e_binaries="\n".join("        Terminal::%s(x, y) => e_%s(x.ext, y.ext)," % (v, f) for v, f in BINARIES),
)

ERRORS = r"""
// ---- error types (crate::Error reduced to what from_ast can return) ------------------------------------------------
struct TypeError { fragment_string: u8, error: ErrorKind }          // miniscript::types::Error
struct ScriptContextError { opaque: u8 }
enum Error { TypeCheck(TypeError), ContextError(ScriptContextError), MaxRecursiveDepthExceeded }
impl From<TypeError> for Error {
    // real body: Self::TypeCheck(e.to_string())
    fn from(e: TypeError) -> Self { Self::TypeCheck(e) }
}
// glue: the two `From` impls are checked against these (Verus does not use them at `?`, see DROPPED)
impl vstd::std_specs::convert::FromSpecImpl<TypeError> for Error {
    open spec fn obeys_from_spec() -> bool { true }
    closed spec fn from_spec(e: TypeError) -> Self { Error::TypeCheck(e) }
}
impl vstd::std_specs::convert::FromSpecImpl<ScriptContextError> for Error {
    open spec fn obeys_from_spec() -> bool { true }
    closed spec fn from_spec(e: ScriptContextError) -> Self { Error::ContextError(e) }
}
#[verifier::external_body]
fn wrap_err(result: Result<Type, ErrorKind>) -> (o: Result<Type, TypeError>)
    ensures result is Ok <==> o is Ok, result is Ok ==> o->Ok_0 == result->Ok_0, result is Err ==> o->Err_0.error == result->Err_0,
{ unimplemented!() }
#[verifier::external_body]
fn t_thresh_arm_excluded<Pk: MiniscriptKey, Ctx: ScriptContext>(thresh: &Threshold<Arc<Miniscript<Pk, Ctx>>, 0>) -> (o: Result<Type, TypeError>)
    ensures o is Ok <==> t_thresh(*thresh) is Ok, o is Ok ==> o->Ok_0 == t_thresh(*thresh)->Ok_0, o is Err ==> o->Err_0.error == t_thresh(*thresh)->Err_0,
{ unimplemented!() }
"""

SCRIPT_CONTEXT = r"""
trait ScriptContext: Sized {
    // the verdict of the context's global (non satisfaction related) rules: units c12_validation / k12_context
    spec fn spec_global_ok<Pk: MiniscriptKey>(ms: Miniscript<Pk, Self>) -> bool;
    fn check_global_validity<Pk: MiniscriptKey>(ms: &Miniscript<Pk, Self>) -> (r: Result<(), ScriptContextError>)
        ensures r is Ok <==> Self::spec_global_ok(*ms);
}
"""


# ---------------------------------------------------------------------------------------------------------------------
# the policy compiler's cast table (src/policy/compiler.rs): `all_casts()` stores, per cast, a node builder and the
# `ast_type` / `ext_data` functions applied to the child's annotations; `Cast::cast` calls them through fn pointers and
# hands the three results to `from_components_unchecked`.  Rule R6 (fn pointers -> one instance per table row).
# ---------------------------------------------------------------------------------------------------------------------
CAST_PRELUDE = r"""
// ---- policy compiler: cast table ---------------------------------------------------------------------------------------
#[derive(Clone, Copy)]
struct CompilerExtData { opaque: u8 }     // f64 cost figures: irrelevant for the annotations
impl CompilerExtData {
%(comp_stubs)s
}
// a cast wraps the element it was given: one of the seven wrappers, or the sugar l:X = or_i(0,X), u:X = or_i(X,0), t:X = and_v(X,1)
// whose constant child is itself an annotated `0` / `1`
spec fn wraps<Pk: MiniscriptKey, Ctx: ScriptContext>(node: Terminal<Pk, Ctx>, child: Arc<Miniscript<Pk, Ctx>>) -> bool {
    match node {
        Terminal::Alt(x) | Terminal::Swap(x) | Terminal::Check(x) | Terminal::DupIf(x) | Terminal::Verify(x) | Terminal::NonZero(x)
        | Terminal::ZeroNotEqual(x) => x == child,
        Terminal::OrI(x, y) => (x == child && y.node is False && is_annotated(*y)) || (y == child && x.node is False && is_annotated(*x)),
        Terminal::AndV(x, y) => x == child && y.node is True && is_annotated(*y),
        _ => false,
    }
}
proof fn const_corr_table()
    ensures abs_corr(Correctness::TRUE) == spec_corr_true(), abs_corr(Correctness::FALSE) == spec_corr_false(),
            abs_mall(Malleability::TRUE) == spec_mall_true(), abs_mall(Malleability::FALSE) == spec_mall_false(),
            wf_ty(Type::TRUE), wf_ty(Type::FALSE),
{}
// the abstraction to the specification's letters loses nothing
proof fn lemma_abs_injective(a: Type, b: Type)
    requires abs_corr(a.corr) == abs_corr(b.corr), abs_mall(a.mall) == abs_mall(b.mall),
    ensures a == b,
{}
"""


def type_axiom(fn):
    """The contract c05_types proves for the exec function Type::<fn>, transported to the uninterpreted t_<fn> (the stub says
    `r == t_<fn>(args)`): needed where ty_of mentions a rule the code under verification does not call."""
    ar, c, m = {f: (a, c, m) for f, a, c, m in T.TYPE_RULES}[fn]
    args = ["x"] if ar == 1 else T.ARGS[ar]
    call = "t_%s(%s)" % (fn, ", ".join(args))
    out = []
    for cl in T.type_contract(fn, ar, c, m).ensures:
        text = cl.text.replace("self", "x") if ar == 1 else cl.text
        out.append("        " + re.sub(r"\br\b", "(%s)" % call, text) + ",")
    return "#[verifier::external_body]\nproof fn ax_t_%s(%s)\n    ensures\n%s\n{}\n" % (fn, ", ".join("%s: Type" % a for a in args), "\n".join(out))


def cast_table(repo):
    """Parse `all_casts()`: list of {field: expression text} in table order."""
    from vlib.extract import match_close
    text = repo.at(COMPILER, "fn:all_casts").text
    rows = []
    for m in re.finditer(r"\bCast\s*\{", text):
        open_ = m.end() - 1
        close = match_close(text, open_)
        body = text[open_ + 1:close]
        # split at top-level commas
        fields, depth, cur = [], 0, ""
        for ch in body:
            if ch in "([{":
                depth += 1
            elif ch in ")]}":
                depth -= 1
            if ch == "," and depth == 0:
                fields.append(cur)
                cur = ""
            else:
                cur += ch
        fields.append(cur)
        row = {}
        for f in fields:
            if f.strip():
                k, _, v = f.partition(":")
                row[k.strip()] = v.strip()
        rows.append(row)
    rows = [r for r in rows if set(r) == {"node", "ast_type", "ext_data", "comp_ext_data"}]
    if len(rows) != 10 or not re.search(r"\[Cast<Pk, Ctx>; 10\]", text):
        raise Undecided("all_casts(): expected a table of 10 Cast rows with fields node / ast_type / ext_data / comp_ext_data, found %d" % len(rows))
    return rows


def instantiate_cast(row):
    """R6: `(self.<field>)(ARGS)` -> the row's expression applied to ARGS.  A path is applied directly; a capture-free closure
    `|p| BODY` applied to one argument is beta-reduced to `{ let p = ARG; BODY }`."""
    from vlib.extract import match_close

    @rule("R6")
    def rw(text):
        done = 0
        for field, expr in row.items():
            pat = "(self.%s)" % field
            i = text.find(pat)
            if i < 0:
                continue                # the body no longer calls this field: nothing to instantiate (the clauses judge the result)
            if text.count(pat) != 1:
                return None
            done += 1
            open_ = i + len(pat)
            if text[open_] != "(":
                return None
            close = match_close(text, open_)
            arg = text[open_ + 1:close]
            m = re.match(r"^\|\s*(\w+)\s*\|\s*(.*)$", expr, flags=re.S)
            if m:
                new = "{ let %s = %s; %s }" % (m.group(1), arg.strip(), m.group(2))
            elif re.match(r"^[\w:]+$", expr):
                new = "%s(%s)" % (expr, arg)
            else:
                return None
            text = text[:i] + new + text[close + 1:]
        return text if done else None
    return rw


CTX_MARKERS = r"""
// ---- the two context marker types the sortedmulti descriptor constructors mention (uninterpreted verdicts) ------------------
struct %(c)s { marker: u8 }
uninterp spec fn %(l)s_global_ok<Pk: MiniscriptKey>(ms: Miniscript<Pk, %(c)s>) -> bool;
impl ScriptContext for %(c)s {
    spec fn spec_global_ok<Pk: MiniscriptKey>(ms: Miniscript<Pk, Self>) -> bool { %(l)s_global_ok(ms) }
    #[verifier::external_body] fn check_global_validity<Pk: MiniscriptKey>(ms: &Miniscript<Pk, Self>) -> (r: Result<(), ScriptContextError>) { unimplemented!() }
}
"""


def from_impl_anchor(repo, source_type):
    """`impl From<..::X> for Error` blocks all look alike to the anchor matcher once generics are stripped: pick by source type."""
    for n in range(64):
        a = "impl:From<%s> for Error#%d" % (source_type, n)
        try:
            reg = repo.at(LIB, a)
        except Exception:
            break
        if re.search(r"impl\s+From<[\w:]*\b%s>\s+for\s+Error" % source_type, reg.text):
            return a
    raise Undecided("impl From<%s> for Error not found in %s (anchor lost)" % (source_type, LIB))


def ext_rows():
    """c09_dispatch.ROWS with the thresh stub given a name of its own and a determinism postcondition."""
    old = ("fn thresh_arm_excluded<Pk: MiniscriptKey, Ctx: ScriptContext>(thresh: &Threshold<Arc<Miniscript<Pk, Ctx>>, 0>) -> ExtData "
           "{ unimplemented!() }")
    new = ("fn e_thresh_arm_excluded<Pk: MiniscriptKey, Ctx: ScriptContext>(thresh: &Threshold<Arc<Miniscript<Pk, Ctx>>, 0>) -> (r: ExtData)\n"
           "    ensures r == e_thresh(*thresh) { unimplemented!() }")
    if old not in D.ROWS:
        raise Undecided("c09_dispatch.ROWS changed shape (thresh stub)")
    return D.ROWS.replace(old, new)


R7_TYPES = [lit("R7", "types::extra_props::ExtData", "ExtData", required=False), lit("R7", "types::Type", "Type", required=False),
            lit("R7", "crate::Threshold", "Threshold", required=False),
            lit("R7", "bitcoin::hashes::hash160::Hash", "hash160::Hash", required=False),
            # R12 (const-as-fn use site), tolerant: only TRUE / FALSE use the ExtData consts today
            sub("R12", r"\bExtData::(TRUE|FALSE)\b(?!\s*\()", r"ExtData::\1()", required=False)]
OKT = "Ok::<Type, ErrorKind>"
TT = "Terminal::<Pk, Ctx>"


def annot(r="r"):
    return [Clause("ty_is_type_check", A, "%s(%s.ty) == ty_of(%s.node)" % (OKT, r, r)),
            Clause("ext_is_type_check", A, "%s.ext == ext_of(%s.node)" % (r, r))]


AGREE_T = ("(r is Ok <==> ty_of(*fragment) is Ok) && (r is Ok ==> r->Ok_0 == ty_of(*fragment)->Ok_0) "
           "&& (r is Err ==> r->Err_0.error == ty_of(*fragment)->Err_0)")


def agree_t(v):
    return "*fragment is %s ==> %s" % (v, AGREE_T)


def build(repo):
    vf = VerusFile(NAME, repo)
    vf.raw(re.sub(r"#\[derive\([^)]*\)\]\n", "", T.oracle_text()))
    _tree.emit(vf, ext="real", types="defs", script_context=SCRIPT_CONTEXT)
    vf.trust("trait ScriptContext reduced to check_global_validity with an uninterpreted verdict spec_global_ok(ms)",
             "what the contexts' global rules accept is decided in c12_validation / k12_context; here only WHEN from_ast consults them and on WHICH value")
    vf.item(TYPES, "enum:ErrorKind")
    vf.item(LIB, "const:MAX_RECURSION_DEPTH")
    vf.raw(T.ABS)
    vf.trust("PartialEqSpecImpl for Base/Input/Dissat", "derived PartialEq on field-less enums is structural equality")
    vf.raw(TYPE_VOCAB)
    vf.raw(ext_rows())
    vf.trust("ExtData::{pk_k .. and_or, TRUE, FALSE} (external_body, each `r == e_<row>(args)` with e_<row> uninterpreted; text of c09_dispatch.ROWS)",
             "the rows are proved one by one by Kani on the compiled crate (unit k09_extdata); this unit only decides WHICH row is applied to WHICH arguments")
    vf.raw(ERRORS)
    vf.item(LIB, from_impl_anchor(repo, "ScriptContextError"), rewrites=[lit("R7", "miniscript::context::ScriptContextError", "ScriptContextError")])
    vf.trust("wrap_err (external_body)", "stands for the closure mapping ErrorKind to Error{fragment.to_string(), kind}; keeps Ok values and the error kind")
    vf.trust("t_thresh_arm_excluded / e_thresh_arm_excluded (external_body)", "R9: the Thresh arms of the two dispatchers; assumed to be FUNCTIONS of the "
             "threshold node (t_thresh / e_thresh uninterpreted), which is what ty_of / ext_of of a Thresh node are defined as")
    vf.trust("struct TypeError / ScriptContextError / enum Error, From<TypeError> for Error",
             "error types reduced to opaque values; From<types::Error> keeps the error where the crate keeps its string")
    vf.raw(ORACLE)

    # ---- Type: consts real, rules as stubs `r == t_<rule>(args)` (+ the real c05_types contract where a caller needs it) ----
    with vf.block("impl Correctness"):
        vf.item(CORR, "impl:Correctness/const:TRUE")
        vf.item(CORR, "impl:Correctness/const:FALSE")
    with vf.block("impl Malleability"):
        vf.item(MALL, "impl:Malleability/const:TRUE")
        vf.item(MALL, "impl:Malleability/const:FALSE")
    real = {fn: (ar, c, m) for fn, ar, c, m in T.TYPE_RULES}
    leaf = {fn: (c, m) for (fn, c), (_, m) in zip(T.CORR_LEAVES, T.MALL_LEAVES)}
    NEED_REAL = ("pk_k", "pk_h", "cast_check", "cast_true", "cast_likely", "cast_unlikely", "or_i", "and_v")
    vf.trust("Type::{pk_k .. and_or} (external_body, each `r == t_<rule>(args)` with t_<rule> uninterpreted)",
             "the rules are proved one by one in c05_types; this unit only decides WHICH rule is applied to WHICH arguments")
    vf.trust("Type::{%s}: additionally the contract proved in c05_types (identical clause text, generated by c05_types.type_contract)" % ", ".join(NEED_REAL),
             "needed for `cast_check(pk_k()).unwrap()` in pk / pkh and for the l: / u: / t: rows of the compiler's cast table")
    vf.trust("Type::sanity_checks (external_body, no precondition)", "its debug_asserts are discharged in c05_types under wf_ty, which c05_dispatch establishes")
    with vf.block("impl Type"):
        vf.item(TYPES, "impl:Type/const:TRUE")
        vf.item(TYPES, "impl:Type/const:FALSE")
        vf.fn(TYPES, "impl:Type/fn:sanity_checks", qual="Type", assumed=True, contract=Contract())
        for fn in T_LEAVES:
            ens = [Clause("row", ("C05",), "r == t_%s()" % fn)]
            if fn in NEED_REAL:
                ens.append(Clause("equals_table", ("C05",), "abs_corr(r.corr) == spec_corr_%s() && abs_mall(r.mall) == spec_mall_%s()" % leaf[fn]))
            vf.fn(TYPES, "impl:Type/fn:%s" % fn, qual="Type", assumed=True, contract=Contract(ensures=ens))
        for fn in T_UNARY + T_BINARY + ["and_or"]:
            ar, c, m = real[fn]
            ens = [Clause("row", ("C05",), "r == t_%s(%s)" % (fn, ", ".join(T.ARGS[ar])))]
            if fn in NEED_REAL:
                ens += T.type_contract(fn, ar, c, m).ensures
            vf.fn(TYPES, "impl:Type/fn:%s" % fn, qual="Type", assumed=True, contract=Contract(ensures=ens))

    # ---- ExtData rows that are defined through other rows: real text ------------------------------------------------
    with vf.block("impl ExtData"):
        vf.fn(EXT, "impl:ExtData#1/fn:sortedmulti_a", qual="ExtData", props=("C09", "C11"),
              contract=Contract(ensures=[Clause("row", ("C09",), "r == e_sortedmulti_a(k, n)")]))

    # ---- the two dispatchers, whole: they must agree with ty_of / ext_of variant by variant ------------------------------
    tc_rewrites = [
        sub("R7-closure-to-stub", r"let wrap_err = \|result: Result<Self, ErrorKind>\| \{.*?\};\n", "", flags=re.S),
        lit("R7", "-> Result<Self, Error>", "-> Result<Self, TypeError>"),
        replace_arm("*fragment", "Terminal::Thresh(ref thresh)", "t_thresh_arm_excluded(thresh)", rule_name="R9"),
    ]
    vf.trust("Type::type_check (external_body twin called by from_ast): `r agrees with ty_of(*fragment)`",
             "the conjunction of the per-variant cases Type::type_check__<V>.dispatch proved in this unit from the same function text "
             "(the 25-arm match is verified once per variant, DESIGN 11.3; the generated lemma proves the cases exhaustive)")
    with vf.block("impl Type"):
        vf.fn(TYPES, "impl:Type#1/fn:type_check", qual="Type", props=("C05", "C11"), rewrites=tc_rewrites,
              cases=[("leaves", " || ".join("*fragment is %s" % v for v in LEAF_VARIANTS),
                      [Clause("dispatch.%s" % v, ("C05",), agree_t(v)) for v in LEAF_VARIANTS])]
              + [(v, "*fragment is %s" % v, [Clause("dispatch", ("C05",) if v != "Thresh" else (), agree_t(v))])
                 for v in VARIANTS if v not in LEAF_VARIANTS])
        vf.fn(TYPES, "impl:Type#1/fn:type_check", qual="Type", rewrites=tc_rewrites, assumed=True,
              contract=Contract(ensures=[Clause("dispatch", ("C05",), AGREE_T)]))
    with vf.block("impl ExtData"):
        vf.fn(EXT, "impl:ExtData#1/fn:type_check", qual="ExtData", props=("C09", "C11"), rewrites=[
            replace_arm("*fragment", "Terminal::Thresh(ref thresh)", "e_thresh_arm_excluded(thresh)", rule_name="R9"),
            sub("R12", r"\bSelf::(TRUE|FALSE)\b(?!\s*\()", r"Self::\1()"),
        ], contract=Contract(ensures=[Clause("dispatch.%s" % v, ("C09",) if v != "Thresh" else (), "*fragment is %s ==> r == ext_of(*fragment)" % v)
                                      for v in VARIANTS]))

    # ---- the hand-written constructors --------------------------------------------------------------------------------
    def ctor(name, node, extra=(), rewrites=()):
        vf.fn(MSMOD, MSIMPL + "/fn:" + name, qual="Miniscript", props=PROPS, rewrites=R7_TYPES + list(rewrites),
              contract=Contract(ensures=[Clause("node", A, node)] + annot() + list(extra)))

    K_LEAF = lambda: [Clause("leaf_type_is_K", ("C05",), "abs_corr(r.ty.corr).base == ABase::K")]
    # C12: a `Miniscript<Pk, Ctx>` value is one the context accepts node by node -- from_ast consults Ctx::check_global_validity for
    # every node it builds, and the descriptor constructors (Wsh::new, Sh::new, ...) rely on it: they only run the top-level TYPE
    # checks.  Claimed for the key-bearing fragments, where the four real contexts have rules (key kinds, multi vs multi_a).
    CTX = lambda who="r": [Clause("context_checked", ("C12",), "Ctx::spec_global_ok(%s)" % who)]
    R12_EXT = sub("R12", r"\bExtData::(TRUE|FALSE)\b(?!\s*\()", r"ExtData::\1()")
    with vf.block("impl<Pk: MiniscriptKey, Ctx: ScriptContext> Miniscript<Pk, Ctx>"):
        for c in ("TRUE", "FALSE"):
            vf.const(MSMOD, MSIMPL + "/const:" + c, "Miniscript::" + c, props=PROPS, rewrites=R7_TYPES[:4] + [R12_EXT],
                     ensures=[Clause("node", A, "r.node == %s::%s" % (TT, c.capitalize()))] + annot())
        ctor("pk_k", "r.node == %s::PkK(pk)" % TT, K_LEAF() + CTX())
        ctor("pk_h", "r.node == %s::PkH(pk)" % TT, K_LEAF() + CTX())
        for name, leaf_v in (("pk", "PkK"), ("pkh", "PkH")):
            ctor(name, "r.node matches Terminal::Check(x) && x.node == %s::%s(pk)" % (TT, leaf_v),
                 [Clause("inner_is_annotated", A, "r.node matches Terminal::Check(x) && is_annotated(*x)"),
                  Clause("inner_context_checked", ("C12",), "r.node matches Terminal::Check(x) && Ctx::spec_global_ok(*x)")])
        ctor("expr_raw_pkh", "r.node == %s::RawPkH(hash)" % TT)
        ctor("after", "r.node == %s::After(time)" % TT)
        ctor("older", "r.node == %s::Older(time)" % TT)
        for name, v in (("sha256", "Sha256"), ("hash256", "Hash256"), ("ripemd160", "Ripemd160"), ("hash160", "Hash160")):
            ctor(name, "r.node == %s::%s(hash)" % (TT, v))
        for name, v in (("multi", "Multi"), ("sortedmulti", "SortedMulti"), ("multi_a", "MultiA"), ("sortedmulti_a", "SortedMultiA")):
            if name != "sortedmulti":
                ctor(name, "r.node == %s::%s(thresh)" % (TT, v), CTX())
                continue
            # Miniscript::sortedmulti is what Wsh::new_sortedmulti / Sh::new_sortedmulti call: its context clause is carried by a twin
            # (same text, second contract) so that the descriptor constructors are judged on what THEY check, not on an assumed callee clause
            ctor(name, "r.node == %s::%s(thresh)" % (TT, v))
            vf.fn(MSMOD, MSIMPL + "/fn:" + name, rename=name + "__ctx", qual="Miniscript", props=("C12",), rewrites=R7_TYPES,
                  contract=Contract(ensures=CTX()))

        # ---- from_ast ------------------------------------------------------------------------------------------------
        accept = "ty_of(t) is Ok && ext_of(t).tree_height <= MAX_RECURSION_DEPTH && Ctx::spec_global_ok(annotated(t))"
        vf.fn(MSMOD, MSIMPL + "/fn:from_ast", qual="Miniscript", props=PROPS, rewrites=R7_TYPES, contract=Contract(
            # `tree_height as u32` truncates: a height of 2^32 + 5 would pass the depth check.  Heights are bounded by the number
            # of nodes (< 2^32 needs > 4G allocated nodes); stated, not proved.
            requires=["ext_of(t).tree_height <= u32::MAX"],
            ensures=[
                Clause("node", A, "r is Ok ==> r->Ok_0.node == t"),
                Clause("ty_is_type_check", A, "r is Ok ==> %s(r->Ok_0.ty) == ty_of(t)" % OKT),
                Clause("ext_is_type_check", A, "r is Ok ==> r->Ok_0.ext == ext_of(t)"),
                Clause("accepts_iff", ("C12",), "r is Ok <==> (%s)" % accept),
                Clause("err_depth", ("C12",), "ty_of(t) is Ok && ext_of(t).tree_height > MAX_RECURSION_DEPTH ==> r == Err::<Self, Error>(Error::MaxRecursiveDepthExceeded)"),
            ]))
        vf.fn(MSMOD, MSIMPL + "/fn:from_components_unchecked", qual="Miniscript", props=PROPS, rewrites=R7_TYPES,
              contract=Contract(ensures=[Clause("frame", A, "r.node == node && r.ty == ty && r.ext == ext")]))
    # ---- the compiler's cast table -------------------------------------------------------------------------------------
    rows = cast_table(repo)
    names, kinds, rejects = [], [], []
    wrapper_rule = dict(WRAPPERS)
    SHAPES = [(r"^Terminal::(\w+)$", None),
              (r"^\|ms\| Terminal::OrI\(Arc::new\(Miniscript::FALSE\), ms\)$", ("OrI_0_X", "or_i", "Type::FALSE, ast.ms.ty")),
              (r"^\|ms\| Terminal::OrI\(ms, Arc::new\(Miniscript::FALSE\)\)$", ("OrI_X_0", "or_i", "ast.ms.ty, Type::FALSE")),
              (r"^\|ms\| Terminal::AndV\(ms, Arc::new\(Miniscript::TRUE\)\)$", ("AndV_X_1", "and_v", "ast.ms.ty, Type::TRUE"))]
    for i, row in enumerate(rows):
        m = re.match(r"^types::Type::(cast_\w+)$", row["ast_type"])
        if not m:
            raise Undecided("all_casts(): ast_type `%s` is not a Type::cast_* path" % row["ast_type"])
        names.append(m.group(1))
        # the rule the SPECIFICATION attaches to the node this row builds (keyed by the node builder, not by the row's ast_type)
        kind, rej = "row%d" % i, None
        node = re.sub(r"\s+", " ", row["node"])
        for pat, shape in SHAPES:
            mm = re.match(pat, node)
            if mm and shape is None and mm.group(1) in wrapper_rule:
                kind, rej = mm.group(1), ("t_%s(ast.ms.ty)" % wrapper_rule[mm.group(1)], None)
            elif mm and shape is not None:
                kind, rej = shape[0], ("t_%s(%s)" % (shape[1], shape[2]), shape)
        kinds.append(kind if kind not in kinds else "%s_dup%d" % (kind, i))
        rejects.append(rej)
    comp = sorted(set(re.sub(r"^CompilerExtData::", "", r["comp_ext_data"]) for r in rows))
    vf.raw(CAST_PRELUDE % dict(comp_stubs="\n".join("    #[verifier::external_body] fn %s(self) -> Self { unimplemented!() }" % c for c in comp)))
    vf.trust("struct CompilerExtData (opaque) + CompilerExtData::cast_* (external_body, unconstrained)", "f64 cost figures of the policy compiler; no annotation depends on them")
    vf.functions["const_corr_table"] = dict(props=("C05",), file=None, lines=None, clauses={}, start=vf._lines - 12, end=vf._lines - 7, origin="verif")
    vf.functions["lemma_abs_injective"] = dict(props=("C05",), file=None, lines=None, clauses={}, start=vf._lines - 5, end=vf._lines, origin="verif")
    vf.raw("".join(type_axiom(f) for f in ("or_i", "and_v", "cast_likely", "cast_unlikely", "cast_true")))
    vf.trust("ax_t_or_i / ax_t_and_v / ax_t_cast_likely / ax_t_cast_unlikely / ax_t_cast_true (external_body proof fns)",
             "the c05_types contract of the exec function Type::<rule> (identical clause text) stated for the uninterpreted t_<rule> (the stub says "
             "r == t_<rule>(args)): ty_of of the sugar nodes or_i(0,X) / or_i(X,0) / and_v(X,1) mentions rules Cast::cast does not call, and the "
             "proof block sits before the call of the rule it does call")
    vf.item(COMPILER, "struct:AstElemExt", rewrites=[sub("derive-off", r"#\[derive\([^)]*\)\]\s*", "")])
    R12_SELF = sub("R12", r"\bSelf::(TRUE|FALSE)\b(?!\s*\()", r"Self::\1()")
    with vf.block("impl ExtData"):
        vf.fn(EXT, "impl:ExtData#1/fn:cast_true", qual="ExtData", props=("C09", "C11"), rewrites=[R12_SELF],
              contract=Contract(ensures=[Clause("row", ("C09",), "r == e_and_v(self, e_true_())")]))
        vf.fn(EXT, "impl:ExtData#1/fn:cast_unlikely", qual="ExtData", props=("C09", "C11"), rewrites=[R12_SELF],
              contract=Contract(ensures=[Clause("row", ("C09",), "r == e_or_i(self, e_false_())")]))
        vf.fn(EXT, "impl:ExtData#1/fn:cast_likely", qual="ExtData", props=("C09", "C11"), rewrites=[R12_SELF],
              contract=Contract(ensures=[Clause("row", ("C09",), "r == e_or_i(e_false_(), self)")]))
    AXIOMS = ("or_i", "and_v", "cast_likely", "cast_unlikely", "cast_true")

    def ghost(name, rej):
        # l: / u: / t: only: the stored type is Type::cast_<sugar>(x), from_ast would store Type::or_i(0, x) / or_i(x, 0) / and_v(x, 1);
        # both equal the specification's row, and the abstraction is injective
        if rej is None or rej[1] is None or name not in AXIOMS:
            return []
        _, rule_, args = rej[1]
        lhs, rhs = "t_%s(%s)" % (rule_, args), "t_%s(ast.ms.ty)" % name
        g = ("proof { const_corr_table(); ax_t_%s(%s); ax_t_%s(ast.ms.ty);\n            if %s is Ok && %s is Ok { lemma_abs_injective(%s->Ok_0, %s->Ok_0); } }\n        "
             % (rule_, args, name, lhs, rhs, lhs, rhs))
        return [lit("R10", "Ok(AstElemExt {", g + "Ok(AstElemExt {")]
    # C08: what the compiler attaches through from_components_unchecked must be what from_ast would compute (mechanism named by
    # the property); the instances are named by their POSITION in all_casts() so that a row whose node builder changes keeps its
    # obligation ids (and fails them) instead of disappearing from the expected list
    AC = A + ("C08",)
    for i_row, (row, name, kind, rej) in enumerate(zip(rows, names, kinds, rejects)):
        ens = [
            Clause("wraps_input", AC, "r is Ok ==> wraps(r->Ok_0.ms.node, ast.ms)"),
            Clause("ty_is_type_check", AC, "r is Ok ==> %s(r->Ok_0.ms.ty) == ty_of(r->Ok_0.ms.node)" % OKT),
            Clause("ext_is_type_check", AC, "r is Ok ==> r->Ok_0.ms.ext == ext_of(r->Ok_0.ms.node)"),
        ]
        if rej is not None:
            ens.append(Clause("fails_iff_rule_rejects", AC, "r is Err <==> %s is Err" % rej[0]))
        vf.fn(COMPILER, "impl:Cast<Pk, Ctx>/fn:cast", rename="cast__row%d" % i_row, qual="Cast", props=("C05", "C09", "C11", "C08"), rewrites=[
            instantiate_cast(row),
            lit("R6", "(&self, ast:", "<Pk: MiniscriptKey, Ctx: ScriptContext>(ast:"),
            lit("R7", "types::Type::", "Type::", required=False), lit("R7", "types::ExtData::", "ExtData::", required=False),
            sub("R12", r"\bMiniscript::(TRUE|FALSE)\b(?!\s*\()", r"Miniscript::\1()", required=False),
        ] + ghost(name, rej), contract=Contract(
            # the standing invariant of every type the rules produce (c05_types wf_preserved, c05_dispatch children_wf)
            requires=["wf_ty(ast.ms.ty)"], ensures=ens))

    # ---- AstElemExt::binary / ternary: type_check of the node they are given, stored through from_components_unchecked ----
    vf.raw("#[verifier::external_body]\nfn comp_type_check_stub<Pk: MiniscriptKey, Ctx: ScriptContext>(ast: &Terminal<Pk, Ctx>) -> CompilerExtData { unimplemented!() }\n")
    vf.trust("comp_type_check_stub (external_body, unconstrained)", "stands for CompilerExtData::type_check_with_child(&ast, lookup_ext) and its lookup closure (f64 cost figures)")
    with vf.block("impl<Pk: MiniscriptKey, Ctx: ScriptContext> AstElemExt<Pk, Ctx>"):
        for fn in ("binary", "ternary"):
            vf.fn(COMPILER, "impl:AstElemExt<Pk, Ctx>#1/fn:%s" % fn, qual="AstElemExt", props=("C05", "C09", "C11", "C08"), rewrites=[
                sub("R7-closure-to-stub", r"let lookup_ext = \|n\| match n \{.*?\};\n", "", flags=re.S),
                lit("R7-closure-to-stub", "CompilerExtData::type_check_with_child(&ast, lookup_ext)", "comp_type_check_stub(&ast)"),
                lit("R7", "types::Type::", "Type::"), lit("R7", "types::ExtData::", "ExtData::"), lit("R7", "types::Error", "TypeError"),
            ], contract=Contract(ret="o", ensures=[
                Clause("node", AC, "o is Ok ==> o->Ok_0.ms.node == ast"),
                Clause("ty_is_type_check", AC, "o is Ok ==> %s(o->Ok_0.ms.ty) == ty_of(ast)" % OKT),
                Clause("ext_is_type_check", AC, "o is Ok ==> o->Ok_0.ms.ext == ext_of(ast)"),
                Clause("fails_iff_rule_rejects", AC, "o is Err <==> ty_of(ast) is Err"),
            ]))

    # ---- descriptor constructors that go through the hand-written Miniscript::sortedmulti --------------------------------------
    strip_derive = sub("derive-off", r"#\[derive\([^)]*\)\]\s*", "")
    for c in ("Segwitv0", "Legacy"):
        repo.at("src/miniscript/context.rs", "enum:%s" % c)               # anchor must exist (`enum X {}` is not accepted by Verus)
        vf.raw(CTX_MARKERS % dict(c=c, l=c.lower()))
    vf.trust("struct Segwitv0 / Legacy + impl ScriptContext (uninterpreted verdicts)", "context rules are decided in c12_validation / k12_context")
    vf.item(SEGWIT, "struct:Wsh", rewrites=[strip_derive])
    vf.item(SEGWIT, "struct:Wpkh", rewrites=[strip_derive])
    vf.item(SH, "struct:Sh", rewrites=[strip_derive])
    vf.item(SH, "enum:ShInner", rewrites=[strip_derive])
    SM = "Terminal::<Pk, %s>::SortedMulti(thresh)"
    with vf.block("impl<Pk: MiniscriptKey> Wsh<Pk>"):
        vf.fn(SEGWIT, "impl:Wsh<Pk>/fn:new_sortedmulti", qual="Wsh", props=PROPS, contract=Contract(ensures=[
            Clause("node", A, "r is Ok ==> r->Ok_0.ms.node == %s && is_annotated(r->Ok_0.ms)" % (SM % "Segwitv0")),
            Clause("context_checked", ("C12",), "r is Ok ==> Segwitv0::spec_global_ok(r->Ok_0.ms)")]))
    with vf.block("impl<Pk: MiniscriptKey> Sh<Pk>"):
        vf.fn(SH, "impl:Sh<Pk>/fn:new_sortedmulti", qual="Sh", props=PROPS, contract=Contract(ensures=[
            Clause("node", A, "r is Ok ==> (r->Ok_0.inner matches ShInner::Ms(ms) && ms.node == %s && is_annotated(ms))" % (SM % "Legacy")),
            Clause("context_checked", ("C12",), "r is Ok ==> (r->Ok_0.inner matches ShInner::Ms(ms) && Legacy::spec_global_ok(ms))")]))
        vf.fn(SH, "impl:Sh<Pk>/fn:new_wsh_sortedmulti", qual="Sh", props=PROPS, contract=Contract(ensures=[
            Clause("node", A, "r is Ok ==> (r->Ok_0.inner matches ShInner::Wsh(w) && w.ms.node == %s && is_annotated(w.ms))" % (SM % "Segwitv0")),
            Clause("context_checked", ("C12",), "r is Ok ==> (r->Ok_0.inner matches ShInner::Wsh(w) && Segwitv0::spec_global_ok(w.ms))")]))

    # ---- the transported axioms must not be contradictory (expected to FAIL, like every canary) ---------------------------
    start = vf._emit("""proof fn canary_type_axioms(x: Type, y: Type)
    requires wf_ty(x), wf_ty(y),
    ensures false,
{
    const_corr_table(); ax_t_or_i(Type::FALSE, x); ax_t_or_i(x, Type::FALSE); ax_t_or_i(x, y); ax_t_and_v(x, Type::TRUE); ax_t_and_v(x, y);
    ax_t_cast_likely(x); ax_t_cast_unlikely(x); ax_t_cast_true(x);
    if t_or_i(Type::FALSE, x) is Ok && t_cast_likely(x) is Ok { lemma_abs_injective(t_or_i(Type::FALSE, x)->Ok_0, t_cast_likely(x)->Ok_0); }
    if t_or_i(x, Type::FALSE) is Ok && t_cast_unlikely(x) is Ok { lemma_abs_injective(t_or_i(x, Type::FALSE)->Ok_0, t_cast_unlikely(x)->Ok_0); }
    if t_and_v(x, Type::TRUE) is Ok && t_cast_true(x) is Ok { lemma_abs_injective(t_and_v(x, Type::TRUE)->Ok_0, t_cast_true(x)->Ok_0); }
}
""", dict(origin="verif", fn="canary_type_axioms", canary_for="ax_t_*"))
    vf.canaries.append(("canary_type_axioms", "ax_t_*", start, vf._lines))
    return vf
