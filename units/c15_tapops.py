"""C15 / C20 / C10 (Verus): the STRUCTURE of a taproot script tree -- leaves, their order, their depths -- is kept by key translation, by
formatting and by parsing.  src/descriptor/tr/taptree.rs and src/descriptor/tr/mod.rs.  (Spend-info iteration: unit c15_spendinfo.)

ORACLE (BIP386 `tr(KEY,TREE)`: TREE = SCRIPT | `{` TREE `,` TREE `}`;  BIP341: a script tree is a binary tree, a leaf at depth d has a control
block with d path elements, d <= 128; nothing read off the code)
    Shape               Leaf | Node(left, right)
    depths_of(s, d)     the depth-first, left-to-right list of leaf depths of s hanging at depth d: what a TapTree stores next to its leaves
    wf_depths(ds)       ds is depths_of(s, 0) of some s of height <= 128;   denote(ds) = that s
    ROUND TRIP          roundtrip_depths_of_denote: depths_of(denote(ds), 0) == ds;  roundtrip_denote_depths_of: denote(depths_of(s, 0)) == s
                        (depths_are_injective: a depth list is the listing of at most one shape -- proved by induction)
    ntn(s, k, lt)       the BIP386 notation of s as a token sequence, leaf number k + j printed as the token lt(k + j):
                        Leaf -> lt(k);  Node(l, r) -> `{` ntn(l, k) `,` ntn(r, k + leaves(l)) `}`
    spells(ns, x, s)    the expression tree below node x IS that notation: Leaf = a node without curly braces (its descendants belong to the
                        script), Node(l, r) = a `{` node with exactly two children, the first spelling l, the second r
    bridge to c15_spendinfo's oracle (Tree<Pk>, listing, denotes / tap_tree_wf / denoted, imported): shape_of(denoted(tree)) == denote(tap_depths(tree)),
    tap_tree_wf(tree) <==> wf_depths(tap_depths(tree))

UNDER CONTRACT (real text, extracted on every run)
    TapTree::translate_pk   Ok ==> same number of leaves, the DEPTH of leaf i is kept, leaf i is the translation of leaf i (Miniscript::translate_pk consumed as
                            an uninterpreted FUNCTION of (translator state, leaf) that also yields the next translator state: the state is threaded through the leaves
                            in listing order), the tree denotes the same Shape and stays well-formed; Err ==> the error of the FIRST leaf whose translation fails
    Tr::translate_pk        tree kept as above (None stays None), the internal key is translated AFTER the leaves (state threading), Tr::new's verdict decides
    fmt_helper              for a well-formed tree and a leaf printer that appends one token per leaf: written == ntn(denote(depths), 0, leaf tokens);
                            no panic (u8 counter arithmetic, 128-entry stack)
    Display / Debug for TapTree   = fmt_helper with the Display / Debug form of the leaves
    Display / Debug for Tr  `tr(` KEY `)` resp. `tr(` KEY `,` <notation of the tree> `)` (+ checksum token for Display unless alternate)
    checksum::Formatter::{new, write_str, write_checksum_if_not_alt} (the wrapper Display for Tr writes through; the checksum CHARACTERS are k10_checksum's)
    PreOrderIter::{next, skip_descendants} (expression/mod.rs) over c11_policy_parse's model of the expression-tree array
    Tr::from_tree           the walk over the expression tree below the second child of `tr(..)`: for EVERY shape s that the sub-tree spells, the tree built is
                            Some, its depth list is depths_of(s, 0), leaf i is Miniscript::from_tree of the i-th leaf node in pre-order, and it is well-formed
                            (denotes s); no panic: `finalize` is never reached with an empty builder, no `unwrap` on None (for EVERY well-formed expression tree)
    TapTreeBuilder::{new, push_inner_node, finalize}   against the view `path` = [level d has its left subtree finished | d = 1 ..= current_height] (= the path from the root to
                            the node expected next); push_leaf (bit arithmetic) is CONSUMED through the contract proved complete by Kani in unit k15_taptree (harnesses
                            builder_push_leaf_h*) in Seq form: records (current_height, leaf), path' == carry(path) (equivalence of Kani's clause form and the Seq form:
                            builder_clauses_are_the_seq_contract, proved)
    NOT duplicated: TapTree::{leaf, combine} (c08_taptree_compile; here only the lemma that its contract means `denotes Branch(l, r)`), TapTree::leaves / TapTreeIter (c20_iters),
    Tr::translate_pk's Ok-iff clauses (c20_translate; here what its uninterpreted spec_taptree_translate MEANS)

REWRITES (all mechanical; a missing pattern is UNDECIDED)
    R8    `for (DEPTH, LEAF) in &X.depths_leaves { BODY }` -> index loop, `let (DEPTH, LEAF) = (&entry.0, &entry.1);`, BODY verbatim (whatever it contains);
          `for ITEM in VIEW.leaves() { BODY }` -> index loop building `TapTreeIterItem { depth, node }` per entry (as in c15_spendinfo), BODY verbatim
    R10   ghost only: loop invariants / decreases, ghost snapshots, lemma calls; fmt_helper gets a ghost parameter (the token function of the leaf printer), closures get
          parameter types and `ensures`
    R18   `write!(F, "lit{}lit{:?}", a, b)` -> `F.write_str("lit")?; fmt::Display::fmt(&a, F')?; F.write_str("lit")?; fmt::Debug::fmt(&b, F')?` (definition of
          format_args! / fmt::write: pieces and arguments alternate, in order; F' = F for a fmt::Formatter, F.formatter() for the checksum wrapper)
    R7    `a..=b` -> RangeInclusive::new(a, b); `Self::Item` -> the item type; `impl Iterator for PreOrderIter { fn next }` / `impl fmt::Write for checksum::Formatter
          { fn write_str }` verified as inherent methods; paths; R14 / R12 as in c12_from_tree (verify_toplevel / verify_n_children chains, Tap::CONSENSUS)
Contracts are written with canonical parameter names and renamed to the names the real text uses (with_real_names); locals are read off the text.

Mutation tests (scratch worktree; all red on the named clause, see the unit report): seeded C15b (reuse of the previous translated `(depth, Arc)` entry) -> depth_of_every_leaf_so_far_kept;
reverse iteration; `*depth + 1`; `}` one level early; `,` after `{`; last braces left open; leaf pushed before its parent's inner node; tree printed before the key; skip_descendants dropped /
off by one; key translated before the tree.  Benign (green): renamed locals / parameters, temporaries, reordered independent statements, `write!` split in two.
"""
import re

from vlib.verus import VerusFile, Contract, Clause, sub, lit, rule, Undecided, split_fn, drop_vis
from vlib.extract import match_close, strip_docs, Region
from units.c02_multi import register_named_invariants
from units import c15_spendinfo as S
from units import c11_policy_parse as C11

NAME = "c15_tapops"
ENGINE = "verus"
PROPS = ("C15", "C20", "C10", "C11")
P15 = ("C15",)
P1520 = ("C15", "C20")
P1510 = ("C15", "C10")
P11 = ("C11",)

TAPTREE = "src/descriptor/tr/taptree.rs"
TRMOD = "src/descriptor/tr/mod.rs"
LIB = "src/lib.rs"
EXPR = "src/expression/mod.rs"
CHECKSUM = "src/descriptor/checksum.rs"

DROPPED = [
    "c15_tapops: TapTree::translate_pk: `for (depth, leaf) in &self.depths_leaves { BODY }` -> index loop with `let (depth, leaf) = (&entry.0, &entry.1);` (R8; also `.iter()` / `.iter().rev()`: std slice "
    "iterator front to back / back to front), BODY verbatim whatever it contains.  Miniscript::translate_pk is an uninterpreted FUNCTION (state before, leaf) -> (result, state after): what it does per node "
    "is unit c20_translate's; `impl PartialEq for Miniscript` is an arbitrary verdict (no text of the unchanged tree compares leaves)",
    "c15_tapops: Tr::translate_pk: Tr::new is a contract stub (Ok iff tap_pk_ok(key), keeps key and tree; its text is verified in c12_from_tree); c20_translate's Ok-iff clauses are not repeated",
    "c15_tapops: fmt_helper: `for item in view.leaves() { BODY }` -> index loop over `view.depths_leaves` building `TapTreeIterItem { depth, node }` per entry (R8; trusted here, PROVED in c20_iters: "
    "TapTreeIter::next yields exactly these items in order), BODY verbatim; the function gets a GHOST parameter `tt_pt` (the token the leaf printer appends for a leaf) and the three call sites pass it (R10, erased)",
    "c15_tapops: core::fmt is a token log (model of c10_notation): `write_str(s)` appends Str(s); traits fmt::Display / fmt::Debug with abstract token sequences (keys: abstract; Miniscript: one uninterpreted "
    "token; `impl Display / Debug for &T` forward); `write!(F, FMT, args)` is expanded to the calls format_args! + core::fmt::write make (R18): literal pieces via F.write_str, `{}` / `{:?}` via "
    "fmt::Display::fmt(&arg, F') / fmt::Debug::fmt(&arg, F') in order, first error returned; F' = F.plain() (same output, flags of the placeholder) resp. wrapped_f.formatter() for the checksum wrapper "
    "(the Formatter core::fmt::write builds over a fmt::Write writer).  Format strings with width / `#` / named or positional arguments / escaped braces -> UNDECIDED",
    "c15_tapops: `impl fmt::Display / fmt::Debug for TapTree / Tr`: the impl headers get the bound `Pk: fmt::Display` / `fmt::Debug` spelled out (a supertrait of the real MiniscriptKey); well-formedness of the "
    "tree (type invariant of TapTree, unit k15_taptree / c08_taptree_compile / this unit's from_tree + translate_pk clauses) is the trait-level precondition `disp_pre` / `dbg_pre`",
    "c15_tapops: checksum::Formatter: real struct (lifetime parameter of fmt::Formatter dropped) + real `new`, `write_str` (verified as inherent method; `|_|` -> `|_e: ChecksumError|`), `write_checksum_if_not_alt`; "
    "Engine is opaque, write_checksum appends ONE token Tok::Checksum (the characters are unit k10_checksum's), `use fmt::Write;` dropped",
    "c15_tapops: expression tree: TreeNode / TreeIterItem / DirectChildIterator / Parens real, over c11_policy_parse's MODEL (wf_tree ASSUMED: what expression::Tree::from_str builds); its accessor contracts are "
    "consumed (same Clause objects).  core::ops::RangeInclusive<usize> is a verified transcription of std's definition (struct RangeInclusive; `a..=b` -> RangeInclusive::new(a, b)); "
    "`impl Iterator for PreOrderIter { fn next }` is verified as an inherent method (`Self::Item` -> TreeIterItem<'s>; closure typed, R10)",
    "c15_tapops: Tr::from_tree: `X.verify_toplevel(NAME, A..=B).map_err(From::from).map_err(Error::Parse)` / verify_n_children likewise -> stubs verify_toplevel_ / verify_n_children_ (R14; Ok ==> / <==> the number "
    "of children is in the range); `.map_err(Error::Parse)` / `.map_err(Error::Validation)` eta-expanded; `Tap::CONSENSUS` -> `Tap::CONSENSUS()`; `x.name().to_owned()` / `.is_empty()` -> std stubs; "
    "Miniscript::from_tree is an uninterpreted function of the node, validate an arbitrary verdict (units c10_notation / c12_from_tree); Pk: FromStrKey -> Pk: MiniscriptKey",
    "c15_tapops: TapTreeBuilder: real struct; new / push_inner_node / finalize VERIFIED here against the path view; push_leaf (bit arithmetic) consumed as a contract proved complete by Kani (k15_taptree), "
    "specialised to the Miniscript argument of its only call site (`ms.into()` = Arc::new(ms)); bit_of uninterpreted + axiom `the word 0 has no bit set`",
    "c15_tapops: NOT decided (the rest of `parse(print(t)) == t`): that expression::Tree::from_str turns the printed punctuation `{` L `,` R `}` into a Curly node with exactly the children L, R in order "
    "(hypothesis `spells(ns, x, s)`; C10 lists Tree::from_str as not verified), and the round trip of the LEAF texts (c10_notation, per node).  Under that hypothesis: depth list, leaf order, well-formedness "
    "and shape are proved for every tree shape, unbounded",
    "c15_tapops: call-stack / allocation failure is not modelled; Vec lengths are assumed to fit usize (vstd)",
]


def C(tag, text, props=P15):
    return Clause(tag, props, text)


# =====================================================================================================================================
# ORACLE: shapes, depth lists, round trip
# =====================================================================================================================================
SHAPE = r"""
// ================================================================================================================================
// ORACLE (BIP386 tr() grammar: TREE = SCRIPT | `{` TREE `,` TREE `}`; BIP341: binary tree, leaf depth = control-block path length <= 128)
// ================================================================================================================================
pub ghost enum Shape { Leaf, Node(Box<Shape>, Box<Shape>) }

pub open spec fn sh_leaves(s: Shape) -> nat decreases s {
    match s { Shape::Leaf => 1, Shape::Node(l, r) => sh_leaves(*l) + sh_leaves(*r) }
}
pub open spec fn sh_height(s: Shape) -> nat decreases s {
    match s { Shape::Leaf => 0, Shape::Node(l, r) => 1 + if sh_height(*l) >= sh_height(*r) { sh_height(*l) } else { sh_height(*r) } }
}
// the depth-first, left-to-right list of the leaf depths of s when s hangs at depth d
pub open spec fn depths_of(s: Shape, d: nat) -> Seq<nat> decreases s {
    match s { Shape::Leaf => seq![d], Shape::Node(l, r) => depths_of(*l, d + 1) + depths_of(*r, d + 1) }
}
pub open spec fn is_listing_of(ds: Seq<nat>, s: Shape) -> bool { depths_of(s, 0) == ds && sh_height(s) <= 128 }
pub open spec fn wf_depths(ds: Seq<nat>) -> bool { exists|s: Shape| is_listing_of(ds, s) }
pub open spec fn denote(ds: Seq<nat>) -> Shape { choose|s: Shape| is_listing_of(ds, s) }

// depth of the leftmost leaf
pub open spec fn sh_first_depth(s: Shape, d: nat) -> nat decreases s {
    match s { Shape::Leaf => d, Shape::Node(l, _) => sh_first_depth(*l, d + 1) }
}
pub proof fn lemma_sh_counts(s: Shape, d: nat)
    ensures sh_leaves(s) >= 1, depths_of(s, d).len() == sh_leaves(s),
    decreases s,
{
    match s { Shape::Leaf => {} Shape::Node(l, r) => { lemma_sh_counts(*l, d + 1); lemma_sh_counts(*r, d + 1); } }
}
pub proof fn lemma_sh_first(s: Shape, d: nat)
    ensures depths_of(s, d).len() >= 1, depths_of(s, d)[0] == sh_first_depth(s, d), sh_first_depth(s, d) >= d, (sh_first_depth(s, d) == d) == (s is Leaf),
    decreases s,
{
    match s { Shape::Leaf => {} Shape::Node(l, r) => { lemma_sh_first(*l, d + 1); lemma_sh_counts(*l, d + 1); } }
}
// every listed depth lies between d and d + height, and the height is reached
pub proof fn lemma_sh_depth_bounds(s: Shape, d: nat)
    ensures forall|i: int| 0 <= i < depths_of(s, d).len() ==> d <= #[trigger] depths_of(s, d)[i] <= d + sh_height(s),
            exists|i: int| 0 <= i < depths_of(s, d).len() && depths_of(s, d)[i] == d + sh_height(s),
    decreases s,
{
    match s {
        Shape::Leaf => { assert(depths_of(s, d)[0] == d + sh_height(s)); }
        Shape::Node(l, r) => {
            lemma_sh_depth_bounds(*l, d + 1); lemma_sh_depth_bounds(*r, d + 1);
            lemma_sh_counts(*l, d + 1); lemma_sh_counts(*r, d + 1);
            let a = depths_of(*l, d + 1); let b = depths_of(*r, d + 1);
            if sh_height(*l) >= sh_height(*r) {
                let i = choose|i: int| 0 <= i < a.len() && a[i] == d + 1 + sh_height(*l);
                assert((a + b)[i] == a[i]);
            } else {
                let i = choose|i: int| 0 <= i < b.len() && b[i] == d + 1 + sh_height(*r);
                assert((a + b)[a.len() + i] == b[i]);
            }
        }
    }
}
// a depth list (followed by anything) is the listing of at most one shape
pub proof fn depths_are_injective(s1: Shape, s2: Shape, d: nat, x1: Seq<nat>, x2: Seq<nat>)
    requires depths_of(s1, d) + x1 == depths_of(s2, d) + x2,
    ensures s1 == s2, x1 == x2,
    decreases s1, s2,
{
    let a = depths_of(s1, d) + x1;
    let b = depths_of(s2, d) + x2;
    lemma_sh_counts(s1, d); lemma_sh_counts(s2, d);
    lemma_sh_first(s1, d); lemma_sh_first(s2, d);
    assert(a[0] == depths_of(s1, d)[0]);
    assert(b[0] == depths_of(s2, d)[0]);
    match s1 {
        Shape::Leaf => {
            match s2 {
                Shape::Leaf => { assert(x1 =~= a.drop_first()); assert(x2 =~= b.drop_first()); }
                Shape::Node(l2, r2) => { assert(false); }
            }
        }
        Shape::Node(l1, r1) => {
            match s2 {
                Shape::Leaf => { assert(false); }
                Shape::Node(l2, r2) => {
                    assert(a =~= depths_of(*l1, d + 1) + (depths_of(*r1, d + 1) + x1));
                    assert(b =~= depths_of(*l2, d + 1) + (depths_of(*r2, d + 1) + x2));
                    depths_are_injective(*l1, *l2, d + 1, depths_of(*r1, d + 1) + x1, depths_of(*r2, d + 1) + x2);
                    depths_are_injective(*r1, *r2, d + 1, x1, x2);
                }
            }
        }
    }
}
// ---- THE ROUND TRIP of the representation ------------------------------------------------------------------------------------------
pub proof fn roundtrip_depths_of_denote(ds: Seq<nat>)
    requires wf_depths(ds),
    ensures depths_of(denote(ds), 0) == ds, sh_height(denote(ds)) <= 128, ds.len() == sh_leaves(denote(ds)), ds.len() >= 1,
            forall|i: int| 0 <= i < ds.len() ==> #[trigger] ds[i] <= 128,
{
    lemma_sh_counts(denote(ds), 0);
    lemma_sh_depth_bounds(denote(ds), 0);
}
pub proof fn roundtrip_denote_depths_of(s: Shape)
    requires sh_height(s) <= 128,
    ensures wf_depths(depths_of(s, 0)), denote(depths_of(s, 0)) == s,
{
    let ds = depths_of(s, 0);
    assert(is_listing_of(ds, s));
    let s2 = denote(ds);
    assert(depths_of(s, 0) + Seq::<nat>::empty() =~= depths_of(s2, 0) + Seq::<nat>::empty());
    depths_are_injective(s, s2, 0, Seq::empty(), Seq::empty());
}
// a list whose entries are all <= 128 and that lists some shape is well-formed (the height is one of the entries)
pub proof fn lemma_listing_wf(ds: Seq<nat>, s: Shape)
    requires depths_of(s, 0) == ds, forall|i: int| 0 <= i < ds.len() ==> #[trigger] ds[i] <= 128,
    ensures is_listing_of(ds, s), wf_depths(ds), denote(ds) == s,
{
    lemma_sh_depth_bounds(s, 0);
    roundtrip_denote_depths_of(s);
}

// ---- paths from the root (false = into the left child, true = into the right child), as in c15_spendinfo ------------------------------
pub open spec fn sh_child(s: Shape, right: bool) -> Shape { match s { Shape::Node(l, r) => if right { *r } else { *l }, Shape::Leaf => s } }
pub open spec fn sh_left_leaves(s: Shape) -> nat { match s { Shape::Node(l, _) => sh_leaves(*l), Shape::Leaf => 0 } }
pub open spec fn sh_sub(s: Shape, bits: Seq<bool>) -> Shape decreases bits.len() {
    if bits.len() == 0 { s } else { sh_child(sh_sub(s, bits.drop_last()), bits.last()) }
}
pub open spec fn sh_path_ok(s: Shape, bits: Seq<bool>) -> bool decreases bits.len() {
    bits.len() == 0 || (sh_path_ok(s, bits.drop_last()) && sh_sub(s, bits.drop_last()) is Node)
}
// number of leaves to the left of the subtree the path leads to
pub open spec fn sh_before(s: Shape, bits: Seq<bool>) -> nat decreases bits.len() {
    if bits.len() == 0 { 0 } else { sh_before(s, bits.drop_last()) + if bits.last() { sh_left_leaves(sh_sub(s, bits.drop_last())) } else { 0 } }
}
pub proof fn lemma_sh_push(s: Shape, bits: Seq<bool>, b: bool)
    ensures ({
        let nb = bits.push(b); let p = sh_sub(s, bits);
        &&& nb.drop_last() == bits && nb.last() == b
        &&& sh_sub(s, nb) == sh_child(p, b)
        &&& sh_path_ok(s, nb) == (sh_path_ok(s, bits) && p is Node)
        &&& sh_before(s, nb) == sh_before(s, bits) + if b { sh_left_leaves(p) } else { 0 }
    }),
{
    assert(bits.push(b).drop_last() =~= bits);
}
pub proof fn lemma_sh_bounds(s: Shape, bits: Seq<bool>)
    requires sh_path_ok(s, bits),
    ensures sh_before(s, bits) + sh_leaves(sh_sub(s, bits)) <= sh_leaves(s), bits.len() + sh_height(sh_sub(s, bits)) <= sh_height(s),
    decreases bits.len(),
{
    if bits.len() > 0 { lemma_sh_bounds(s, bits.drop_last()); }
}
// the listing of the subtree a path leads to is a slice of the whole listing
pub proof fn lemma_sh_depths_at(s: Shape, bits: Seq<bool>, d: nat)
    requires sh_path_ok(s, bits),
    ensures depths_of(s, d).subrange(sh_before(s, bits) as int, (sh_before(s, bits) + sh_leaves(sh_sub(s, bits))) as int) == depths_of(sh_sub(s, bits), d + bits.len()),
    decreases bits.len(),
{
    lemma_sh_bounds(s, bits);
    lemma_sh_counts(s, d);
    if bits.len() == 0 {
        assert(depths_of(s, d).subrange(0, sh_leaves(s) as int) =~= depths_of(s, d));
    } else {
        let pb = bits.drop_last(); let p = sh_sub(s, pb);
        lemma_sh_depths_at(s, pb, d);
        lemma_sh_bounds(s, pb);
        let dd = (d + pb.len()) as nat;
        let l = sh_child(p, false); let r = sh_child(p, true);
        lemma_sh_counts(l, dd + 1); lemma_sh_counts(r, dd + 1);
        let lb = sh_before(s, pb) as int;
        let whole = depths_of(s, d);
        let mid = whole.subrange(lb, lb + sh_leaves(p));
        assert(mid == depths_of(l, dd + 1) + depths_of(r, dd + 1));
        if bits.last() {
            assert(whole.subrange(lb + sh_leaves(l), lb + sh_leaves(l) + sh_leaves(r)) =~= mid.subrange(sh_leaves(l) as int, sh_leaves(p) as int));
            assert(mid.subrange(sh_leaves(l) as int, sh_leaves(p) as int) =~= depths_of(r, dd + 1));
        } else {
            assert(whole.subrange(lb, lb + sh_leaves(l)) =~= mid.subrange(0, sh_leaves(l) as int));
            assert(mid.subrange(0, sh_leaves(l) as int) =~= depths_of(l, dd + 1));
        }
    }
}
// what the next entry of the listing says about the subtree that comes next
pub proof fn lemma_sh_next(s: Shape, bits: Seq<bool>)
    requires sh_path_ok(s, bits),
    ensures sh_before(s, bits) < sh_leaves(s), depths_of(s, 0).len() == sh_leaves(s),
            depths_of(s, 0)[sh_before(s, bits) as int] == sh_first_depth(sh_sub(s, bits), bits.len()),
            sh_first_depth(sh_sub(s, bits), bits.len()) >= bits.len(),
            (sh_first_depth(sh_sub(s, bits), bits.len()) == bits.len()) == (sh_sub(s, bits) is Leaf),
            bits.len() <= sh_height(s),
{
    lemma_sh_bounds(s, bits);
    lemma_sh_depths_at(s, bits, 0);
    lemma_sh_counts(sh_sub(s, bits), bits.len());
    lemma_sh_counts(s, 0);
    lemma_sh_first(sh_sub(s, bits), bits.len());
    let i = sh_before(s, bits) as int;
    let sl = depths_of(s, 0).subrange(i, i + sh_leaves(sh_sub(s, bits)));
    assert(sl[0] == depths_of(s, 0)[i]);
}
// the binary "carry": the path to the subtree that comes after a FINISHED subtree (empty: the whole tree is finished)
pub open spec fn carry(bits: Seq<bool>) -> Seq<bool> decreases bits.len() {
    if bits.len() == 0 { bits } else if !bits.last() { bits.drop_last().push(true) } else { carry(bits.drop_last()) }
}
pub proof fn lemma_carry(s: Shape, bits: Seq<bool>)
    requires sh_path_ok(s, bits),
    ensures ({
        let c = carry(bits); let done = sh_before(s, bits) + sh_leaves(sh_sub(s, bits));
        &&& c.len() <= bits.len()
        &&& (c.len() == 0 ==> done == sh_leaves(s))
        &&& (c.len() > 0 ==> sh_path_ok(s, c) && c.last() && sh_before(s, c) == done && done < sh_leaves(s))
    }),
    decreases bits.len(),
{
    if bits.len() > 0 {
        let pb = bits.drop_last();
        if !bits.last() {
            lemma_sh_push(s, pb, true);
            lemma_sh_next(s, pb.push(true));
        } else {
            lemma_carry(s, pb);
        }
    }
}
"""

# =====================================================================================================================================
# bridge to c15_spendinfo's oracle (Tree<Pk>, listing, denotes, tap_tree_wf, denoted)
# =====================================================================================================================================
BRIDGE = r"""
// ---- bridge: the leaf-carrying trees of unit c15_spendinfo (imported oracle) and their shapes ---------------------------------------
pub open spec fn shape_of<Pk: MiniscriptKey>(t: Tree<Pk>) -> Shape decreases t {
    match t { Tree::Leaf(_) => Shape::Leaf, Tree::Branch(l, r) => Shape::Node(Box::new(shape_of(*l)), Box::new(shape_of(*r))) }
}
// the shape s with leaf number j labelled lv[k + j]
pub open spec fn label<Pk: MiniscriptKey>(s: Shape, lv: Seq<Arc<Miniscript<Pk, Tap>>>, k: int) -> Tree<Pk> decreases s {
    match s { Shape::Leaf => Tree::Leaf(lv[k]), Shape::Node(l, r) => Tree::Branch(Box::new(label(*l, lv, k)), Box::new(label(*r, lv, k + sh_leaves(*l)))) }
}
pub open spec fn tap_depths<Pk: MiniscriptKey>(tree: TapTree<Pk>) -> Seq<nat> { Seq::new(tree.depths_leaves@.len(), |j: int| tree.depths_leaves@[j].0 as nat) }
pub open spec fn tap_leaves<Pk: MiniscriptKey>(tree: TapTree<Pk>) -> Seq<Arc<Miniscript<Pk, Tap>>> { Seq::new(tree.depths_leaves@.len(), |j: int| tree.depths_leaves@[j].1) }

pub proof fn lemma_shape_of<Pk: MiniscriptKey>(t: Tree<Pk>, d: nat)
    ensures sh_leaves(shape_of(t)) == nleaves(t), sh_height(shape_of(t)) == height(t), listing(t, d).len() == nleaves(t),
            depths_of(shape_of(t), d) == Seq::new(nleaves(t), |j: int| listing(t, d)[j].0),
    decreases t,
{
    lemma_counts(t, d);
    match t {
        Tree::Leaf(_) => { assert(depths_of(shape_of(t), d) =~= Seq::new(nleaves(t), |j: int| listing(t, d)[j].0)); }
        Tree::Branch(l, r) => {
            lemma_shape_of(*l, d + 1); lemma_shape_of(*r, d + 1);
            lemma_counts(*l, d + 1); lemma_counts(*r, d + 1);
            assert(depths_of(shape_of(t), d) =~= Seq::new(nleaves(t), |j: int| listing(t, d)[j].0));
        }
    }
}
pub proof fn lemma_label<Pk: MiniscriptKey>(s: Shape, lv: Seq<Arc<Miniscript<Pk, Tap>>>, k: int, d: nat)
    ensures shape_of(label(s, lv, k)) == s, nleaves(label(s, lv, k)) == sh_leaves(s), height(label(s, lv, k)) == sh_height(s),
            listing(label(s, lv, k), d) == Seq::new(sh_leaves(s), |j: int| (depths_of(s, d)[j], lv[k + j])),
    decreases s,
{
    lemma_sh_counts(s, d);
    match s {
        Shape::Leaf => { assert(listing(label(s, lv, k), d) =~= Seq::new(sh_leaves(s), |j: int| (depths_of(s, d)[j], lv[k + j]))); }
        Shape::Node(l, r) => {
            lemma_label(*l, lv, k, d + 1); lemma_label(*r, lv, k + sh_leaves(*l), d + 1);
            lemma_sh_counts(*l, d + 1); lemma_sh_counts(*r, d + 1);
            assert(listing(label(s, lv, k), d) =~= Seq::new(sh_leaves(s), |j: int| (depths_of(s, d)[j], lv[k + j])));
        }
    }
}
// well-formedness in c15_spendinfo's sense is well-formedness of the depth list, and the denoted tree has the denoted shape and the stored leaves
pub proof fn lemma_wf_bridge<Pk: MiniscriptKey>(tree: TapTree<Pk>)
    ensures tap_tree_wf(tree) == wf_depths(tap_depths(tree)),
            tap_tree_wf(tree) ==> shape_of(denoted(tree)) == denote(tap_depths(tree)) && denoted(tree) == label(denote(tap_depths(tree)), tap_leaves(tree), 0)
                                  && nleaves(denoted(tree)) == tree.depths_leaves@.len(),
{
    let ds = tap_depths(tree);
    if tap_tree_wf(tree) {
        let t = denoted(tree);
        lemma_shape_of(t, 0);
        assert(depths_of(shape_of(t), 0) =~= ds);
        assert(is_listing_of(ds, shape_of(t)));
        roundtrip_denote_depths_of(shape_of(t));
        let t2 = label(shape_of(t), tap_leaves(tree), 0);
        lemma_label(shape_of(t), tap_leaves(tree), 0, 0);
        assert(listing(t2, 0) =~= tap_listing(tree));
        assert(listing(t, 0) + Seq::<(nat, Arc<Miniscript<Pk, Tap>>)>::empty() =~= listing(t2, 0) + Seq::<(nat, Arc<Miniscript<Pk, Tap>>)>::empty());
        lemma_listing_injective(t, t2, 0, Seq::empty(), Seq::empty());
    }
    if wf_depths(ds) {
        let s = denote(ds);
        roundtrip_depths_of_denote(ds);
        let t2 = label(s, tap_leaves(tree), 0);
        lemma_label(s, tap_leaves(tree), 0, 0);
        assert(listing(t2, 0) =~= tap_listing(tree));
        assert(denotes(tree, t2));
    }
}
// two trees with the same depth list: both well-formed or neither, same shape
pub proof fn lemma_same_depths_same_shape<P: MiniscriptKey, Q: MiniscriptKey>(a: TapTree<P>, b: TapTree<Q>)
    requires tap_depths(a) == tap_depths(b),
    ensures tap_tree_wf(a) == tap_tree_wf(b), tap_tree_wf(a) ==> shape_of(denoted(a)) == shape_of(denoted(b)),
{
    lemma_wf_bridge(a); lemma_wf_bridge(b);
}
// what unit c08_taptree_compile proves about TapTree::leaf / TapTree::combine (leaf at depth 0; left leaves then right leaves, each one level deeper) MEANS:
pub proof fn lemma_shift(s: Shape, d: nat)
    ensures depths_of(s, d + 1) == Seq::new(sh_leaves(s), |j: int| depths_of(s, d)[j] + 1),
    decreases s,
{
    lemma_sh_counts(s, d); lemma_sh_counts(s, d + 1);
    match s {
        Shape::Leaf => { assert(depths_of(s, d + 1) =~= Seq::new(sh_leaves(s), |j: int| depths_of(s, d)[j] + 1)); }
        Shape::Node(l, r) => {
            lemma_shift(*l, d + 1); lemma_shift(*r, d + 1);
            lemma_sh_counts(*l, d + 1); lemma_sh_counts(*r, d + 1); lemma_sh_counts(*l, d + 2); lemma_sh_counts(*r, d + 2);
            assert(depths_of(s, d + 1) =~= Seq::new(sh_leaves(s), |j: int| depths_of(s, d)[j] + 1));
        }
    }
}
pub proof fn combine_contract_means_branch(dl: Seq<nat>, dr: Seq<nat>, dc: Seq<nat>)
    requires wf_depths(dl), wf_depths(dr), dc.len() == dl.len() + dr.len(),
             forall|i: int| 0 <= i < dl.len() ==> dc[i] == dl[i] + 1, forall|i: int| 0 <= i < dr.len() ==> dc[dl.len() + i] == dr[i] + 1,
             forall|i: int| 0 <= i < dc.len() ==> #[trigger] dc[i] <= 128,
    ensures wf_depths(dc), denote(dc) == Shape::Node(Box::new(denote(dl)), Box::new(denote(dr))),
{
    let l = denote(dl); let r = denote(dr);
    roundtrip_depths_of_denote(dl); roundtrip_depths_of_denote(dr);
    lemma_shift(l, 0); lemma_shift(r, 0);
    let s = Shape::Node(Box::new(l), Box::new(r));
    assert(depths_of(s, 0) =~= dc);
    lemma_listing_wf(dc, s);
}
pub proof fn leaf_contract_means_leaf(dc: Seq<nat>)
    requires dc == seq![0nat],
    ensures wf_depths(dc), denote(dc) == Shape::Leaf,
{
    assert(depths_of(Shape::Leaf, 0) =~= dc);
    lemma_listing_wf(dc, Shape::Leaf);
}
"""

# =====================================================================================================================================
# PART 1: key translation
# =====================================================================================================================================
TRANSLATE_STUBS = r"""
// ---- key translation (R7 stubs): the translator is a STATE; translating a leaf is a function of (state, leaf) and yields the next state ----
pub trait Translator<P: MiniscriptKey>: Sized {
    type TargetPk: MiniscriptKey;
    type Error;
    spec fn spec_pk(st: Self, pk: P) -> Result<Self::TargetPk, Self::Error>;
    spec fn spec_pk_state(st: Self, pk: P) -> Self;
    fn pk(&mut self, pk: &P) -> (r: Result<Self::TargetPk, Self::Error>)
        ensures r == Self::spec_pk(*old(self), *pk), *final(self) == Self::spec_pk_state(*old(self), *pk);
}
pub uninterp spec fn ms_translate<Pk: MiniscriptKey, Ctx: ScriptContext, T: Translator<Pk>>(st: T, ms: Miniscript<Pk, Ctx>)
    -> Result<Miniscript<T::TargetPk, Ctx>, TranslateErr<T::Error>>;
pub uninterp spec fn ms_translate_state<Pk: MiniscriptKey, Ctx: ScriptContext, T: Translator<Pk>>(st: T, ms: Miniscript<Pk, Ctx>) -> T;
impl<Pk: MiniscriptKey, Ctx: ScriptContext> Miniscript<Pk, Ctx> {
    #[verifier::external_body]
    pub fn translate_pk<T: Translator<Pk>>(&self, translate: &mut T) -> (r: Result<Miniscript<T::TargetPk, Ctx>, TranslateErr<T::Error>>)
        ensures r == ms_translate(*old(translate), *self), *final(translate) == ms_translate_state(*old(translate), *self),
    { unimplemented!() }
}
impl<E> vstd::std_specs::convert::FromSpecImpl<E> for TranslateErr<E> {
    open spec fn obeys_from_spec() -> bool { true }
    open spec fn from_spec(v: E) -> Self { Self::TranslatorErr(v) }
}
// hand-written `impl PartialEq for Miniscript` (compares `node`): an arbitrary verdict here (nothing in the unchanged text compares leaves)
impl<Pk: MiniscriptKey, Ctx: ScriptContext> PartialEq for Miniscript<Pk, Ctx> {
    #[verifier::external_body]
    fn eq(&self, o: &Self) -> bool { unimplemented!() }
}
// Tr::new (tr/mod.rs): `Tap::check_pk(&internal_key)?; Ok(Self { internal_key, tree, spend_info: Mutex::new(None) })`
pub uninterp spec fn tap_pk_ok<Pk: MiniscriptKey>(pk: Pk) -> bool;
impl<Pk: MiniscriptKey> Tr<Pk> {
    #[verifier::external_body]
    pub fn new(internal_key: Pk, tree: Option<TapTree<Pk>>) -> (r: Result<Self, Error>)
        ensures r is Ok <==> tap_pk_ok(internal_key), r is Ok ==> r->Ok_0.internal_key == internal_key && r->Ok_0.tree == tree,
    { unimplemented!() }
}

// ORACLE for the translation of a tree (functor law of a structure-preserving map, with the translator state threaded through the leaves in listing order)
// state of the translator before leaf i is translated
pub open spec fn tt_state<Pk: MiniscriptKey, T: Translator<Pk>>(st: T, dl: Seq<(u8, Arc<Miniscript<Pk, Tap>>)>, i: int) -> T
    decreases i,
{
    if i <= 0 { st } else { ms_translate_state(tt_state(st, dl, i - 1), *dl[i - 1].1) }
}
pub open spec fn leaf_translation<Pk: MiniscriptKey, T: Translator<Pk>>(st: T, dl: Seq<(u8, Arc<Miniscript<Pk, Tap>>)>, i: int)
    -> Result<Miniscript<T::TargetPk, Tap>, TranslateErr<T::Error>>
{
    ms_translate(tt_state(st, dl, i), *dl[i].1)
}
"""


# ----------------------------------------------------------------------------------------------------------------------------------
# R8: `for (A, B) in &X.depths_leaves { BODY }` -> index loop; BODY verbatim, whatever statements it contains
# ----------------------------------------------------------------------------------------------------------------------------------
def tuple_for_loop(invariant, before="", body_pre="", after=""):
    """`for (A, B) in &X.depths_leaves` / `X.depths_leaves.iter()` / `X.depths_leaves.iter().rev()` (std: the slice iterator front to back, `rev` back to front)"""
    @rule("R8-depths-leaves")
    def rw(text):
        m = re.search(r"\bfor\s+\(\s*(\w+)\s*,\s*(\w+)\s*\)\s+in\s+(?:&\s*([\w.]+?)\s*\.depths_leaves|([\w.]+?)\s*\.depths_leaves\s*\.iter\(\)(\s*\.rev\(\))?)\s*\{", text)
        if not m:
            return None
        a, b, src = m.group(1), m.group(2), m.group(3) or m.group(4)
        rev = bool(m.group(5))
        open_ = m.end() - 1
        close = match_close(text, open_)
        body = text[open_ + 1:close]
        body = re.sub(r"\bcontinue\s*;", "{ tt_i += 1; continue; }", body)
        mret = re.search(r"let\s+mut\s+(\w+)\s*=\s*TapTree\s*\{", text)
        mtr = re.search(r"(\w+)\s*:\s*&\s*mut\s+T\b", text)
        if not mret or not mtr:
            return None
        d = dict(A=a, B=b, SRC=src, RET=mret.group(1), TR=mtr.group(1))
        idx = "tt_src.len() - 1 - tt_i" if rev else "tt_i"
        head = (before + "let tt_src = %(SRC)s.depths_leaves.as_slice();\n        let mut tt_i: usize = 0;\n        while tt_i < tt_src.len()\n"
                "            invariant\n" + invariant + "\n            decreases tt_src.len() - tt_i\n        {\n"
                "            let tt_entry = &tt_src[" + idx + "];\n            let (%(A)s, %(B)s) = (&tt_entry.0, &tt_entry.1);\n" + body_pre) % d
        return text[:m.start()] + head + body + "\n            tt_i += 1;\n        }\n" + (after % d) + text[close + 1:]
    return rw


def body_start(ghost):
    @rule("R10-body-start")
    def rw(text):
        head, ret, where, body = split_fn(text)
        return text[:len(text) - len(body)] + "{\n        " + ghost + body[1:]
    return rw


OK_T = "Ok::<Miniscript<T::TargetPk, Tap>, TranslateErr<T::Error>>"
TRANSLATE_INV = (
    "                tt_src@ == %%(SRC)s.depths_leaves@, tt_i <= tt_src@.len(),\n"
    "                %%(RET)s.depths_leaves@.len() == tt_i, //@inv one_translated_leaf_per_leaf_so_far [C15,C20]\n"
    "                *%%(TR)s == tt_state(*old(%%(TR)s), %%(SRC)s.depths_leaves@, tt_i as int), //@inv translator_state_is_threaded_in_listing_order [C15,C20]\n"
    "                forall|i: int| 0 <= i < tt_i ==> (#[trigger] %%(RET)s.depths_leaves@[i]).0 == %%(SRC)s.depths_leaves@[i].0, //@inv depth_of_every_leaf_so_far_kept [C15,C20]\n"
    "                forall|i: int| 0 <= i < tt_i ==> leaf_translation(*old(%%(TR)s), %%(SRC)s.depths_leaves@, i) == %s(*(#[trigger] %%(RET)s.depths_leaves@[i]).1), //@inv every_leaf_so_far_is_the_translation_of_its_leaf [C15,C20]\n"
    "                forall|j: int| 0 <= j < tt_i ==> (#[trigger] leaf_translation(*old(%%(TR)s), %%(SRC)s.depths_leaves@, j)) is Ok, //@inv no_leaf_so_far_failed [C20]"
    % OK_T)
TRANSLATE_PRE = ("            proof {\n"
                 "                let tt_t0 = leaf_translation(*old(%(TR)s), %(SRC)s.depths_leaves@, tt_i as int);     // what translating THIS leaf now gives\n"
                 "                assert(tt_t0 == ms_translate(*%(TR)s, *tt_entry.1));\n"
                 "            }\n")
TRANSLATE_AFTER = ("        proof {\n"
                   "            assert(tap_depths(%(RET)s) =~= tap_depths(*%(SRC)s));\n"
                   "            lemma_same_depths_same_shape(*%(SRC)s, %(RET)s);\n"
                   "        }\n")

STRIP_DERIVE = sub("R1-derive", r"#\[derive\([^)]*\)\]\s*", "", required=False)


def emit_translate(vf):
    DL = "self.depths_leaves@"
    RD = "r->Ok_0.depths_leaves@"
    ST0 = "*old(translate)"
    with vf.block("impl<Pk: MiniscriptKey> TapTree<Pk>"):
        vf.fn(TAPTREE, "impl:TapTree<Pk>/fn:translate_pk", qual="TapTree", props=("C15", "C20", "C11"),
              rewrites=[sub("R7", r"\bcrate::", ""), tuple_for_loop(TRANSLATE_INV, body_pre=TRANSLATE_PRE, after=TRANSLATE_AFTER)],
              contract=with_real_names(vf.repo, TAPTREE, "impl:TapTree<Pk>/fn:translate_pk", ["translate"], Contract(ensures=[
                  C("number_of_leaves_kept", "r is Ok ==> %s.len() == %s.len()" % (RD, DL), P1520),
                  C("depth_of_every_leaf_kept", "r is Ok ==> forall|i: int| 0 <= i < %s.len() ==> (#[trigger] %s[i]).0 == %s[i].0" % (DL, RD, DL), P1520),
                  C("leaf_i_is_the_translation_of_leaf_i", "r is Ok ==> forall|i: int| 0 <= i < %s.len() ==> leaf_translation(%s, %s, i) == %s(*(#[trigger] %s[i]).1)"
                    % (DL, ST0, DL, OK_T, RD), P1520),
                  C("translator_state_threaded_through_all_leaves", "r is Ok ==> *final(translate) == tt_state(%s, %s, %s.len() as int)" % (ST0, DL, DL), ("C20",)),
                  C("same_shape", "r is Ok ==> tap_depths(r->Ok_0) == tap_depths(*self) && (tap_tree_wf(*self) ==> shape_of(denoted(r->Ok_0)) == shape_of(denoted(*self)))", P1520),
                  C("well_formedness_kept", "r is Ok ==> tap_tree_wf(r->Ok_0) == tap_tree_wf(*self)", P1520),
                  C("error_is_the_first_failing_leaf", "r is Err ==> exists|i: int| 0 <= i < %s.len() && leaf_translation(%s, %s, i) == Err::<Miniscript<T::TargetPk, Tap>, TranslateErr<T::Error>>(r->Err_0) "
                    "&& forall|j: int| 0 <= j < i ==> (#[trigger] leaf_translation(%s, %s, j)) is Ok" % (DL, ST0, DL, ST0, DL), ("C20",)),
              ]))[0])
        register_named_invariants(vf, "TapTree::translate_pk")
    # Tr::translate_pk: c20_translate proves WHEN it is Ok (over an uninterpreted tree summary); here what happens to the tree structure
    ST1 = "(match self.tree { Some(tt) => tt_state(%s, tt.depths_leaves@, tt.depths_leaves@.len() as int), None => %s })" % (ST0, ST0)
    with vf.block("impl<Pk: MiniscriptKey> Tr<Pk>"):
        vf.fn(TRMOD, "impl:Tr<Pk>/fn:translate_pk", qual="Tr", props=("C15", "C20", "C11"),
              rewrites=[lit("R12-eta", ".map_err(TranslateErr::OuterError)",
                            ".map_err(|e: Error| -> (o: TranslateErr<T::Error>) ensures o == TranslateErr::<T::Error>::OuterError(e) { TranslateErr::OuterError(e) })")],
              contract=with_real_names(vf.repo, TRMOD, "impl:Tr<Pk>/fn:translate_pk", ["translate"], Contract(ensures=[
                  C("no_tree_stays_no_tree", "r is Ok ==> (self.tree is None <==> r->Ok_0.tree is None)", P1520),
                  C("tree_structure_kept", "r is Ok ==> (self.tree matches Some(tt) ==> r->Ok_0.tree matches Some(rt) && tap_depths(rt) == tap_depths(tt) "
                    "&& tap_tree_wf(rt) == tap_tree_wf(tt) && (tap_tree_wf(tt) ==> shape_of(denoted(rt)) == shape_of(denoted(tt))))", P1520),
                  C("leaf_i_is_the_translation_of_leaf_i", "r is Ok ==> (self.tree matches Some(tt) ==> r->Ok_0.tree matches Some(rt) && forall|i: int| 0 <= i < tt.depths_leaves@.len() ==> "
                    "leaf_translation(%s, tt.depths_leaves@, i) == %s(*(#[trigger] rt.depths_leaves@[i]).1))" % (ST0, OK_T), P1520),
                  C("internal_key_translated_after_the_leaves", "r is Ok ==> T::spec_pk(%s, self.internal_key) == Ok::<T::TargetPk, T::Error>(r->Ok_0.internal_key)" % ST1, ("C20",)),
                  C("translator_state_threaded", "r is Ok ==> *final(translate) == T::spec_pk_state(%s, self.internal_key)" % ST1, ("C20",)),
                  C("translated_key_checked_for_tapscript", "r is Ok ==> tap_pk_ok(r->Ok_0.internal_key)", ("C20",)),
              ]))[0])


# =====================================================================================================================================
# PART 3: formatting
# =====================================================================================================================================
FMT_STUBS = r"""
// ---- core::fmt reduced to a token log (R7; model of units/c10_notation.py): `f.write_str(s)` appends Str(s); Display / Debug are traits whose `fmt`
//      appends the implementor's token sequence (abstract for keys and miniscripts, PROVED for TapTree and Tr below) ---------------------------------
pub uninterp spec fn val_of<T>(x: T) -> int;
pub ghost enum Tok { Str(Seq<char>), Disp(int), Dbg(int), Checksum }
pub open spec fn t_open() -> Tok { Tok::Str("{"@) }
pub open spec fn t_comma() -> Tok { Tok::Str(","@) }
pub open spec fn t_close() -> Tok { Tok::Str("}"@) }
// bitcoin::taproot::TAPROOT_CONTROL_MAX_NODE_COUNT (BIP341: at most 128 path elements in a control block)
pub const TAPROOT_CONTROL_MAX_NODE_COUNT: usize = 128;
"""
FMT_MOD = r"""
mod fmt {
    use super::*;
    pub(crate) struct Error;
    pub(crate) type Result = core::result::Result<(), Error>;
    pub(crate) struct Formatter { pub(crate) log: Ghost<Seq<Tok>>, pub(crate) alt: bool }
    impl Formatter {
        #[verifier::external_body]
        pub(crate) fn write_str(&mut self, s: &str) -> (r: Result)
            ensures r is Ok ==> final(self).log@ == old(self).log@.push(Tok::Str(s@)), final(self).alt == old(self).alt,
        { unimplemented!() }
        #[verifier::external_body]
        pub(crate) fn alternate(&self) -> (r: bool)
            ensures r == self.alt,
        { unimplemented!() }
        // R18: the Formatter that `write!(self, "..{}..", x)` hands to x's fmt: same output, the flags of the `{}` / `{:?}` placeholder (no `#`)
        #[verifier::external_body]
        pub(crate) fn plain(&mut self) -> (r: &mut Formatter)
            ensures r.log@ == old(self).log@, !r.alt, final(self).log@ == final(r).log@, final(self).alt == old(self).alt,
        { unimplemented!() }
    }
    pub(crate) trait Display {
        spec fn disp_pre(&self) -> bool;
        spec fn disp_toks(&self, alt: bool) -> Seq<Tok>;
        fn fmt(&self, f: &mut Formatter) -> (r: Result)
            requires self.disp_pre(),
            ensures r is Ok ==> final(f).log@ =~= old(f).log@ + self.disp_toks(old(f).alt) && final(f).alt == old(f).alt;
    }
    pub(crate) trait Debug {
        spec fn dbg_pre(&self) -> bool;
        spec fn dbg_toks(&self) -> Seq<Tok>;
        fn fmt(&self, f: &mut Formatter) -> (r: Result)
            requires self.dbg_pre(),
            ensures r is Ok ==> final(f).log@ =~= old(f).log@ + self.dbg_toks() && final(f).alt == old(f).alt;
    }
    // std: `impl<T: Display> Display for &T` / `impl<T: Debug> Debug for &T` forward to T
    impl<T: Display> Display for &T {
        open spec fn disp_pre(&self) -> bool { (**self).disp_pre() }
        open spec fn disp_toks(&self, alt: bool) -> Seq<Tok> { (**self).disp_toks(alt) }
        fn fmt(&self, f: &mut Formatter) -> (r: Result) { Display::fmt(*self, f) }
    }
    impl<T: Debug> Debug for &T {
        open spec fn dbg_pre(&self) -> bool { (**self).dbg_pre() }
        open spec fn dbg_toks(&self) -> Seq<Tok> { (**self).dbg_toks() }
        fn fmt(&self, f: &mut Formatter) -> (r: Result) { Debug::fmt(*self, f) }
    }
}
"""
FMT_REST = r"""
// the Display / Debug form of a leaf script is one uninterpreted token (what it spells is unit c10_notation's)
impl<Pk: MiniscriptKey, Ctx: ScriptContext> fmt::Display for Miniscript<Pk, Ctx> {
    spec fn disp_pre(&self) -> bool { true }
    spec fn disp_toks(&self, alt: bool) -> Seq<Tok> { seq![Tok::Disp(val_of(*self))] }
    #[verifier::external_body]
    fn fmt(&self, f: &mut fmt::Formatter) -> (r: fmt::Result) { unimplemented!() }
}
impl<Pk: MiniscriptKey, Ctx: ScriptContext> fmt::Debug for Miniscript<Pk, Ctx> {
    spec fn dbg_pre(&self) -> bool { true }
    spec fn dbg_toks(&self) -> Seq<Tok> { seq![Tok::Dbg(val_of(*self))] }
    #[verifier::external_body]
    fn fmt(&self, f: &mut fmt::Formatter) -> (r: fmt::Result) { unimplemented!() }
}
// the leaf printer handed to fmt_helper: appends ONE token per leaf, a function `pt` of the leaf
#[verifier::prophetic]
pub open spec fn printer_prints<Pk: MiniscriptKey, F: FnMut(&mut fmt::Formatter, &Miniscript<Pk, Tap>) -> fmt::Result>(p: F, pt: spec_fn(Miniscript<Pk, Tap>) -> Tok) -> bool {
    &&& forall|g: &mut fmt::Formatter, m: &Miniscript<Pk, Tap>| call_requires(p, (g, m))
    &&& forall|g: &mut fmt::Formatter, m: &Miniscript<Pk, Tap>, r: fmt::Result| call_ensures(p, (g, m), r) && r is Ok ==> final(g).log@ == g.log@.push(pt(*m)) && final(g).alt == g.alt
}
pub open spec fn leaf_toks<Pk: MiniscriptKey>(view: TapTree<Pk>, pt: spec_fn(Miniscript<Pk, Tap>) -> Tok) -> spec_fn(int) -> Tok {
    |j: int| pt(*view.depths_leaves@[j].1)
}
pub open spec fn disp_tok<Pk: MiniscriptKey>() -> spec_fn(Miniscript<Pk, Tap>) -> Tok { |m: Miniscript<Pk, Tap>| Tok::Disp(val_of(m)) }
pub open spec fn dbg_tok<Pk: MiniscriptKey>() -> spec_fn(Miniscript<Pk, Tap>) -> Tok { |m: Miniscript<Pk, Tap>| Tok::Dbg(val_of(m)) }
"""

FMT_SPEC = r"""
// ================================================================================================================================
// ORACLE: the BIP386 notation of a tree, as tokens; leaf number j is written as the token lt(j)
// ================================================================================================================================
pub open spec fn ntn(s: Shape, k: int, lt: spec_fn(int) -> Tok) -> Seq<Tok> decreases s {
    match s {
        Shape::Leaf => seq![lt(k)],
        Shape::Node(l, r) => seq![t_open()] + ntn(*l, k, lt) + seq![t_comma()] + ntn(*r, k + sh_leaves(*l), lt) + seq![t_close()],
    }
}
// the notation of a well-formed TapTree
pub open spec fn tree_ntn<Pk: MiniscriptKey>(view: TapTree<Pk>, pt: spec_fn(Miniscript<Pk, Tap>) -> Tok) -> Seq<Tok> {
    ntn(denote(tap_depths(view)), 0, leaf_toks(view, pt))
}
// ---- derived from the code: what has been written when the subtree at the end of a path is about to begin -----------------------------
pub open spec fn pre(s: Shape, bits: Seq<bool>, lt: spec_fn(int) -> Tok) -> Seq<Tok> decreases bits.len() {
    if bits.len() == 0 { Seq::empty() } else {
        let pb = bits.drop_last(); let p = sh_sub(s, pb);
        pre(s, pb, lt) + seq![t_open()] + (if bits.last() { ntn(sh_child(p, false), sh_before(s, pb) as int, lt) + seq![t_comma()] } else { Seq::empty() })
    }
}
// child_counts[j] = number of children of the ancestor at depth j that are finished
pub open spec fn cc_flags(cc: Seq<u8>) -> Seq<bool> { Seq::new(cc.len(), |j: int| cc[j] != 0) }
pub open spec fn cc_flags_up(cc: Seq<u8>) -> Seq<bool> { Seq::new(cc.len(), |j: int| if j == cc.len() - 1 { cc[j] == 2 } else { cc[j] != 0 }) }
pub open spec fn cc_small(cc: Seq<u8>) -> bool { forall|j: int| 0 <= j < cc.len() ==> #[trigger] cc[j] <= 1 }
// (open) the subtree at the end of the path cc_flags(cc) comes next; i leaves are behind
pub open spec fn fmt_open_path(s: Shape, cc: Seq<u8>, i: int) -> bool {
    cc_small(cc) && sh_path_ok(s, cc_flags(cc)) && i == sh_before(s, cc_flags(cc))
}
// ... and `log` (the separating comma included) is everything up to where that subtree begins
pub open spec fn fmt_open_out(s: Shape, cc: Seq<u8>, l0: Seq<Tok>, log: Seq<Tok>, lt: spec_fn(int) -> Tok) -> bool { log == l0 + pre(s, cc_flags(cc), lt) }
// (up) the subtree at the end of cc_flags_up(cc) is written completely and counted in its parent; i1 leaves are behind
pub open spec fn fmt_up(s: Shape, cc: Seq<u8>, i1: int, l0: Seq<Tok>, log: Seq<Tok>, lt: spec_fn(int) -> Tok) -> bool {
    let b = cc_flags_up(cc);
    &&& cc.len() > 0 && cc_small(cc.drop_last()) && 1 <= cc.last() <= 2
    &&& sh_path_ok(s, b)
    &&& i1 == sh_before(s, b) + sh_leaves(sh_sub(s, b))
    &&& log == l0 + pre(s, b, lt) + ntn(sh_sub(s, b), sh_before(s, b) as int, lt)
}
pub open spec fn fmt_done(s: Shape, i1: int, l0: Seq<Tok>, log: Seq<Tok>, lt: spec_fn(int) -> Tok) -> bool { i1 == sh_leaves(s) && log == l0 + ntn(s, 0, lt) }
// state of the climbing loop
pub open spec fn fmt_climb(s: Shape, cc: Seq<u8>, i1: int, l0: Seq<Tok>, log: Seq<Tok>, lt: spec_fn(int) -> Tok) -> bool {
    if cc.len() == 0 { fmt_done(s, i1, l0, log, lt) } else { fmt_up(s, cc, i1, l0, log, lt) }
}

pub proof fn lemma_fmt_start(s: Shape, l0: Seq<Tok>, lt: spec_fn(int) -> Tok)
    ensures fmt_open_path(s, Seq::<u8>::empty(), 0), fmt_open_out(s, Seq::<u8>::empty(), l0, l0, lt),
{
    assert(cc_flags(Seq::<u8>::empty()) =~= Seq::<bool>::empty());
    assert(l0 + pre(s, Seq::<bool>::empty(), lt) =~= l0);
}
// one `{`: one more ancestor is opened
pub proof fn lemma_fmt_descend(s: Shape, cc: Seq<u8>, i: int, l0: Seq<Tok>, log: Seq<Tok>, lt: spec_fn(int) -> Tok, depth: nat, cc2: Seq<u8>, log2: Seq<Tok>)
    requires fmt_open_path(s, cc, i), fmt_open_out(s, cc, l0, log, lt), sh_first_depth(sh_sub(s, cc_flags(cc)), cc.len()) == depth, cc.len() < depth,
    ensures cc2 =~= cc.push(0u8) && log2 =~= log.push(t_open()) ==> fmt_open_path(s, cc2, i) && fmt_open_out(s, cc2, l0, log2, lt)
                && sh_first_depth(sh_sub(s, cc_flags(cc2)), cc2.len()) == depth,
{
    if cc2 =~= cc.push(0u8) && log2 =~= log.push(t_open()) {
        let b = cc_flags(cc);
        lemma_sh_first(sh_sub(s, b), cc.len());
        lemma_sh_push(s, b, false);
        assert(cc_flags(cc2) =~= b.push(false));
        assert(log2 =~= l0 + pre(s, b.push(false), lt));
    }
}
// the leaf itself
pub proof fn lemma_fmt_leaf(s: Shape, cc: Seq<u8>, i: int, l0: Seq<Tok>, log: Seq<Tok>, lt: spec_fn(int) -> Tok, cc2: Seq<u8>, log2: Seq<Tok>)
    requires fmt_open_path(s, cc, i), fmt_open_out(s, cc, l0, log, lt), sh_first_depth(sh_sub(s, cc_flags(cc)), cc.len()) <= cc.len(),
    ensures sh_sub(s, cc_flags(cc)) is Leaf,
            log2 =~= log.push(lt(i)) && cc.len() == 0 && cc2 =~= cc ==> fmt_climb(s, cc2, i + 1, l0, log2, lt),
            log2 =~= log.push(lt(i)) && cc.len() > 0 && cc2 =~= cc.update(cc.len() - 1, (cc.last() + 1) as u8) ==> fmt_climb(s, cc2, i + 1, l0, log2, lt),
{
    let b = cc_flags(cc);
    lemma_sh_first(sh_sub(s, b), cc.len());
    if log2 =~= log.push(lt(i)) {
        if cc.len() == 0 {
            assert(b =~= Seq::<bool>::empty());
            assert(log2 =~= l0 + ntn(s, 0, lt));
        } else if cc2 =~= cc.update(cc.len() - 1, (cc.last() + 1) as u8) {
            assert(cc[cc.len() - 1] <= 1);
            assert(cc_flags_up(cc2) =~= b);
            assert(cc2.drop_last() =~= cc.drop_last());
            assert(log2 =~= l0 + pre(s, b, lt) + ntn(sh_sub(s, b), sh_before(s, b) as int, lt));
        }
    }
}
// one `}`: the parent of a finished right child is finished
pub proof fn lemma_fmt_close(s: Shape, cc: Seq<u8>, i1: int, l0: Seq<Tok>, log: Seq<Tok>, lt: spec_fn(int) -> Tok, cc2: Seq<u8>, log2: Seq<Tok>)
    requires fmt_up(s, cc, i1, l0, log, lt), cc.last() == 2,
    ensures log2 =~= log.push(t_close()) && cc.len() == 1 && cc2 =~= cc.drop_last() ==> fmt_climb(s, cc2, i1, l0, log2, lt),
            log2 =~= log.push(t_close()) && cc.len() > 1 && cc2 =~= cc.drop_last().update(cc.len() - 2, (cc[cc.len() - 2] + 1) as u8) ==> fmt_climb(s, cc2, i1, l0, log2, lt),
{
    let b = cc_flags_up(cc); let pb = b.drop_last(); let p = sh_sub(s, pb);
    let l = sh_child(p, false); let r = sh_child(p, true); let k = sh_before(s, pb) as int;
    assert(b.last());
    if log2 =~= log.push(t_close()) {
        assert(ntn(p, k, lt) == seq![t_open()] + ntn(l, k, lt) + seq![t_comma()] + ntn(r, k + sh_leaves(l), lt) + seq![t_close()]);
        assert(log2 =~= l0 + pre(s, pb, lt) + ntn(p, k, lt));
        if cc.len() == 1 {
            assert(pb =~= Seq::<bool>::empty());
            assert(log2 =~= l0 + ntn(s, 0, lt));
        } else if cc2 =~= cc.drop_last().update(cc.len() - 2, (cc[cc.len() - 2] + 1) as u8) {
            assert(cc.drop_last()[cc.len() - 2] <= 1);
            assert(cc_flags_up(cc2) =~= pb);
            assert(cc2.drop_last() =~= cc.drop_last().drop_last());
            assert forall|j: int| 0 <= j < cc2.drop_last().len() implies #[trigger] cc2.drop_last()[j] <= 1 by { assert(cc.drop_last()[j] <= 1); }
        }
    }
}
// a finished LEFT child: its right sibling comes next, after a comma
pub proof fn lemma_fmt_next(s: Shape, cc: Seq<u8>, i1: int, l0: Seq<Tok>, log: Seq<Tok>, lt: spec_fn(int) -> Tok)
    requires fmt_up(s, cc, i1, l0, log, lt), cc.last() != 2,
    ensures cc.last() == 1, fmt_open_path(s, cc, i1), fmt_open_out(s, cc, l0, log.push(t_comma()), lt),
{
    let b = cc_flags_up(cc); let pb = b.drop_last(); let p = sh_sub(s, pb);
    assert(!b.last());
    lemma_sh_push(s, pb, true);
    assert(cc_flags(cc) =~= pb.push(true));
    assert forall|j: int| 0 <= j < cc.len() implies #[trigger] cc[j] <= 1 by { if j < cc.len() - 1 { assert(cc.drop_last()[j] <= 1); } }
    assert(log.push(t_comma()) =~= l0 + pre(s, pb.push(true), lt));
}
// an open subtree means there is a leaf left
pub proof fn lemma_fmt_open_next(s: Shape, cc: Seq<u8>, i: int)
    requires fmt_open_path(s, cc, i),
    ensures i < sh_leaves(s), depths_of(s, 0).len() == sh_leaves(s), depths_of(s, 0)[i] == sh_first_depth(sh_sub(s, cc_flags(cc)), cc.len()),
            sh_first_depth(sh_sub(s, cc_flags(cc)), cc.len()) >= cc.len(), cc.len() <= sh_height(s),
{
    lemma_sh_next(s, cc_flags(cc));
}
"""

ROUNDTRIP = r"""
// ================================================================================================================================
// ROUND TRIP corollaries (spec level): what the clauses of the printer and of the parser say together
// ================================================================================================================================
// parse(print(tree)): the printer writes ntn(denote(ds), ..) (fmt_helper.written_is_the_bip386_notation_of_the_denoted_tree); IF the expression tree built from that text
// spells denote(ds) (ASSUMED: expression::Tree::from_str), the parser's depth list (Tr::from_tree.depths_are_the_depths_of_the_shape_spelled) is ds again
pub proof fn parse_of_print_keeps_depths_and_shape(ds: Seq<nat>, parsed: Seq<nat>)
    requires wf_depths(ds), parsed == depths_of(denote(ds), 0),
    ensures parsed == ds, wf_depths(parsed), denote(parsed) == denote(ds),
{
    roundtrip_depths_of_denote(ds);
}
// print(parse(text)): a text that spells s is parsed to a tree that denotes s (parsed_tree_is_well_formed), which is printed as the notation of s
pub proof fn print_of_parse_is_the_notation_of_the_shape_spelled(s: Shape, parsed: Seq<nat>, k: int, lt: spec_fn(int) -> Tok)
    requires sh_height(s) <= 128, parsed == depths_of(s, 0),
    ensures ntn(denote(parsed), k, lt) == ntn(s, k, lt),
{
    roundtrip_denote_depths_of(s);
}
// translate, then print: same punctuation, leaf j printed from the translation of leaf j (same_shape + leaf_i_is_the_translation_of_leaf_i)
pub proof fn translated_tree_prints_the_same_shape<P: MiniscriptKey, Q: MiniscriptKey>(a: TapTree<P>, b: TapTree<Q>, pt: spec_fn(Miniscript<Q, Tap>) -> Tok)
    requires tap_depths(a) == tap_depths(b),
    ensures tree_ntn(b, pt) == ntn(denote(tap_depths(a)), 0, leaf_toks(b, pt)),
{}
"""

TAPTREE_ITEM = "impl:TapTreeIterItem<'tr, Pk>/fn:"


def _need(m, what):
    if not m:
        raise Undecided("c15_tapops: %s not found (anchor lost)" % what)
    return m


@rule("R8/R10-fmt-helper")
def annotate_fmt_helper(text):
    """R8 on `for ITEM in VIEW.leaves()` + ghost scaffolding.  Every local name is read off the text; the loop body is verbatim."""
    head, ret, where, body = split_fn(text)
    VIEW = _need(re.search(r"(\w+)\s*:\s*&\s*TapTree<", head), "parameter `VIEW: &TapTree<Pk>`").group(1)
    F = _need(re.search(r"(\w+)\s*:\s*&\s*mut\s+fmt::Formatter", head), "parameter `F: &mut fmt::Formatter`").group(1)
    PR = _need(re.search(r"mut\s+(\w+)\s*:\s*impl\s+FnMut\(", head), "parameter `mut FMT_MS: impl FnMut(..)`").group(1)
    CC = _need(re.search(r"let\s+mut\s+(\w+)\s*=\s*Vec::<u8>::(?:with_capacity\([^()]*\)|new\(\))\s*;", text), "`let mut CC = Vec::<u8>::with_capacity(..);`").group(1)
    mfor = _need(re.search(r"\bfor\s+(\w+)\s+in\s+%s\s*\.leaves\(\)\s*\{" % VIEW, text), "`for ITEM in VIEW.leaves() {`")
    ITEM = mfor.group(1)
    of, cf = mfor.end() - 1, match_close(text, mfor.end() - 1)
    DEPTH = _need(re.search(r"let\s+(\w+)\s*=\s*usize::from\(\s*%s\.depth\(\)\s*\)\s*;" % ITEM, text), "`let DEPTH = usize::from(ITEM.depth());`").group(1)
    d = dict(VIEW=VIEW, F=F, PR=PR, CC=CC, ITEM=ITEM, DEPTH=DEPTH)
    edits = []
    # ghost parameter: the token function of the leaf printer
    pclose = len(head) - 1
    edits.append((pclose, ("" if head[:pclose].rstrip().endswith(",") else ",") + " Ghost(tt_pt): Ghost<spec_fn(Miniscript<Pk, Tap>) -> Tok>"))
    edits.append((len(text) - len(body) + 1,
                  ("\n    let ghost tt_l0 = %(F)s.log@; let ghost tt_s = denote(tap_depths(*%(VIEW)s)); let ghost tt_lt = leaf_toks(*%(VIEW)s, tt_pt);\n"
                   "    proof { lemma_wf_bridge(*%(VIEW)s); roundtrip_depths_of_denote(tap_depths(*%(VIEW)s)); lemma_fmt_start(tt_s, tt_l0, tt_lt); }") % d))
    body_f = text[of:cf]
    # descending loop
    m1 = _need(re.search(r"while\s+%(CC)s\.len\(\)\s*<\s*%(DEPTH)s\s*\{" % d, body_f), "`while CC.len() < DEPTH {`")
    o1 = of + m1.end() - 1
    c1 = match_close(text, o1)
    edits.append((of + m1.start(), "proof { lemma_fmt_open_next(tt_s, %(CC)s@, tt_i as int); }\n        " % d))
    edits.append((o1, ("\n            invariant\n"
                       "                %(F)s.alt == old(%(F)s).alt,\n"
                       "                fmt_open_path(tt_s, %(CC)s@, tt_i as int), //@inv descend_child_counts_are_the_path_to_the_next_subtree [C15,C10]\n"
                       "                fmt_open_out(tt_s, %(CC)s@, tt_l0, %(F)s.log@, tt_lt), //@inv descend_written_so_far_is_the_notation_up_to_the_next_subtree [C15,C10]\n"
                       "                sh_first_depth(sh_sub(tt_s, cc_flags(%(CC)s@)), %(CC)s@.len()) == %(DEPTH)s, //@inv descend_next_leaf_hangs_at_its_listed_depth [C15,C10]\n"
                       "            decreases %(DEPTH)s - %(CC)s.len()\n        ") % d))
    edits.append((o1 + 1, "\n            let ghost tt_cc0 = %(CC)s@; let ghost tt_lg0 = %(F)s.log@;" % d))
    edits.append((c1, "    proof { lemma_fmt_descend(tt_s, tt_cc0, tt_i as int, tt_l0, tt_lg0, tt_lt, %(DEPTH)s as nat, %(CC)s@, %(F)s.log@); }\n        " % d))
    # the leaf
    mp = _need(re.search(r"\b%(PR)s\(\s*%(F)s\s*,\s*%(ITEM)s\.miniscript\(\)\s*\)\s*\?\s*;" % d, text[c1:cf]), "`FMT_MS(F, ITEM.miniscript())?;`")
    edits.append((c1 + mp.start(), "let ghost tt_cc1 = %(CC)s@; let ghost tt_lg1 = %(F)s.log@;\n        proof { lemma_fmt_open_next(tt_s, %(CC)s@, tt_i as int); }\n        " % d))
    # climbing loop
    m3 = _need(re.search(r"while\s+let\s+Some\(\s*\d+\s*\)\s*=\s*%(CC)s\.last\(\)\s*\{" % d, text[c1:cf]), "`while let Some(2) = CC.last() {`")
    o3 = c1 + m3.end() - 1
    c3 = match_close(text, o3)
    edits.append((c1 + m3.start(), ("proof { lemma_fmt_leaf(tt_s, tt_cc1, tt_i as int, tt_l0, tt_lg1, tt_lt, %(CC)s@, %(F)s.log@);\n"
                                    "                if %(CC)s@.len() > 0 && %(CC)s@.last() != 2 && fmt_up(tt_s, %(CC)s@, tt_i as int + 1, tt_l0, %(F)s.log@, tt_lt) { lemma_fmt_next(tt_s, %(CC)s@, tt_i as int + 1, tt_l0, %(F)s.log@, tt_lt); } }\n        ") % d))
    NEXT = ("(%(CC)s@.len() > 0 && %(CC)s@.last() != 2) ==> " % d)
    edits.append((o3, ("\n            invariant\n"
                       "                %(F)s.alt == old(%(F)s).alt,\n"
                       "                fmt_climb(tt_s, %(CC)s@, tt_i as int + 1, tt_l0, %(F)s.log@, tt_lt), //@inv climb_finished_subtree_is_written_and_counted [C15,C10]\n"
                       "                " + NEXT + "%(CC)s@.last() == 1 && fmt_open_path(tt_s, %(CC)s@, tt_i as int + 1), //@inv climb_stops_below_an_unfinished_parent [C15,C10]\n"
                       "                " + NEXT + "fmt_open_out(tt_s, %(CC)s@, tt_l0, %(F)s.log@.push(t_comma()), tt_lt), //@inv climb_stops_where_a_comma_is_due [C15,C10]\n"
                       "            ensures\n"
                       "                %(CC)s@.len() > 0 ==> %(CC)s@.last() == 1 && fmt_open_path(tt_s, %(CC)s@, tt_i as int + 1), //@inv round_end_child_counts_are_the_path_to_the_next_subtree [C15,C10]\n"
                       "                %(CC)s@.len() > 0 ==> fmt_open_out(tt_s, %(CC)s@, tt_l0, %(F)s.log@.push(t_comma()), tt_lt), //@inv round_end_written_so_far_is_the_notation_up_to_the_due_comma [C15,C10]\n"
                       "                %(CC)s@.len() == 0 ==> fmt_done(tt_s, tt_i as int + 1, tt_l0, %(F)s.log@, tt_lt), //@inv round_end_tree_is_closed_when_no_ancestor_is_open [C15,C10]\n"
                       "            decreases %(CC)s@.len()\n        ") % d))
    edits.append((o3 + 1, "\n            let ghost tt_cc2 = %(CC)s@; let ghost tt_lg2 = %(F)s.log@;" % d))
    edits.append((c3, ("    proof { lemma_fmt_close(tt_s, tt_cc2, tt_i as int + 1, tt_l0, tt_lg2, tt_lt, %(CC)s@, %(F)s.log@);\n"
                       "                if %(CC)s@.len() > 0 && %(CC)s@.last() != 2 && fmt_up(tt_s, %(CC)s@, tt_i as int + 1, tt_l0, %(F)s.log@, tt_lt) { lemma_fmt_next(tt_s, %(CC)s@, tt_i as int + 1, tt_l0, %(F)s.log@, tt_lt); } }\n        ") % d))
    # the outer loop (R8)
    inv = ("                tt_src@ == %(VIEW)s.depths_leaves@, tt_i <= tt_src@.len(), is_listing_of(tap_depths(*%(VIEW)s), tt_s), tt_src@.len() == sh_leaves(tt_s),\n"
           "                printer_prints(%(PR)s, tt_pt), tt_lt == leaf_toks(*%(VIEW)s, tt_pt), %(F)s.alt == old(%(F)s).alt,\n"
           "                tt_i == 0 ==> %(CC)s@.len() == 0 && %(F)s.log@ == tt_l0, //@inv nothing_is_written_before_the_first_leaf [C15,C10]\n"
           "                (tt_i > 0 && %(CC)s@.len() > 0) ==> %(CC)s@.last() == 1 && fmt_open_path(tt_s, %(CC)s@, tt_i as int), //@inv child_counts_are_the_path_to_the_next_subtree [C15,C10]\n"
           "                (tt_i > 0 && %(CC)s@.len() > 0) ==> fmt_open_out(tt_s, %(CC)s@, tt_l0, %(F)s.log@.push(t_comma()), tt_lt), //@inv written_so_far_is_the_notation_up_to_the_due_comma [C15,C10]\n"
           "                (tt_i > 0 && %(CC)s@.len() == 0) ==> fmt_done(tt_s, tt_i as int, tt_l0, %(F)s.log@, tt_lt), //@inv tree_is_closed_when_no_ancestor_is_open [C15,C10]") % d
    head_loop = ("let tt_src = %(VIEW)s.depths_leaves.as_slice();\n    let mut tt_i: usize = 0;\n    while tt_i < tt_src.len()\n        invariant\n" + inv +
                 "\n        decreases tt_src.len() - tt_i\n    {\n        let tt_entry = &tt_src[tt_i];\n"
                 "        let %(ITEM)s = TapTreeIterItem { depth: tt_entry.0, node: &tt_entry.1 };\n"
                 "        proof { if tt_i > 0 { lemma_fmt_open_next(tt_s, %(CC)s@, tt_i as int); } }\n") % d
    edits.append((mfor.start(), of + 1, head_loop))
    edits.append((cf, "    tt_i += 1;\n    "))
    edits.append((cf + 1, ("\n    proof { if %(CC)s@.len() > 0 { lemma_fmt_open_next(tt_s, %(CC)s@, tt_i as int); } }") % d))
    if re.search(r"\b(continue|break)\b", text[of:cf].replace(text[o3:c3], "").replace(text[o1:c1], "")):
        raise Undecided("fmt_helper: `continue` / `break` in the leaf loop (shape not modelled)")
    return S._apply_edits(text, edits)



def param_names(repo, rel, anchor):
    """names of the non-self parameters of the real function, in order (contracts are written with canonical names and renamed to the real ones)"""
    text = drop_vis(strip_docs(repo.at(rel, anchor).text)).strip("\n")
    head, ret, where, body = split_fn(text)
    m = re.search(r"\bfn\s+\w+", head)
    i = head.index("(", m.end())
    # generics may contain parentheses (Fn bounds): take the LAST top-level parenthesis group
    depth, start = 0, None
    for k in range(len(head) - 1, -1, -1):
        if head[k] == ")":
            depth += 1
        elif head[k] == "(":
            depth -= 1
            if depth == 0:
                start = k
                break
    names = []
    for a in _split_args(head[start + 1:len(head) - 1]):
        if re.match(r"^&?\s*(?:'\w+\s+)?(?:mut\s+)?self\b", a):
            continue
        mm = re.match(r"^(?:mut\s+)?(\w+)\s*:", a)
        if not mm:
            raise Undecided("parameter pattern %r of %s not modelled" % (a, anchor))
        names.append(mm.group(1))
    return names


def with_real_names(repo, rel, anchor, canon, contract):
    """the contract is written with the canonical parameter names `canon`; rename to the names the real text uses (a renamed parameter is a benign edit)"""
    real = param_names(repo, rel, anchor)
    if len(real) != len(canon):
        raise Undecided("%s: %d parameters expected, %d found" % (anchor, len(canon), len(real)))
    mp = dict(zip(canon, real))

    def ren(s):
        return re.sub(r"\b(%s)\b" % "|".join(re.escape(c) for c in canon), lambda m: mp[m.group(1)], s)
    for c in contract.requires + contract.ensures:
        c.text = ren(c.text)
    return contract, ren


def own_canary(vf, fq, generics, params, requires, where=""):
    """reachability canary written out by hand (vlib's generator strips the `mut` of `&mut fmt::Formatter` parameters): must FAIL"""
    cname = "canary_" + re.sub(r"\W+", "_", fq)
    text = "proof fn %s%s(%s)\n    %s\n    requires %s,\n    ensures false,\n{}\n" % (cname, generics, params, where, ", ".join("(%s)" % r for r in requires))
    start = vf._emit(text, dict(origin="verif", fn=cname, canary_for=fq))
    vf.canaries.append((cname, fq, start, vf._lines))


def emit_fmt(vf):
    vf.raw(FMT_STUBS)
    vf.raw(FMT_MOD, keep_vis=True)
    vf.raw(FMT_REST)
    vf.trust("mod fmt { Error, Result, Formatter { log, alt }, write_str, alternate, trait Display / Debug } (external_body), val_of, Tok",
             "core::fmt is outside Verus (model of units/c10_notation.py): the formatter is the log of what was written; write_str(s) writes s; Display / Debug are traits whose fmt "
             "appends the implementor's token sequence -- abstract for key types, one uninterpreted token for a Miniscript (impls external_body), PROVED for TapTree and Tr")
    vf.trust("const TAPROOT_CONTROL_MAX_NODE_COUNT = 128", "bitcoin::taproot constant (BIP341)")
    vf.spec_obligation("oracle::bip386_tree_notation_and_printer_states", S._novis(FMT_SPEC), P1510)
    vf.spec_obligation("oracle::round_trip_corollaries", S._novis(ROUNDTRIP), P1510)
    with vf.block("impl<'tr, Pk: MiniscriptKey> TapTreeIterItem<'tr, Pk>"):
        vf.fn(TAPTREE, TAPTREE_ITEM + "miniscript", qual="TapTreeIterItem", assumed=True, contract=Contract(ensures=[C("field", "r == self.node", ())]))
        vf.fn(TAPTREE, TAPTREE_ITEM + "depth", qual="TapTreeIterItem", assumed=True, contract=Contract(ensures=[C("field", "r == self.depth", ())]))
    vf.trust("TapTreeIterItem::{miniscript, depth} (external_body, contract only)", "one-line accessors; the same clauses are proved in units c15_spendinfo / c20_iters")
    con, ren = with_real_names(vf.repo, TAPTREE, "fn:fmt_helper", ["view", "f", "fmt_ms"], Contract(requires=["tap_tree_wf(*view)", "printer_prints(fmt_ms, tt_pt)"], canary=False, ensures=[
        C("written_is_the_bip386_notation_of_the_denoted_tree", "r is Ok ==> final(f).log@ == old(f).log@ + tree_ntn(*view, tt_pt)", P1510),
        C("formatter_flags_untouched", "r is Ok ==> final(f).alt == old(f).alt", ()),
    ]))
    vf.fn(TAPTREE, "fn:fmt_helper", qual=None, props=("C15", "C10", "C11"), rewrites=[annotate_fmt_helper], contract=con)
    register_named_invariants(vf, "fmt_helper")
    own_canary(vf, "fmt_helper", "<Pk: MiniscriptKey, F: FnMut(&mut fmt::Formatter, &Miniscript<Pk, Tap>) -> fmt::Result>",
               ren("view: &TapTree<Pk>, fmt_ms: F, tt_pt: spec_fn(Miniscript<Pk, Tap>) -> Tok"), [ren("tap_tree_wf(*view)"), ren("printer_prints(fmt_ms, tt_pt)")])


# ----------------------------------------------------------------------------------------------------------------------------------
# R18: write!(F, "fmt", args..)  ->  the calls format_args! / core::fmt::write make, in order
# ----------------------------------------------------------------------------------------------------------------------------------
def _split_args(s):
    out, depth, cur, instr = [], 0, "", False
    i = 0
    while i < len(s):
        ch = s[i]
        if instr:
            cur += ch
            if ch == "\\":
                cur += s[i + 1]
                i += 1
            elif ch == '"':
                instr = False
        elif ch == '"':
            instr = True
            cur += ch
        elif ch in "([{":
            depth += 1
            cur += ch
        elif ch in ")]}":
            depth -= 1
            cur += ch
        elif ch == "," and depth == 0:
            out.append(cur.strip())
            cur = ""
        else:
            cur += ch
        i += 1
    if cur.strip():
        out.append(cur.strip())
    return out


def write_macro(required=True):
    """`write!(F, "p0{}p1{:?}p2", a, b)` -> match F.write_str("p0") { Err(e) => Err(e), Ok(()) => match fmt::Display::fmt(&a, F') { .. => F.write_str("p2") } }
    F' = F.plain() for a fmt::Formatter, F.formatter() for a variable bound to `checksum::Formatter::new(..)` (the Formatter core::fmt::write builds over the writer).
    Definition of format_args! + core::fmt::write: literal pieces and arguments alternate, in order, the first error is returned.  Anything else in the format
    string (width, `#`, positional / named arguments, escaped braces) -> UNDECIDED."""
    @rule("R18-write-macro")
    def rw(text):
        wrappers = set(re.findall(r"let\s+mut\s+(\w+)\s*=\s*(?:checksum::)?Formatter::new\(", text))
        n = 0
        while True:
            m = re.search(r"\bwrite!\(", text)
            if not m:
                break
            close = match_close(text, m.end() - 1)
            args = _split_args(text[m.end():close])
            if len(args) < 2 or not re.fullmatch(r'"(?:[^"\\{}]|\{\}|\{:\?\})*"', args[1]):
                raise Undecided("write!: format string %r outside the modelled subset" % (args[1:2],))
            target, fmtstr, vals = args[0], args[1][1:-1], args[2:]
            pieces = re.split(r"(\{\}|\{:\?\})", fmtstr)
            inner = "%s.formatter()" % target if target in wrappers else "%s.plain()" % target
            calls = []
            k = 0
            for pc in pieces:
                if pc == "{}" or pc == "{:?}":
                    if k >= len(vals):
                        raise Undecided("write!: more placeholders than arguments")
                    calls.append("fmt::%s::fmt(&%s, %s)" % ("Display" if pc == "{}" else "Debug", vals[k], inner))
                    k += 1
                elif pc:
                    calls.append('%s.write_str("%s")' % (target, pc))
            if k != len(vals) or not calls:
                raise Undecided("write!: arguments and placeholders do not match")
            expr = calls[-1]
            for c in reversed(calls[:-1]):
                expr = "match %s { Err(tt_e) => Err(tt_e), Ok(()) => %s }" % (c, expr)
            text = text[:m.start()] + "(" + expr + ")" + text[close + 1:]
            n += 1
        if n == 0:
            return None if required else text
        return text
    return rw


def leaf_printer_closure(pt):
    """R10: the closure handed to fmt_helper gets its parameter types and an `ensures` (one token per leaf: `pt`), the call the ghost argument"""
    @rule("R10-closure-ensures")
    def rw(text):
        m = re.search(r"\bfmt_helper\(", text)
        if not m:
            return None
        close = match_close(text, m.end() - 1)
        args = _split_args(text[m.end():close])
        if len(args) < 3:
            return None
        mc = re.fullmatch(r"\|\s*(\w+)\s*,\s*(\w+)\s*\|\s*(.*)", ", ".join(args[2:]), flags=re.S)
        if not mc:
            raise Undecided("fmt_helper call: third argument is not a closure `|F, MS| BODY`")
        F, MS, body = mc.group(1), mc.group(2), mc.group(3)
        clo = ("|%s: &mut fmt::Formatter, %s: &Miniscript<Pk, Tap>| -> (tt_r: fmt::Result)\n"
               "            ensures tt_r is Ok ==> final(%s).log@ =~= old(%s).log@.push(%s(*%s)) && final(%s).alt == old(%s).alt\n"
               "            { %s }" % (F, MS, F, F, pt, MS, F, F, body))
        return text[:m.end()] + "%s, %s, %s, Ghost(%s)" % (args[0], args[1], clo, pt) + text[close:]
    return rw


CHECKSUM_STUBS = r"""
// ---- descriptor/checksum.rs: the engine is opaque (its arithmetic is unit k10_checksum's); the checksum it yields is ONE token --------------
pub struct Engine { opaque: u8 }
pub struct ChecksumError { opaque: u8 }
impl Engine {
    #[verifier::external_body] pub fn new() -> Engine { unimplemented!() }
    #[verifier::external_body] pub fn input(&mut self, s: &str) -> Result<(), ChecksumError> { unimplemented!() }
}
impl<'f> Formatter<'f> {
    // R18: the fmt::Formatter that core::fmt::write builds over this writer for the arguments of `write!(wrapped_f, ..)`: everything written to it goes
    // through write_str of the wrapper, i.e. to the wrapped formatter (and into the checksum engine, which is not modelled); flags of a plain `{}`
    #[verifier::external_body]
    pub fn formatter(&mut self) -> (r: &mut fmt::Formatter)
        ensures r.log@ == old(self).fmt.log@, !r.alt, final(self).fmt.log@ == final(r).log@, final(self).fmt.alt == old(self).fmt.alt,
                *final(final(self).fmt) == *final(old(self).fmt),
    { unimplemented!() }
    // `#` and the eight checksum characters (unit k10_checksum): one token
    #[verifier::external_body]
    pub fn write_checksum(&mut self) -> (r: fmt::Result)
        ensures r is Ok ==> final(self).fmt.log@ == old(self).fmt.log@.push(Tok::Checksum) && final(self).fmt.alt == old(self).fmt.alt,
                *final(final(self).fmt) == *final(old(self).fmt),
    { unimplemented!() }
}
"""

TR_FMT_SPEC = r"""
// what the tree part of a descriptor prints
pub open spec fn tr_tree_wf<Pk: MiniscriptKey>(tr: Tr<Pk>) -> bool { tr.tree matches Some(tt) ==> tap_tree_wf(tt) }
// ORACLE (BIP386): tr(KEY) | tr(KEY,TREE)
pub open spec fn tr_ntn<Pk: MiniscriptKey>(tr: Tr<Pk>, key: Seq<Tok>, pt: spec_fn(Miniscript<Pk, Tap>) -> Tok) -> Seq<Tok> {
    seq![Tok::Str("tr("@)] + key + (match tr.tree { Some(tt) => seq![Tok::Str(","@)] + tree_ntn(tt, pt), None => Seq::empty() }) + seq![Tok::Str(")"@)]
}
"""

R7_CK = [sub("R7-lifetime", r"fmt::Formatter<'a>", "fmt::Formatter", required=False), sub("R7-lifetime", r"<'f,\s*'a>", "<'f>", required=False)]


def emit_display(vf):
    # ---- TapTree: Display / Debug ------------------------------------------------------------------------------------------------------
    for trait, pt, pre, toks in (("Display", "disp_tok()", "disp_pre", "disp_toks(&self, alt: bool)"), ("Debug", "dbg_tok()", "dbg_pre", "dbg_toks(&self)")):
        with vf.block("impl<Pk: MiniscriptKey> fmt::%s for TapTree<Pk>" % trait):
            vf.raw("    spec fn %s(&self) -> bool { tap_tree_wf(*self) }\n    spec fn %s -> Seq<Tok> { tree_ntn(*self, %s) }\n" % (pre, toks, pt))
            vf.fn(TAPTREE, "impl:fmt::%s for TapTree<Pk>/fn:fmt" % trait, qual="TapTree as %s" % trait, props=("C15", "C10", "C11"),
                  rewrites=[write_macro(), leaf_printer_closure(pt)],
                  contract=with_real_names(vf.repo, TAPTREE, "impl:fmt::%s for TapTree<Pk>/fn:fmt" % trait, ["f"], Contract(ensures=[
                      C("written_is_the_bip386_notation_with_the_%s_form_of_the_leaves" % trait.lower(), "r is Ok ==> final(f).log@ == old(f).log@ + tree_ntn(*self, %s)" % pt, P1510)]))[0])
    # ---- checksum::Formatter (the writer Display for Tr goes through) ---------------------------------------------------------------------
    vf.item(CHECKSUM, "struct:Formatter", rewrites=R7_CK)
    vf.raw(CHECKSUM_STUBS)
    vf.trust("Engine / ChecksumError stubs, Formatter::write_checksum (external_body: appends Tok::Checksum), Formatter::formatter (external_body, R18)",
             "the checksum engine (polymod arithmetic, character set) is unit k10_checksum's; here the checksum is one token.  formatter() models the fmt::Formatter that core::fmt::write "
             "builds over a `fmt::Write` writer: what is written to it reaches the wrapped formatter in the same order")
    FIN = "*final(final(self).fmt) == *final(old(self).fmt)"
    with vf.block("impl<'f> Formatter<'f>"):
        vf.fn(CHECKSUM, "impl:Formatter<'f, 'a>/fn:new", qual="checksum::Formatter", props=("C10", "C11"), rewrites=R7_CK,
              contract=with_real_names(vf.repo, CHECKSUM, "impl:Formatter<'f, 'a>/fn:new", ["f"], Contract(ensures=[C("wraps_the_formatter", "*r.fmt == *old(f) && *final(r.fmt) == *final(f)", ("C10",))]))[0])
        vf.fn(CHECKSUM, "impl:fmt::Write for Formatter<'_, '_>/fn:write_str", qual="checksum::Formatter", props=("C10", "C11"),
              rewrites=[sub("R10-closure-type", r"\.map_err\(\|_\|\s*fmt::Error\)", ".map_err(|_e: ChecksumError| -> (o: fmt::Error) { fmt::Error })")],
              contract=with_real_names(vf.repo, CHECKSUM, "impl:fmt::Write for Formatter<'_, '_>/fn:write_str", ["s"], Contract(ensures=[
                  C("forwards_to_the_wrapped_formatter", "r is Ok ==> final(self).fmt.log@ == old(self).fmt.log@.push(Tok::Str(s@)) && final(self).fmt.alt == old(self).fmt.alt", ("C10",)),
                  C("same_wrapped_formatter", FIN, ())]))[0])
        vf.fn(CHECKSUM, "impl:Formatter<'f, 'a>/fn:write_checksum_if_not_alt", qual="checksum::Formatter", props=("C10", "C11"),
              contract=Contract(ensures=[
                  C("checksum_unless_alternate", "r is Ok ==> final(self).fmt.log@ == (if old(self).fmt.alt { old(self).fmt.log@ } else { old(self).fmt.log@.push(Tok::Checksum) }) "
                    "&& final(self).fmt.alt == old(self).fmt.alt", ("C10",)),
                  C("same_wrapped_formatter", FIN, ())]))
    # ---- Tr: Display / Debug ---------------------------------------------------------------------------------------------------------------
    vf.raw(TR_FMT_SPEC)
    with vf.block("impl<Pk: MiniscriptKey + fmt::Display> fmt::Display for Tr<Pk>"):
        vf.raw("    spec fn disp_pre(&self) -> bool { tr_tree_wf(*self) && self.internal_key.disp_pre() }\n"
               "    spec fn disp_toks(&self, alt: bool) -> Seq<Tok> { tr_ntn(*self, self.internal_key.disp_toks(false), disp_tok()) + (if alt { Seq::empty() } else { seq![Tok::Checksum] }) }\n")
        vf.fn(TRMOD, "impl:fmt::Display for Tr<Pk>/fn:fmt", qual="Tr as Display", props=("C15", "C10", "C11"),
              rewrites=[sub("R7-use", r"\buse fmt::Write;\s*", ""), write_macro(), sub("R7-path", r"\bchecksum::Formatter\b", "Formatter")],
              contract=with_real_names(vf.repo, TRMOD, "impl:fmt::Display for Tr<Pk>/fn:fmt", ["f"], Contract(ensures=[
                  C("written_is_tr_key_comma_tree_checksum", "r is Ok ==> final(f).log@ =~= old(f).log@ + tr_ntn(*self, self.internal_key.disp_toks(false), disp_tok()) "
                    "+ (if old(f).alt { Seq::<Tok>::empty() } else { seq![Tok::Checksum] })", P1510)]))[0])
    with vf.block("impl<Pk: MiniscriptKey + fmt::Debug> fmt::Debug for Tr<Pk>"):
        vf.raw("    spec fn dbg_pre(&self) -> bool { tr_tree_wf(*self) && self.internal_key.dbg_pre() }\n"
               "    spec fn dbg_toks(&self) -> Seq<Tok> { tr_ntn(*self, self.internal_key.dbg_toks(), dbg_tok()) }\n")
        vf.fn(TRMOD, "impl:fmt::Debug for Tr<Pk>/fn:fmt", qual="Tr as Debug", props=("C15", "C10", "C11"), rewrites=[write_macro()],
              contract=with_real_names(vf.repo, TRMOD, "impl:fmt::Debug for Tr<Pk>/fn:fmt", ["f"], Contract(ensures=[
                  C("written_is_tr_key_comma_tree", "r is Ok ==> final(f).log@ =~= old(f).log@ + tr_ntn(*self, self.internal_key.dbg_toks(), dbg_tok())", P1510)]))[0])



# =====================================================================================================================================
# PART 4: parsing
# =====================================================================================================================================
RANGE_STUB = r"""
// ---- core::ops::RangeInclusive<usize> (R7): std's definition written out -- `start..=end` with the `exhausted` flag set by the iteration that yields `end` ----
pub struct RangeInclusive { start: usize, end: usize, exhausted: bool }
impl RangeInclusive {
    // the indices still to be yielded are lo() ..= hi()
    pub open spec fn lo(&self) -> int { if self.exhausted { self.end + 1 } else { self.start as int } }
    pub open spec fn hi(&self) -> int { self.end as int }
    pub fn new(start: usize, end: usize) -> (r: Self)
        ensures r.lo() == start, r.hi() == end, !r.exhausted,
    { RangeInclusive { start, end, exhausted: false } }
    pub fn is_empty(&self) -> (r: bool)
        ensures r == (self.lo() > self.hi()),
    { self.exhausted || !(self.start <= self.end) }
    pub fn start(&self) -> (r: &usize)
        ensures *r == self.start, !self.exhausted ==> *r == self.lo(),
    { &self.start }
    pub fn end(&self) -> (r: &usize)
        ensures *r == self.hi(),
    { &self.end }
    pub fn next(&mut self) -> (r: Option<usize>)
        ensures final(self).hi() == old(self).hi(),
                old(self).lo() > old(self).hi() ==> r is None && final(self).lo() == old(self).lo(),
                old(self).lo() <= old(self).hi() ==> r == Some(old(self).lo() as usize) && final(self).lo() == old(self).lo() + 1,
    {
        if self.is_empty() { return None; }
        let is_iterating = self.start < self.end;
        let n = self.start;
        if is_iterating { self.start = n + 1; } else { self.exhausted = true; }
        Some(n)
    }
}
"""

PARSE_ERRORS = r"""
// ---- error types: payloads are only moved around (reduced to the variants the extracted text constructs) -----------------------
pub struct ValidationError { opaque: u8 }
pub struct ValidationParams { opaque: u8 }
pub struct ParseNumError { opaque: u8 }
pub enum ParseTreeError { IncorrectName { actual: String, expected: &'static str }, Other }
pub enum ParseError { Tree(ParseTreeError), Other }
pub enum Error { Parse(ParseError), Validation(ValidationError), TapTreeDepthError(TapTreeDepthError), Other }
// src/lib.rs: `impl From<TapTreeDepthError> for Error` (what the `?` on push_inner_node goes through)
impl From<TapTreeDepthError> for Error { fn from(e: TapTreeDepthError) -> Self { Self::TapTreeDepthError(e) } }
impl vstd::std_specs::convert::FromSpecImpl<TapTreeDepthError> for Error {
    open spec fn obeys_from_spec() -> bool { true }
    closed spec fn from_spec(e: TapTreeDepthError) -> Self { Error::TapTreeDepthError(e) }
}
#[verifier::external_body] pub fn str_to_owned_(s: &str) -> String { unimplemented!() }
#[verifier::external_body] pub fn str_is_empty_(s: &str) -> (r: bool) ensures r == (s@.len() == 0) { unimplemented!() }
impl vstd::std_specs::cmp::PartialEqSpecImpl for Parens {
    open spec fn obeys_eq_spec() -> bool { true }
    open spec fn eq_spec(&self, o: &Parens) -> bool { *self == *o }
}
"""

PARSE_STUBS = r"""
// ---- the callees of Tr::from_tree that are other units' business (arbitrary verdicts; the parse of a leaf is an uninterpreted FUNCTION of its node) ----
pub uninterp spec fn spec_ms_from_tree<Pk: MiniscriptKey, Ctx: ScriptContext>(ns: Seq<TreeNode>, x: int) -> Result<Miniscript<Pk, Ctx>, Error>;
impl<Pk: MiniscriptKey, Ctx: ScriptContext> Miniscript<Pk, Ctx> {
    #[verifier::external_body]
    pub fn from_tree(node: TreeIterItem) -> (r: Result<Self, Error>)
        requires node.valid(),
        ensures r == spec_ms_from_tree::<Pk, Ctx>(node.nodes@, node.index as int),
    { unimplemented!() }
    #[verifier::external_body]
    pub fn validate(&self, params: &ValidationParams) -> Result<(), ValidationError> { unimplemented!() }
}
impl Tap {
    #[verifier::external_body]
    pub fn CONSENSUS() -> ValidationParams { unimplemented!() }
}
// R14: `X.verify_toplevel(NAME, A..=B).map_err(From::from).map_err(Error::Parse)` and the same for verify_n_children (RangeInclusive::contains)
#[verifier::external_body]
pub fn verify_toplevel_<'s>(x: TreeIterItem<'s>, name: &'static str, lo: usize, hi: usize) -> (r: Result<TreeIterItem<'s>, Error>)
    requires x.valid(),
    ensures r is Ok ==> lo <= nch(x.nodes@, x.index as int) <= hi,
{ unimplemented!() }
#[verifier::external_body]
pub fn verify_n_children_<'s>(x: TreeIterItem<'s>, name: &'static str, lo: usize, hi: usize) -> (r: Result<(), Error>)
    requires x.valid(),
    ensures r is Ok <==> lo <= nch(x.nodes@, x.index as int) <= hi,
{ unimplemented!() }
impl<'s> TreeIterItem<'s> {
    #[verifier::external_body]
    pub fn verify_terminal<T>(&self, description: &'static str) -> (r: Result<T, ParseError>)
        requires self.valid(),
    { unimplemented!() }
}
"""

PARSE_SPEC = r"""
// ================================================================================================================================
// ORACLE: an expression tree whose shape IS the BIP386 notation of s.  `{A,B}` is a node with curly braces and exactly two children; everything else is a
// SCRIPT (its own sub-expressions belong to the script).  In the pre-order array the first child sits right behind its parent, the second right behind
// the block of descendants of the first (lemma two_children: that IS the second child, and the parent's block ends with it).
// ================================================================================================================================
pub open spec fn spells(ns: Seq<TreeNode>, x: int, s: Shape) -> bool decreases s {
    &&& 0 <= x < ns.len()
    &&& match s {
        Shape::Leaf => ns[x].parens != Parens::Curly,
        Shape::Node(l, r) => ns[x].parens == Parens::Curly && nch(ns, x) == 2 && spells(ns, x + 1, *l) && spells(ns, rmd(ns, x + 1) + 1, *r),
    }
}
// the array index of the node a path leads to
pub open spec fn xnode(ns: Seq<TreeNode>, x: int, bits: Seq<bool>) -> int decreases bits.len() {
    if bits.len() == 0 { x } else { let p = xnode(ns, x, bits.drop_last()); if bits.last() { rmd(ns, p + 1) + 1 } else { p + 1 } }
}
// the leaf nodes, left to right = in pre-order
pub open spec fn leaf_nodes(ns: Seq<TreeNode>, x: int, s: Shape) -> Seq<int> decreases s {
    match s { Shape::Leaf => seq![x], Shape::Node(l, r) => leaf_nodes(ns, x + 1, *l) + leaf_nodes(ns, rmd(ns, x + 1) + 1, *r) }
}

// blocks of descendants are nested
pub proof fn lemma_rmd_nested(ns: Seq<TreeNode>, i: int, j: int)
    requires wf_tree(ns), 0 <= i <= j <= rmd(ns, i), i < ns.len(),
    ensures j <= rmd(ns, j) <= rmd(ns, i),
{
    assert(wf_node(ns, i)); assert(wf_node(ns, j));
    if rmd(ns, j) > rmd(ns, i) {
        let c = rmd(ns, i) + 1;
        // c lies in the block of j, so its parent is >= j; it lies outside the block of i, so its parent is not in [i, rmd(i)]; but parent < c
        assert(par(ns, c) matches Some(q) && j <= q);
        assert(wf_node(ns, c));
    }
}
// a node with exactly two children: they are the node behind it and the node behind the block of the first; the block of the second ends the parent's block
pub proof fn two_children(ns: Seq<TreeNode>, p: int)
    requires wf_tree(ns), 0 <= p < ns.len(), nch(ns, p) == 2,
    ensures ({
        let c1 = p + 1; let c2 = rmd(ns, c1) + 1;
        &&& c1 < ns.len() && par(ns, c1) == Some(p as usize)
        &&& c2 <= rmd(ns, p) && par(ns, c2) == Some(p as usize)
        &&& rmd(ns, c2) == rmd(ns, p)
    }),
{
    let n = ns.len() as int; let c1 = p + 1; let e = rmd(ns, p);
    assert(wf_node(ns, p));
    let kids = is_child_of(ns, p);
    // children of p lie in its block
    lemma_count_split(kids, p + 1, e + 1, n);
    assert forall|c: int| e + 1 <= c < n implies !#[trigger] kids(c) by {}
    lemma_count_zero(kids, e + 1, n);
    assert(p + 1 <= e) by { if e == p { lemma_count_zero(kids, p + 1, p + 1); } }
    lemma_rmd_nested(ns, p, c1);
    assert(wf_node(ns, c1));
    let e1 = rmd(ns, c1);
    // inside the block of c1 only c1 itself is a child of p
    lemma_count_split(kids, p + 1, e1 + 1, e + 1);
    lemma_count_first(kids, p + 1, e1 + 1);
    assert forall|c: int| c1 + 1 <= c < e1 + 1 implies !#[trigger] kids(c) by { assert(par(ns, c) matches Some(q) && c1 <= q); }
    lemma_count_zero(kids, c1 + 1, e1 + 1);
    // so there is a node behind that block, and it is the second child
    if e1 == e { lemma_count_zero(kids, e1 + 1, e + 1); }
    let c2 = e1 + 1;
    assert(wf_node(ns, c2));
    assert(par(ns, c2) matches Some(q) && p <= q);
    lemma_rmd_nested(ns, p, c2);
    let e2 = rmd(ns, c2);
    lemma_count_split(kids, c2, e2 + 1, e + 1);
    lemma_count_first(kids, c2, e2 + 1);
    assert forall|c: int| c2 + 1 <= c < e2 + 1 implies !#[trigger] kids(c) by { assert(par(ns, c) matches Some(q) && c2 <= q); }
    lemma_count_zero(kids, c2 + 1, e2 + 1);
    // a node behind the block of c2 inside the block of p would be a third child
    if e2 < e {
        let c3 = e2 + 1;
        assert(wf_node(ns, c3));
        assert(par(ns, c3) matches Some(q) && p <= q);
        lemma_count_pos(kids, c3, e + 1, c3);
    }
}
// the node a path leads to spells the subtree the path leads to; it lies in the block of the root
pub proof fn lemma_spells_at(ns: Seq<TreeNode>, x: int, s: Shape, bits: Seq<bool>)
    requires wf_tree(ns), spells(ns, x, s), sh_path_ok(s, bits),
    ensures spells(ns, xnode(ns, x, bits), sh_sub(s, bits)), x <= xnode(ns, x, bits) <= rmd(ns, xnode(ns, x, bits)) <= rmd(ns, x),
    decreases bits.len(),
{
    assert(wf_node(ns, x));
    if bits.len() > 0 {
        let pb = bits.drop_last(); let p = xnode(ns, x, pb);
        lemma_spells_at(ns, x, s, pb);
        assert(wf_node(ns, p));
        assert(wf_node(ns, p + 1));
        two_children(ns, p);
        lemma_rmd_nested(ns, p, p + 1);
        lemma_rmd_nested(ns, p, rmd(ns, p + 1) + 1);
    }
}
// where the walk stands after a finished subtree (skip_descendants / the end of a leaf): right behind its block = at the node the carry leads to
pub proof fn lemma_carry_xnode(ns: Seq<TreeNode>, x: int, s: Shape, bits: Seq<bool>)
    requires wf_tree(ns), spells(ns, x, s), sh_path_ok(s, bits),
    ensures carry(bits).len() > 0 ==> xnode(ns, x, carry(bits)) == rmd(ns, xnode(ns, x, bits)) + 1,
            carry(bits).len() == 0 ==> rmd(ns, xnode(ns, x, bits)) == rmd(ns, x),
    decreases bits.len(),
{
    if bits.len() > 0 {
        let pb = bits.drop_last();
        if !bits.last() {
            assert(pb.push(true).drop_last() =~= pb);
        } else {
            lemma_spells_at(ns, x, s, pb);
            two_children(ns, xnode(ns, x, pb));
            lemma_carry_xnode(ns, x, s, pb);
        }
    }
}
// the leaf nodes of the subtree a path leads to are a slice of all leaf nodes
pub proof fn lemma_leaf_nodes_at(ns: Seq<TreeNode>, x: int, s: Shape, bits: Seq<bool>)
    requires sh_path_ok(s, bits),
    ensures leaf_nodes(ns, x, s).len() == sh_leaves(s),
            leaf_nodes(ns, x, s).subrange(sh_before(s, bits) as int, (sh_before(s, bits) + sh_leaves(sh_sub(s, bits))) as int) == leaf_nodes(ns, xnode(ns, x, bits), sh_sub(s, bits)),
    decreases bits.len(),
{
    lemma_leaf_nodes_len(ns, x, s);
    lemma_sh_bounds(s, bits);
    let whole = leaf_nodes(ns, x, s);
    if bits.len() == 0 {
        assert(whole.subrange(0, sh_leaves(s) as int) =~= whole);
    } else {
        let pb = bits.drop_last(); let p = sh_sub(s, pb); let px = xnode(ns, x, pb);
        lemma_leaf_nodes_at(ns, x, s, pb);
        lemma_sh_bounds(s, pb);
        let l = sh_child(p, false); let r = sh_child(p, true);
        lemma_leaf_nodes_len(ns, px + 1, l); lemma_leaf_nodes_len(ns, rmd(ns, px + 1) + 1, r);
        let lb = sh_before(s, pb) as int;
        let mid = whole.subrange(lb, lb + sh_leaves(p));
        assert(mid == leaf_nodes(ns, px + 1, l) + leaf_nodes(ns, rmd(ns, px + 1) + 1, r));
        if bits.last() {
            assert(whole.subrange(lb + sh_leaves(l), lb + sh_leaves(l) + sh_leaves(r)) =~= mid.subrange(sh_leaves(l) as int, sh_leaves(p) as int));
            assert(mid.subrange(sh_leaves(l) as int, sh_leaves(p) as int) =~= leaf_nodes(ns, rmd(ns, px + 1) + 1, r));
        } else {
            assert(whole.subrange(lb, lb + sh_leaves(l)) =~= mid.subrange(0, sh_leaves(l) as int));
            assert(mid.subrange(0, sh_leaves(l) as int) =~= leaf_nodes(ns, px + 1, l));
        }
    }
}
pub proof fn lemma_leaf_nodes_len(ns: Seq<TreeNode>, x: int, s: Shape)
    ensures leaf_nodes(ns, x, s).len() == sh_leaves(s),
    decreases s,
{
    match s { Shape::Leaf => {} Shape::Node(l, r) => { lemma_leaf_nodes_len(ns, x + 1, *l); lemma_leaf_nodes_len(ns, rmd(ns, x + 1) + 1, *r); } }
}
// an expression tree spells at most one shape
pub proof fn spells_at_most_one_shape(ns: Seq<TreeNode>, x: int, s1: Shape, s2: Shape)
    requires spells(ns, x, s1), spells(ns, x, s2),
    ensures s1 == s2,
    decreases s1,
{
    match s1 {
        Shape::Leaf => {}
        Shape::Node(l1, r1) => {
            match s2 {
                Shape::Leaf => {}
                Shape::Node(l2, r2) => { spells_at_most_one_shape(ns, x + 1, *l1, *l2); spells_at_most_one_shape(ns, rmd(ns, x + 1) + 1, *r1, *r2); }
            }
        }
    }
}

// ---- TapTreeBuilder: the cursor as a path (derived from k15_taptree's contract: level d is `done` when the left subtree hanging at depth d is finished) ----
pub uninterp spec fn bit_of(word: u128, i: int) -> bool;        // bit i of the word
#[verifier::external_body]
pub proof fn axiom_zero_word_has_no_bits()
    ensures forall|i: int| !#[trigger] bit_of(0u128, i),
{}
// the second child of a node (what the second `next()` of its child iterator yields): the TREE argument of tr(KEY,TREE)
pub open spec fn xtree_index(ns: Seq<TreeNode>, i: int) -> int { child_seq(ns, i)[1] }
// a node with children has a descendant
pub proof fn lemma_has_descendant(ns: Seq<TreeNode>, i: int)
    requires wf_tree(ns), 0 <= i < ns.len(), nch(ns, i) >= 1,
    ensures i + 1 <= rmd(ns, i),
{
    assert(wf_node(ns, i));
    let l = ns[i].last_child_idx->Some_0 as int;
    assert(wf_node(ns, l));
}
// k15_taptree `done(heights, c128, d)`: levels 1..=127 in the bitmap, level 128 in the bool
pub open spec fn lvl_done(heights: u128, c128: bool, d: int) -> bool { if d == 128 { c128 } else { bit_of(heights, d) } }
impl<Pk: MiniscriptKey> TapTreeBuilder<Pk> {
    // k15_taptree `wf`: cursor within 0..=128, no flag above the cursor
    pub open spec fn inv(&self) -> bool {
        self.current_height <= 128 && forall|d: int| self.current_height < d <= 128 ==> !#[trigger] lvl_done(self.complete_heights, self.complete_128, d)
    }
    // the path from the root to the node the builder expects next: one turn per level, right = the left subtree at that level is finished
    pub open spec fn path(&self) -> Seq<bool> { Seq::new(self.current_height as nat, |j: int| lvl_done(self.complete_heights, self.complete_128, j + 1)) }
    pub open spec fn depths(&self) -> Seq<nat> { Seq::new(self.depths_leaves@.len(), |j: int| self.depths_leaves@[j].0 as nat) }
}
// the clause families proved by Kani (harnesses builder_push_leaf_h*) are exactly the Seq form consumed here: path' == carry(path)
pub proof fn builder_clauses_are_the_seq_contract(d0: spec_fn(int) -> bool, d1: spec_fn(int) -> bool, h: int, h2: int)
    requires 0 <= h2 <= h <= 128,                                              // push_leaf.cursor_never_descends
             h2 == 0 || !d0(h2),                                               // push_leaf.stops_at_unfinished_left
             forall|i: int| h2 < i <= h ==> #[trigger] d0(i),                             // push_leaf.climbs_only_over_finished_left   (clears_climbed_levels: those levels are above the new cursor)
             h2 > 0 ==> d1(h2),                                                // push_leaf.marks_left_finished
             forall|i: int| 0 < i < h2 ==> #[trigger] d1(i) == d0(i),                     // push_leaf.other_levels_unchanged
    ensures Seq::new(h2 as nat, |j: int| d1(j + 1)) == carry(Seq::new(h as nat, |j: int| d0(j + 1))),
    decreases h - h2,
{
    let p0 = Seq::new(h as nat, |j: int| d0(j + 1));
    let p1 = Seq::new(h2 as nat, |j: int| d1(j + 1));
    if h == 0 {
        assert(p1 =~= carry(p0));
    } else if h2 == h {
        assert(!p0.last());
        assert(p1 =~= p0.drop_last().push(true));
    } else {
        assert(p0.last());
        assert(p0.drop_last() =~= Seq::new((h - 1) as nat, |j: int| d0(j + 1)));
        builder_clauses_are_the_seq_contract(d0, d1, h - 1, h2);
    }
}

// ---- the walk of Tr::from_tree: states between two nodes (derived from the code) --------------------------------------------------------
// the node at index `lo` comes next; it is the root of the subtree at the end of the builder's path; the leaves pushed so far are those to its left
pub open spec fn walk_open(ns: Seq<TreeNode>, x: int, s: Shape, path: Seq<bool>, lo: int, pushed: int) -> bool {
    sh_path_ok(s, path) && lo == xnode(ns, x, path) && pushed == sh_before(s, path)
}
pub open spec fn walk_done(ns: Seq<TreeNode>, x: int, s: Shape, lo: int, pushed: int) -> bool { lo == rmd(ns, x) + 1 && pushed == sh_leaves(s) }
// what has been pushed so far: depths as listed, leaves parsed from the leaf nodes in pre-order
pub open spec fn walk_pushed<Pk: MiniscriptKey>(ns: Seq<TreeNode>, x: int, s: Shape, dl: Seq<(u8, Arc<Miniscript<Pk, Tap>>)>) -> bool {
    &&& dl.len() <= sh_leaves(s)
    &&& forall|j: int| 0 <= j < dl.len() ==> (#[trigger] dl[j]).0 == depths_of(s, 0)[j]
    &&& forall|j: int| 0 <= j < dl.len() ==> spec_ms_from_tree::<Pk, Tap>(ns, leaf_nodes(ns, x, s)[j]) == Ok::<Miniscript<Pk, Tap>, Error>(*(#[trigger] dl[j]).1)
}
// an inner node: one level down, into its left child
pub proof fn lemma_walk_inner(ns: Seq<TreeNode>, x: int, s: Shape, path: Seq<bool>, lo: int, pushed: int)
    requires wf_tree(ns), spells(ns, x, s), walk_open(ns, x, s, path, lo, pushed), ns[lo].parens == Parens::Curly,
    ensures walk_open(ns, x, s, path.push(false), lo + 1, pushed), lo + 1 <= rmd(ns, x), nch(ns, lo) == 2, path.len() < sh_height(s),
{
    lemma_spells_at(ns, x, s, path);
    lemma_sh_push(s, path, false);
    lemma_spells_at(ns, x, s, path.push(false));
    lemma_sh_bounds(s, path);
}
// a script: it is leaf number `pushed`, it hangs at the depth of the builder's cursor, and the walk continues behind its block
pub proof fn lemma_walk_leaf(ns: Seq<TreeNode>, x: int, s: Shape, path: Seq<bool>, lo: int, pushed: int)
    requires wf_tree(ns), spells(ns, x, s), walk_open(ns, x, s, path, lo, pushed), ns[lo].parens != Parens::Curly,
    ensures pushed < sh_leaves(s), depths_of(s, 0)[pushed] == path.len(), leaf_nodes(ns, x, s)[pushed] == lo, x <= lo <= rmd(ns, lo) <= rmd(ns, x),
            carry(path).len() > 0 ==> walk_open(ns, x, s, carry(path), rmd(ns, lo) + 1, pushed + 1) && rmd(ns, lo) + 1 <= rmd(ns, x),
            carry(path).len() == 0 ==> walk_done(ns, x, s, rmd(ns, lo) + 1, pushed + 1),
{
    lemma_spells_at(ns, x, s, path);
    lemma_sh_next(s, path);
    lemma_carry(s, path);
    lemma_carry_xnode(ns, x, s, path);
    lemma_leaf_nodes_at(ns, x, s, path);
    let sl = leaf_nodes(ns, x, s).subrange(pushed, pushed + 1);
    assert(sl[0] == leaf_nodes(ns, x, s)[pushed]);
    if carry(path).len() > 0 { lemma_spells_at(ns, x, s, carry(path)); }
}
"""

EXPECTED_PUSH_LEAF_SIG = "fn push_leaf<A: Into<Arc<Miniscript<Pk, Tap>>>>(&mut self, ms: A)"


@rule("R6-push-leaf-specialised")
def push_leaf_specialise(text):
    """`push_leaf<A: Into<Arc<Miniscript>>>(&mut self, ms: A)` specialised to the Miniscript argument its only call site passes (`ms.into()` = Arc::new(ms))"""
    if re.sub(r"\s+", " ", EXPECTED_PUSH_LEAF_SIG) not in re.sub(r"\s+", " ", text):
        return None
    return re.sub(r"fn\s+push_leaf<A:\s*Into<Arc<Miniscript<Pk,\s*Tap>>>>\(&mut self,\s*ms:\s*A\)", "fn push_leaf(&mut self, ms: Miniscript<Pk, Tap>)", text)


@rule("R10-from-tree-walk")
def annotate_from_tree(text):
    """ghost scaffolding for the walk of Tr::from_tree; every local name is read off the text"""
    ROOT = _need(re.search(r"fn\s+from_tree\(\s*(\w+)\s*:", text), "parameter ROOT").group(1)
    mb = _need(re.search(r"let\s+mut\s+(\w+)\s*=\s*(?:taptree::)?TapTreeBuilder::new\(\)\s*;", text), "`let mut BUILDER = TapTreeBuilder::new();`")
    B = mb.group(1)
    mi = _need(re.search(r"let\s+mut\s+(\w+)\s*=\s*(\w+)\.pre_order_iter\(\)\s*;", text), "`let mut ITER = TAPTREE.pre_order_iter();`")
    IT, TT = mi.group(1), mi.group(2)
    mw = _need(re.search(r"while\s+let\s+Some\(\s*(\w+)\s*\)\s*=\s*%s\.next\(\)\s*\{" % IT, text), "`while let Some(NODE) = ITER.next() {`")
    NODE = mw.group(1)
    ow = mw.end() - 1
    cw = match_close(text, ow)
    d = dict(ROOT=ROOT, B=B, IT=IT, TT=TT, NODE=NODE)
    NS, X = "%(TT)s.nodes@" % d, "%(TT)s.index as int" % d
    d.update(NS=NS, X=X, LO="%(IT)s.inner.lo()" % d, HI="%(IT)s.inner.hi()" % d, DL="%(B)s.depths_leaves@" % d)
    d["OPEN"] = "(%(DL)s.len() == 0 || %(B)s.path().len() > 0)" % d
    d["DONE"] = "(%(DL)s.len() > 0 && %(B)s.path().len() == 0)" % d
    d["G"] = "spells(%(NS)s, %(X)s, tt_s) ==> " % d
    edits = []
    head, ret, where, body = split_fn(text)
    edits.append((len(text) - len(body) + 1, "\n        proof { assert(wf_node(%(ROOT)s.nodes@, %(ROOT)s.index as int)); }" % d))
    # the shape the TREE argument spells (if any): chosen once the argument is at hand
    edits.append((mb.start(), ("let ghost tt_s: Shape = choose|s: Shape| spells(%(NS)s, %(X)s, s);\n"
                               "        proof { assert(%(NS)s == %(ROOT)s.nodes@ && %(X)s == xtree_index(%(ROOT)s.nodes@, %(ROOT)s.index as int)); }\n        ") % d))
    edits.append((mi.end(), ("\n        proof { assert(wf_node(%(NS)s, %(X)s)); assert(%(B)s.path() =~= Seq::<bool>::empty()); }") % d))
    inv = ("\n            invariant\n"
           "                %(TT)s.valid(), %(IT)s.nodes == %(TT)s.nodes, %(HI)s == rmd(%(NS)s, %(X)s), %(HI)s < %(NS)s.len(), %(X)s <= %(LO)s,\n"
           "                %(B)s.inv(), //@inv builder_cursor_stays_within_128_levels [C15,C11]\n"
           "                %(DL)s.len() == 0 ==> %(LO)s <= %(HI)s, //@inv a_leaf_is_pushed_before_the_walk_ends [C11]\n"
           "                forall|j: int| 0 <= j < %(DL)s.len() ==> (#[trigger] %(DL)s[j]).0 <= 128, //@inv every_recorded_depth_is_at_most_128 [C15,C11]\n"
           "                %(G)s(%(OPEN)s ==> walk_open(%(NS)s, %(X)s, tt_s, %(B)s.path(), %(LO)s, %(DL)s.len() as int)), //@inv builder_path_leads_to_the_node_that_comes_next [C15,C10]\n"
           "                %(G)s(%(OPEN)s ==> %(LO)s <= %(HI)s), //@inv an_unfinished_tree_has_a_next_node [C15,C10]\n"
           "                %(G)s(%(DONE)s ==> walk_done(%(NS)s, %(X)s, tt_s, %(LO)s, %(DL)s.len() as int)), //@inv walk_ends_with_the_last_leaf [C15,C10]\n"
           "                %(G)swalk_pushed(%(NS)s, %(X)s, tt_s, %(DL)s), //@inv every_leaf_so_far_pushed_at_the_depth_of_its_node_in_preorder [C15,C10]\n"
           "            ensures\n"
           "                %(DL)s.len() > 0, //@inv walk_ended_after_a_leaf [C11]\n"
           "                forall|j: int| 0 <= j < %(DL)s.len() ==> (#[trigger] %(DL)s[j]).0 <= 128,\n"
           "                %(G)s%(DONE)s && %(DL)s.len() == sh_leaves(tt_s), //@inv walk_ended_with_the_last_leaf_of_the_tree [C15,C10]\n"
           "            decreases %(HI)s + 1 - %(LO)s\n        ") % d
    edits.append((ow, inv))
    edits.append((ow + 1, ("\n            let ghost tt_p0 = %(B)s.path(); let ghost tt_dl0 = %(DL)s; let ghost tt_lo0 = %(NODE)s.index as int;\n"
                           "            proof {\n"
                           "                lemma_rmd_nested(%(NS)s, %(X)s, tt_lo0);\n"
                           "                if spells(%(NS)s, %(X)s, tt_s) {\n"
                           "                    if %(NODE)s.nodes@[tt_lo0].parens == Parens::Curly { lemma_walk_inner(%(NS)s, %(X)s, tt_s, tt_p0, tt_lo0, tt_dl0.len() as int); }\n"
                           "                    else { lemma_walk_leaf(%(NS)s, %(X)s, tt_s, tt_p0, tt_lo0, tt_dl0.len() as int); }\n"
                           "                }\n"
                           "            }") % d))
    mpi = _need(re.search(r"%(B)s\.push_inner_node\(\)\s*\?\s*;" % d, text[ow:cw]), "`BUILDER.push_inner_node()?;`")
    edits.append((ow + mpi.end(), "\n                proof { if nch(%(NS)s, tt_lo0) >= 1 { lemma_has_descendant(%(NS)s, tt_lo0); } }" % d))
    mpl = _need(re.search(r"%(B)s\.push_leaf\(\s*(\w+)\s*\)\s*;" % d, text[ow:cw]), "`BUILDER.push_leaf(SCRIPT);`")
    msk = re.search(r"%(IT)s\.skip_descendants\(\)\s*;" % d, text[ow:cw])
    ghost_leaf = ("\n                proof {\n"
                  "                    assert forall|j: int| 0 <= j < %(DL)s.len() implies (#[trigger] %(DL)s[j]).0 <= 128 by { if j < tt_dl0.len() { assert(%(DL)s[j] == tt_dl0[j]); } }\n"
                  "                    if spells(%(NS)s, %(X)s, tt_s) {\n"
                  "                        assert forall|j: int| 0 <= j < %(DL)s.len() implies (#[trigger] %(DL)s[j]).0 == depths_of(tt_s, 0)[j] by { if j < tt_dl0.len() { assert(%(DL)s[j] == tt_dl0[j]); } }\n"
                  "                        assert forall|j: int| 0 <= j < %(DL)s.len() implies spec_ms_from_tree::<Pk, Tap>(%(NS)s, leaf_nodes(%(NS)s, %(X)s, tt_s)[j]) == Ok::<Miniscript<Pk, Tap>, Error>(*(#[trigger] %(DL)s[j]).1) by { if j < tt_dl0.len() { assert(%(DL)s[j] == tt_dl0[j]); } }\n"
                  "                    }\n"
                  "                }") % d
    edits.append((ow + max(mpl.end(), msk.end() if msk else 0), ghost_leaf))
    # after the loop: the result, for EVERY shape the argument spells (there is at most one)
    edits.append((cw + 1, ("\n        proof {\n"
                           "            assert forall|s: Shape| #[trigger] spells(%(NS)s, %(X)s, s) implies depths_of(s, 0) == %(B)s.depths() && walk_pushed(%(NS)s, %(X)s, s, %(DL)s)\n"
                           "                    && %(DL)s.len() == sh_leaves(s) && is_listing_of(%(B)s.depths(), s) && denote(%(B)s.depths()) == s by {\n"
                           "                spells_at_most_one_shape(%(NS)s, %(X)s, s, tt_s);\n"
                           "                lemma_sh_counts(s, 0);\n"
                           "                assert(%(B)s.depths() =~= depths_of(s, 0));\n"
                           "                lemma_listing_wf(%(B)s.depths(), s);\n"
                           "            }\n"
                           "        }") % d))
    return S._apply_edits(text, edits)


def emit_expression_types(vf):
    vf.item(TAPTREE, "struct:TapTreeDepthError", rewrites=[STRIP_DERIVE, sub("R1-attr", r"#\[non_exhaustive\]\s*", "", required=False)])
    vf.item(EXPR, "enum:Parens", rewrites=[sub("derive", r"#\[derive\([^)]*\)\]\s*", "#[derive(Copy, Clone, PartialEq, Eq)]\n")])
    vf.item(EXPR, "struct:TreeNode", rewrites=[C11.STRIP_DERIVE])
    vf.item(EXPR, "struct:TreeIterItem", rewrites=[C11.COPY_DERIVE])
    vf.item(EXPR, "struct:DirectChildIterator")
    vf.raw(PARSE_ERRORS)
    vf.trust("ValidationError / ValidationParams (opaque), enums ParseTreeError / ParseError / Error reduced to the variants constructed, From<TapTreeDepthError> for Error + FromSpecImpl glue, "
             "str_to_owned_ (arbitrary) / str_is_empty_ (len == 0), PartialEqSpecImpl for Parens (derived PartialEq is structural)", "error payloads are only moved around; std string helpers")


def emit_parse(vf, repo):
    c11 = C11.build(repo)

    def other(fq):
        f = c11.functions.get(fq)
        if f is None:
            raise Undecided("c11_policy_parse no longer contracts %s" % fq)
        items = [kc for _, kc in sorted(f["clauses"].items())]
        return Contract(requires=[c for k, c in items if k == "requires"], ensures=[c for k, c in items if k == "ensures"], canary=False)

    vf.raw(C11.MODEL)
    vf.trust("wf_tree (spec): ASSUMED shape of the TreeNode array behind every TreeIterItem (precondition `valid()`), text of units/c11_policy_parse.py MODEL",
             "what expression::Tree::from_str builds (pre-order array, parent_idx / n_children / last_child_idx consistent, blocks of descendants contiguous); not verified")
    for l in C11.MODEL_LEMMAS:
        C11._register(vf, l)
    vf.raw(C11.TREE_SPEC)
    for l in C11.TREE_LEMMAS:
        C11._register(vf, l)
    vf.trust("trait ChildMapper / spec_parse_num (text of units/c11_policy_parse.py TREE_SPEC; not used here)", "imported with the model")
    with vf.block("impl<'s> DirectChildIterator<'s>"):
        vf.fn(EXPR, "impl:Iterator for DirectChildIterator<'s>/fn:next", qual="DirectChildIterator", assumed=True,
              rewrites=[sub("R7-assoc", r"Option<Self::Item>", "Option<TreeIterItem<'s>>")], contract=other("DirectChildIterator::next"))
    with vf.block("impl<'s> TreeIterItem<'s>"):
        for f in ("name", "n_children", "children", "rightmost_descendant_idx"):
            vf.fn(EXPR, "impl:TreeIterItem<'s>/fn:%s" % f, qual="TreeIterItem", assumed=True, contract=other("TreeIterItem::%s" % f))
    vf.trust("DirectChildIterator::next, TreeIterItem::{name, n_children, children, rightmost_descendant_idx} (external_body): contracts proved in units/c11_policy_parse.py "
             "(same Clause objects, taken from that unit's build)", "proved on the real text there")
    vf.raw(RANGE_STUB)
    vf.trust("struct RangeInclusive { start, end, exhausted } + new / is_empty / start / end / next (verified transcription)", "core::ops::RangeInclusive<usize>: std's definition "
             "(`a..=b` = RangeInclusive::new(a, b); next() yields start and advances, the iteration that yields `end` sets `exhausted`; is_empty = exhausted || start > end)")
    vf.item(EXPR, "struct:PreOrderIter", rewrites=[sub("R7-std", r"core::ops::RangeInclusive<usize>", "RangeInclusive")])
    NS, I = "self.nodes@", "self.index as int"
    with vf.block("impl<'s> TreeIterItem<'s>"):
        vf.fn(EXPR, "impl:TreeIterItem<'s>/fn:parens", qual="TreeIterItem", props=("C10", "C11"),
              contract=Contract(requires=["self.valid()"], ensures=[C("def", "r == %s[%s].parens" % (NS, I), ("C10",))]))
        vf.fn(EXPR, "impl:TreeIterItem<'s>/fn:pre_order_iter", qual="TreeIterItem", props=("C10", "C11"),
              rewrites=[sub("R7-range", r"(\binner\s*:\s*)([^,{};]+?)\s*\.\.=\s*([^,{};]+?)(\s*[,}])", r"\1RangeInclusive::new(\2, \3)\4")],
              contract=Contract(requires=["self.valid()"], ensures=[
                  C("covers_the_node_and_its_descendants", "r.nodes == self.nodes && r.inner.lo() == self.index && r.inner.hi() == rmd(%s, %s)" % (NS, I), ("C10",))]))
    with vf.block("impl<'s> PreOrderIter<'s>"):
        vf.fn(EXPR, "impl:Iterator for PreOrderIter<'s>/fn:next", qual="PreOrderIter", props=("C10", "C11"),
              rewrites=[sub("R7-assoc", r"Option<Self::Item>", "Option<TreeIterItem<'s>>"), C11.ITEM_CLOSURE],
              contract=Contract(ensures=[
                  C("yields_the_nodes_in_array_order", "old(self).inner.lo() <= old(self).inner.hi() ==> r is Some && r->Some_0.nodes == old(self).nodes && r->Some_0.index == old(self).inner.lo() "
                    "&& final(self).inner.lo() == old(self).inner.lo() + 1", ("C10",)),
                  C("none_when_exhausted", "old(self).inner.lo() > old(self).inner.hi() ==> r is None && final(self).inner.lo() == old(self).inner.lo()", ("C10",)),
                  C("frame", "final(self).nodes == old(self).nodes && final(self).inner.hi() == old(self).inner.hi()", ())]))
        LI = "(old(self).inner.lo() - 1)"
        vf.fn(EXPR, "impl:PreOrderIter<'_>/fn:skip_descendants", qual="PreOrderIter", props=("C10", "C11"),
              rewrites=[sub("R7-range", r"(self\.inner\s*=\s*)([^;=]+?)\s*\.\.=\s*([^;]+?)\s*;", r"\1RangeInclusive::new(\2, \3);"),
                        sub("R10", r"(let\s+(\w+)\s*=\s*TreeIterItem\s*\{[^}]*\}\s*;)", r"\1\n        proof { assert(wf_node(\2.nodes@, \2.index as int)); }")],
              contract=Contract(requires=["wf_tree(old(self).nodes@)", "old(self).inner.hi() < old(self).nodes@.len()", "old(self).inner.lo() >= 1",
                                          "old(self).inner.lo() <= old(self).inner.hi() ==> rmd(old(self).nodes@, old(self).inner.lo() - 1) <= old(self).inner.hi()"],
                                ensures=[
                  C("continues_behind_the_descendants_of_the_last_node", "old(self).inner.lo() <= old(self).inner.hi() ==> final(self).inner.lo() == rmd(old(self).nodes@, %s) + 1" % LI, ("C10",)),
                  C("nothing_to_skip_when_exhausted", "old(self).inner.lo() > old(self).inner.hi() ==> final(self).inner.lo() == old(self).inner.lo()", ("C10",)),
                  C("frame", "final(self).nodes == old(self).nodes && final(self).inner.hi() == old(self).inner.hi()", ())]))
    # ---- TapTreeBuilder ------------------------------------------------------------------------------------------------------------------
    vf.item(TAPTREE, "struct:TapTreeBuilder")
    vf.raw(PARSE_STUBS)
    vf.trust("Miniscript::from_tree (external_body: an uninterpreted FUNCTION of the node), Miniscript::validate / Tap::CONSENSUS (arbitrary), verify_toplevel_ / verify_n_children_ "
             "(R14 targets; Ok ==> / <==> the number of children is in the range), TreeIterItem::verify_terminal (arbitrary)",
             "text-level parsing and validation are units c10_notation / c12_from_tree's; verify_n_children's text: Ok iff `n_children.contains(&self.n_children())`")
    vf.spec_obligation("oracle::expression_tree_spells_a_shape_and_walk_states", S._novis(PARSE_SPEC), P1510)
    vf.trust("uninterp bit_of(u128, int), axiom_zero_word_has_no_bits (external_body proof fn)", "bit i of complete_heights; the bit arithmetic of TapTreeBuilder::push_leaf is decided by Kani "
             "(k15_taptree), only its Seq-level contract is consumed; the word 0 has no bit set (TapTreeBuilder::new; Kani harness builder_new proves the same invariant)")
    with vf.block("impl<Pk: MiniscriptKey> TapTreeBuilder<Pk>"):
        vf.fn(TAPTREE, "impl:TapTreeBuilder<Pk>/fn:new", qual="TapTreeBuilder", props=("C15", "C11"),
              rewrites=[body_start("proof { axiom_zero_word_has_no_bits(); }")],
              contract=Contract(ensures=[C("empty_at_the_root", "r.inv() && r.path() == Seq::<bool>::empty() && r.depths_leaves@.len() == 0")]))
        vf.fn(TAPTREE, "impl:TapTreeBuilder<Pk>/fn:push_inner_node", qual="TapTreeBuilder", props=("C15", "C11"),
              rewrites=[sub("R10", r"(Ok\(\(\)\)\s*\}\s*)$", r"proof { assert(!lvl_done(self.complete_heights, self.complete_128, self.current_height as int)); assert(self.path() =~= old(self).path().push(false)); }\n        \1")],
              contract=Contract(requires=["old(self).inv()"], ensures=[
                  C("err_iff_depth_would_exceed_128", "r is Err <==> old(self).current_height + 1 > 128"),
                  C("descends_into_the_left_child", "r is Ok ==> final(self).inv() && final(self).path() == old(self).path().push(false)"),
                  C("leaves_unchanged", "final(self).depths_leaves == old(self).depths_leaves")]))
        vf.fn(TAPTREE, "impl:TapTreeBuilder<Pk>/fn:push_leaf", qual="TapTreeBuilder", assumed=True, rewrites=[push_leaf_specialise],
              contract=Contract(requires=["old(self).inv()"], ensures=[
                  C("records_the_leaf_at_the_cursor_depth", "final(self).depths_leaves@ == old(self).depths_leaves@.push(final(self).depths_leaves@.last()) "
                    "&& final(self).depths_leaves@.last().0 == old(self).current_height && *final(self).depths_leaves@.last().1 == ms"),
                  C("cursor_carries_to_the_next_unfinished_position", "final(self).inv() && final(self).path() == carry(old(self).path())")]))
        vf.fn(TAPTREE, "impl:TapTreeBuilder<Pk>/fn:finalize", qual="TapTreeBuilder", props=("C15", "C11"),
              contract=Contract(requires=["self.depths_leaves@.len() > 0"], ensures=[C("hands_the_leaves_over", "r.depths_leaves == self.depths_leaves")]))
    vf.trust("TapTreeBuilder::push_leaf (external_body, contract only; specialised to the Miniscript argument of its only call site)",
             "proved COMPLETE by Kani in unit k15_taptree (harnesses builder_push_leaf_h000_031 .. h120_128) with the same meaning: records (current_height, leaf); "
             "new cursor h2 = max { d <= h : d == 0 or !done(d) }, levels in (h2, h] cleared, done(h2) set, other levels unchanged, invariant kept  <=>  path' == carry(path) over "
             "path = [done(1) .. done(h)] (equivalence proved: builder_clauses_are_the_seq_contract)")
    # ---- Tr::from_tree ------------------------------------------------------------------------------------------------------------------------
    TR_FT = "impl:crate::expression::FromTree for Tr<Pk>/fn:from_tree"
    XT = "xtree_index(root.nodes@, root.index as int)"
    with vf.block("impl<Pk: MiniscriptKey> Tr<Pk>"):
        vf.fn(TRMOD, TR_FT, qual="Tr", props=("C15", "C10", "C11"),
              rewrites=[sub("R7-use", r"\buse (?:crate::)?expression::\{[^}]*\};\s*", "", required=False),
                        sub("R7", r"\b(?:(?:crate::)?expression|taptree)::", "", required=False),
                        sub("R14-verify", r"(\w+)\s*\.(verify_toplevel|verify_n_children)\(\s*(\"[^\"]*\")\s*,\s*(\d+)\s*\.\.=\s*(\d+)\s*\)\s*\.map_err\(From::from\)\s*\.map_err\(Error::Parse\)",
                            r"\2_(\1, \3, \4, \5)"),
                        C11.ETA, sub("R12", r"\bTap::CONSENSUS\b(?!\s*\()", "Tap::CONSENSUS()", required=False),
                        sub("R7-std", r"(\w+)\.name\(\)\.to_owned\(\)", r"str_to_owned_(\1.name())", required=False),
                        sub("R7-std", r"(\w+)\.name\(\)\.is_empty\(\)", r"str_is_empty_(\1.name())", required=False),
                        annotate_from_tree],
              contract=with_real_names(vf.repo, TRMOD, TR_FT, ["root"], Contract(requires=["root.valid()"], ensures=[
                  C("no_tree_argument_no_tree", "r is Ok && nch(root.nodes@, root.index as int) == 1 ==> r->Ok_0.tree is None", P1510),
                  C("depths_are_the_depths_of_the_shape_spelled", "r is Ok && nch(root.nodes@, root.index as int) == 2 ==> forall|s: Shape| #[trigger] spells(root.nodes@, %s, s) ==> "
                    "r->Ok_0.tree is Some && depths_of(s, 0) == tap_depths(r->Ok_0.tree->Some_0)" % XT, P1510),
                  C("leaves_are_the_scripts_in_preorder", "r is Ok && nch(root.nodes@, root.index as int) == 2 ==> forall|s: Shape| #[trigger] spells(root.nodes@, %s, s) ==> "
                    "r->Ok_0.tree is Some && walk_pushed(root.nodes@, %s, s, r->Ok_0.tree->Some_0.depths_leaves@) && r->Ok_0.tree->Some_0.depths_leaves@.len() == sh_leaves(s)" % (XT, XT), P1510),
                  C("parsed_tree_is_well_formed", "r is Ok && nch(root.nodes@, root.index as int) == 2 ==> forall|s: Shape| #[trigger] spells(root.nodes@, %s, s) ==> "
                    "r->Ok_0.tree is Some && wf_depths(tap_depths(r->Ok_0.tree->Some_0)) && denote(tap_depths(r->Ok_0.tree->Some_0)) == s" % XT, P1510),
              ]))[0])
        register_named_invariants(vf, "Tr::from_tree")
    # the hypothesis of the parse clauses is not contradictory (must FAIL): a well-formed array whose node x spells {A,B}
    own_canary(vf, "oracle::spells_hypothesis", "", "ns: Seq<TreeNode>, x: int",
               ["wf_tree(ns)", "spells(ns, x, Shape::Node(Box::new(Shape::Leaf), Box::new(Shape::Leaf)))", "rmd(ns, x) == x + 2"])


def spendinfo_stubs():
    """c15_spendinfo's stubs of the crate / rust-bitcoin types its oracle mentions, without the BitStack128 part"""
    marker = "// ---- BitStack128"
    if marker not in S.STUBS:
        raise Undecided("c15_spendinfo.STUBS changed shape (marker)")
    return S.STUBS.split(marker)[0]


def build(repo):
    vf = VerusFile(NAME, repo)
    vf.raw(spendinfo_stubs())
    vf.trust("stub types / traits of unit c15_spendinfo (MiniscriptKey, ScriptContext, Tap, ToPublicKey, Miniscript (opaque, `encode` uninterpreted), the rust-bitcoin hash / key types, "
             "axiom_branch_hash_commutes)", "text of units/c15_spendinfo.py STUBS: needed only because that unit's ORACLE (Tree, listing, denotes, tap_tree_wf, denoted, uniqueness of the "
             "denotation) is imported verbatim; nothing Merkle-related is used by this unit's clauses")
    vf.item(TAPTREE, "struct:TapTree", rewrites=[STRIP_DERIVE])
    vf.item(TAPTREE, "struct:TapTreeIterItem", rewrites=[STRIP_DERIVE])
    vf.item(TRMOD, "struct:Tr", rewrites=[STRIP_DERIVE, sub("R9-field", r",?\s*spend_info\s*:\s*Mutex<[^\n]*>\s*,", ",")])
    vf.item(LIB, "enum:TranslateErr", rewrites=[sub("vis", r"^enum TranslateErr", "pub enum TranslateErr")])
    with vf.block("impl<E> From<E> for TranslateErr<E>"):
        vf.fn(LIB, "impl:From<E> for TranslateErr<E>/fn:from", qual="TranslateErr", props=P11)
    emit_expression_types(vf)
    vf.raw(S._novis(S.ORACLE))
    vf.spec_obligation("oracle::shapes_depth_lists_round_trip", S._novis(SHAPE), P15)
    vf.spec_obligation("oracle::bridge_to_the_leaf_carrying_trees", S._novis(BRIDGE), P15)
    vf.raw(TRANSLATE_STUBS)
    vf.trust("trait Translator { spec_pk, spec_pk_state; fn pk }, uninterp ms_translate / ms_translate_state, Miniscript::translate_pk (external_body)",
             "the translator is a state machine: `pk` and the whole-miniscript translation are uninterpreted FUNCTIONS of (state before, argument) returning (result, state after); "
             "what the miniscript translation does per node is unit c20_translate's")
    vf.trust("FromSpecImpl<E> for TranslateErr<E> (glue)", "spec of the extracted `impl<E> From<E> for TranslateErr<E>` (its body is verified text)")
    vf.trust("impl PartialEq for Miniscript (external_body, arbitrary verdict)", "not used by the unchanged text; present so that code comparing leaves is judged, not rejected")
    vf.trust("Tr::new (external_body): Ok iff tap_pk_ok(internal key) (uninterpreted), Ok keeps key and tree", "read off its two-line body (Tap::check_pk + struct literal; Mutex field not representable), "
             "as in c20_translate / c12_from_tree (which verifies that text)")
    emit_translate(vf)
    emit_fmt(vf)
    emit_display(vf)
    emit_parse(vf, repo)
    return vf
