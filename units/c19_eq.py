"""C19 unit (1/3): `impl PartialEq / Hash / Clone for Terminal`, `Clone for Miniscript` -- per-pair /
per-node steps -- and the composition lemma for zipped pre-order traversals.

Oracle (mathematics, not the code): two nodes carry the same information iff they are the same variant
and have the same node-local payload (`payload`, written from the Miniscript grammar: what a fragment
carries besides its sub-expressions) -- children are compared by later pairs, their NUMBER (arity) is part
of the node.  Equality must be exactly that, the hash feed must be a function of exactly that, cloning
must preserve exactly that plus the child positions.

The shared prelude (leaf-type laws, payload oracle, hashing model) is also used by c19_ord / c19_tr.
"""
import re

from vlib.verus import VerusFile, Contract, Clause, sub, lit, replace_arm
from units import _tree

NAME = "c19_eq"
ENGINE = "verus"
PROPS = ("C19", "C11")
DECODE = "src/miniscript/decode.rs"
MSMOD = "src/miniscript/mod.rs"

DROPPED = [
    "Terminal::eq / Terminal::hash: the `for .. in pre_order_iter().zip(..)` loop and the final `true` are dropped; the per-pair `match` arms are cut verbatim "
    "into eq_step / hash_step (step result `true` = the loop continues).  The composition (pairwise agreement incl. arities => equal trees and equal length) is "
    "lemma preorder_zip_complete; that pre_order_iter yields the pre-order sequence is the traversal contract (DESIGN 3.2)",
    "Miniscript::clone: the rtl_post_order_iter loop and the `stack.push(Arc::new(Self{..}))` are dropped; the Thresh arm (closure capturing &mut stack) is excluded (R9)",
    "Terminal::clone: the Thresh arm (`map_ref` with a closure) is excluded (R9); Miniscript::clone is consumed through its contract (deep copy == original)",
]

# the real bounds of `MiniscriptKey` (src/lib.rs: Clone + Eq + Ord + Debug + Display + Hash, same for the associated hash types)
# restricted to what the extracted text uses
BOUNDS = "Pk: MiniscriptKey + PartialEq + Eq + PartialOrd + Ord + Hash, Ctx: ScriptContext"
WHERE = ("where Pk::Sha256: PartialEq + Eq + PartialOrd + Ord + Hash, Pk::Hash256: PartialEq + Eq + PartialOrd + Ord + Hash, "
         "Pk::Ripemd160: PartialEq + Eq + PartialOrd + Ord + Hash, Pk::Hash160: PartialEq + Eq + PartialOrd + Ord + Hash")

VARIANTS = ["True", "False", "PkK", "PkH", "RawPkH", "After", "Older", "Sha256", "Hash256", "Ripemd160", "Hash160",
            "Alt", "Swap", "Check", "DupIf", "Verify", "NonZero", "ZeroNotEqual", "AndV", "AndB", "AndOr",
            "OrB", "OrD", "OrC", "OrI", "Thresh", "Multi", "SortedMulti", "MultiA", "SortedMultiA"]
DATA_LEAVES = ["PkK", "PkH", "RawPkH", "After", "Older", "Sha256", "Hash256", "Ripemd160", "Hash160"]
MULTIS = ["Multi", "SortedMulti", "MultiA", "SortedMultiA"]
UNARY = ["Alt", "Swap", "Check", "DupIf", "Verify", "NonZero", "ZeroNotEqual"]
BINARY = ["AndV", "AndB", "OrB", "OrD", "OrC", "OrI"]

# ------------------------------------------------------------------------------------------------
# leaf-type laws (assumptions about types outside the unit: keys, hashes, lock times)
# ------------------------------------------------------------------------------------------------
LEAF_LAWS = r"""
use core::cmp;
use core::cmp::Ordering;
use vstd::std_specs::cmp::{PartialEqSpec, OrdSpec, PartialOrdSpec};

// ---- laws of the leaf types (key, hashes): their own Eq / Ord / Clone impls are outside the crate ----
// `==` on a leaf type decides identity of values (Eq is an equivalence that distinguishes everything the
// type can express; for String / bitcoin::PublicKey / DescriptorPublicKey / hash types these are derives)
spec fn eq_structural<T: PartialEq>() -> bool {
    T::obeys_eq_spec() && forall|a: T, b: T| #[trigger] a.eq_spec(&b) <==> a == b
}
// `cmp` on a leaf type is a total order whose Equal is identity
spec fn ord_structural<T: Ord>() -> bool {
    &&& T::obeys_cmp_spec()
    &&& forall|a: T, b: T| (#[trigger] a.cmp_spec(&b) == Ordering::Equal) <==> a == b
    &&& forall|a: T, b: T| #[trigger] a.cmp_spec(&b) == rev(b.cmp_spec(&a))
    &&& forall|a: T, b: T, c: T| #[trigger] a.cmp_spec(&b) == Ordering::Less && #[trigger] b.cmp_spec(&c) == Ordering::Less ==> a.cmp_spec(&c) == Ordering::Less
}
spec fn clone_structural<T: Clone>() -> bool { forall|a: T, b: T| #[trigger] call_ensures(T::clone, (&a,), b) ==> a == b }
spec fn rev(o: Ordering) -> Ordering { match o { Ordering::Less => Ordering::Greater, Ordering::Equal => Ordering::Equal, Ordering::Greater => Ordering::Less } }

spec fn key_eq_laws<Pk: MiniscriptKey + PartialEq>() -> bool
    where Pk::Sha256: PartialEq, Pk::Hash256: PartialEq, Pk::Ripemd160: PartialEq, Pk::Hash160: PartialEq
{
    eq_structural::<Pk>() && eq_structural::<Pk::Sha256>() && eq_structural::<Pk::Hash256>()
    && eq_structural::<Pk::Ripemd160>() && eq_structural::<Pk::Hash160>()
}
spec fn key_clone_laws<Pk: MiniscriptKey>() -> bool {
    clone_structural::<Pk>() && clone_structural::<Pk::Sha256>() && clone_structural::<Pk::Hash256>()
    && clone_structural::<Pk::Ripemd160>() && clone_structural::<Pk::Hash160>()
}

// ---- glue for the stubbed concrete leaf types (derived impls in `bitcoin` / src/primitives) -------
impl vstd::std_specs::cmp::PartialEqSpecImpl for AbsLockTime {
    open spec fn obeys_eq_spec() -> bool { true }
    open spec fn eq_spec(&self, other: &AbsLockTime) -> bool { *self == *other }
}
impl vstd::std_specs::cmp::PartialEqSpecImpl for RelLockTime {
    open spec fn obeys_eq_spec() -> bool { true }
    open spec fn eq_spec(&self, other: &RelLockTime) -> bool { *self == *other }
}
impl vstd::std_specs::cmp::PartialEqSpecImpl for hash160::Hash {
    open spec fn obeys_eq_spec() -> bool { true }
    open spec fn eq_spec(&self, other: &hash160::Hash) -> bool { *self == *other }
}

// ---- Threshold { k, inner }: #[derive(PartialEq, Clone, Hash, ..)] in src/primitives/threshold.rs ----
// assumption: the derive compares / clones field-wise, Vec<T> element-wise
impl<T: PartialEq, const MAX: usize> PartialEq for Threshold<T, MAX> {
    #[verifier::external_body]
    fn eq(&self, other: &Self) -> bool { self.k == other.k && self.inner == other.inner }
}
impl<T: PartialEq, const MAX: usize> vstd::std_specs::cmp::PartialEqSpecImpl for Threshold<T, MAX> {
    closed spec fn obeys_eq_spec() -> bool { T::obeys_eq_spec() }
    closed spec fn eq_spec(&self, other: &Self) -> bool {
        &&& self.k == other.k
        &&& self.inner@.len() == other.inner@.len()
        &&& forall|i: int| 0 <= i < self.inner@.len() ==> #[trigger] self.inner@[i].eq_spec(&other.inner@[i])
    }
}
proof fn lemma_threshold_eq<T: PartialEq, const MAX: usize>()
    requires eq_structural::<T>(),
    ensures Threshold::<T, MAX>::obeys_eq_spec(),
        forall|a: Threshold<T, MAX>, b: Threshold<T, MAX>| #[trigger] a.eq_spec(&b) <==> (a.k == b.k && a.inner@ == b.inner@),
{
    assert forall|a: Threshold<T, MAX>, b: Threshold<T, MAX>| #[trigger] a.eq_spec(&b) <==> (a.k == b.k && a.inner@ == b.inner@) by {
        if a.eq_spec(&b) {
            assert forall|i: int| 0 <= i < a.inner@.len() implies a.inner@[i] == b.inner@[i] by { assert(a.inner@[i].eq_spec(&b.inner@[i])); }
            assert(a.inner@ =~= b.inner@);
        }
        if a.k == b.k && a.inner@ == b.inner@ {
            assert forall|i: int| 0 <= i < a.inner@.len() implies #[trigger] a.inner@[i].eq_spec(&b.inner@[i]) by { }
        }
    }
}
"""

# ------------------------------------------------------------------------------------------------
# the oracle: variant index, node-local payload, arity
# ------------------------------------------------------------------------------------------------
def oracle_text():
    vid = "\n".join("        Terminal::%s%s => %d," % (v, "" if v in ("True", "False") else "(..)", i) for i, v in enumerate(VARIANTS))
    return r"""
// ---- oracle: what a fragment node carries besides its sub-expressions (Miniscript grammar) ---------
ghost enum Payload<Pk: MiniscriptKey> {
    Plain,                              // 0, 1, wrappers, and_*, or_*, andor: nothing node-local
    Key(Pk),                            // pk_k, pk_h
    RawHash(hash160::Hash),             // expr_raw_pkh
    After(AbsLockTime),
    Older(RelLockTime),
    Sha256(Pk::Sha256), Hash256(Pk::Hash256), Ripemd160(Pk::Ripemd160), Hash160(Pk::Hash160),
    KN(usize, nat),                     // thresh: threshold value k and the number n of sub-expressions
    Keys(usize, Seq<Pk>),               // multi, sortedmulti, multi_a, sortedmulti_a: k and the key sequence
}
spec fn vidx<Pk: MiniscriptKey, Ctx: ScriptContext>(t: Terminal<Pk, Ctx>) -> int {
    match t {
%s
    }
}
spec fn payload<Pk: MiniscriptKey, Ctx: ScriptContext>(t: Terminal<Pk, Ctx>) -> Payload<Pk> {
    match t {
        Terminal::PkK(k) => Payload::Key(k),
        Terminal::PkH(k) => Payload::Key(k),
        Terminal::RawPkH(h) => Payload::RawHash(h),
        Terminal::After(t) => Payload::After(t),
        Terminal::Older(t) => Payload::Older(t),
        Terminal::Sha256(h) => Payload::Sha256(h),
        Terminal::Hash256(h) => Payload::Hash256(h),
        Terminal::Ripemd160(h) => Payload::Ripemd160(h),
        Terminal::Hash160(h) => Payload::Hash160(h),
        Terminal::Thresh(th) => Payload::KN(th.k, th.inner@.len()),
        Terminal::Multi(th) => Payload::Keys(th.k, th.inner@),
        Terminal::SortedMulti(th) => Payload::Keys(th.k, th.inner@),
        Terminal::MultiA(th) => Payload::Keys(th.k, th.inner@),
        Terminal::SortedMultiA(th) => Payload::Keys(th.k, th.inner@),
        _ => Payload::Plain,
    }
}
spec fn same_payload<Pk: MiniscriptKey, Ctx: ScriptContext>(a: Terminal<Pk, Ctx>, b: Terminal<Pk, Ctx>) -> bool {
    vidx(a) == vidx(b) && payload(a) == payload(b)
}
// number of sub-expressions
spec fn arity<Pk: MiniscriptKey, Ctx: ScriptContext>(t: Terminal<Pk, Ctx>) -> nat {
    match t {
        Terminal::Alt(..) | Terminal::Swap(..) | Terminal::Check(..) | Terminal::DupIf(..) | Terminal::Verify(..)
        | Terminal::NonZero(..) | Terminal::ZeroNotEqual(..) => 1,
        Terminal::AndV(..) | Terminal::AndB(..) | Terminal::OrB(..) | Terminal::OrD(..) | Terminal::OrC(..) | Terminal::OrI(..) => 2,
        Terminal::AndOr(..) => 3,
        Terminal::Thresh(th) => th.inner@.len(),
        _ => 0,
    }
}
// i-th sub-expression, source order
spec fn child<Pk: MiniscriptKey, Ctx: ScriptContext>(t: Terminal<Pk, Ctx>, i: int) -> Miniscript<Pk, Ctx> {
    match t {
        Terminal::Alt(x) | Terminal::Swap(x) | Terminal::Check(x) | Terminal::DupIf(x) | Terminal::Verify(x)
        | Terminal::NonZero(x) | Terminal::ZeroNotEqual(x) => *x,
        Terminal::AndV(x, y) | Terminal::AndB(x, y) | Terminal::OrB(x, y) | Terminal::OrD(x, y) | Terminal::OrC(x, y)
        | Terminal::OrI(x, y) => if i == 0 { *x } else { *y },
        Terminal::AndOr(x, y, z) => if i == 0 { *x } else if i == 1 { *y } else { *z },
        Terminal::Thresh(th) => *th.inner@[i],
        _ => arbitrary(),
    }
}
// the payload determines the arity: same_payload pairs have the same number of children
proof fn same_payload_same_arity<Pk: MiniscriptKey, Ctx: ScriptContext>(a: Terminal<Pk, Ctx>, b: Terminal<Pk, Ctx>)
    requires same_payload(a, b),
    ensures arity(a) == arity(b),
{
}
""" % vid


# ------------------------------------------------------------------------------------------------
# mem::discriminant stub and the hashing model
# ------------------------------------------------------------------------------------------------
HASH_MODEL = r"""
// ---- mem::discriminant: stubbed as the variant index (R7) -----------------------------------------
struct Discriminant(u8);
impl PartialEq for Discriminant { fn eq(&self, other: &Self) -> bool { self.0 == other.0 } }
impl vstd::std_specs::cmp::PartialEqSpecImpl for Discriminant {
    closed spec fn obeys_eq_spec() -> bool { true }
    closed spec fn eq_spec(&self, other: &Self) -> bool { self.0 == other.0 }
}
struct mem;
impl mem {
    #[verifier::external_body]
    fn discriminant<Pk: MiniscriptKey, Ctx: ScriptContext>(t: &Terminal<Pk, Ctx>) -> (r: Discriminant)
        ensures r.0 as int == vidx(*t),
    { unimplemented!() }
}

// ---- hashing model (R7): core::hash::{Hash, Hasher} -> a Hasher is the sequence of items fed so far ----
ghost enum HItem { Disc(int), Usize(usize), U8(u8), Len(nat), Leaf(int, int) }
trait Hasher { spec fn feed(&self) -> Seq<HItem>; }
trait Hash {
    // what a value feeds is a function of the value (equal values feed equally: the leaf types' Hash/Eq law)
    spec fn hitems(&self) -> Seq<HItem>;
    fn hash<H: Hasher>(&self, state: &mut H)
        ensures final(state).feed() == old(state).feed() + self.hitems();
}
spec fn flat_items<T: Hash>(s: Seq<T>) -> Seq<HItem> decreases s.len() {
    if s.len() == 0 { Seq::empty() } else { flat_items(s.drop_last()) + s.last().hitems() }
}
impl Hash for Discriminant {
    closed spec fn hitems(&self) -> Seq<HItem> { seq![HItem::Disc(self.0 as int)] }
    #[verifier::external_body] fn hash<H: Hasher>(&self, state: &mut H) { unimplemented!() }
}
impl Hash for usize {
    closed spec fn hitems(&self) -> Seq<HItem> { seq![HItem::Usize(*self)] }
    #[verifier::external_body] fn hash<H: Hasher>(&self, state: &mut H) { unimplemented!() }
}
impl Hash for u8 {
    closed spec fn hitems(&self) -> Seq<HItem> { seq![HItem::U8(*self)] }
    #[verifier::external_body] fn hash<H: Hasher>(&self, state: &mut H) { unimplemented!() }
}
impl Hash for AbsLockTime {
    closed spec fn hitems(&self) -> Seq<HItem> { seq![HItem::Leaf(1, self.0 as int)] }
    #[verifier::external_body] fn hash<H: Hasher>(&self, state: &mut H) { unimplemented!() }
}
impl Hash for RelLockTime {
    closed spec fn hitems(&self) -> Seq<HItem> { seq![HItem::Leaf(2, self.0 as int)] }
    #[verifier::external_body] fn hash<H: Hasher>(&self, state: &mut H) { unimplemented!() }
}
impl Hash for hash160::Hash {
    uninterp spec fn hitems(&self) -> Seq<HItem>;
    #[verifier::external_body] fn hash<H: Hasher>(&self, state: &mut H) { unimplemented!() }
}
// derived Hash of Threshold { k, inner: Vec<T> }: k, then the Vec (length prefix, then the elements)
impl<T: Hash, const MAX: usize> Hash for Threshold<T, MAX> {
    closed spec fn hitems(&self) -> Seq<HItem> { seq![HItem::Usize(self.k), HItem::Len(self.inner@.len())] + flat_items(self.inner@) }
    #[verifier::external_body] fn hash<H: Hasher>(&self, state: &mut H) { unimplemented!() }
}

// oracle: the feed of a node is the variant tag followed by an encoding of the payload -- a function of
// (variant, payload) only, hence  same_payload(a, b) ==> node_feed(a) == node_feed(b)
spec fn payload_feed<Pk: MiniscriptKey + Hash>(p: Payload<Pk>) -> Seq<HItem>
    where Pk::Sha256: Hash, Pk::Hash256: Hash, Pk::Ripemd160: Hash, Pk::Hash160: Hash
{
    match p {
        Payload::Plain => Seq::empty(),
        Payload::Key(k) => k.hitems(),
        Payload::RawHash(h) => h.hitems(),
        Payload::After(t) => t.hitems(),
        Payload::Older(t) => t.hitems(),
        Payload::Sha256(h) => h.hitems(),
        Payload::Hash256(h) => h.hitems(),
        Payload::Ripemd160(h) => h.hitems(),
        Payload::Hash160(h) => h.hitems(),
        Payload::KN(k, n) => seq![HItem::Usize(k), HItem::Usize(n as usize)],
        Payload::Keys(k, keys) => seq![HItem::Usize(k), HItem::Len(keys.len())] + flat_items(keys),
    }
}
spec fn node_feed<Pk: MiniscriptKey + Hash, Ctx: ScriptContext>(t: Terminal<Pk, Ctx>) -> Seq<HItem>
    where Pk::Sha256: Hash, Pk::Hash256: Hash, Pk::Ripemd160: Hash, Pk::Hash160: Hash
{
    seq![HItem::Disc(vidx(t))] + payload_feed(payload(t))
}
"""


# ------------------------------------------------------------------------------------------------
# cloning model
# ------------------------------------------------------------------------------------------------
CLONE_MODEL = r"""
// ---- cloning -----------------------------------------------------------------------------------
// "copy is a faithful deep copy of orig": the relation both clone implementations propagate bottom-up.
// It is deliberately uninterpreted: the per-node obligations below are its induction step
// (same variant, same payload, faithful copies of the children IN THE SAME POSITIONS).
uninterp spec fn ms_same<Pk: MiniscriptKey, Ctx: ScriptContext>(orig: Miniscript<Pk, Ctx>, copy: Miniscript<Pk, Ctx>) -> bool;
spec fn node_same<Pk: MiniscriptKey, Ctx: ScriptContext>(orig: Terminal<Pk, Ctx>, copy: Terminal<Pk, Ctx>) -> bool {
    &&& vidx(copy) == vidx(orig)
    &&& payload(copy) == payload(orig)
    &&& arity(copy) == arity(orig)
    &&& forall|i: int| 0 <= i < arity(orig) ==> ms_same(#[trigger] child(orig, i), child(copy, i))
}
// derived Clone of Threshold { k, inner: Vec<T> }: field-wise, Vec element-wise
// (inherent stand-in for the derived trait method: `thresh.clone()` resolves to it)
impl<T: Clone, const MAX: usize> Threshold<T, MAX> {
    #[verifier::external_body]
    fn clone(&self) -> (r: Self) ensures threshold_cloned(*self, r) { unimplemented!() }
}
spec fn threshold_cloned<T: Clone, const MAX: usize>(a: Threshold<T, MAX>, r: Threshold<T, MAX>) -> bool {
    &&& r.k == a.k
    &&& r.inner@.len() == a.inner@.len()
    &&& forall|i: int| 0 <= i < a.inner@.len() ==> cloned(#[trigger] a.inner@[i], r.inner@[i])
}
proof fn lemma_threshold_clone<T: Clone, const MAX: usize>()
    requires clone_structural::<T>(),
    ensures forall|a: Threshold<T, MAX>, r: Threshold<T, MAX>| #[trigger] threshold_cloned(a, r) ==> r.k == a.k && r.inner@ == a.inner@,
{
    assert forall|a: Threshold<T, MAX>, r: Threshold<T, MAX>| #[trigger] threshold_cloned(a, r) implies r.k == a.k && r.inner@ == a.inner@ by {
        assert(r.inner@ =~= a.inner@);
    }
}
// Miniscript::clone as seen by Terminal::clone (its own per-node step is clone_step below)
// (inherent stand-in: `Miniscript::clone(sub)` resolves to it)
impl<Pk: MiniscriptKey, Ctx: ScriptContext> Miniscript<Pk, Ctx> {
    #[verifier::external_body]
    fn clone(&self) -> (r: Self) ensures ms_same(*self, r) { unimplemented!() }
}
// R9 stand-ins for the two Thresh arms (closures); nothing is assumed about their results
#[verifier::external_body]
fn thresh_arm_excluded<Pk: MiniscriptKey, Ctx: ScriptContext>(thresh: &Threshold<Arc<Miniscript<Pk, Ctx>>, 0>) -> Terminal<Pk, Ctx> { unimplemented!() }
#[verifier::external_body]
fn thresh_pop_excluded<Pk: MiniscriptKey, Ctx: ScriptContext>(thresh: &Threshold<Arc<Miniscript<Pk, Ctx>>, 0>, stack: &mut Vec<Arc<Miniscript<Pk, Ctx>>>) -> Terminal<Pk, Ctx> { unimplemented!() }
// the item the rtl post-order iterator yields (PostOrderIterItem reduced to the field the arms read)
struct CloneItem<'a, Pk: MiniscriptKey, Ctx: ScriptContext> { node: &'a Miniscript<Pk, Ctx> }
// traversal contract of rtl_post_order_iter (DESIGN 3.2): when a node is visited, the results of its
// children are the top entries of the stack, the FIRST (leftmost) child on top
spec fn children_on_stack<Pk: MiniscriptKey, Ctx: ScriptContext>(orig: Terminal<Pk, Ctx>, stack: Seq<Arc<Miniscript<Pk, Ctx>>>) -> bool {
    &&& stack.len() >= arity(orig)
    &&& forall|i: int| 0 <= i < arity(orig) ==> ms_same(#[trigger] child(orig, i), *stack[stack.len() - 1 - i])
}
"""

# ------------------------------------------------------------------------------------------------
# composition: zipped pre-order traversals (spec level)
# ------------------------------------------------------------------------------------------------
PREORDER = r"""
// ---- composition of the per-pair steps: pre-order sequences of labelled trees ---------------------
// A tree node is (label, children); the traversal yields for every node the pair (label, number of
// children).  `Iterator::zip` stops at the shorter sequence, so a zipped loop only ever establishes
// agreement on the common prefix.
ghost struct Tree<L> { label: L, children: Seq<Tree<L>> }
spec fn item<L>(t: Tree<L>) -> (L, nat) { (t.label, t.children.len()) }
spec fn pre<L>(t: Tree<L>) -> Seq<(L, nat)> decreases t, 1nat { seq![item(t)] + pref(t.children) }
spec fn pref<L>(f: Seq<Tree<L>>) -> Seq<(L, nat)> decreases f, 0nat {
    if f.len() == 0 { Seq::empty() } else { pre(f[0]) + pref(f.drop_first()) }
}
// agreement of two sequences on their common prefix = what a zipped loop that never bails out has checked
spec fn agree<A>(a: Seq<A>, b: Seq<A>) -> bool { forall|i: int| 0 <= i < a.len() && i < b.len() ==> a[i] == b[i] }
"""

LEMMA_CONCAT = r"""
proof fn pref_concat<L>(a: Seq<Tree<L>>, b: Seq<Tree<L>>)
    ensures pref(a + b) == pref(a) + pref(b),
    decreases a.len(),
{
    if a.len() == 0 { assert(a + b =~= b); assert(pref(a) + pref(b) =~= pref(b)); }
    else {
        assert((a + b).drop_first() =~= a.drop_first() + b);
        assert((a + b)[0] == a[0]);
        pref_concat(a.drop_first(), b);
        assert(pref(a + b) =~= pref(a) + pref(b));
    }
}
"""
LEMMA_FOREST = r"""
proof fn forest_unique<L>(fa: Seq<Tree<L>>, fb: Seq<Tree<L>>)
    requires fa.len() == fb.len(), agree(pref(fa), pref(fb)),
    ensures fa == fb,
    decreases pref(fa).len(),
{
    if fa.len() == 0 { assert(fa =~= fb); }
    else {
        let t = fa[0]; let u = fb[0];
        let fa2 = t.children + fa.drop_first();
        let fb2 = u.children + fb.drop_first();
        pref_concat(t.children, fa.drop_first());
        pref_concat(u.children, fb.drop_first());
        assert(pref(fa) == pre(t) + pref(fa.drop_first()));
        assert(pre(t) == seq![item(t)] + pref(t.children));
        assert(pref(fa2) == pref(t.children) + pref(fa.drop_first()));
        assert(pref(fa) =~= seq![item(t)] + pref(fa2));
        assert(pref(fb) == pre(u) + pref(fb.drop_first()));
        assert(pre(u) == seq![item(u)] + pref(u.children));
        assert(pref(fb2) == pref(u.children) + pref(fb.drop_first()));
        assert(pref(fb) =~= seq![item(u)] + pref(fb2));
        assert(pref(fa)[0] == item(t));
        assert(pref(fb)[0] == item(u));
        assert(item(t) == item(u));                 // label AND arity agree at the first pair
        assert forall|i: int| 0 <= i < pref(fa2).len() && i < pref(fb2).len() implies pref(fa2)[i] == pref(fb2)[i] by {
            assert(pref(fa)[i + 1] == pref(fa2)[i]);
            assert(pref(fb)[i + 1] == pref(fb2)[i]);
        }
        forest_unique(fa2, fb2);
        let n = t.children.len() as int;
        assert(t.children =~= fa2.subrange(0, n));
        assert(u.children =~= fb2.subrange(0, n));
        assert(fa.drop_first() =~= fa2.subrange(n, fa2.len() as int));
        assert(fb.drop_first() =~= fb2.subrange(n, fb2.len() as int));
        assert(t == u);
        assert(fa =~= seq![t] + fa.drop_first());
        assert(fb =~= seq![u] + fb.drop_first());
    }
}
"""
LEMMA_ZIP = r"""
// THE composition lemma: if every zipped pair agrees on label AND arity, then the zip did not stop early
// (equal lengths) and the two trees are equal.  Hypothesis `agree(pre(a), pre(b))` = for every pair:
// same label (eq_step's `same_payload`) and same number of children.
proof fn preorder_zip_complete<L>(a: Tree<L>, b: Tree<L>)
    requires agree(pre(a), pre(b)),
    ensures a == b, pre(a).len() == pre(b).len(),
{
    assert(pref(seq![a]) =~= pre(a)) by { assert(seq![a].drop_first() =~= Seq::<Tree<L>>::empty()); assert(pref(Seq::<Tree<L>>::empty()) =~= Seq::empty()); }
    assert(pref(seq![b]) =~= pre(b)) by { assert(seq![b].drop_first() =~= Seq::<Tree<L>>::empty()); assert(pref(Seq::<Tree<L>>::empty()) =~= Seq::empty()); }
    forest_unique(seq![a], seq![b]);
    assert(seq![a][0] == seq![b][0]);
}
"""
LEMMA_NEEDED = r"""
// ... and the arity part of the hypothesis cannot be dropped: labels alone agree on the common prefix of
// thresh-like nodes with different numbers of children (the zip just stops), yet the trees differ.
// This is the hypothesis `impl PartialEq for Terminal` does not establish for Thresh (F2) and
// `impl Ord for Terminal` does not establish for thresh / multi* (F6).
spec fn labels<L>(s: Seq<(L, nat)>) -> Seq<L> { Seq::new(s.len(), |i: int| s[i].0) }
proof fn labels_alone_insufficient()
    ensures exists|a: Tree<int>, b: Tree<int>| agree(labels(pre(a)), labels(pre(b))) && a != b,
{
    let leaf = Tree::<int> { label: 7, children: Seq::empty() };
    let a = Tree::<int> { label: 1, children: seq![leaf, leaf] };
    let b = Tree::<int> { label: 1, children: seq![leaf] };
    assert(pref(Seq::<Tree<int>>::empty()) =~= Seq::empty());
    assert(pre(leaf) =~= seq![(7int, 0nat)]);
    assert(seq![leaf].drop_first() =~= Seq::<Tree<int>>::empty());
    assert(pref(seq![leaf]) =~= seq![(7int, 0nat)]);
    assert(seq![leaf, leaf].drop_first() =~= seq![leaf]);
    assert(pref(seq![leaf, leaf]) =~= seq![(7int, 0nat), (7int, 0nat)]);
    assert(pre(a) =~= seq![(1int, 2nat), (7int, 0nat), (7int, 0nat)]);
    assert(pre(b) =~= seq![(1int, 1nat), (7int, 0nat)]);
    assert(a.children.len() != b.children.len());
    assert(agree(labels(pre(a)), labels(pre(b))) && a != b);
}
"""


ABS_TREE = r"""
// ---- the real fragment tree as a labelled tree: label = (variant, payload), children in source order ----
spec fn abs_tree<Pk: MiniscriptKey, Ctx: ScriptContext>(t: Terminal<Pk, Ctx>) -> Tree<(int, Payload<Pk>)>
    decreases t
{
    let kids = match t {
        Terminal::Alt(x) | Terminal::Swap(x) | Terminal::Check(x) | Terminal::DupIf(x) | Terminal::Verify(x)
        | Terminal::NonZero(x) | Terminal::ZeroNotEqual(x) => seq![abs_tree(x.node)],
        Terminal::AndV(x, y) | Terminal::AndB(x, y) | Terminal::OrB(x, y) | Terminal::OrD(x, y) | Terminal::OrC(x, y)
        | Terminal::OrI(x, y) => seq![abs_tree(x.node), abs_tree(y.node)],
        Terminal::AndOr(x, y, z) => seq![abs_tree(x.node), abs_tree(y.node), abs_tree(z.node)],
        Terminal::Thresh(th) => Seq::new(th.inner@.len(), |i: int| if 0 <= i < th.inner@.len() { abs_tree(th.inner@[i].node) } else { arbitrary() }),
        _ => Seq::empty(),
    };
    Tree { label: (vidx(t), payload(t)), children: kids }
}
// "structurally identical" (the property's notion of equality): same fragments, thresholds, arities, keys, hashes, locks
spec fn structurally_equal<Pk: MiniscriptKey, Ctx: ScriptContext>(a: Terminal<Pk, Ctx>, b: Terminal<Pk, Ctx>) -> bool { abs_tree(a) == abs_tree(b) }
"""
LEMMA_TERMINAL = r"""
// the item the pre-order traversal yields for the root of a fragment is (variant, payload) with the fragment's arity ...
proof fn abs_tree_item<Pk: MiniscriptKey, Ctx: ScriptContext>(t: Terminal<Pk, Ctx>)
    ensures item(abs_tree(t)) == ((vidx(t), payload(t)), arity(t)),
        forall|u: Terminal<Pk, Ctx>| same_payload(t, u) <==> #[trigger] item(abs_tree(t)).0 == item(abs_tree(u)).0,
{
    assert forall|u: Terminal<Pk, Ctx>| same_payload(t, u) <==> #[trigger] item(abs_tree(t)).0 == item(abs_tree(u)).0 by { }
}
// ... so: if the zipped loop sees, at every pair, same_payload (the eq_step clauses) AND the same arity
// (follows from same_payload by same_payload_same_arity -- but eq_step does not deliver it for Thresh: F2),
// the two fragments are structurally identical and the zip consumed both traversals completely.
proof fn terminal_preorder_zip_complete<Pk: MiniscriptKey, Ctx: ScriptContext>(a: Terminal<Pk, Ctx>, b: Terminal<Pk, Ctx>)
    requires agree(pre(abs_tree(a)), pre(abs_tree(b))),
    ensures structurally_equal(a, b), pre(abs_tree(a)).len() == pre(abs_tree(b)).len(),
{
    preorder_zip_complete(abs_tree(a), abs_tree(b));
}
"""


# `unreachable!(..)` expands inside core's panic macros; a failing obligation there is reported with a span in
# library/core/src/panic.rs, which the driver cannot map back to the function (it would be reported as `?.body`
# without property ids).  R7': the macro call is replaced by a call to this diverging stub whose precondition
# `false` IS the unreachability obligation, reported at the call site.
UNREACHABLE = r"""
#[verifier::external_body]
fn unreachable_arm<T>() -> T requires false { unreachable!() }
"""
R_UNREACHABLE = sub("R7-unreachable", r"unreachable!\((?:[^()]|\n)*\)", "unreachable_arm()")


def emit_prelude(vf, hashing=True):
    """Shared C19 prelude: tree types + leaf laws + oracle (+ hashing model)."""
    _tree.emit(vf, ext="opaque", types="defs")
    vf.raw(LEAF_LAWS)
    vf.trust("eq_structural / ord_structural / clone_structural::<Pk, Pk::Sha256, ..> (preconditions key_*_laws)",
             "the key and hash types are type parameters: their Eq decides identity, their Ord is a total order whose Equal is Eq, "
             "their Clone returns an equal value (Rust trait contracts of Eq / Ord / Clone; derives for every key type shipped with the crate)")
    vf.trust("PartialEqSpecImpl for AbsLockTime / RelLockTime / hash160::Hash (their PartialEq is derived in _tree's stubs)",
             "#[derive(PartialEq, Eq)] newtypes over bitcoin's lock time / hash types: structural equality")
    vf.trust("PartialEq + PartialEqSpecImpl for Threshold<T, MAX> (external_body)",
             "#[derive(PartialEq)] on struct Threshold { k, inner: Vec<T> } compares k and the elements pairwise with T::eq (recorded as assumption, task item 3)")
    vf.raw(oracle_text())
    vf.raw(UNREACHABLE)
    vf.trust("unreachable_arm (external_body, requires false)", "stands for the `unreachable!(..)` macro: calling it is the obligation that the arm is dead")
    if hashing:
        vf.raw(HASH_MODEL)
        vf.trust("mem::discriminant (external_body) returns the variant index", "core::mem::discriminant identifies exactly the variant")
        vf.trust("traits Hash / Hasher of the prelude replace core::hash::{Hash, Hasher}; external_body `hash` for Discriminant, usize, u8, AbsLockTime, RelLockTime, hash160::Hash, Threshold",
                 "a Hasher is modelled as the sequence of items written so far; a leaf value's feed is a function of the value (Hash/Eq consistency of the leaf types, "
                 "derived Hash of Threshold = k, length, elements)")


def eq_step_contract():
    ens = [Clause("same_variant", ("C19",), "r ==> vidx(*me) == vidx(*you)"),
           Clause("complete", ("C19",), "same_payload(*me, *you) ==> r")]
    for v in DATA_LEAVES + MULTIS:
        ens.append(Clause("payload.%s" % v, ("C19",), "me is %s && you is %s ==> (r <==> payload(*me) == payload(*you))" % (v, v)))
    ens += [
        Clause("exact_except_thresh", ("C19",), "!(me is Thresh) ==> r == same_payload(*me, *you)"),
        Clause("arity_fixed", ("C19",), "r && !(me is Thresh) ==> arity(*me) == arity(*you)"),
        # F2: k and n of Thresh are node-local and compared by no later pair
        Clause("thresh.k", ("C19",), "r && me is Thresh && you is Thresh ==> me->Thresh_0.spec_k() == you->Thresh_0.spec_k()"),
        Clause("thresh.n", ("C19",), "r && me is Thresh && you is Thresh ==> arity(*me) == arity(*you)"),
        # Eq/Hash consistency at pair level: a pair that eq accepts feeds the hasher identically
        Clause("hash_consistent", ("C19",), "r && !(me is Thresh) ==> node_feed(*me) == node_feed(*you)"),
        Clause("hash_consistent.thresh", ("C19",), "r && me is Thresh ==> node_feed(*me) == node_feed(*you)"),
    ]
    return Contract(requires=["key_eq_laws::<Pk>()"], ensures=ens)


CLONE_HINT = "proof { lemma_threshold_clone::<Pk, MAX_PUBKEYS_PER_MULTISIG>(); lemma_threshold_clone::<Pk, MAX_PUBKEYS_IN_CHECKSIGADD>(); }"


def build(repo):
    vf = VerusFile(NAME, repo)
    emit_prelude(vf)

    # ---- composition lemma ----------------------------------------------------------------------
    vf.raw(PREORDER)
    vf.spec_obligation("lemma::pref_concat", LEMMA_CONCAT, ("C19",))
    vf.spec_obligation("lemma::forest_unique", LEMMA_FOREST, ("C19",))
    vf.spec_obligation("lemma::preorder_zip_complete", LEMMA_ZIP, ("C19",))
    vf.spec_obligation("lemma::labels_alone_insufficient", LEMMA_NEEDED, ("C19",))
    vf.raw(ABS_TREE)
    vf.spec_obligation("lemma::terminal_preorder_zip_complete", LEMMA_TERMINAL, ("C19",))

    # ---- impl PartialEq for Terminal: per-pair step ------------------------------------------------
    with vf.block("impl<%s> Terminal<Pk, Ctx> %s" % (BOUNDS, WHERE)):
        vf.step(DECODE, "impl:PartialEq for Terminal<Pk, Ctx>/fn:eq/match:(me, you)", "Terminal::eq_step",
                "fn eq_step(me: &Self, you: &Self) -> bool", contract=eq_step_contract(), props=PROPS,
                pre_match="    proof { lemma_threshold_eq::<Pk, MAX_PUBKEYS_PER_MULTISIG>(); lemma_threshold_eq::<Pk, MAX_PUBKEYS_IN_CHECKSIGADD>(); }",
                # the loop continues with the next pair (no `return false` was taken)
                post_match="    let step_result = true;")

    # ---- impl Hash for Terminal: the loop body, instantiated at the first yielded node (= self) -------
    with vf.block("impl<%s> Terminal<Pk, Ctx> %s" % (BOUNDS, WHERE)):
        vf.fn(DECODE, "impl:core::hash::Hash for Terminal<Pk, Ctx>/fn:hash", qual="Terminal", rename="hash_step", props=PROPS,
              rewrites=[lit("R7", "core::hash::Hasher", "Hasher"),
                        # R8': the loop over the pre-order iterator is reduced to its body for one node
                        # (the name of the loop variable is read off the text)
                        sub("R8-loop-body", r"\bfor\s+(\w+)\s+in\s+self\s*\.\s*pre_order_iter\(\s*\)\s*\{", r"{ let \1 = self;", count=1)],
              contract=Contract(ensures=[
                  Clause("feed_is_variant_and_payload", ("C19",), "final(hasher).feed() == old(hasher).feed() + node_feed(*self)")]))

    # ---- Clone ------------------------------------------------------------------------------------
    vf.raw(CLONE_MODEL)
    vf.trust("Clone for Threshold<T, MAX> (external_body)", "#[derive(Clone)]: k copied, elements cloned one by one with T::clone (recorded as assumption)")
    vf.trust("Clone for Miniscript (external_body, ensures ms_same)", "callee contract of Terminal::clone; its per-node induction step is Miniscript::clone_step in this unit")
    vf.trust("struct CloneItem { node } and precondition children_on_stack", "PostOrderIterItem reduced to the field the arms read; traversal contract of rtl_post_order_iter "
             "(children's results on top of the stack, first child on top; DESIGN 3.2, decided for the iterator in its own unit)")
    vf.trust("thresh_arm_excluded / thresh_pop_excluded (external_body)", "R9: the Thresh arms of Terminal::clone / Miniscript::clone use closures (map_ref); nothing is assumed, the variant is not claimed")
    same = [Clause("same_variant", ("C19",), "!(self is Thresh) ==> vidx(r) == vidx(*self)"),
            Clause("same_payload", ("C19",), "!(self is Thresh) ==> payload(r) == payload(*self)"),
            Clause("children_in_place", ("C19",), "!(self is Thresh) ==> node_same(*self, r)")]
    with vf.block("impl<%s> Terminal<Pk, Ctx> %s" % (BOUNDS, WHERE)):
        vf.fn(DECODE, "impl:Clone for Terminal<Pk, Ctx>/fn:clone", qual="Terminal", rename="clone_node", props=PROPS,
              rewrites=[replace_arm("self", "Self::Thresh(ref thresh)", "thresh_arm_excluded(thresh),", rule_name="R9"),
                        lit("R10", "match self {", CLONE_HINT + "\n        match self {")],
              contract=Contract(requires=["key_clone_laws::<Pk>()"], ensures=same))
    step_same = [Clause("same_variant", ("C19",), "!(item.node.node is Thresh) ==> vidx(r) == vidx(item.node.node)"),
                 Clause("same_payload", ("C19",), "!(item.node.node is Thresh) ==> payload(r) == payload(item.node.node)"),
                 Clause("children_in_place", ("C19",), "!(item.node.node is Thresh) ==> node_same(item.node.node, r)"),
                 Clause("stack_frame", ("C19", "C11"), "!(item.node.node is Thresh) ==> final(stack)@ == old(stack)@.take(old(stack)@.len() - arity(item.node.node))")]
    vf.step(MSMOD, "mod:private/impl:Clone for Miniscript<Pk, Ctx>/fn:clone/match:item.node.node", "Miniscript::clone_step",
            "fn clone_step<%s>(item: &CloneItem<Pk, Ctx>, stack: &mut Vec<Arc<Miniscript<Pk, Ctx>>>) -> Terminal<Pk, Ctx> %s" % (BOUNDS, WHERE),
            contract=Contract(requires=["key_clone_laws::<Pk>()", "children_on_stack(item.node.node, old(stack)@)"], ensures=step_same),
            props=PROPS, exclude={"Terminal::Thresh(ref thresh)": "thresh_pop_excluded(thresh, stack)"},
            pre_match="    " + CLONE_HINT)
    return vf
