"""C04 unit: `Terminal::encode` (src/miniscript/astelem.rs) against the Miniscript specification's
"Bitcoin Script" column, `MsKeyBuilder::{push_ms_key, push_ms_key_hash}` (src/util.rs), the per-node
arms of `Miniscript::script_size` (src/miniscript/mod.rs) against the byte length of the same
templates, and `script_num_size` (src/lib.rs) against Bitcoin's script-number push length.

`bitcoin::script::Builder` is a prelude stub whose view is a sequence of template items
    Op(consensus opcode byte) | Int(n) | Key(ecdsa public key) | Bytes(bytes) | Sub(child) | Verify
The recursion `push_astelem(sub) = sub.node.encode(builder)` is cut: the stub appends the opaque item
`Sub(sub)` (structural induction: by the same contract the child emits its own template).

ONE SOURCE, TWO RENDERINGS: the table `TEMPLATES` below is the specification's Script column; it is
rendered once as a `Seq<Item>` (encode contract) and once as a byte length (script_size contract), so
"predicted size == length of the encoding" follows per node from the two contracts.
"""
import re

from vlib.verus import VerusFile, Contract, Clause, sub, lit, replace_arm
from units import _tree
from units import c04_lex as L

NAME = "c04_encode"
ENGINE = "verus"
PROPS = ("C04", "C09", "C11", "C16")
ASTELEM = "src/miniscript/astelem.rs"
UTIL = "src/util.rs"
MSMOD = "src/miniscript/mod.rs"
LIB = "src/lib.rs"
CONTEXT = "src/miniscript/context.rs"
OPS = L.OPS

DROPPED = [
    "Terminal::encode: `push_astelem(sub)` (trait PushAstElem, = `sub.node.encode(builder)`) is a stub appending the opaque item Sub(sub) -- the recursion is cut "
    "(structural induction); `script::Builder` and its methods are stubs over a sequence of template items, not bytes",
    "Terminal::encode Thresh arm: `for sub in &thresh.data()[1..]` is rewritten (R8) to an index loop `i = 1; while i < thresh.data().len()` with an invariant; the loop body is verbatim",
    "Terminal::encode Multi/SortedMulti/MultiA/SortedMultiA arms: `for pk in iter` gets a ghost iterator name and an invariant (R10, `for pk in it: iter invariant ..`); "
    "`Threshold::iter` is the real text; `Clone for Threshold`, `into_sorted_bip67{,_xonly}` are stubs (the BIP67 order itself is an uninterpreted function of the key list)",
    "Terminal::encode: `absolute::LockTime::from(t)` and `<u32>.into()` (std From/Into, no vstd spec) are replaced (R7) by the stubs absolute_locktime_from / i64_from_u32",
    "Terminal::encode is verified as 8 copies under a case split by fragment family (leaves / wrappers / combinators / each n-ary variant); a broken loop invariant of an n-ary arm is "
    "reported as `.body` of every copy (loops are checked in each copy), a broken template as the clause named after the fragment",
    "MsKeyBuilder::{push_ms_key, push_ms_key_hash}: verified as inherent methods of the Builder stub (the trait indirection is dropped)",
    "Miniscript::script_size: the `for ms in self.pre_order_iter()` loop and `len +=` accumulation are dropped (per-node step); in the Multi*/MultiA* arms the "
    "sub-expression `thresh.iter().map(|pk| Ctx::pk_len(pk)).sum::<usize>()` is replaced (R9) by the stub `sum_pk_len(thresh)` specified as the sum of `Ctx::pk_len` over the keys",
]

# ------------------------------------------------------------------------------------------------
# The specification's "Bitcoin Script" column.  Children are named as in the specification
# (X, Y, Z); items:  "X"/"Y"/"Z" child script, ("op", script.h name), ("int", spec expr),
# ("key", k) context key push, ("keyhash", k) HASH160 of the context key, ("h32"/"h20", bytes expr),
# "verify" (VERIFY, fused into the previous opcode when that has a *VERIFY form).
# pattern = how the fragment's arguments are bound from the Terminal variant.
# ------------------------------------------------------------------------------------------------
def op(name):
    return ("op", name)


HASH_FRAGMENT = lambda hop, conv: [op("OP_SIZE"), ("int", "32"), op("OP_EQUALVERIFY"), op(hop), conv, op("OP_EQUAL")]
TEMPLATES = {
    # leaves
    "False": ("Terminal::False", [op("OP_0")]),                                             # 0
    "True": ("Terminal::True", [op("OP_1")]),                                               # 1
    "PkK": ("Terminal::PkK(k)", [("key", "k")]),                                            # <key>
    "PkH": ("Terminal::PkH(k)", [op("OP_DUP"), op("OP_HASH160"), ("keyhash", "k"), op("OP_EQUALVERIFY")]),
    "RawPkH": ("Terminal::RawPkH(h)", [op("OP_DUP"), op("OP_HASH160"), ("h20", "h.0@"), op("OP_EQUALVERIFY")]),
    "After": ("Terminal::After(n)", [("int", "n.consensus()"), op("OP_CHECKLOCKTIMEVERIFY")]),   # <n> CLTV
    "Older": ("Terminal::Older(n)", [("int", "n.consensus()"), op("OP_CHECKSEQUENCEVERIFY")]),   # <n> CSV
    "Sha256": ("Terminal::Sha256(h)", HASH_FRAGMENT("OP_SHA256", ("h32", "Pk::spec_to_sha256(&h).0@"))),
    "Hash256": ("Terminal::Hash256(h)", HASH_FRAGMENT("OP_HASH256", ("h32", "Pk::spec_to_hash256(&h).0@"))),
    "Ripemd160": ("Terminal::Ripemd160(h)", HASH_FRAGMENT("OP_RIPEMD160", ("h20", "Pk::spec_to_ripemd160(&h).0@"))),
    "Hash160": ("Terminal::Hash160(h)", HASH_FRAGMENT("OP_HASH160", ("h20", "Pk::spec_to_hash160(&h).0@"))),
    # wrappers
    "Alt": ("Terminal::Alt(x)", [op("OP_TOALTSTACK"), "x", op("OP_FROMALTSTACK")]),          # a:X
    "Swap": ("Terminal::Swap(x)", [op("OP_SWAP"), "x"]),                                     # s:X
    "Check": ("Terminal::Check(x)", ["x", op("OP_CHECKSIG")]),                               # c:X
    "DupIf": ("Terminal::DupIf(x)", [op("OP_DUP"), op("OP_IF"), "x", op("OP_ENDIF")]),       # d:X
    "Verify": ("Terminal::Verify(x)", ["x", "verify"]),                                      # v:X
    "NonZero": ("Terminal::NonZero(x)", [op("OP_SIZE"), op("OP_0NOTEQUAL"), op("OP_IF"), "x", op("OP_ENDIF")]),  # j:X
    "ZeroNotEqual": ("Terminal::ZeroNotEqual(x)", ["x", op("OP_0NOTEQUAL")]),                # n:X
    # combinators
    "AndV": ("Terminal::AndV(x, y)", ["x", "y"]),
    "AndB": ("Terminal::AndB(x, y)", ["x", "y", op("OP_BOOLAND")]),
    "AndOr": ("Terminal::AndOr(x, y, z)", ["x", op("OP_NOTIF"), "z", op("OP_ELSE"), "y", op("OP_ENDIF")]),
    "OrB": ("Terminal::OrB(x, z)", ["x", "z", op("OP_BOOLOR")]),
    "OrD": ("Terminal::OrD(x, z)", ["x", op("OP_IFDUP"), op("OP_NOTIF"), "z", op("OP_ENDIF")]),
    "OrC": ("Terminal::OrC(x, z)", ["x", op("OP_NOTIF"), "z", op("OP_ENDIF")]),
    "OrI": ("Terminal::OrI(x, z)", [op("OP_IF"), "x", op("OP_ELSE"), "z", op("OP_ENDIF")]),
}
# n-ary fragments (written out in NARY_SPEC below):
#   thresh(k,X1..Xn)   = [X1] [X2] ADD ... [Xn] ADD <k> EQUAL
#   multi(k,K1..Kn)    = <k> <K1> ... <Kn> <n> CHECKMULTISIG              (sortedmulti: keys in BIP67 order)
#   multi_a(k,K1..Kn)  = <K1> CHECKSIG <K2> CHECKSIGADD ... <Kn> CHECKSIGADD <k> NUMEQUAL
NARY = ["Thresh", "Multi", "SortedMulti", "MultiA", "SortedMultiA"]


def item_expr(it):
    if isinstance(it, str):
        return "Item::Verify" if it == "verify" else "Item::Sub(sid(%s))" % it
    kind, arg = it
    if kind == "op":
        return "Item::Op(0x%02xu8)" % OPS[arg]
    if kind == "int":
        return "Item::Int(%s as int)" % arg
    if kind == "key":
        return "key_item::<Pk, Ctx>(%s)" % arg
    if kind == "keyhash":
        return "keyhash_item::<Pk, Ctx>(%s)" % arg
    if kind in ("h32", "h20"):
        return "Item::Bytes(%s)" % arg
    raise ValueError(it)


def item_len(it, own_only=True):
    """byte length of an item; children contribute 0 (script_size adds the node's own bytes only)."""
    if isinstance(it, str):
        return "(if script_ends_fusable(*x) { 0int } else { 1int })" if it == "verify" else "0int"
    kind, arg = it
    return {"op": "1int", "int": "spec_scriptnum_push_len(%s as int)" % arg, "key": "Ctx::spec_pk_len(%s) as int" % arg,
            "keyhash": "21int", "h32": "33int", "h20": "21int"}[kind]


def template_seq(v):
    return "seq![%s]" % ", ".join(item_expr(i) for i in TEMPLATES[v][1])


def template_len(v):
    return " + ".join(item_len(i) for i in TEMPLATES[v][1]) or "0int"


BITCOIN_STUBS = r"""
use vstd::std_specs::iter::IteratorSpec;
// ---- stubs of the `bitcoin` crate beyond opcodes (trusted, listed) ---------------------------------
pub mod bitcoin {
    use vstd::prelude::*;
    verus!{
    pub struct PublicKey { pub compressed: bool, pub point: [u8; 64] }
    pub struct XOnlyPublicKey { pub x: [u8; 32] }
    pub struct PubkeyHash(pub [u8; 20]);
    pub uninterp spec fn spec_hash160(data: Seq<u8>) -> PubkeyHash;
    pub uninterp spec fn spec_pubkey_hash(pk: PublicKey) -> PubkeyHash;
    impl PublicKey {
        #[verifier::external_body]
        pub fn pubkey_hash(&self) -> (r: PubkeyHash) ensures r == spec_pubkey_hash(*self) { unimplemented!() }
    }
    impl XOnlyPublicKey {
        pub fn serialize(&self) -> (r: [u8; 32]) ensures r == self.x { self.x }
    }
    impl PubkeyHash {
        #[verifier::external_body]
        pub fn hash(data: &[u8]) -> (r: PubkeyHash) ensures r == spec_hash160(data@) { unimplemented!() }
    }
    }
}
use bitcoin::PubkeyHash;
pub mod sha256 { use vstd::prelude::*; verus!{ #[derive(Clone, Copy)] pub struct Hash(pub [u8; 32]); impl Hash { pub fn to_byte_array(self) -> (r: [u8; 32]) ensures r == self.0 { self.0 } } } }
pub mod hash256 { use vstd::prelude::*; verus!{ #[derive(Clone, Copy)] pub struct Hash(pub [u8; 32]); impl Hash { pub fn to_byte_array(self) -> (r: [u8; 32]) ensures r == self.0 { self.0 } } } }
pub mod ripemd160 { use vstd::prelude::*; verus!{ #[derive(Clone, Copy)] pub struct Hash(pub [u8; 20]); impl Hash { pub fn to_byte_array(self) -> (r: [u8; 20]) ensures r == self.0 { self.0 } } } }
pub mod absolute {
    use vstd::prelude::*;
    verus!{
    pub struct LockTime { pub n: u32 }
    impl LockTime { pub fn to_consensus_u32(self) -> (r: u32) ensures r == self.n { self.n } }
    }
}
// bitcoin::relative::LockTime keeps only what BIP68 looks at (type flag bit 22 and the low 16 bits)
pub mod relative {
    use vstd::prelude::*;
    verus!{
    pub struct LockTime { pub n: u32 }
    impl LockTime { pub fn to_consensus_u32(self) -> (r: u32) ensures r == self.n { self.n } }
    }
}
pub mod context {
    use vstd::prelude::*;
    verus!{
    %(sigtype)s
    impl vstd::std_specs::cmp::PartialEqSpecImpl for SigType {
        open spec fn obeys_eq_spec() -> bool { true }
        open spec fn eq_spec(&self, other: &SigType) -> bool { *self == *other }
    }
    }
}
use context::SigType;
"""

SCRIPT_CONTEXT = r"""
trait ScriptContext: Sized {
    spec fn spec_sig_type() -> context::SigType;
    fn sig_type() -> (r: context::SigType) ensures r == Self::spec_sig_type();
    spec fn spec_pk_len<Pk: MiniscriptKey>(pk: Pk) -> usize;
    fn pk_len<Pk: MiniscriptKey>(pk: &Pk) -> (r: usize) ensures r == Self::spec_pk_len(*pk), r <= 66;
}
"""

PRELUDE = r"""
impl hash160::Hash { fn to_byte_array(self) -> (r: [u8; 20]) ensures r == self.0 { self.0 } }
// `impl From<AbsLockTime> for absolute::LockTime` (returns the wrapped lock time)
// std `impl From<u32> for i64` (lossless widening)
#[verifier::external_body]
fn i64_from_u32(x: u32) -> (r: i64) ensures r == x { i64::from(x) }
fn absolute_locktime_from(t: AbsLockTime) -> (r: absolute::LockTime) ensures r.n == t.consensus() { absolute::LockTime { n: t.0 } }
#[verifier::external_body]
fn relative_locktime_from(t: RelLockTime) -> (r: relative::LockTime) ensures r.n == (t.consensus() & 0x0040_ffffu32) { unimplemented!() }
trait ToPublicKey: MiniscriptKey {
    spec fn spec_to_public_key(&self) -> bitcoin::PublicKey;
    fn to_public_key(&self) -> (r: bitcoin::PublicKey) ensures r == self.spec_to_public_key();
    spec fn spec_to_x_only_pubkey(&self) -> bitcoin::XOnlyPublicKey;
    fn to_x_only_pubkey(&self) -> (r: bitcoin::XOnlyPublicKey) ensures r == self.spec_to_x_only_pubkey();
    spec fn spec_to_sha256(hash: &Self::Sha256) -> sha256::Hash;
    fn to_sha256(hash: &Self::Sha256) -> (r: sha256::Hash) ensures r == Self::spec_to_sha256(hash);
    spec fn spec_to_hash256(hash: &Self::Hash256) -> hash256::Hash;
    fn to_hash256(hash: &Self::Hash256) -> (r: hash256::Hash) ensures r == Self::spec_to_hash256(hash);
    spec fn spec_to_ripemd160(hash: &Self::Ripemd160) -> ripemd160::Hash;
    fn to_ripemd160(hash: &Self::Ripemd160) -> (r: ripemd160::Hash) ensures r == Self::spec_to_ripemd160(hash);
    spec fn spec_to_hash160(hash: &Self::Hash160) -> hash160::Hash;
    fn to_hash160(hash: &Self::Hash160) -> (r: hash160::Hash) ensures r == Self::spec_to_hash160(hash);
}

// ---- script::Builder as a sequence of template items ---------------------------------------------
enum Item { Op(u8), Int(int), Key(bitcoin::PublicKey), Bytes(Seq<u8>), Sub(int), Verify }
// opaque identity of a child script (its encoding, by induction)
uninterp spec fn sub_id<Pk: MiniscriptKey, Ctx: ScriptContext>(ms: Miniscript<Pk, Ctx>) -> int;
spec fn sid<Pk: MiniscriptKey, Ctx: ScriptContext>(ms: Arc<Miniscript<Pk, Ctx>>) -> int { sub_id(*ms) }
trait PushData { spec fn push_bytes(&self) -> Seq<u8>; }
impl PushData for [u8; 20] { spec fn push_bytes(&self) -> Seq<u8> { self@ } }
impl PushData for [u8; 32] { spec fn push_bytes(&self) -> Seq<u8> { self@ } }
impl PushData for PubkeyHash { spec fn push_bytes(&self) -> Seq<u8> { self.0@ } }
"""

BUILDER = r"""
#[verifier::external_body]
struct Builder { bytes: Vec<u8> }
impl Builder {
    uninterp spec fn view(&self) -> Seq<Item>;
    #[verifier::external_body]
    fn push_opcode(self, data: Opcode) -> (r: Builder) ensures r@ == self@.push(Item::Op(data.code)) { unimplemented!() }
    #[verifier::external_body]
    fn push_int(self, data: i64) -> (r: Builder) ensures r@ == self@.push(Item::Int(data as int)) { unimplemented!() }
    #[verifier::external_body]
    fn push_slice<T: PushData>(self, data: T) -> (r: Builder) ensures r@ == self@.push(Item::Bytes(data.push_bytes())) { unimplemented!() }
    #[verifier::external_body]
    fn push_key(self, key: &bitcoin::PublicKey) -> (r: Builder) ensures r@ == self@.push(Item::Key(*key)) { unimplemented!() }
    #[verifier::external_body]
    fn push_verify(self) -> (r: Builder) ensures r@ == self@.push(Item::Verify) { unimplemented!() }
    #[verifier::external_body]
    fn push_astelem<Pk: MiniscriptKey, Ctx: ScriptContext>(self, ast: &Miniscript<Pk, Ctx>) -> (r: Builder)
        ensures r@ == self@.push(Item::Sub(sub_id(*ast))) { unimplemented!() }
}
mod script { pub(crate) use super::Builder; }
"""

KEY_ORACLE = r"""
// ---- oracle: how a key / key hash is pushed in each context (Miniscript spec: 33-byte (65 legacy)
// ECDSA keys in P2SH/P2WSH, 32-byte x-only keys in Tapscript; pk_h commits to HASH160 of that) ------
spec fn key_item<Pk: ToPublicKey, Ctx: ScriptContext>(k: Pk) -> Item {
    match Ctx::spec_sig_type() {
        SigType::Ecdsa => Item::Key(k.spec_to_public_key()),
        SigType::Schnorr => Item::Bytes(k.spec_to_x_only_pubkey().x@),
    }
}
spec fn keyhash_item<Pk: ToPublicKey, Ctx: ScriptContext>(k: Pk) -> Item {
    match Ctx::spec_sig_type() {
        SigType::Ecdsa => Item::Bytes(bitcoin::spec_pubkey_hash(k.spec_to_public_key()).0@),
        SigType::Schnorr => Item::Bytes(bitcoin::spec_hash160(k.spec_to_x_only_pubkey().x@).0@),
    }
}
"""

NARY_SPEC = r"""
// ---- n-ary templates -------------------------------------------------------------------------------
// [X2] ADD ... [Xi] ADD   (children 1..i of xs)
spec fn thresh_tail<Pk: MiniscriptKey, Ctx: ScriptContext>(xs: Seq<Arc<Miniscript<Pk, Ctx>>>, i: int) -> Seq<Item>
    decreases i
{
    if i <= 1 { seq![] } else { thresh_tail(xs, i - 1) + seq![Item::Sub(sid(xs[i - 1])), Item::Op(0x93u8)] }
}
// thresh(k, X1..Xn) = [X1] [X2] ADD ... [Xn] ADD <k> EQUAL
spec fn thresh_template<Pk: MiniscriptKey, Ctx: ScriptContext>(k: int, xs: Seq<Arc<Miniscript<Pk, Ctx>>>) -> Seq<Item> {
    seq![Item::Sub(sid(xs[0]))] + thresh_tail(xs, xs.len() as int) + seq![Item::Int(k), Item::Op(0x87u8)]
}
// <K1> ... <Ki>   (ECDSA keys, CHECKMULTISIG)
spec fn multi_keys<Pk: ToPublicKey>(ks: Seq<Pk>, i: int) -> Seq<Item>
    decreases i
{
    if i <= 0 { seq![] } else { multi_keys(ks, i - 1) + seq![Item::Key(ks[i - 1].spec_to_public_key())] }
}
// multi(k, K1..Kn) = <k> <K1> ... <Kn> <n> CHECKMULTISIG
spec fn multi_template<Pk: ToPublicKey>(k: int, ks: Seq<Pk>) -> Seq<Item> {
    seq![Item::Int(k)] + multi_keys(ks, ks.len() as int) + seq![Item::Int(ks.len() as int), Item::Op(0xaeu8)]
}
// <K2> CHECKSIGADD ... <Ki> CHECKSIGADD
spec fn multi_a_tail<Pk: ToPublicKey, Ctx: ScriptContext>(ks: Seq<Pk>, i: int) -> Seq<Item>
    decreases i
{
    if i <= 1 { seq![] } else { multi_a_tail::<Pk, Ctx>(ks, i - 1) + seq![key_item::<Pk, Ctx>(ks[i - 1]), Item::Op(0xbau8)] }
}
// multi_a(k, K1..Kn) = <K1> CHECKSIG <K2> CHECKSIGADD ... <Kn> CHECKSIGADD <k> NUMEQUAL
spec fn multi_a_template<Pk: ToPublicKey, Ctx: ScriptContext>(k: int, ks: Seq<Pk>) -> Seq<Item> {
    seq![key_item::<Pk, Ctx>(ks[0]), Item::Op(0xacu8)] + multi_a_tail::<Pk, Ctx>(ks, ks.len() as int) + seq![Item::Int(k), Item::Op(0x9cu8)]
}
// BIP67 order of a key list (full keys / x-only keys): uninterpreted; `into_sorted_bip67*` are assumed to produce it
uninterp spec fn bip67_sorted<Pk>(ks: Seq<Pk>) -> Seq<Pk>;
uninterp spec fn bip67_sorted_xonly<Pk>(ks: Seq<Pk>) -> Seq<Pk>;

// what a slice iterator over `xs` will yield, starting at element `from`
spec fn yields<'a, T>(rem: Seq<&'a T>, xs: Seq<T>, from: int) -> bool {
    rem.len() == xs.len() - from && forall |j: int| 0 <= j < rem.len() ==> *(#[trigger] rem[j]) == xs[j + from]
}
impl<T: Clone, const MAX: usize> Clone for Threshold<T, MAX> {
    #[verifier::external_body]
    fn clone(&self) -> (r: Self) ensures r == *self { Threshold { k: self.k, inner: self.inner.clone() } }
}
impl<Pk: ToPublicKey, const MAX: usize> Threshold<Pk, MAX> {
    #[verifier::external_body]
    fn into_sorted_bip67(self) -> (r: Self)
        ensures r.spec_k() == self.spec_k(), r.elems() == bip67_sorted(self.elems()), r.elems().len() == self.elems().len() { unimplemented!() }
    #[verifier::external_body]
    fn into_sorted_bip67_xonly(self) -> (r: Self)
        ensures r.spec_k() == self.spec_k(), r.elems() == bip67_sorted_xonly(self.elems()), r.elems().len() == self.elems().len() { unimplemented!() }
    // a key list that is already in (full-key / x-only) BIP67 order is its own sorted form; nothing is said about the other order
    #[verifier::external_body]
    fn is_sorted_bip67(&self) -> (r: bool) ensures r ==> bip67_sorted(self.elems()) == self.elems() { unimplemented!() }
    #[verifier::external_body]
    fn is_sorted_bip67_xonly(&self) -> (r: bool) ensures r ==> bip67_sorted_xonly(self.elems()) == self.elems() { unimplemented!() }
}
"""

SIZE_SPEC = r"""
// ---- oracle: byte lengths (Bitcoin CScript::operator<<(int64) / CScriptNum::serialize) --------------
// number of bytes of the minimal little-endian sign-magnitude encoding of n > 0
spec fn spec_scriptnum_bytes(n: int) -> int
    decreases n
{
    if n < 0x80 { 1 } else { 1 + spec_scriptnum_bytes(n / 256) }
}
// bytes a script needs to push the number n >= 0: OP_0 / OP_1..OP_16 are one opcode, otherwise a direct push
spec fn spec_scriptnum_push_len(n: int) -> int {
    if 0 <= n <= 16 { 1 } else { 1 + spec_scriptnum_bytes(n) }
}
// `v:X`: VERIFY costs no byte when the last opcode of [X] has a fused X-VERIFY form (EQUAL, NUMEQUAL, CHECKSIG,
// CHECKMULTISIG); whether [X] ends that way is the child's summary `ext.has_free_verify` (its correctness is a C09
// clause of the ExtData rules), related here by the child invariant `ext_inv`.
uninterp spec fn script_ends_fusable<Pk: MiniscriptKey, Ctx: ScriptContext>(ms: Miniscript<Pk, Ctx>) -> bool;
spec fn ext_inv<Pk: MiniscriptKey, Ctx: ScriptContext>(ms: Miniscript<Pk, Ctx>) -> bool {
    ms.ext.has_free_verify == script_ends_fusable(ms)
}
spec fn sum_pk_len_spec<Pk: MiniscriptKey, Ctx: ScriptContext>(ks: Seq<Pk>, i: int) -> int
    decreases i
{
    if i <= 0 { 0 } else { sum_pk_len_spec::<Pk, Ctx>(ks, i - 1) + Ctx::spec_pk_len(ks[i - 1]) as int }
}
proof fn lemma_sum_pk_len_bound<Pk: MiniscriptKey, Ctx: ScriptContext>(ks: Seq<Pk>, i: int)
    requires 0 <= i <= ks.len(), forall |j: int| 0 <= j < ks.len() ==> Ctx::spec_pk_len(#[trigger] ks[j]) <= 66,
    ensures 0 <= sum_pk_len_spec::<Pk, Ctx>(ks, i) <= 66 * i,
    decreases i
{
    if i > 0 { lemma_sum_pk_len_bound::<Pk, Ctx>(ks, i - 1); }
}
#[verifier::external_body]
fn sum_pk_len<Pk: MiniscriptKey, Ctx: ScriptContext, const MAX: usize>(thresh: &Threshold<Pk, MAX>) -> (r: usize)
    requires 66 * thresh.elems().len() <= usize::MAX,
    ensures r as int == sum_pk_len_spec::<Pk, Ctx>(thresh.elems(), thresh.elems().len() as int), r <= 66 * thresh.elems().len(),
{ thresh.iter().map(|pk| Ctx::pk_len(pk)).sum::<usize>() }
#[verifier::external_body]
fn usize_from_bool(b: bool) -> (r: usize) ensures r == (if b { 1usize } else { 0usize }) { usize::from(b) }
"""


GROUPS = [
    ("leaves", ["False", "True", "PkK", "PkH", "RawPkH", "After", "Older", "Sha256", "Hash256", "Ripemd160", "Hash160"]),
    ("wrappers", ["Alt", "Swap", "Check", "DupIf", "Verify", "NonZero", "ZeroNotEqual"]),
    ("combinators", ["AndV", "AndB", "AndOr", "OrB", "OrD", "OrC", "OrI"]),
    ("Thresh", ["Thresh"]), ("Multi", ["Multi"]), ("SortedMulti", ["SortedMulti"]), ("MultiA", ["MultiA"]), ("SortedMultiA", ["SortedMultiA"]),
]


def encode_clauses():
    """One clause per fragment kind (tag = variant name): encode appends exactly the fragment's template."""
    ens = {}
    for v, (pat, _) in TEMPLATES.items():
        ens[v] = Clause(v, ("C04",), "*self matches %s ==> r@ == builder@ + %s" % (pat, template_seq(v)))
    ens["Thresh"] = Clause("Thresh", ("C04",), "*self matches Terminal::Thresh(t) ==> r@ == builder@ + thresh_template(t.spec_k() as int, t.elems())")
    ens["Multi"] = Clause("Multi", ("C04",), "*self matches Terminal::Multi(t) ==> r@ == builder@ + multi_template(t.spec_k() as int, t.elems())")
    ens["SortedMulti"] = Clause("SortedMulti", ("C04", "C16"), "*self matches Terminal::SortedMulti(t) ==> r@ == builder@ + multi_template(t.spec_k() as int, bip67_sorted(t.elems()))")
    ens["MultiA"] = Clause("MultiA", ("C04",), "*self matches Terminal::MultiA(t) ==> r@ == builder@ + multi_a_template::<Pk, Ctx>(t.spec_k() as int, t.elems())")
    ens["SortedMultiA"] = Clause("SortedMultiA", ("C04", "C16"), "*self matches Terminal::SortedMultiA(t) ==> r@ == builder@ + multi_a_template::<Pk, Ctx>(t.spec_k() as int, bip67_sorted_xonly(t.elems()))")
    return ens


def encode_cases():
    """Case split by fragment family (keeps each SMT query small); exhaustiveness is a generated lemma."""
    ens = encode_clauses()
    return [(g, " || ".join("*self is %s" % v for v in vs), [ens[v] for v in vs]) for g, vs in GROUPS]


def encode_contract():
    req = [
        # the invariant Threshold::new establishes (1 <= k <= n <= MAX), and what Ctx validation guarantees for multi / multi_a
        "(*self matches Terminal::Thresh(t) ==> t.wf() && t.spec_n() <= 0x7fff_ffff_ffff_ffff) && (*self matches Terminal::Multi(t) ==> t.wf() && Ctx::spec_sig_type() == SigType::Ecdsa) "
        "&& (*self matches Terminal::SortedMulti(t) ==> t.wf() && Ctx::spec_sig_type() == SigType::Ecdsa) "
        "&& (*self matches Terminal::MultiA(t) ==> t.wf() && Ctx::spec_sig_type() == SigType::Schnorr) "
        "&& (*self matches Terminal::SortedMultiA(t) ==> t.wf() && Ctx::spec_sig_type() == SigType::Schnorr)",
    ]
    return Contract(requires=req, ensures=[])


def size_contract():
    ens = []
    for v, (pat, items) in TEMPLATES.items():
        pat2 = pat.replace("Terminal::", "Terminal::")
        ens.append(Clause("size_" + v, ("C04", "C09"), "ms.node matches %s ==> r as int == %s" % (pat2, template_len(v))))
    ens.append(Clause("size_Thresh", ("C04", "C09"),
                      "ms.node matches Terminal::Thresh(t) ==> r as int == (t.spec_n() - 1) * 1 + spec_scriptnum_push_len(t.spec_k() as int) + 1"))
    for v in ("Multi", "SortedMulti"):
        ens.append(Clause("size_" + v, ("C04", "C09"),
                          "ms.node matches Terminal::%s(t) ==> r as int == spec_scriptnum_push_len(t.spec_k() as int) + sum_pk_len_spec::<Pk, Ctx>(t.elems(), t.spec_n() as int) "
                          "+ spec_scriptnum_push_len(t.spec_n() as int) + 1" % v))
    for v in ("MultiA", "SortedMultiA"):
        ens.append(Clause("size_" + v, ("C04", "C09"),
                          "ms.node matches Terminal::%s(t) ==> r as int == sum_pk_len_spec::<Pk, Ctx>(t.elems(), t.spec_n() as int) + t.spec_n() * 1 "
                          "+ spec_scriptnum_push_len(t.spec_k() as int) + 1" % v))
    req = ["(ms.node matches Terminal::Verify(x) ==> ext_inv(*x)) && (ms.node matches Terminal::Thresh(t) ==> t.wf() && t.spec_n() < 0x7fff_ffff) "
           "&& (ms.node matches Terminal::Multi(t) ==> t.wf()) && (ms.node matches Terminal::SortedMulti(t) ==> t.wf()) "
           "&& (ms.node matches Terminal::MultiA(t) ==> t.wf()) && (ms.node matches Terminal::SortedMultiA(t) ==> t.wf())"]
    return Contract(requires=req, ensures=ens)


def _r8_thresh_tail_loop(text):
    """R8: `for VAR in &SLICE[START..] {` -> index loop over SLICE (body verbatim), where SLICE is `TH.data()` or a local
    bound by `let SLICE = TH.data();` earlier in the function.  The names VAR / TH / SLICE / START are read off the text; when
    the slice is a local the invariant additionally carries `SLICE@ == TH.elems()` (what `Threshold::data` ensures at the
    `let`), because the loop is verified in isolation."""
    m = re.search(r"for (\w+) in &(\w+(?:\.data\(\))?)\[(\w+)\.\.\] \{", text)
    if not m:
        return None
    var, slc, start = m.groups()
    if slc.endswith(".data()"):
        th, extra = slc[:-len(".data()")], ""
    else:
        b = re.search(r"\blet %s = (\w+)\.data\(\);" % re.escape(slc), text[:m.start()])
        if not b:
            return None
        th, extra = b.group(1), " %s@ == %s.elems()," % (slc, b.group(1))
    loop = ("let ghost b0 = builder@;\n                let mut i: usize = %(start)s;\n                while i < %(slc)s.len()\n"
            "                    invariant 1 <= i <= %(th)s.elems().len(), builder@ == b0 + thresh_tail(%(th)s.elems(), i as int),%(extra)s\n"
            "                    decreases %(th)s.elems().len() - i,\n"
            "                {\n                    let %(var)s = &%(slc)s[i];\n                    i = i + 1;"
            % dict(start=start, slc=slc, th=th, extra=extra, var=var))
    return text[:m.start()] + loop + text[m.end():]


_r8_thresh_tail_loop.rule = "R8"
R8_THRESH_TAIL_LOOP = _r8_thresh_tail_loop


def build(repo):
    vf = VerusFile(NAME, repo)
    vf.raw(L.bitcoin_stubs(), keep_vis=True)
    vf.trust("bitcoin stubs: Opcode, opcodes::all::OP_* (consensus byte values from Bitcoin Core script.h)",
             "external crate reduced to plain data; rust-bitcoin's constants of the same names are assumed to have the consensus values")
    sigtype = re.sub(r"#\[derive\([^)]*\)\]", "#[derive(Clone, Copy, PartialEq, Eq)]", repo.at(CONTEXT, "enum:SigType").text)
    sigtype = re.sub(r"(?m)^\s*///.*\n", "", sigtype)
    vf.raw(BITCOIN_STUBS % dict(sigtype=sigtype), keep_vis=True)
    vf.trust("bitcoin stubs: PublicKey / XOnlyPublicKey / PubkeyHash / sha256,hash256,ripemd160::Hash / absolute::LockTime; PartialEqSpecImpl for SigType",
             "external value types reduced to plain data; hash functions uninterpreted; derived PartialEq on a field-less enum is structural")
    _tree.emit(vf, ext="real", types="defs", script_context=SCRIPT_CONTEXT)
    vf.trust("ScriptContext::pk_len returns at most 66", "all five contexts return one of the constants 33 / 34 / 66 (needed only to rule out usize overflow of the key-length sum)")
    vf.raw(PRELUDE)
    vf.raw(BUILDER, keep_vis=True)
    vf.raw(KEY_ORACLE)
    vf.trust("script::Builder stub: view = Seq<Item>; push_opcode / push_int / push_slice / push_key / push_verify append one item",
             "bitcoin::script::Builder appends the byte rendering of exactly that item (push_verify fuses into a preceding EQUAL/NUMEQUAL/CHECKSIG/CHECKMULTISIG); "
             "number pushes are backed by the Kani unit k04_pushint")
    vf.trust("script::Builder::push_astelem stub appends Item::Sub(child)", "cuts the recursion sub.node.encode(builder): structural induction hypothesis")
    vf.trust("relative_locktime_from (external_body)", "bitcoin: relative::LockTime::from(RelLockTime) keeps the BIP68 type flag and the low 16 bits only")
    vf.trust("i64_from_u32 (external_body)", "std `From<u32> for i64` / `Into<i64> for u32`: lossless widening (this vstd has no spec for it)")
    vf.trust("ToPublicKey stub, From<AbsLockTime> for absolute::LockTime", "trait reduced to the methods encode calls, each with a spec twin; the conversion returns the wrapped lock time")
    vf.raw(NARY_SPEC)
    vf.trust("Threshold::{clone, into_sorted_bip67, into_sorted_bip67_xonly, is_sorted_bip67, is_sorted_bip67_xonly} stubs", "structural clone / BIP67 sort as an uninterpreted permutation keeping k and n; is_sorted_* == true only if the list is its own sorted form in THAT order")
    with vf.block("impl<T, const MAX: usize> Threshold<T, MAX>"):
        vf.fn(_tree.THRESH, "impl:Threshold<T, MAX>/fn:iter", qual="Threshold", props=("C11",),
              contract=Contract(ensures=[Clause("iter", (), "yields(r.remaining(), self.elems(), 0) && r.decrease() is Some")]))
    vf.raw(SIZE_SPEC)
    vf.trust("sum_pk_len (external_body)", "R9: stands for `thresh.iter().map(|pk| Ctx::pk_len(pk)).sum::<usize>()` (iterator adapters), specified as the sum of Ctx::pk_len over the keys")
    vf.trust("usize_from_bool (external_body)", "std `usize::from(bool)`: true -> 1, false -> 0")

    # ---- MsKeyBuilder ---------------------------------------------------------------------------
    with vf.block("impl script::Builder"):
        vf.fn(UTIL, "impl:MsKeyBuilder for script::Builder/fn:push_ms_key", qual="Builder", props=("C04", "C11"),
              contract=Contract(ensures=[Clause("key_push_per_context", ("C04",), "r@ == self@.push(key_item::<Pk, Ctx>(*key))")]))
        vf.fn(UTIL, "impl:MsKeyBuilder for script::Builder/fn:push_ms_key_hash", qual="Builder", props=("C04", "C11"),
              contract=Contract(ensures=[Clause("keyhash_push_per_context", ("C04",), "r@ == self@.push(keyhash_item::<Pk, Ctx>(*key))")]))

    # ---- Terminal::encode -------------------------------------------------------------------------
    with vf.block("impl<Pk: MiniscriptKey, Ctx: ScriptContext> Terminal<Pk, Ctx>"):
        vf.fn(ASTELEM, "impl:Terminal<Pk, Ctx>/fn:encode", qual="Terminal", props=("C04", "C11", "C16"), contract=encode_contract(), cases=encode_cases(), rewrites=[
            lit("R7", "absolute::LockTime::from(t)", "absolute_locktime_from(t)", required=False),
            lit("R7", "relative::LockTime::from(t)", "relative_locktime_from(t)", required=False),
            sub("R7", r"\.push_int\(([^;\n]*?)\.into\(\)\)", r".push_int(i64_from_u32(\1))", required=False),
            R8_THRESH_TAIL_LOOP,
            # R10: ghost names for the key list that is iterated (sorted or not) and the builder before the arm
            lit("R10", "builder = builder.push_int(thresh.k() as i64);",
                "let ghost b0 = builder@;\n                let ghost ks = if *self is SortedMulti { bip67_sorted(thresh.elems()) } else { thresh.elems() };\n"
                "                builder = builder.push_int(thresh.k() as i64);"),
            sub("R10", r"for pk in iter \{(\s*builder = builder\.push_key)",
                "for pk in it: iter\n                    invariant yields(it.seq(), ks, 0), builder@ == b0 + seq![Item::Int(thresh.spec_k() as int)] + multi_keys(ks, it.index()),\n"
                r"                {\1"),
            lit("R10", "builder = builder.push_ms_key::<_, Ctx>(iter.next().expect(",
                "let ghost b0 = builder@;\n                let ghost ks = if *self is SortedMultiA { bip67_sorted_xonly(thresh.elems()) } else { thresh.elems() };\n"
                "                builder = builder.push_ms_key::<_, Ctx>(iter.next().expect("),
            sub("R10", r"for pk in iter \{(\s*builder = builder\.push_ms_key)",
                "for pk in it: iter\n                    invariant yields(it.seq(), ks, 1), "
                "builder@ == b0 + seq![key_item::<Pk, Ctx>(ks[0]), Item::Op(0xacu8)] + multi_a_tail::<Pk, Ctx>(ks, it.index() + 1),\n"
                r"                {\1"),
        ])

    # ---- Miniscript::script_size, per node -----------------------------------------------------------
    sum_rw = lambda maxc: [lit("R9", "thresh.iter().map(|pk| Ctx::pk_len(pk)).sum::<usize>()", "sum_pk_len::<Pk, Ctx, %s>(thresh)" % maxc)]
    vf.step(MSMOD, "impl:Miniscript<Pk, Ctx>/fn:script_size/match:ms.node", "script_size_step",
            "fn script_size_step<Pk: MiniscriptKey, Ctx: ScriptContext>(ms: &Miniscript<Pk, Ctx>) -> usize",
            contract=size_contract(), props=("C04", "C09", "C11"), pre_match="    use Terminal::*;",
            arm_rewrites={
                "Terminal::Verify(ref sub)": [lit("R7", "usize::from(", "usize_from_bool(")],
                "Terminal::Multi(ref thresh) | Terminal::SortedMulti(ref thresh)": sum_rw("MAX_PUBKEYS_PER_MULTISIG"),
                "Terminal::MultiA(ref thresh) | Terminal::SortedMultiA(ref thresh)": sum_rw("MAX_PUBKEYS_IN_CHECKSIGADD"),
            })

    # ---- script_num_size ----------------------------------------------------------------------------
    vf.fn(LIB, "fn:script_num_size", props=("C04", "C09", "C11"),
          rewrites=[lit("R10", "match n {", "proof { reveal_with_fuel(spec_scriptnum_bytes, 10); }\n    match n {")],
          contract=Contract(ensures=[
        Clause("equals_scriptnum_push_len_upto_5_bytes", ("C04", "C09"), "n < 0x80_0000_0000 ==> r as int == spec_scriptnum_push_len(n as int)"),
        # EXPECTED TO FAIL on 64-bit usize (the table stops at `_ => 6`; a number >= 2^39 needs 6..8 data bytes): upstream quirk of a
        # public helper, unreachable from the crate's own call sites (all pass a u32 or a k/n of a threshold) -- hence tagged with
        # no property: it is reported by `--unit`, never as a violation of C04/C09.
        Clause("equals_scriptnum_push_len_beyond_5_bytes", (), "n >= 0x80_0000_0000 ==> r as int == spec_scriptnum_push_len(n as int)"),
        Clause("range", ("C11",), "1 <= r <= 6"),
    ]))
    return vf
