"""C13 / C11: what the other interpreter units leave out -- the SIGNATURE CHECK of the interpreter and the pkh leaf.

Verified text (verbatim from /repo, see DROPPED for the mechanical rewrites):
  * `Interpreter::verify_sig` (src/interpreter/mod.rs) incl. its nested `get_prevout`: WHICH digest a signature is
    checked against, per output type;
  * `Interpreter::{is_legacy, is_segwit_v0, is_taproot_v1_key_spend, is_taproot_v1_script_spend, sig_type}`;
  * `Stack::evaluate_pkh` (src/interpreter/stack.rs) incl. its nested `bitcoin_key_from_slice`;
  * the `Iterator::next` wrapper of `Iter` (sticky `has_errored`);
  * `KeySigPair::{as_ecdsa, as_schnorr}`, `BitcoinKey::to_pubkeyhash`, the default body of
    `ToPublicKey::to_pubkeyhash` (src/lib.rs), `From<BitcoinKey> for PkEvalErrInner`, the two `From` impls of
    `BitcoinKey`, `impl ToPublicKey for bitcoin::PublicKey / XOnlyPublicKey` (`to_public_key` / `to_x_only_pubkey`);
  * from the `bitcoin` source pinned by Cargo.lock: `sighash::Prevouts`, `EcdsaSighashType` (+ `to_u32`),
    `TapSighashType`, `ecdsa::Signature`, `taproot::Signature`, `taproot::LeafVersion`, `PublicKey`, `TxOut`, `TxIn`,
    `Transaction` (definitions; field types opaque).

Oracles (none of them read off the code):
  * signature-hash selection: the legacy rules (a bare / p2pk / p2pkh / p2sh input's ECDSA signature signs
    `SignatureHash(scriptCode, tx, nIn, nHashType)`), BIP143 (a version-0 witness program's ECDSA signature signs the
    BIP143 digest of (tx, nIn, scriptCode, AMOUNT OF THE OUTPUT SPENT BY THIS INPUT, hashtype)), BIP341 / BIP342 (a taproot
    key-path Schnorr signature signs the BIP341 digest with ext_flag 0; a script-path signature signs the digest with ext_flag 1
    that COMMITS TO tapleaf_hash(leaf_version 0xc0, script)); ECDSA signatures do not exist in taproot, Schnorr signatures
    do not exist before it.  The four digests and the two secp checks are UNINTERPRETED functions
    (`digest_legacy`, `digest_segwit`, `digest_tap_key`, `digest_tap_script`, `secp_verify_ecdsa`, `secp_verify_schnorr`).
  * output classes: BIP16 / BIP141 / BIP341 (`out_class`, a 10-row table over `Inner`).
  * `DUP HASH160 <h> EQUALVERIFY CHECKSIG` on abstract stack elements: the key element is hashed and compared FIRST
    (EQUALVERIFY), then CHECKSIG interprets it as a key of the context's kind (33/65-byte SEC1 key before taproot, 32-byte
    BIP340 key in tapscript) and checks the next element exactly as `<key> CHECKSIG` does (c13_iter_step's `checksig_post`,
    imported and re-targeted to the PublicKeyHash report).
  * `Iterator` protocol of the interpreter ("Stop yielding values after the first error").
"""
import re

from vlib.verus import VerusFile, Contract, Clause, sub, lit, rule, Undecided
from vlib.extract import strip_docs
from units.c14_finalize import dep_repo
from units import c13_iter_step, c13_from_txdata
from units.c13_iter_step import stack_contracts, STACK, MOD, CTX, VS

NAME = "c13_verify_sig"
ENGINE = "verus"
PROPS = ("C13", "C11")
INNER = "src/interpreter/inner.rs"
ERR = "src/interpreter/error.rs"
LIB = "src/lib.rs"
DROPPED = [
    "c13_verify_sig: the nested fn items `get_prevout` (in verify_sig) and `bitcoin_key_from_slice` (in evaluate_pkh) are hoisted to free functions (a nested fn item captures nothing; only its scope changes) so that a contract can be woven (rule R17 nested-fn hoist)",
    "c13_verify_sig: verify_sig's four closures get a ghost `ensures` (R10): `|hash| Message::from_digest(hash.to_byte_array())` -> the message IS the digest; `|msg| secp.verify_*(..).is_ok()` -> the uninterpreted secp predicate of (message, the pair's signature, the pair's key)",
    "c13_verify_sig: `core::borrow::Borrow<TxOut>` is a stub trait with a spec view (R7); `SighashCache`, `Secp256k1`, `Message`, the three sighash newtypes, `TapLeafHash::from_script`, key parsing / serialisation, HASH160 are contracted stubs over uninterpreted functions",
    "c13_verify_sig: `impl Iterator for Iter { fn next }` is emitted as an inherent method (`Option<Self::Item>` -> the impl's `type Item`, checked to be `Result<SatisfiedConstraint, Error>`); `iter_next` is an uninterpreted state transformer whose frame on `has_errored` is checked syntactically (its text never names the field; the step's frame is proved in c13_iter_step)",
    "c13_verify_sig: `Box<dyn FnMut(&KeySigPair) -> bool>` -> the opaque value type VerifySig (R7, as in c13_iter_step); verify_sersig is consumed through c13_iter_step's uninterpreted contract (signature parsing + callback are NOT verified: FFI / dyn FnMut)",
    "c13_verify_sig: `impl ToPublicKey for XOnlyPublicKey::to_public_key` (0x02-prefixing through vec!/extend/from_slice().expect, 'This code should never be used') is a stub; `ToPublicKey::to_x_only_pubkey`'s default body (secp conversion) is a stub for bitcoin::PublicKey",
    "c13_verify_sig: NOT decided: that the digests / secp predicates are what consensus computes (uninterpreted), `Interpreter::iter`'s closure plumbing (Box<dyn FnMut>), `iter_custom`, `inferred_descriptor*` (format!)",
]

# ----------------------------------------------------------------------------------------------------------------------
# prelude: dependency values
# ----------------------------------------------------------------------------------------------------------------------
PRELUDE = r"""
use core::marker::PhantomData;

// core::borrow::Borrow: a pure projection (spec view + exec accessor)
pub trait Borrow<B> {
    spec fn spec_borrow(&self) -> B;
    fn borrow(&self) -> (r: &B) ensures *r == self.spec_borrow();
}
// std: Result::unwrap_or
#[verifier::allow(undeclared_external_trait)]
pub assume_specification<T, E> [core::result::Result::<T, E>::unwrap_or] (res: Result<T, E>, d: T) -> (r: T)
    where E: core::marker::Destruct, T: core::marker::Destruct,
    ensures r == (match res { Ok(v) => v, Err(_) => d });

pub mod hash160 { use vstd::prelude::*; verus!{ #[derive(Clone, Copy, PartialEq, Eq)] pub struct Hash(pub [u8; 20]); } }
pub mod sha256 { use vstd::prelude::*; verus!{ #[derive(Clone, Copy)] pub struct Hash(pub [u8; 32]); } }
pub mod hash256 { use vstd::prelude::*; verus!{ #[derive(Clone, Copy)] pub struct Hash(pub [u8; 32]); } }
pub mod ripemd160 { use vstd::prelude::*; verus!{ #[derive(Clone, Copy)] pub struct Hash(pub [u8; 20]); } }
pub mod absolute { use vstd::prelude::*; verus!{ #[derive(Clone, Copy)] pub struct LockTime(pub u32); } }
pub mod relative { use vstd::prelude::*; verus!{ #[derive(Clone, Copy)] pub struct LockTime(pub u32); } }
impl vstd::std_specs::cmp::PartialEqSpecImpl for hash160::Hash { open spec fn obeys_eq_spec() -> bool { true } open spec fn eq_spec(&self, o: &hash160::Hash) -> bool { *self == *o } }
pub uninterp spec fn spec_hash160(d: Seq<u8>) -> hash160::Hash;
impl hash160::Hash { #[verifier::external_body] pub fn hash(d: &[u8]) -> (r: hash160::Hash) ensures r == spec_hash160(d@) { unimplemented!() } }

#[derive(Clone, Copy)]
pub struct Sequence(pub u32);
#[derive(Clone, Copy)]
pub struct Amount { pub sat: u64 }
pub struct Version(pub i32);
pub struct OutPoint { pub opaque: u64 }
pub struct Witness { pub opaque: u64 }
// bitcoin::Script / ScriptBuf: one opaque value type with a byte view (as in c13_from_txdata)
pub struct Script { pub opaque: u64 }
pub type ScriptBuf = Script;
impl Script { pub uninterp spec fn bytes(&self) -> Seq<u8>; }
#[derive(Clone, Copy)]
pub struct FutureLeafVersion(pub u8);
#[derive(Clone, Copy)]
pub struct TapLeafHash(pub [u8; 32]);
#[derive(Clone, Copy)]
pub struct XOnlyPublicKey { pub x: u64 }
pub struct KeyError { pub opaque: u8 }
pub mod secp256k1 {
    pub use crate::XOnlyPublicKey;
    use vstd::prelude::*;
    verus!{
    #[derive(Clone, Copy)] pub struct PublicKey { pub point: u64 }
    pub struct Message(pub [u8; 32]);
    impl Message { pub fn from_digest(d: [u8; 32]) -> (r: Message) ensures r.0 == d { Message(d) } }
    pub struct Error { pub opaque: u8 }
    pub trait Verification {}
    pub struct Secp256k1<C> { pub ctx: C }
    }
    pub mod ecdsa { use vstd::prelude::*; verus!{ #[derive(Clone, Copy)] pub struct Signature { pub opaque: u64 } } }
    pub mod schnorr { use vstd::prelude::*; verus!{ #[derive(Clone, Copy)] pub struct Signature { pub opaque: u64 } } }
}
// the three sighash newtypes: the value IS its 32 bytes
pub struct LegacySighash(pub [u8; 32]);
pub struct SegwitV0Sighash(pub [u8; 32]);
pub struct TapSighash(pub [u8; 32]);
impl LegacySighash { pub fn to_byte_array(self) -> (r: [u8; 32]) ensures r == self.0 { self.0 } }
impl SegwitV0Sighash { pub fn to_byte_array(self) -> (r: [u8; 32]) ensures r == self.0 { self.0 } }
impl TapSighash { pub fn to_byte_array(self) -> (r: [u8; 32]) ensures r == self.0 { self.0 } }
pub struct InputsIndexError { pub opaque: u8 }
pub struct TaprootError { pub opaque: u8 }
"""

# after the real dependency definitions
DEP_METHODS = r"""
pub use crate::taproot::LeafVersion;
pub mod key { pub use crate::XOnlyPublicKey; }
pub mod sighash { pub use crate::{Prevouts, SighashCache, EcdsaSighashType, TapSighashType}; }
pub mod bitcoin {
    pub use crate::{PublicKey, Script, ScriptBuf, Transaction, TxOut};
    pub use crate::{ecdsa, taproot, key, sighash, secp256k1};
}

// ---- the uninterpreted primitives ----------------------------------------------------------------------------------------
// legacy SignatureHash(scriptCode, tx, nIn, nHashType); None = no digest (the library's Err)
pub uninterp spec fn digest_legacy(tx: Transaction, input_idx: usize, script_code: Seq<u8>, sighash_type: u32) -> Option<[u8; 32]>;
// BIP143 digest of (tx, nIn, scriptCode, amount, hashtype)
pub uninterp spec fn digest_segwit(tx: Transaction, input_idx: usize, script_code: Seq<u8>, amount: Amount, sighash_type: EcdsaSighashType) -> Option<[u8; 32]>;
// BIP341 digest, ext_flag = 0 (key path)
pub uninterp spec fn digest_tap_key<T: Borrow<TxOut>>(tx: Transaction, input_idx: usize, prevouts: Prevouts<T>, sighash_type: TapSighashType) -> Option<[u8; 32]>;
// BIP341 / BIP342 digest, ext_flag = 1 (script path): commits to the tapleaf hash
pub uninterp spec fn digest_tap_script<T: Borrow<TxOut>>(tx: Transaction, input_idx: usize, prevouts: Prevouts<T>, leaf: TapLeafHash, sighash_type: TapSighashType) -> Option<[u8; 32]>;
// BIP341 tapleaf_hash = tagged_hash("TapLeaf", leaf_version || compact_size(script) || script)
pub uninterp spec fn tap_leaf_hash(script: Seq<u8>, ver: LeafVersion) -> TapLeafHash;
pub uninterp spec fn secp_verify_ecdsa(msg: [u8; 32], sig: secp256k1::ecdsa::Signature, pk: secp256k1::PublicKey) -> bool;
pub uninterp spec fn secp_verify_schnorr(sig: secp256k1::schnorr::Signature, msg: [u8; 32], pk: XOnlyPublicKey) -> bool;

// consensus encoding of the ECDSA sighash flag (SIGHASH_ALL 1, NONE 2, SINGLE 3, | ANYONECANPAY 0x80)
pub open spec fn sighash_u32(t: EcdsaSighashType) -> u32 {
    match t {
        EcdsaSighashType::All => 0x01, EcdsaSighashType::None => 0x02, EcdsaSighashType::Single => 0x03,
        EcdsaSighashType::AllPlusAnyoneCanPay => 0x81, EcdsaSighashType::NonePlusAnyoneCanPay => 0x82, EcdsaSighashType::SinglePlusAnyoneCanPay => 0x83,
    }
}
// the meaning of `Prevouts` (bitcoin docs: `One(i, t)`: "the input index this TxOut is referring to"; `All(ts)`: one per input):
// the output spent by input `idx`, if it was supplied
pub open spec fn prevout_of<T: Borrow<TxOut>>(p: Prevouts<T>, idx: usize) -> Option<T> {
    match p {
        Prevouts::One(i, t) => if i == idx { Some(t) } else { None },
        Prevouts::All(ts) => if idx < ts@.len() { Some(ts@[idx as int]) } else { None },
    }
}

// bitcoin::sighash::SighashCache: the caches are memoisation only; the digests are functions of the arguments.
// Facts taken from bitcoin-0.32 src/crypto/sighash.rs: legacy_encode_signing_data_to / segwit_v0_encode_signing_data_to fail
// unless `tx_in(input_index)` exists; taproot_encode_signing_data_to fails unless `Prevouts::All` has one entry per input
// (check_all) and, for `Prevouts::One(i, _)` (ANYONECANPAY only), unless i == input_index and the input exists.  It does NOT
// check `input_index < tx.input.len()` for `Prevouts::All` without ANYONECANPAY -- nothing is assumed there.
pub struct SighashCache<R> { pub tx: R }
impl<'a> SighashCache<&'a Transaction> {
    pub fn new(tx: &'a Transaction) -> (r: Self) ensures r.tx == tx { SighashCache { tx } }
    #[verifier::external_body]
    pub fn legacy_signature_hash(&self, input_index: usize, script_pubkey: &Script, sighash_type: u32) -> (r: Result<LegacySighash, InputsIndexError>)
        ensures
            match r { Ok(h) => digest_legacy(*self.tx, input_index, script_pubkey.bytes(), sighash_type) == Some(h.0),
                      Err(_) => digest_legacy(*self.tx, input_index, script_pubkey.bytes(), sighash_type) is None },
            r is Ok ==> input_index < self.tx.input@.len(),
    { unimplemented!() }
    #[verifier::external_body]
    pub fn p2wsh_signature_hash(&mut self, input_index: usize, witness_script: &Script, value: Amount, sighash_type: EcdsaSighashType) -> (r: Result<SegwitV0Sighash, InputsIndexError>)
        ensures
            final(self).tx == old(self).tx,
            match r { Ok(h) => digest_segwit(*old(self).tx, input_index, witness_script.bytes(), value, sighash_type) == Some(h.0),
                      Err(_) => digest_segwit(*old(self).tx, input_index, witness_script.bytes(), value, sighash_type) is None },
            r is Ok ==> input_index < old(self).tx.input@.len(),
    { unimplemented!() }
    #[verifier::external_body]
    pub fn taproot_key_spend_signature_hash<T: Borrow<TxOut>>(&mut self, input_index: usize, prevouts: &Prevouts<T>, sighash_type: TapSighashType) -> (r: Result<TapSighash, TaprootError>)
        ensures
            final(self).tx == old(self).tx,
            match r { Ok(h) => digest_tap_key(*old(self).tx, input_index, *prevouts, sighash_type) == Some(h.0),
                      Err(_) => digest_tap_key(*old(self).tx, input_index, *prevouts, sighash_type) is None },
            r is Ok ==> tap_prevouts_checked(*old(self).tx, input_index, *prevouts),
    { unimplemented!() }
    #[verifier::external_body]
    pub fn taproot_script_spend_signature_hash<T: Borrow<TxOut>>(&mut self, input_index: usize, prevouts: &Prevouts<T>, leaf_hash: TapLeafHash, sighash_type: TapSighashType) -> (r: Result<TapSighash, TaprootError>)
        ensures
            final(self).tx == old(self).tx,
            match r { Ok(h) => digest_tap_script(*old(self).tx, input_index, *prevouts, leaf_hash, sighash_type) == Some(h.0),
                      Err(_) => digest_tap_script(*old(self).tx, input_index, *prevouts, leaf_hash, sighash_type) is None },
            r is Ok ==> tap_prevouts_checked(*old(self).tx, input_index, *prevouts),
    { unimplemented!() }
}
pub open spec fn tap_prevouts_checked<T: Borrow<TxOut>>(tx: Transaction, idx: usize, p: Prevouts<T>) -> bool {
    match p {
        Prevouts::One(i, _) => i == idx && idx < tx.input@.len(),
        Prevouts::All(ts) => ts@.len() == tx.input@.len(),
    }
}
impl TapLeafHash {
    #[verifier::external_body]
    pub fn from_script(script: &Script, ver: LeafVersion) -> (r: TapLeafHash) ensures r == tap_leaf_hash(script.bytes(), ver) { unimplemented!() }
}
impl<C: secp256k1::Verification> secp256k1::Secp256k1<C> {
    #[verifier::external_body]
    pub fn verify_ecdsa(&self, msg: &secp256k1::Message, sig: &secp256k1::ecdsa::Signature, pk: &secp256k1::PublicKey) -> (r: Result<(), secp256k1::Error>)
        ensures r is Ok == secp_verify_ecdsa(msg.0, *sig, *pk)
    { unimplemented!() }
    #[verifier::external_body]
    pub fn verify_schnorr(&self, sig: &secp256k1::schnorr::Signature, msg: &secp256k1::Message, pubkey: &XOnlyPublicKey) -> (r: Result<(), secp256k1::Error>)
        ensures r is Ok == secp_verify_schnorr(*sig, msg.0, *pubkey)
    { unimplemented!() }
}

// ---- keys: parsing and serialisation ---------------------------------------------------------------------------------------
%(on_curve_encoding)s
%(valid_pubkey)s
pub uninterp spec fn lifts_x(b: Seq<u8>) -> bool;
// BIP340: a public key is 32 bytes, the x coordinate of a curve point
pub open spec fn valid_xonly(b: Seq<u8>) -> bool { b.len() == 32 && lifts_x(b) }
pub uninterp spec fn pk_of_bytes(b: Seq<u8>) -> PublicKey;
pub uninterp spec fn xonly_of_bytes(b: Seq<u8>) -> XOnlyPublicKey;
pub uninterp spec fn xonly_of_point(p: secp256k1::PublicKey) -> XOnlyPublicKey;
pub uninterp spec fn pk_of_xonly(x: XOnlyPublicKey) -> PublicKey;
impl PublicKey {
    pub uninterp spec fn ser(&self) -> Seq<u8>;
    // bitcoin::PublicKey::from_slice: 33 bytes, or 65 bytes with prefix 04 (hybrid keys refused), on the curve; the parsed key
    // serialises back to the same bytes
    #[verifier::external_body]
    pub fn from_slice(data: &[u8]) -> (r: Result<PublicKey, KeyError>)
        ensures r is Ok <==> valid_pubkey(data@), r is Ok ==> r->Ok_0 == pk_of_bytes(data@) && r->Ok_0.ser() == data@ && r->Ok_0.compressed == (data@.len() == 33),
    { unimplemented!() }
    #[verifier::external_body]
    pub fn to_bytes(&self) -> (r: Vec<u8>) ensures r@ == self.ser() { unimplemented!() }
}
impl XOnlyPublicKey {
    pub uninterp spec fn ser(&self) -> Seq<u8>;
    #[verifier::external_body]
    pub fn from_slice(data: &[u8]) -> (r: Result<XOnlyPublicKey, KeyError>)
        ensures r is Ok <==> valid_xonly(data@), r is Ok ==> r->Ok_0 == xonly_of_bytes(data@) && r->Ok_0.ser() == data@,
    { unimplemented!() }
    #[verifier::external_body]
    pub fn serialize(&self) -> (r: [u8; 32]) ensures r@ == self.ser() { unimplemented!() }
}
"""

CRATE_STUBS = r"""
// ================= stubs of crate types outside the unit ================================================
pub trait ScriptContext: Sized {}
pub struct NoChecks { pub never: u8 }
impl ScriptContext for NoChecks {}
pub struct Miniscript<Pk, Ctx: ScriptContext> { pub node: u64, pub phantom: PhantomData<(Pk, Ctx)> }
#[derive(Clone, Copy)]
pub struct VerifySig { pub opaque: u64 }
// the interpreter's Error, reduced to the variants named by the extracted text
pub enum Error {
    PkEvaluationError(PkEvalErrInner),
    PkHashVerifyFail(hash160::Hash),
    PubkeyParseError,
    UnexpectedStackEnd,
    Other(u64),
}
// ToPublicKey (src/lib.rs), reduced to the three methods the unit reaches; `to_pubkeyhash` keeps its REAL default body (below)
"""

SPEC = r"""
impl vstd::std_specs::convert::FromSpecImpl<PublicKey> for BitcoinKey { open spec fn obeys_from_spec() -> bool { true } open spec fn from_spec(pk: PublicKey) -> BitcoinKey { BitcoinKey::Fullkey(pk) } }
impl vstd::std_specs::convert::FromSpecImpl<XOnlyPublicKey> for BitcoinKey { open spec fn obeys_from_spec() -> bool { true } open spec fn from_spec(pk: XOnlyPublicKey) -> BitcoinKey { BitcoinKey::XOnlyPublicKey(pk) } }
// error.rs: "BitcoinKey is not exported, create a data structure to convey the same information in error"
impl vstd::std_specs::convert::FromSpecImpl<BitcoinKey> for PkEvalErrInner {
    open spec fn obeys_from_spec() -> bool { true }
    open spec fn from_spec(k: BitcoinKey) -> PkEvalErrInner { match k { BitcoinKey::Fullkey(pk) => PkEvalErrInner::FullKey(pk), BitcoinKey::XOnlyPublicKey(x) => PkEvalErrInner::XOnlyKey(x) } }
}
impl<'txin> Stack<'txin> { pub open spec fn v(&self) -> Seq<Element<'txin>> { self.0@ } }
impl Borrow<TxOut> for TxOut {
    open spec fn spec_borrow(&self) -> TxOut { *self }
    fn borrow(&self) -> (r: &TxOut) { self }
}

// ---- oracle: output classes (BIP16, BIP141, BIP341) ---------------------------------------------------------------------------
pub enum OutClass { Legacy, SegwitV0, TaprootKeySpend, TaprootScriptSpend }
pub open spec fn out_class(i: Inner) -> OutClass {
    match i {
        Inner::PublicKey(_, PubkeyType::Pk) => OutClass::Legacy,                // <key> CHECKSIG in the scriptPubKey
        Inner::PublicKey(_, PubkeyType::Pkh) => OutClass::Legacy,               // P2PKH
        Inner::PublicKey(_, PubkeyType::Wpkh) => OutClass::SegwitV0,            // BIP141 version-0 20-byte program
        Inner::PublicKey(_, PubkeyType::ShWpkh) => OutClass::SegwitV0,          // BIP141 P2SH-nested version-0 program
        Inner::PublicKey(_, PubkeyType::Tr) => OutClass::TaprootKeySpend,       // BIP341 key path
        Inner::Script(_, ScriptType::Bare) => OutClass::Legacy,
        Inner::Script(_, ScriptType::Sh) => OutClass::Legacy,                   // BIP16
        Inner::Script(_, ScriptType::Wsh) => OutClass::SegwitV0,                // BIP141 version-0 32-byte program
        Inner::Script(_, ScriptType::ShWsh) => OutClass::SegwitV0,
        Inner::Script(_, ScriptType::Tr) => OutClass::TaprootScriptSpend,       // BIP341 script path
    }
}
pub open spec fn is_taproot(c: OutClass) -> bool { c is TaprootKeySpend || c is TaprootScriptSpend }
// what from_txdata establishes (c13_from_txdata: `p2tr.key_path_single_element` => script_code None; every other output type:
// `*.script_code_is_*` / `*.bip143_script_code_is_*` / `p2tr.script_path_code_is_tapscript` => Some); the fields are private
// and from_txdata is the only constructor
pub open spec fn interp_wf(i: Interpreter) -> bool { i.script_code is None <==> out_class(i.inner) is TaprootKeySpend }
pub open spec fn code(i: Interpreter) -> Seq<u8> { i.script_code->Some_0.bytes() }

pub open spec fn ecdsa_ok(d: Option<[u8; 32]>, s: ecdsa::Signature, k: PublicKey) -> bool { d is Some && secp_verify_ecdsa(d->Some_0, s.signature, k.inner) }
pub open spec fn schnorr_ok(d: Option<[u8; 32]>, s: taproot::Signature, x: XOnlyPublicKey) -> bool { d is Some && secp_verify_schnorr(s.signature, d->Some_0, x) }
// the whole rule in one place: the message a signature of input `idx` has to sign, per output class
pub open spec fn ecdsa_message<T: Borrow<TxOut>>(i: Interpreter, tx: Transaction, idx: usize, prevouts: Prevouts<T>, s: ecdsa::Signature) -> Option<[u8; 32]> {
    match out_class(i.inner) {
        OutClass::Legacy => digest_legacy(tx, idx, code(i), sighash_u32(s.sighash_type)),
        OutClass::SegwitV0 => match prevout_of(prevouts, idx) {
            Some(t) => digest_segwit(tx, idx, code(i), t.spec_borrow().value, s.sighash_type),
            None => None,
        },
        _ => None,
    }
}
pub open spec fn schnorr_message<T: Borrow<TxOut>>(i: Interpreter, tx: Transaction, idx: usize, prevouts: Prevouts<T>, s: taproot::Signature) -> Option<[u8; 32]> {
    match out_class(i.inner) {
        OutClass::TaprootKeySpend => digest_tap_key(tx, idx, prevouts, s.sighash_type),
        OutClass::TaprootScriptSpend => digest_tap_script(tx, idx, prevouts, tap_leaf_hash(code(i), LeafVersion::TapScript), s.sighash_type),
        _ => None,
    }
}
pub open spec fn sig_valid_for_input<T: Borrow<TxOut>>(i: Interpreter, tx: Transaction, idx: usize, prevouts: Prevouts<T>, sig: KeySigPair) -> bool {
    match sig {
        KeySigPair::Ecdsa(k, s) => ecdsa_ok(ecdsa_message(i, tx, idx, prevouts, s), s, k),
        KeySigPair::Schnorr(x, s) => schnorr_ok(schnorr_message(i, tx, idx, prevouts, s), s, x),
    }
}

// ---- oracle: keys of a context (CHECKSIG: 33/65-byte SEC1 keys before taproot; BIP342: 32-byte BIP340 keys) ---------------------
pub open spec fn key_of_kind(kb: Seq<u8>, t: SigType) -> Option<BitcoinKey> {
    match t {
        SigType::Ecdsa => if valid_pubkey(kb) { Some(BitcoinKey::Fullkey(pk_of_bytes(kb))) } else { None },
        SigType::Schnorr => if valid_xonly(kb) { Some(BitcoinKey::XOnlyPublicKey(xonly_of_bytes(kb))) } else { None },
    }
}
pub open spec fn key_bytes(k: BitcoinKey) -> Seq<u8> { match k { BitcoinKey::Fullkey(pk) => pk.ser(), BitcoinKey::XOnlyPublicKey(x) => x.ser() } }

// ---- imported from units/c13_iter_step.py (one source): result vocabulary, verify_sersig's uninterpreted contract, CHECKSIG --------
%(imports)s
// `<key> CHECKSIG` of c13_iter_step re-targeted to the pkh leaf: same text, the report is PublicKeyHash { keyhash, key_sig }
%(pkh_checksig_post)s
// DUP HASH160 <h> EQUALVERIFY CHECKSIG on (.. sig key): the key element is hashed and compared first; then CHECKSIG
pub open spec fn pkh_template_post(pkh: hash160::Hash, t: SigType, v: VerifySig, v2: VerifySig, s: Seq<Element>, s2: Seq<Element>, r: Res) -> bool {
    &&& (s.len() == 0 ==> aborts(r))
    &&& (s.len() > 0 && !(s.last() is Push) ==> aborts(r))
    &&& (s.len() > 0 && s.last() is Push && spec_hash160(s.last()->Push_0@) != pkh ==> r == Some(Err::<SatisfiedConstraint, Error>(Error::PkHashVerifyFail(pkh))) && v2 == v)
    &&& (s.len() > 0 && s.last() is Push && spec_hash160(s.last()->Push_0@) == pkh && key_of_kind(s.last()->Push_0@, t) is None ==> aborts(r) && v2 == v)
    &&& (s.len() > 0 && s.last() is Push && spec_hash160(s.last()->Push_0@) == pkh && key_of_kind(s.last()->Push_0@, t) is Some ==>
            pkh_checksig_post(key_of_kind(s.last()->Push_0@, t)->Some_0, pkh, v, v2, s.drop_last(), s2, r))
}

// ---- Iter::next ------------------------------------------------------------------------------------------------------------------
pub uninterp spec fn spec_iter_next_res<'a, 'b>(it: Iter<'a, 'b>) -> Res;
pub uninterp spec fn spec_iter_next_state<'a, 'b>(it: Iter<'a, 'b>) -> Iter<'a, 'b>;
impl<'intp, 'txin: 'intp> Iter<'intp, 'txin> {
    // the state machine (c13_iter_step verifies its step; `frame` there includes has_errored): an uninterpreted transformer
    #[verifier::external_body]
    fn iter_next(&mut self) -> (r: Option<Result<SatisfiedConstraint, Error>>)
        ensures r == spec_iter_next_res(*old(self)), *final(self) == spec_iter_next_state(*old(self)),
                final(self).has_errored == old(self).has_errored,
    { unimplemented!() }
}
"""

LEMMAS = r"""
// the four class predicates partition the output types (stated on the oracle, used through the `table` clauses)
proof fn output_classes_are_exclusive_and_exhaustive(i: Interpreter)
    ensures
        (out_class(i.inner) is Legacy) || (out_class(i.inner) is SegwitV0) || (out_class(i.inner) is TaprootKeySpend) || (out_class(i.inner) is TaprootScriptSpend),
        !((out_class(i.inner) is Legacy) && (out_class(i.inner) is SegwitV0)),
        !((out_class(i.inner) is Legacy) && is_taproot(out_class(i.inner))),
        !((out_class(i.inner) is SegwitV0) && is_taproot(out_class(i.inner))),
        !((out_class(i.inner) is TaprootKeySpend) && (out_class(i.inner) is TaprootScriptSpend)),
{}
// once errored, `next` is the identity on the iterator and yields None: by induction it yields None forever
proof fn errored_iterator_is_a_fixpoint(it: Iter, r: Res, it2: Iter)
    requires it.has_errored, next_post(it, it2, r),
    ensures r is None, it2 == it, it2.has_errored,
{}
"""

NEXT_SPEC = r"""
// "Stop yielding values after the first error"
pub open spec fn next_post(o: Iter, f: Iter, r: Res) -> bool {
    &&& (o.has_errored ==> r is None && f == o)
    &&& (!o.has_errored ==> r == spec_iter_next_res(o))
    &&& (!o.has_errored && aborts(r) ==> f.has_errored)
    &&& (!o.has_errored && !aborts(r) ==> !f.has_errored)
}
"""


def _imp(src, name, kind=r"pub (?:open |uninterp )?spec fn"):
    """The text of an item of another unit's prelude (reuse by import: one source of truth)."""
    m = re.search(r"(?ms)^%s %s\b.*?(?:;|\})[ \t]*$" % (kind, re.escape(name)), src)
    if not m:
        raise Undecided("item %s not found in the imported unit" % name)
    return m.group(0)


def imported():
    S = c13_iter_step.SPEC
    items = [_imp(S, "spec_sersig"), _imp(S, "spec_sersig_next"),
             _imp(S, "Res", kind=r"pub type"), _imp(S, "aborts"), _imp(S, "goes_on"), _imp(S, "reports"),
             _imp(S, "checksig_post"), _imp(S, "pkh_post")]
    cs = _imp(S, "checksig_post")
    pkh = cs.replace("fn checksig_post(pk: BitcoinKey,", "fn pkh_checksig_post(pk: BitcoinKey, keyhash: hash160::Hash,")
    pkh, n = re.subn(r"SatisfiedConstraint::PublicKey \{ key_sig:", "SatisfiedConstraint::PublicKeyHash { keyhash: keyhash, key_sig:", pkh)
    if n != 1 or pkh == cs:
        raise Undecided("c13_iter_step.checksig_post changed shape: cannot derive pkh_checksig_post")
    return "\n".join(items), pkh


# ----------------------------------------------------------------------------------------------------------------------
# rewrites
# ----------------------------------------------------------------------------------------------------------------------
def hoist(repo, rel, nested_anchor):
    """R17: a nested `fn` item is cut out of the enclosing function's text (it is emitted as a free function)."""
    @rule("R17-nested-fn-hoist")
    def rw(text):
        inner = repo.at(rel, nested_anchor).text.strip()
        # the enclosing text went through strip_docs / drop_vis: compare modulo whitespace
        pat = r"\s+".join(re.escape(tok) for tok in strip_docs(inner).split())
        new, n = re.subn(pat, "", text, count=1)
        return new if n == 1 else None
    return rw


COPY = sub("R1-derive", r"#\[derive\([^)]*\)\]", "#[derive(Clone, Copy)]")
NODERIVE = sub("R1-derive", r"#\[derive\([^)]*\)\]\s*", "", required=False)
CFG_OFF = sub("R1-attrs", r"(?m)^\s*#\[cfg_attr\(.*\)\]\n", "", required=False)
PATHS = [sub("R7", r"\binner::(Inner|PubkeyType|ScriptType)\b", r"\1", required=False),
         sub("R7", r"\bsuper::BitcoinKey\b", "BitcoinKey", required=False)]

# verify_sig: ghost contracts of the four closures (R10)
CLOSURES = [
    sub("R10", r"\|hash\|\s*(secp256k1::Message::from_digest\(hash\.to_byte_array\(\)\))",
        r"|hash| -> (m: secp256k1::Message) ensures m.0 == hash.0 { \1 }"),
    sub("R10", r"\|msg\|\s*\{(\s*secp\.verify_ecdsa\(\s*&msg,\s*&ecdsa_sig\.signature,\s*&key\.inner\s*\)\s*\.is_ok\(\)\s*)\}",
        r"|msg: secp256k1::Message| -> (b: bool) ensures b == secp_verify_ecdsa(msg.0, ecdsa_sig.signature, key.inner) {\1}"),
    sub("R10", r"\|msg\|\s*\{(\s*secp\.verify_schnorr\(\s*&schnorr_sig\.signature,\s*&msg,\s*xpk\s*\)\s*\.is_ok\(\)\s*)\}",
        r"|msg: secp256k1::Message| -> (b: bool) ensures b == secp_verify_schnorr(schnorr_sig.signature, msg.0, *xpk) {\1}"),
]


def C(tag, text, props=("C13",)):
    t = (text.replace("$CLS", "out_class(self.inner)").replace("$ES", "(*sig)->Ecdsa_1").replace("$EK", "(*sig)->Ecdsa_0")
         .replace("$SS", "(*sig)->Schnorr_1").replace("$SK", "(*sig)->Schnorr_0")
         .replace("$PO", "prevout_of(*prevouts, input_idx)"))
    return Clause(tag, props, t)


def verify_sig_cases():
    SCHNORR_ONLY = C("schnorr_only_in_taproot", "(*sig) is Schnorr && !is_taproot($CLS) ==> !r")
    ECDSA_ONLY = C("ecdsa_only_before_taproot", "(*sig) is Ecdsa && is_taproot($CLS) ==> !r")
    legacy = [
        # legacy: SignatureHash(scriptCode = the interpreter's script code, tx, nIn = this input, nHashType of the signature),
        # verified with the key and the signature of the pair
        C("legacy_uses_legacy_digest", "r && $CLS is Legacy ==> (*sig) is Ecdsa && ecdsa_ok(digest_legacy(*tx, input_idx, code(*self), sighash_u32($ES.sighash_type)), $ES, $EK)"),
        SCHNORR_ONLY,
    ]
    segwit = [
        C("segwit_uses_bip143_digest_with_this_inputs_amount",
          "r && $CLS is SegwitV0 ==> (*sig) is Ecdsa && $PO is Some && ecdsa_ok(digest_segwit(*tx, input_idx, code(*self), $PO->Some_0.spec_borrow().value, $ES.sighash_type), $ES, $EK)"),
        C("missing_prevout_rejects", "$CLS is SegwitV0 && $PO is None ==> !r"),
        SCHNORR_ONLY,
    ]
    MISSING_TAP = C("missing_prevout_rejects", "is_taproot($CLS) && input_idx < tx.input@.len() && $PO is None ==> !r")
    key = [
        C("taproot_key_spend_digest", "r && $CLS is TaprootKeySpend ==> (*sig) is Schnorr && schnorr_ok(digest_tap_key(*tx, input_idx, *prevouts, $SS.sighash_type), $SS, $SK)"),
        MISSING_TAP, ECDSA_ONLY,
    ]
    script = [
        C("taproot_script_spend_digest_commits_to_leaf",
          "r && $CLS is TaprootScriptSpend ==> (*sig) is Schnorr && schnorr_ok(digest_tap_script(*tx, input_idx, *prevouts, tap_leaf_hash(code(*self), LeafVersion::TapScript), $SS.sighash_type), $SS, $SK)"),
        MISSING_TAP, ECDSA_ONLY,
    ]
    shared = [
        # the whole rule, both directions: accepted iff it is a valid signature OF THIS INPUT for the class's message
        C("input_index_is_this_input", "r ==> sig_valid_for_input(*self, *tx, input_idx, *prevouts, *sig)"),
        C("accepts_valid_signature_of_this_input", "input_idx < tx.input@.len() && sig_valid_for_input(*self, *tx, input_idx, *prevouts, *sig) ==> r"),
        # doc of verify_sig: "Returns false if the input index is out of range" (there is no such input to sign for)
        C("out_of_range_input_index_rejects", "input_idx >= tx.input@.len() ==> !r"),
    ]
    cases = [("legacy", "out_class(self.inner) is Legacy", legacy), ("segwit_v0", "out_class(self.inner) is SegwitV0", segwit),
             ("taproot_key_spend", "out_class(self.inner) is TaprootKeySpend", key),
             ("taproot_script_spend", "out_class(self.inner) is TaprootScriptSpend", script)]
    return shared, cases


def class_contracts():
    T = lambda cls: Contract(ensures=[Clause("table", ("C13",), "r == (%s)" % cls)])
    return {
        "is_legacy": T("out_class(self.inner) is Legacy"),
        "is_segwit_v0": T("out_class(self.inner) is SegwitV0"),
        "is_taproot_v1_key_spend": T("out_class(self.inner) is TaprootKeySpend"),
        "is_taproot_v1_script_spend": T("out_class(self.inner) is TaprootScriptSpend"),
        "sig_type": Contract(ensures=[
            Clause("schnorr_iff_taproot", ("C13",), "(r is Schnorr) == is_taproot(out_class(self.inner))"),
            Clause("ecdsa_iff_before_taproot", ("C13",), "(r is Ecdsa) == (out_class(self.inner) is Legacy || out_class(self.inner) is SegwitV0)")]),
    }


def dep_item(vf, dep, ver, rel, anchor, rewrites):
    reg = dep.at(rel, anchor)
    text = vf._apply(strip_docs(reg.text), rewrites, anchor).strip("\n")      # `pub` kept: re-exported through module aliases
    vf._emit(text, dict(origin="repo", file="bitcoin-%s/%s" % (ver, rel), lines=reg.lines(), anchor=anchor))


def build(repo):
    vf = VerusFile(NAME, repo)
    dep, ver = dep_repo(repo)
    vf.raw(PRELUDE, keep_vis=True)
    vf.trust("prelude stubs: Borrow (spec view), Result::unwrap_or (assume_specification), the hash newtypes + PartialEqSpecImpl for hash160::Hash, hash160::Hash::hash (uninterpreted), "
             "Amount / Version / OutPoint / Witness / Script / FutureLeafVersion / TapLeafHash / XOnlyPublicKey / secp256k1::{PublicKey, Message, Secp256k1, ecdsa::Signature, schnorr::Signature}, "
             "LegacySighash / SegwitV0Sighash / TapSighash (the value is its 32 bytes)",
             "bitcoin / secp256k1 / std values reduced to opaque Copy values; derived PartialEq on a byte-array newtype is structural equality; std semantics of unwrap_or")

    # ---- the REAL definitions from the dependency source pinned by Cargo.lock -------------------------------------------------
    SIG = "src/crypto/sighash.rs"
    TX = "src/blockdata/transaction.rs"
    dep_item(vf, dep, ver, SIG, "enum:EcdsaSighashType", [COPY])
    dep_item(vf, dep, ver, SIG, "enum:TapSighashType", [COPY])
    dep_item(vf, dep, ver, SIG, "enum:Prevouts", [NODERIVE])
    dep_item(vf, dep, ver, "src/crypto/key.rs", "struct:PublicKey", [COPY])
    dep_item(vf, dep, ver, TX, "struct:TxOut", [NODERIVE, CFG_OFF])
    dep_item(vf, dep, ver, TX, "struct:TxIn", [NODERIVE, CFG_OFF])
    dep_item(vf, dep, ver, TX, "struct:Transaction", [NODERIVE, CFG_OFF])
    vf._emit("pub mod ecdsa {\n    use super::*;\n    use vstd::prelude::*;\n    verus!{", dict(origin="verif"))
    dep_item(vf, dep, ver, "src/crypto/ecdsa.rs", "struct:Signature", [COPY, CFG_OFF])
    vf._emit("    }\n}\npub mod taproot {\n    pub use crate::TapLeafHash;\n    use super::*;\n    use vstd::prelude::*;\n    verus!{", dict(origin="verif"))
    dep_item(vf, dep, ver, "src/crypto/taproot.rs", "struct:Signature", [COPY, CFG_OFF])
    dep_item(vf, dep, ver, "src/taproot/mod.rs", "enum:LeafVersion", [COPY])
    vf._emit("    }\n}", dict(origin="verif"))
    vf.raw(DEP_METHODS % dict(on_curve_encoding=_imp(c13_from_txdata.PRELUDE, "on_curve_encoding"),
                              valid_pubkey=_imp(c13_from_txdata.PRELUDE, "valid_pubkey")), keep_vis=True)
    vf.trust("SighashCache::{legacy_signature_hash, p2wsh_signature_hash, taproot_key_spend_signature_hash, taproot_script_spend_signature_hash} (external_body)",
             "the four digests are UNINTERPRETED functions of exactly the arguments passed (+ the transaction); the cache is memoisation only; "
             "Err <=> no digest; range facts read from bitcoin-0.32 src/crypto/sighash.rs (legacy / segwit: tx_in(input_index) must exist; taproot: check_all, "
             "Prevouts::One needs i == input_index and an existing input); nothing is assumed about input_index for taproot with Prevouts::All")
    vf.trust("Secp256k1::{verify_ecdsa, verify_schnorr}, TapLeafHash::from_script (external_body)", "uninterpreted predicates / function of their arguments (FFI, tagged hash)")
    vf.trust("PublicKey::{from_slice, to_bytes}, XOnlyPublicKey::{from_slice, serialize} (external_body)",
             "a key parses iff its encoding is valid (33 bytes / 65 bytes SEC1 on the curve: `valid_pubkey` imported from c13_from_txdata; 32 bytes BIP340) and then "
             "serialises to the SAME bytes")
    with vf.block("impl EcdsaSighashType"):
        reg = dep.at(SIG, "impl:EcdsaSighashType/fn:to_u32")
        vf.fn_text("EcdsaSighashType::to_u32", strip_docs(reg.text).strip("\n"),       # `pub` kept
                   Contract(ensures=[Clause("consensus_flag_byte", ("C13",), "r == sighash_u32(self)")]), PROPS,
                   file="bitcoin-%s/%s" % (ver, SIG), lines=reg.lines(), anchor="impl:EcdsaSighashType/fn:to_u32")

    # ---- crate types ------------------------------------------------------------------------------------------------------------
    vf.raw(CRATE_STUBS, keep_vis=True)
    vf.trust("crate stubs ScriptContext / NoChecks / Miniscript (opaque) / VerifySig / Error", "out-of-unit types as opaque values; Error reduced to the variants the extracted text names")
    PUB = sub("R1-pub", r"^(enum|struct) ", r"pub \1 ", flags=re.M)       # R1: visible to the trait-impl spec fns (FromSpecImpl, Borrow)
    pubitem = lambda rel, anchor, rws: vf.item(rel, anchor, rewrites=list(rws) + [PUB])
    reg = repo.at(CTX, "enum:SigType")
    vf._emit(vf._apply(strip_docs(reg.text), [COPY], "enum:SigType").strip("\n"), dict(origin="repo", file=CTX, lines=reg.lines(), anchor="enum:SigType"))
    pubitem(MOD, "enum:BitcoinKey", [COPY])
    pubitem(ERR, "enum:PkEvalErrInner", [COPY])
    pubitem(STACK, "enum:Element", [COPY])
    pubitem(STACK, "struct:Stack", [NODERIVE, lit("R1-pub", "(Vec<Element<'txin>>)", "(pub Vec<Element<'txin>>)")])
    pubitem(INNER, "enum:PubkeyType", [COPY])
    pubitem(INNER, "enum:ScriptType", [COPY])
    pubitem(INNER, "enum:Inner", [NODERIVE] + PATHS)
    pubitem(MOD, "enum:KeySigPair", [COPY])
    pubitem(MOD, "enum:HashLockType", [COPY])
    pubitem(MOD, "enum:SatisfiedConstraint", [COPY])
    vf.item(MOD, "struct:NodeEvaluationState")
    vf.item(MOD, "struct:Iter", rewrites=[lit("R7", "Box<dyn FnMut(&KeySigPair) -> bool + 'intp>", "VerifySig")])
    FIELDS_PUB = sub("R1-pub", r"(?m)^(\s+)(inner|stack|script_code|sequence|lock_time):", r"\1pub \2:")
    pubitem(MOD, "struct:Interpreter", PATHS + [FIELDS_PUB])
    imports, pkh_checksig = imported()
    vf.raw(SPEC % dict(imports=imports, pkh_checksig_post=pkh_checksig), keep_vis=True)
    vf.raw(NEXT_SPEC)
    vf.trust("FromSpecImpl glue for BitcoinKey / PkEvalErrInner, impl Borrow<TxOut> for TxOut", "the real From impls of BitcoinKey and PkEvalErrInner are verified against the glue; T = TxOut borrows itself")
    vf.trust("Iter::iter_next (external_body)", "uninterpreted transformer of the iterator; does not write has_errored (checked syntactically on its text; per-step frame proved in c13_iter_step)")
    if "has_errored" in repo.at(MOD, "impl:Iter/fn:iter_next").text or "has_errored" in repo.at(MOD, "impl:Iter/fn:push_evaluation_state").text:
        raise Undecided("iter_next / push_evaluation_state name `has_errored`: the frame assumed for iter_next no longer holds syntactically")
    vf.spec_obligation("oracle_lemmas", LEMMAS, PROPS)

    # ---- keys ---------------------------------------------------------------------------------------------------------------------
    with vf.block("impl From<bitcoin::PublicKey> for BitcoinKey"):
        vf.fn(MOD, "impl:From<bitcoin::PublicKey> for BitcoinKey/fn:from", qual="BitcoinKey<PublicKey>", props=("C11",))
    with vf.block("impl From<bitcoin::key::XOnlyPublicKey> for BitcoinKey"):
        vf.fn(MOD, "impl:From<bitcoin::key::XOnlyPublicKey> for BitcoinKey#1/fn:from", qual="BitcoinKey<XOnlyPublicKey>", props=("C11",))
    with vf.block("impl From<BitcoinKey> for PkEvalErrInner"):
        vf.fn(ERR, "impl:From<BitcoinKey> for PkEvalErrInner/fn:from", qual="PkEvalErrInner<BitcoinKey>", props=("C11",))
    vf._emit("pub trait ToPublicKey {\n"
             "    spec fn spec_to_public_key(&self) -> bitcoin::PublicKey;\n"
             "    fn to_public_key(&self) -> (r: bitcoin::PublicKey) ensures r == self.spec_to_public_key();\n"
             "    spec fn spec_to_x_only_pubkey(&self) -> XOnlyPublicKey;\n"
             "    fn to_x_only_pubkey(&self) -> (r: XOnlyPublicKey) ensures r == self.spec_to_x_only_pubkey();", dict(origin="verif"))
    # the REAL default body: HASH160 of the SEC1 serialisation (ECDSA contexts) / of the 32-byte serialisation (tapscript)
    vf.fn(LIB, "trait:ToPublicKey/fn:to_pubkeyhash", qual="ToPublicKey", props=PROPS, contract=Contract(ensures=[
        Clause("ecdsa_hashes_the_sec1_serialisation", ("C13",), "sig_type is Ecdsa ==> r == spec_hash160(self.spec_to_public_key().ser())"),
        Clause("schnorr_hashes_the_32_byte_serialisation", ("C13",), "sig_type is Schnorr ==> r == spec_hash160(self.spec_to_x_only_pubkey().ser())")]))
    vf._emit("}", dict(origin="verif"))
    vf._emit("impl ToPublicKey for bitcoin::PublicKey {\n    open spec fn spec_to_public_key(&self) -> bitcoin::PublicKey { *self }", dict(origin="verif"))
    vf.fn(LIB, "impl:ToPublicKey for bitcoin::PublicKey/fn:to_public_key", qual="ToPublicKey<PublicKey>", props=("C11",))
    vf._emit("    open spec fn spec_to_x_only_pubkey(&self) -> XOnlyPublicKey { xonly_of_point(self.inner) }\n"
             "    #[verifier::external_body] fn to_x_only_pubkey(&self) -> (r: XOnlyPublicKey) { unimplemented!() }\n}", dict(origin="verif"))
    vf._emit("impl ToPublicKey for bitcoin::secp256k1::XOnlyPublicKey {\n    open spec fn spec_to_public_key(&self) -> bitcoin::PublicKey { pk_of_xonly(*self) }\n"
             "    #[verifier::external_body] fn to_public_key(&self) -> (r: bitcoin::PublicKey) { unimplemented!() }\n"
             "    open spec fn spec_to_x_only_pubkey(&self) -> XOnlyPublicKey { *self }", dict(origin="verif"))
    vf.fn(LIB, "impl:ToPublicKey for bitcoin::secp256k1::XOnlyPublicKey/fn:to_x_only_pubkey", qual="ToPublicKey<XOnlyPublicKey>", props=("C11",))
    vf._emit("}", dict(origin="verif"))
    vf.trust("trait ToPublicKey reduced to to_public_key / to_x_only_pubkey / to_pubkeyhash; PublicKey::to_x_only_pubkey and XOnlyPublicKey::to_public_key (external_body)",
             "the cross-kind conversions are uninterpreted; the same-kind ones (`*self`) and the default to_pubkeyhash are the real text")
    with vf.block("impl BitcoinKey"):
        vf.fn(MOD, "impl:BitcoinKey/fn:to_pubkeyhash", qual="BitcoinKey", props=PROPS, contract=Contract(ensures=[
            Clause("full_key_hashes_its_33_or_65_byte_serialisation", ("C13",), "self matches BitcoinKey::Fullkey(pk) ==> (sig_type is Ecdsa ==> r == spec_hash160(pk.ser()))"),
            Clause("xonly_key_hashes_its_32_byte_serialisation", ("C13",), "self matches BitcoinKey::XOnlyPublicKey(x) ==> (sig_type is Schnorr ==> r == spec_hash160(x.ser()))"),
            # the key of a context hashes its OWN serialisation, i.e. what evaluate_pkh compares against
            Clause("key_of_context_kind_hashes_its_bytes", ("C13",), "(self is Fullkey && sig_type is Ecdsa) || (self is XOnlyPublicKey && sig_type is Schnorr) ==> r == spec_hash160(key_bytes(self))")]))
    with vf.block("impl KeySigPair"):
        vf.fn(MOD, "impl:KeySigPair/fn:as_ecdsa", qual="KeySigPair", props=PROPS, contract=Contract(ensures=[
            Clause("ecdsa_pair_is_returned", ("C13",), "*self matches KeySigPair::Ecdsa(pk, sig) ==> r == Some((pk, sig))"),
            Clause("schnorr_pair_is_none", ("C13",), "*self is Schnorr ==> r is None")]))
        vf.fn(MOD, "impl:KeySigPair/fn:as_schnorr", qual="KeySigPair", props=PROPS, contract=Contract(ensures=[
            Clause("schnorr_pair_is_returned", ("C13",), "*self matches KeySigPair::Schnorr(pk, sig) ==> r == Some((pk, sig))"),
            Clause("ecdsa_pair_is_none", ("C13",), "*self is Ecdsa ==> r is None")]))

    # ---- Interpreter: output classes and verify_sig ----------------------------------------------------------------------------------
    vf.fn(MOD, "impl:Interpreter/fn:verify_sig/fn:get_prevout", props=PROPS,
          contract=Contract(ensures=[
              Clause("is_this_inputs_prevout", ("C13",), "r is Some <==> prevout_of(*prevouts, input_index) is Some"),
              Clause("is_this_inputs_prevout_value", ("C13",), "r is Some ==> *r->Some_0 == prevout_of(*prevouts, input_index)->Some_0"),
              Clause("index_in_range", ("C13", "C11"), "r is Some && *prevouts is All ==> input_index < (*prevouts)->All_0@.len()")]))
    cc = class_contracts()
    shared, cases = verify_sig_cases()
    with vf.block("impl<'txin> Interpreter<'txin>"):
        for f in ("is_legacy", "is_segwit_v0", "is_taproot_v1_key_spend", "is_taproot_v1_script_spend", "sig_type"):
            vf.fn(MOD, "impl:Interpreter/fn:%s" % f, qual="Interpreter", props=PROPS, rewrites=PATHS, contract=cc[f])
        vf.fn(MOD, "impl:Interpreter/fn:verify_sig", qual="Interpreter", props=PROPS,
              rewrites=[hoist(repo, MOD, "impl:Interpreter/fn:verify_sig/fn:get_prevout"),
                        sub("R1-attrs", r"#\[allow\(deprecated\)\][^\n]*\n", "", required=False)] + CLOSURES,
              contract=Contract(requires=[Clause("interpreter_built_by_from_txdata", (), "interp_wf(*self)")], ensures=shared), cases=cases)

    # ---- Stack::evaluate_pkh -----------------------------------------------------------------------------------------------------------
    vf.fn(MOD, "fn:verify_sersig", assumed=True, rewrites=[lit("R7", "&mut Box<dyn FnMut(&KeySigPair) -> bool + 'txin>", "&mut VerifySig")],
          contract=Contract(ensures=[Clause("uninterpreted", (), "r == spec_sersig(*old(verify_sig), *pk, sigser@) && *final(verify_sig) == spec_sersig_next(*old(verify_sig), *pk, sigser@)")]))
    vf.trust("verify_sersig (external_body)", "signature parsing + the dyn FnMut callback: an uninterpreted function of (callback state, key, signature bytes) -- the same contract c13_iter_step consumes")
    vf.fn(STACK, "impl:Stack/fn:evaluate_pkh/fn:bitcoin_key_from_slice", props=PROPS, contract=Contract(ensures=[
        Clause("parses_as_the_contexts_key_kind", ("C13",), "r == key_of_kind(sl@, sig_type)"),
        Clause("ecdsa_context_key_is_33_or_65_bytes", ("C13",), "sig_type is Ecdsa && r is Some ==> r->Some_0 is Fullkey && (sl@.len() == 33 || sl@.len() == 65)"),
        Clause("schnorr_context_key_is_32_bytes", ("C13",), "sig_type is Schnorr && r is Some ==> r->Some_0 is XOnlyPublicKey && sl@.len() == 32"),
        Clause("key_is_the_provided_bytes", ("C13",), "r is Some ==> key_bytes(r->Some_0) == sl@")]))
    sc = stack_contracts()
    S, S2 = "old(self).v()", "final(self).v()"
    KB = "%s.last()->Push_0@" % S
    with vf.block("impl<'txin> Stack<'txin>"):
        for f in ("is_empty", "len", "pop", "push", "split_off", "last"):
            vf.fn(STACK, "impl:Stack/fn:%s" % f, qual="Stack", props=("C11",), contract=sc[f])
        vf.fn(STACK, "impl:Stack/fn:evaluate_pkh", qual="Stack", props=PROPS,
              rewrites=[VS, hoist(repo, STACK, "impl:Stack/fn:evaluate_pkh/fn:bitcoin_key_from_slice")],
              contract=Contract(ensures=[
                  Clause("dup_hash160_equalverify_checksig", ("C13",), "pkh_template_post(pkh, sig_type, *old(verify_sig), *final(verify_sig), %s, %s, r)" % (S, S2)),
                  # the conjuncts a reader looks for, each on its own
                  Clause("key_hash_must_equal_pkh", ("C13",), "%s.len() > 0 && %s.last() is Push && spec_hash160(%s) != pkh ==> r == Some(Err::<SatisfiedConstraint, Error>(Error::PkHashVerifyFail(pkh)))" % (S, S, KB)),
                  Clause("key_must_parse_as_the_contexts_kind", ("C13",), "%s.len() > 0 && %s.last() is Push && key_of_kind(%s, sig_type) is None ==> aborts(r)" % (S, S, KB)),
                  Clause("ecdsa_context_key_is_33_or_65_bytes", ("C13",), "!aborts(r) && sig_type is Ecdsa ==> %s.len() == 33 || %s.len() == 65" % (KB, KB)),
                  Clause("schnorr_context_key_is_32_bytes", ("C13",), "!aborts(r) && sig_type is Schnorr ==> %s.len() == 32" % KB),
                  Clause("empty_signature_dissatisfies", ("C13",), "goes_on(r) ==> %s.len() >= 2 && %s[%s.len() - 2] is Dissatisfied && %s =~= %s.drop_last().drop_last().push(Element::Dissatisfied) && *final(verify_sig) == *old(verify_sig)" % (S, S, S, S2, S)),
                  Clause("reports_the_checked_key_and_its_hash", ("C13",), "r is Some && r->Some_0 is Ok ==> key_of_kind(%s, sig_type) is Some && "
                         "reports(r, SatisfiedConstraint::PublicKeyHash { keyhash: pkh, key_sig: spec_sersig(*old(verify_sig), key_of_kind(%s, sig_type)->Some_0, %s[%s.len() - 2]->Push_0@)->Ok_0 })" % (KB, KB, S, S)),
                  # what c13_iter_step ASSUMES of evaluate_pkh (its trusted stack shape) follows from what is proved here
                  Clause("implies_c13_iter_step_assumption", ("C13",), "pkh_post(%s, %s, r)" % (S, S2)),
              ]))

    # ---- Iter::next -----------------------------------------------------------------------------------------------------------------
    item_ty = re.search(r"type\s+Item\s*=\s*([^;]+);", repo.at(MOD, "impl:Iterator for Iter").text)
    if not item_ty or re.sub(r"\s+", "", item_ty.group(1)) != "Result<SatisfiedConstraint,Error>":
        raise Undecided("impl Iterator for Iter: `type Item` is not Result<SatisfiedConstraint, Error>")
    O, F = "*old(self)", "*final(self)"
    with vf.block("impl<'intp, 'txin: 'intp> Iter<'intp, 'txin>"):
        vf.fn(MOD, "impl:Iterator for Iter/fn:next", qual="Iter", props=PROPS,
              rewrites=[lit("R7", "Option<Self::Item>", "Option<Result<SatisfiedConstraint, Error>>")],
              contract=Contract(ensures=[
                  Clause("errored_iterator_yields_none_forever", ("C13",), "(%s).has_errored ==> r is None && %s == %s" % (O, F, O)),
                  Clause("error_is_sticky", ("C13",), "!(%s).has_errored && aborts(r) ==> (%s).has_errored" % (O, F)),
                  Clause("forwards_iter_next", ("C13",), "!(%s).has_errored ==> r == spec_iter_next_res(%s)" % (O, O)),
                  Clause("state_is_iter_nexts", ("C13",), "!(%s).has_errored && !aborts(r) ==> %s == spec_iter_next_state(%s)" % (O, F, O)),
                  Clause("no_spurious_stop", ("C13",), "!(%s).has_errored && !aborts(r) ==> !(%s).has_errored" % (O, F)),
                  Clause("iterator_protocol", ("C13",), "next_post(%s, %s, r)" % (O, F)),
              ]))
    return vf
