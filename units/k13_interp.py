"""C13, first tier: Kani contracts on the interpreter's abstract stack (src/interpreter/stack.rs).

Complete (loop-free, full u32 x u32 domain): `Stack::evaluate_after` against BIP65, `Stack::evaluate_older`
against BIP112, the lock-time conversions used by the `After` / `Older` arms of `Iter::iter_next`.
Bounded only in the LENGTH of the byte string (a handful of concrete lengths, all contents): `Element::from(&[u8])`,
`Element::from_instruction` (complete over the 256 opcodes), the 32-byte preimage-size rule of the four hash
evaluators.  The size == 32 path of the hash evaluators, `evaluate_pk` and `evaluate_multi` are verified on the
extracted text (any length, hash / signature check uninterpreted) in the Verus unit c13_iter_step.
"""
NAME = "k13_interp"
ENGINE = "kani"
PROPS = ("C13", "C11")
INJECT = [("src/interpreter/stack.rs", "contracts/kani/k13_stack.rs"),
          ("src/interpreter/inner.rs", "contracts/kani/k13_inner.rs")]
TRUSTED = [
    "bitcoin::absolute::LockTime / relative::LockTime / Sequence / script::Instruction / opcodes are executed as compiled (not stubbed)",
    "BIP112's `tx.version >= 2` rule is outside the harness: the interpreter API is never given the transaction version",
    "hash functions are never reached by the size-rule harnesses (element size != 32); nothing is stubbed",
]
DROPPED = ["Stack::evaluate_hash160 / evaluate_ripemd160: no Kani harness (goto-instrument exhausts memory on bitcoin_hashes' RIPEMD160 when run next to other harnesses); proved on the extracted text in c13_iter_step",
           "Stack::evaluate_pk / evaluate_pkh / evaluate_multi: need libsecp256k1 (FFI) -- excluded from Kani; evaluate_pk and evaluate_multi are verified modulo verify_sersig in c13_iter_step, evaluate_pkh is not verified"]
_LEN = "byte strings of the concrete lengths listed in the harness (element: 0, 1, 2, 20, 32, 33, 80; push instruction: 0, 1, 33; hash size rule: top = [], [1], Push of 1 / 31 / 33 bytes) with fully symbolic contents; the code inspects only len() and, for len 1, byte 0"


def _hash(name, fn, tier="quick"):
    return dict(name="%s_size_rule" % name, fn="Stack::evaluate_%s" % name, props=("C13", "C11"), kind="bounded", bound=_LEN, tier=tier,
                tags=["C13:evaluate_%s.size_not_32_aborts" % name, "C13:evaluate_%s.error_kind" % name,
                      "C13:evaluate_%s.empty_stack" % name, "C13:evaluate_%s.frame" % name])


HARNESSES = [
    dict(name="evaluate_after_bip65", fn="Stack::evaluate_after", props=("C13", "C11"), kind="complete",
         tags=["C13:evaluate_after.always_yields", "C13:evaluate_after.bip65", "C13:evaluate_after.reports_n",
               "C13:evaluate_after.pushes_satisfied", "C13:evaluate_after.stack_untouched_on_error",
               "C13:evaluate_after.error_not_met", "C13:evaluate_after.error_unit_mismatch"]),
    dict(name="after_arm_conversion", fn="absolute::LockTime::from(AbsLockTime)", props=("C13", "C11"), kind="complete",
         tags=["C13:after_arm.conversion_preserves_n", "C13:after_arm.conversion_is_from_consensus"]),
    dict(name="evaluate_older_bip112", fn="Stack::evaluate_older", props=("C13", "C11"), kind="complete",
         tags=["C13:evaluate_older.always_yields", "C13:evaluate_older.bip112", "C13:older_arm.conversion_preserves_n",
               "C13:evaluate_older.reports_n", "C13:evaluate_older.pushes_satisfied", "C13:evaluate_older.stack_untouched_on_error",
               "C13:evaluate_older.error_disabled", "C13:evaluate_older.error_not_met"]),
    dict(name="element_from_slice", fn="Element::from(&[u8])", props=("C13", "C11"), kind="bounded", bound=_LEN,
         tags=["C13:element_from.one_is_satisfied", "C13:element_from.empty_is_dissatisfied", "C13:element_from.else_push_same_bytes"]),
    dict(name="element_from_push_instruction", fn="Element::from_instruction", props=("C13", "C11"), kind="bounded", bound=_LEN,
         tags=["C13:from_instruction.push_is_element_from"]),
    dict(name="element_from_instruction", fn="Element::from_instruction", props=("C13", "C11"), kind="complete",
         tags=["C13:from_instruction.op1_is_satisfied", "C13:from_instruction.other_opcodes_refused", "C13:from_instruction.script_error_refused"]),
    # GENUINE DEFECT (red on the unchanged tree): a witness-script / redeem-script element whose bytes are [0x01] is run as
    # the Miniscript `1` (script 0x51) and from_txdata then checks the scriptPubKey against the hash of 0x51
    dict(name="script_elem_is_its_bytes", fn="inner::script_from_stack_elem", props=("C13",), kind="complete",
         tags=["C13:script_from_stack_elem.bytes_01_are_not_op_1"]),
    # evaluate_hash256 is the same text modulo the hash type: thorough tier only.  evaluate_hash160 / evaluate_ripemd160 have
    # no Kani harness: goto-instrument runs out of memory on the RIPEMD160 round function when harnesses run in parallel
    # (see DROPPED); all four are proved for ALL lengths on their extracted text in c13_iter_step.
    _hash("sha256", "evaluate_sha256"), _hash("hash256", "evaluate_hash256", "thorough"),
]
