"""C18 / C07 (Verus): `Semantic::normalized` (src/policy/semantic.rs) under a contract.

C18's first sentence ("normalizing an abstract policy preserves its truth table") and C07 (every lift ends with
`.normalized()`) rest on this function; bounded Kani on real policy trees is infeasible (k18_policy).

Contract (oracle = `sem` of unit c18_semantic: Thresh(k, subs) holds iff at least k subs hold; atoms independent)
  requires wf_deep(self)          -- type invariant of `Threshold` (private fields, every constructor checks / keeps
                                     1 <= k <= n), for every node of the tree
  ensures  sem_preserved          forall assignments a: sem(r, a) == sem(self, a)
           wf_preserved           wf_deep(r)
           leaf_unchanged         a leaf is returned as it is
           or_with_trivial_branch_is_trivial / and_with_unsatisfiable_branch_is_unsatisfiable
                                  the normal-form facts the constant arms of `entails` rely on
  loop invariant `flattening_preserves_meaning` (registered as a named clause): after i normalized children, ret_subs
  has the meaning of their non-constant part -- `all` of it for an and-parent, `any` for an or-parent, the exact count
  otherwise -- with nested and / or spliced only into a parent of the same kind.

REAL REWRITES of the iterator plumbing (every loop / closure BODY stays the text of /repo):
  R8   `let subs: Vec<_> = thresh.iter().map(|sub| BODY).collect();`  ->  index loop over `thresh.data()` pushing BODY
  R15  `subs.iter().filter(|&pol| *pol.as_ref() == Self::Trivial).count()`  ->  count_trivial(&subs)   (stub over the
       recursive spec count `ntriv`; likewise Unsatisfiable -> count_unsatisfiable / `nunsat`)
  R8   `for sub in subs { BODY }`  ->  index loop over `subs.as_slice()`, BODY verbatim
  R4   `ret_subs.extend(subthresh.iter().cloned())`  ->  vec_extend_cloned(&mut ret_subs, subthresh.data())  (append)
  R7   `x.as_ref()` on an `Arc`  ->  `&**x` / `(**x)`;   `Arc::try_unwrap(policy).unwrap()`  ->  arc_try_unwrap_unique(policy)
  R10  ghost: loop invariants, `decreases`, three lemma calls
The recursive call `sub.as_ref().clone().normalized()` is consumed through the function's own contract
(`decreases self`: Verus' structural order on the policy; the clone is equal to the child by the Clone assumption).
"""
import re

from vlib.verus import VerusFile, Contract, Clause, sub, lit, rule
from units import _tree
from units import c18_semantic as S
from units.c02_multi import for_slice_loop, register_named_invariants

NAME = "c18_normalized"
ENGINE = "verus"
PROPS = ("C18", "C07", "C11")
SEM = S.SEM
DROPPED = [
    "normalized: iterator chains rewritten to index loops / std stubs (R8, R15, R4, R7 -- listed in the module docstring); loop and closure bodies, the count arithmetic, the and/or flattening match and the final m-of-n if-chain are the text of /repo",
    "derived Clone of Policy / Threshold and `==` against the field-less variants Trivial / Unsatisfiable are assumed structural (stubs)",
]

NORM_SPEC = r'''
type PolSeq<Pk> = Seq<Arc<Semantic<Pk>>>;
spec fn b2n(b: bool) -> nat { if b { 1 } else { 0 } }
// number of the first n elements of s that hold
spec fn cnt<Pk: MiniscriptKey>(s: PolSeq<Pk>, n: int, a: Asg<Pk>) -> nat decreases n {
    if n <= 0 { 0 } else { cnt(s, n - 1, a) + b2n(sem(*s[n - 1], a)) }
}
spec fn ntriv<Pk: MiniscriptKey>(s: PolSeq<Pk>, n: int) -> nat decreases n {
    if n <= 0 { 0 } else { ntriv(s, n - 1) + b2n(*s[n - 1] is Trivial) }
}
spec fn nunsat<Pk: MiniscriptKey>(s: PolSeq<Pk>, n: int) -> nat decreases n {
    if n <= 0 { 0 } else { nunsat(s, n - 1) + b2n(*s[n - 1] is Unsatisfiable) }
}
spec fn is_const<Pk: MiniscriptKey>(p: Semantic<Pk>) -> bool { p is Trivial || p is Unsatisfiable }
// non-constant elements among the first n: how many there are / how many of them hold
spec fn nnc<Pk: MiniscriptKey>(s: PolSeq<Pk>, n: int) -> nat decreases n {
    if n <= 0 { 0 } else { nnc(s, n - 1) + b2n(!is_const(*s[n - 1])) }
}
spec fn cnt_nc<Pk: MiniscriptKey>(s: PolSeq<Pk>, n: int, a: Asg<Pk>) -> nat decreases n {
    if n <= 0 { 0 } else { cnt_nc(s, n - 1, a) + b2n(!is_const(*s[n - 1]) && sem(*s[n - 1], a)) }
}
// type invariant of Threshold (fields are private; every constructor checks or preserves it), for the whole tree
spec fn wf_deep<Pk: MiniscriptKey>(p: Semantic<Pk>) -> bool decreases p, 1nat, 0nat {
    match p {
        Semantic::Thresh(th) => 1 <= th.k && th.k <= th.inner@.len() && wf_children(p, th.inner@.len()),
        _ => true,
    }
}
spec fn wf_children<Pk: MiniscriptKey>(p: Semantic<Pk>, n: nat) -> bool decreases p, 0nat, n {
    match p {
        Semantic::Thresh(th) => n == 0 || n > th.inner@.len() || (wf_children(p, (n - 1) as nat) && wf_deep(*th.inner@[n - 1])),
        _ => true,
    }
}
proof fn lemma_wf_child<Pk: MiniscriptKey>(p: Semantic<Pk>, n: nat, i: int)
    requires p is Thresh, n <= p->Thresh_0.inner@.len(), wf_children(p, n), 0 <= i < n,
    ensures wf_deep(*p->Thresh_0.inner@[i]),
    decreases n,
{
    if i < n - 1 { lemma_wf_child(p, (n - 1) as nat, i); }
}
proof fn lemma_wf_build<Pk: MiniscriptKey>(p: Semantic<Pk>, n: nat)
    requires p is Thresh, n <= p->Thresh_0.inner@.len(), forall|i: int| 0 <= i < n ==> wf_deep(*#[trigger] p->Thresh_0.inner@[i]),
    ensures wf_children(p, n),
    decreases n,
{
    if n > 0 { lemma_wf_build(p, (n - 1) as nat); }
}
proof fn lemma_sem_count_is_cnt<Pk: MiniscriptKey>(p: Semantic<Pk>, n: nat, a: Asg<Pk>)
    requires p is Thresh, n <= p->Thresh_0.inner@.len(),
    ensures sem_count(p, n, a) == cnt(p->Thresh_0.inner@, n as int, a),
    decreases n,
{
    if n > 0 { lemma_sem_count_is_cnt(p, (n - 1) as nat, a); }
}
proof fn lemma_cnt_bounds<Pk: MiniscriptKey>(s: PolSeq<Pk>, n: int, a: Asg<Pk>)
    requires 0 <= n <= s.len(),
    ensures cnt(s, n, a) <= n, cnt_nc(s, n, a) <= nnc(s, n), nnc(s, n) + ntriv(s, n) + nunsat(s, n) == n,
        cnt(s, n, a) == ntriv(s, n) + cnt_nc(s, n, a),
    decreases n,
{
    if n > 0 { lemma_cnt_bounds(s, n - 1, a); }
}
// pointwise sem-equal sequences have equal counts
proof fn lemma_cnt_pointwise<Pk: MiniscriptKey>(s: PolSeq<Pk>, t: PolSeq<Pk>, n: int, a: Asg<Pk>)
    requires 0 <= n <= s.len(), n <= t.len(), forall|i: int| 0 <= i < n ==> sem(*s[i], a) == sem(*t[i], a),
    ensures cnt(s, n, a) == cnt(t, n, a),
    decreases n,
{
    if n > 0 { lemma_cnt_pointwise(s, t, n - 1, a); }
}
proof fn lemma_cnt_prefix<Pk: MiniscriptKey>(s: PolSeq<Pk>, t: PolSeq<Pk>, n: int, a: Asg<Pk>)
    requires 0 <= n <= s.len(), n <= t.len(), forall|i: int| 0 <= i < n ==> s[i] == t[i],
    ensures cnt(s, n, a) == cnt(t, n, a),
    decreases n,
{
    if n > 0 { lemma_cnt_prefix(s, t, n - 1, a); }
}
proof fn lemma_cnt_concat<Pk: MiniscriptKey>(s: PolSeq<Pk>, t: PolSeq<Pk>, n: int, a: Asg<Pk>)
    requires 0 <= n <= t.len(),
    ensures cnt(s + t, s.len() + n, a) == cnt(s, s.len() as int, a) + cnt(t, n, a),
    decreases n,
{
    if n > 0 {
        lemma_cnt_concat(s, t, n - 1, a);
        assert((s + t)[s.len() + n - 1] == t[n - 1]);
    } else {
        lemma_cnt_prefix(s + t, s, s.len() as int, a);
    }
}
// an `and` node holds iff all its children hold, an `or` node iff one does
proof fn lemma_thresh_sem<Pk: MiniscriptKey>(p: Semantic<Pk>, a: Asg<Pk>)
    requires p is Thresh,
    ensures sem(p, a) == (cnt(p->Thresh_0.inner@, p->Thresh_0.inner@.len() as int, a) >= p->Thresh_0.k),
        cnt(p->Thresh_0.inner@, p->Thresh_0.inner@.len() as int, a) <= p->Thresh_0.inner@.len(),
{
    lemma_sem_count_is_cnt(p, p->Thresh_0.inner@.len(), a);
    lemma_cnt_bounds(p->Thresh_0.inner@, p->Thresh_0.inner@.len() as int, a);
}
spec fn or_with_trivial_branch<Pk: MiniscriptKey>(p: Semantic<Pk>) -> bool {
    p matches Semantic::Thresh(th) && th.k == 1 && th.inner@.len() >= 1 && *th.inner@[0] is Trivial
}
spec fn and_with_unsatisfiable_branch<Pk: MiniscriptKey>(p: Semantic<Pk>) -> bool {
    p matches Semantic::Thresh(th) && th.k == th.inner@.len() && th.inner@.len() >= 1 && *th.inner@[0] is Unsatisfiable
}
proof fn lemma_first_const<Pk: MiniscriptKey>(s: PolSeq<Pk>, n: int)
    requires 1 <= n <= s.len(),
    ensures *s[0] is Trivial ==> ntriv(s, n) >= 1, *s[0] is Unsatisfiable ==> nunsat(s, n) >= 1,
    decreases n,
{
    if n > 1 { lemma_first_const(s, n - 1); }
}


// ---- the second loop of normalized: what ret_subs means after the first i normalized children ----
spec fn loop_inv<Pk: MiniscriptKey>(subs: PolSeq<Pk>, i: int, ret: PolSeq<Pk>, is_and: bool, is_or: bool) -> bool {
    &&& forall|q: int| 0 <= q < ret.len() ==> wf_deep(*#[trigger] ret[q])
    &&& ret.len() >= nnc(subs, i)
    &&& (nnc(subs, i) == 0 ==> ret.len() == 0)
    &&& (is_and ==> forall|a: Asg<Pk>| (#[trigger] cnt(ret, ret.len() as int, a) == ret.len()) == (cnt_nc(subs, i, a) == nnc(subs, i)))
    &&& (is_or ==> forall|a: Asg<Pk>| (#[trigger] cnt(ret, ret.len() as int, a) >= 1) == (cnt_nc(subs, i, a) >= 1))
    &&& (is_and == is_or ==> ret.len() == nnc(subs, i) && forall|a: Asg<Pk>| #[trigger] cnt(ret, ret.len() as int, a) == cnt_nc(subs, i, a))
}
// the flattening rule of the code: a nested `and` is spliced into an `and` parent, a nested `or` into an `or` parent
spec fn flattens<Pk: MiniscriptKey>(x: Semantic<Pk>, is_and: bool, is_or: bool) -> bool {
    x matches Semantic::Thresh(th) && ((is_and && !is_or && th.k == th.inner@.len()) || (!is_and && is_or && th.k == 1))
}
// what one iteration must do with the i-th normalized child: drop a constant, splice a nested and/or of the parent's
// kind, push anything else unchanged
spec fn step_as_specified<Pk: MiniscriptKey>(subs: PolSeq<Pk>, i: int, old_ret: PolSeq<Pk>, new_ret: PolSeq<Pk>, is_and: bool, is_or: bool) -> bool {
    &&& (is_const(*subs[i]) ==> new_ret =~= old_ret)
    &&& (!is_const(*subs[i]) && !flattens(*subs[i], is_and, is_or) ==> new_ret.len() == old_ret.len() + 1 && new_ret.drop_last() =~= old_ret && *new_ret.last() == *subs[i])
    &&& (flattens(*subs[i], is_and, is_or) ==> new_ret =~= old_ret + subs[i]->Thresh_0.inner@)
}
proof fn lemma_loop_step<Pk: MiniscriptKey>(subs: PolSeq<Pk>, i: int, old_ret: PolSeq<Pk>, new_ret: PolSeq<Pk>, is_and: bool, is_or: bool)
    requires
        0 <= i < subs.len(), wf_deep(*subs[i]), loop_inv(subs, i, old_ret, is_and, is_or),
    ensures step_as_specified(subs, i, old_ret, new_ret, is_and, is_or) ==> loop_inv(subs, i + 1, new_ret, is_and, is_or),
{
    if !step_as_specified(subs, i, old_ret, new_ret, is_and, is_or) { return; }
    let x = *subs[i];
    let ol = old_ret.len() as int;
    let nl = new_ret.len() as int;
    if is_const(x) {
    } else if flattens(x, is_and, is_or) {
        let ch = x->Thresh_0.inner@;
        assert forall|q: int| 0 <= q < nl implies wf_deep(*#[trigger] new_ret[q]) by {
            if q >= ol { lemma_wf_child(x, ch.len(), q - ol); assert(new_ret[q] == ch[q - ol]); } else { assert(new_ret[q] == old_ret[q]); }
        }
        assert forall|a: Asg<Pk>| cnt(new_ret, nl, a) == cnt(old_ret, ol, a) + cnt(ch, ch.len() as int, a)
            && cnt(old_ret, ol, a) <= ol && cnt(ch, ch.len() as int, a) <= ch.len() && cnt_nc(subs, i, a) <= nnc(subs, i)
            && sem(x, a) == (cnt(ch, ch.len() as int, a) >= x->Thresh_0.k) by {
            lemma_cnt_concat(old_ret, ch, ch.len() as int, a);
            lemma_cnt_bounds(old_ret, ol, a); lemma_cnt_bounds(ch, ch.len() as int, a); lemma_cnt_bounds(subs, i, a);
            lemma_thresh_sem(x, a);
        }
    } else {
        assert forall|q: int| 0 <= q < nl implies wf_deep(*#[trigger] new_ret[q]) by {
            if q < ol { assert(new_ret[q] == new_ret.drop_last()[q]); }
        }
        assert forall|a: Asg<Pk>| cnt(new_ret, nl, a) == cnt(old_ret, ol, a) + b2n(sem(x, a))
            && cnt(old_ret, ol, a) <= ol && cnt_nc(subs, i, a) <= nnc(subs, i) by {
            lemma_cnt_prefix(new_ret, old_ret, ol, a);
            lemma_cnt_bounds(old_ret, ol, a); lemma_cnt_bounds(subs, i, a);
        }
    }
}
// the final `m of n` reasoning of normalized
spec fn final_facts<Pk: MiniscriptKey>(p: Semantic<Pk>, subs: PolSeq<Pk>, ret: PolSeq<Pk>, m: int, is_and: bool, is_or: bool) -> bool {
    let len = subs.len() as int;
    let rl = ret.len() as int;
    &&& (m == 0 ==> forall|a: Asg<Pk>| sem(p, a))
    &&& (m > rl ==> forall|a: Asg<Pk>| !sem(p, a))
    &&& (m != 0 && m <= rl && rl == 1 ==> forall|a: Asg<Pk>| sem(p, a) == sem(*ret[0], a))
    &&& (m != 0 && m <= rl && rl != 1 && is_and ==> forall|a: Asg<Pk>| sem(p, a) == (#[trigger] cnt(ret, rl, a) >= rl))
    &&& (m != 0 && m <= rl && rl != 1 && !is_and && is_or ==> forall|a: Asg<Pk>| sem(p, a) == (#[trigger] cnt(ret, rl, a) >= 1))
    &&& (m != 0 && m <= rl && rl != 1 && !is_and && !is_or ==> forall|a: Asg<Pk>| sem(p, a) == (#[trigger] cnt(ret, rl, a) >= m))
    &&& (or_with_trivial_branch(p) ==> m == 0)
    &&& (and_with_unsatisfiable_branch(p) ==> m != 0 && m > rl)
    // whatever threshold is built over ret: its meaning and its well-formedness
    &&& (forall|r2: Semantic<Pk>, a: Asg<Pk>| r2 is Thresh && r2->Thresh_0.inner@ == ret ==> #[trigger] sem(r2, a) == (cnt(ret, rl, a) >= r2->Thresh_0.k))
    &&& (forall|r2: Semantic<Pk>| r2 is Thresh && r2->Thresh_0.inner@ == ret && 1 <= r2->Thresh_0.k <= rl ==> #[trigger] wf_deep(r2))
    &&& (rl >= 1 ==> wf_deep(*ret[0]))
}
// m = k minus the trivially satisfied children (saturating); the node behaves like an `and` iff all remaining
// NON-CONSTANT children are required, like an `or` iff one is
spec fn counts_as_specified<Pk: MiniscriptKey>(p: Semantic<Pk>, subs: PolSeq<Pk>, m: int, is_and: bool, is_or: bool) -> bool {
    &&& m == (if p->Thresh_0.k >= ntriv(subs, subs.len() as int) { p->Thresh_0.k - ntriv(subs, subs.len() as int) } else { 0 })
    &&& is_and == (m == nnc(subs, subs.len() as int))
    &&& is_or == (m == 1)
}
proof fn lemma_final<Pk: MiniscriptKey>(p: Semantic<Pk>, subs: PolSeq<Pk>, ret: PolSeq<Pk>, m: int, is_and: bool, is_or: bool)
    requires
        p is Thresh, wf_deep(p), subs.len() == p->Thresh_0.inner@.len(),
        forall|i: int, a: Asg<Pk>| 0 <= i < subs.len() ==> #[trigger] sem(*subs[i], a) == sem(*p->Thresh_0.inner@[i], a),
        forall|i: int| 0 <= i < subs.len() && is_leaf(*p->Thresh_0.inner@[i]) ==> *#[trigger] subs[i] == *p->Thresh_0.inner@[i],
        loop_inv(subs, subs.len() as int, ret, is_and, is_or),
    ensures counts_as_specified(p, subs, m, is_and, is_or) ==> final_facts(p, subs, ret, m, is_and, is_or),
{
    if !counts_as_specified(p, subs, m, is_and, is_or) { return; }
    let len = subs.len() as int;
    let rl = ret.len() as int;
    let k = p->Thresh_0.k as int;
    let ch = p->Thresh_0.inner@;
    assert forall|a: Asg<Pk>| sem(p, a) == (cnt_nc(subs, len, a) >= m) && cnt_nc(subs, len, a) <= nnc(subs, len) && cnt(ret, rl, a) <= rl
        && (rl == 1 ==> cnt(ret, rl, a) == b2n(sem(*ret[0], a))) by {
        lemma_thresh_sem(p, a);
        lemma_cnt_pointwise(subs, ch, len, a);
        lemma_cnt_bounds(subs, len, a);
        lemma_cnt_bounds(ret, rl, a);
        if rl == 1 { assert(cnt(ret, 0, a) == 0); }
    }
    lemma_cnt_bounds(subs, len, arbitrary());
    if len >= 1 { lemma_first_const(subs, len); }
    assert forall|r2: Semantic<Pk>, a: Asg<Pk>| r2 is Thresh && r2->Thresh_0.inner@ == ret implies #[trigger] sem(r2, a) == (cnt(ret, rl, a) >= r2->Thresh_0.k) by {
        lemma_thresh_sem(r2, a);
    }
    assert forall|r2: Semantic<Pk>| r2 is Thresh && r2->Thresh_0.inner@ == ret && 1 <= r2->Thresh_0.k <= rl implies #[trigger] wf_deep(r2) by {
        lemma_wf_build(r2, rl as nat);
    }
}

'''

NORM_STUBS = r'''
// ---- trusted std / derive stubs of normalized ---------------------------------------------------------------------
impl<Pk: MiniscriptKey> Clone for Semantic<Pk> {
    #[verifier::external_body]
    fn clone(&self) -> (r: Self) ensures r == *self { unimplemented!() }
}
impl<T: Clone, const MAX: usize> Clone for Threshold<T, MAX> {
    #[verifier::external_body]
    fn clone(&self) -> (r: Self) ensures r == *self { unimplemented!() }
}
#[verifier::external_body]
fn count_trivial<Pk: MiniscriptKey>(subs: &Vec<Arc<Semantic<Pk>>>) -> (r: usize)
    ensures r == ntriv(subs@, subs@.len() as int),
{ unimplemented!() }
#[verifier::external_body]
fn count_unsatisfiable<Pk: MiniscriptKey>(subs: &Vec<Arc<Semantic<Pk>>>) -> (r: usize)
    ensures r == nunsat(subs@, subs@.len() as int),
{ unimplemented!() }
#[verifier::external_body]
fn vec_extend_cloned<T: Clone>(v: &mut Vec<T>, s: &[T])
    ensures final(v)@ == old(v)@ + s@,
{ unimplemented!() }
#[verifier::external_body]
fn arc_try_unwrap_unique<T>(a: Arc<T>) -> (r: T)
    ensures r == *a,
{ unimplemented!() }
'''

INV_MAP = """                        wf_deep(self), self == Semantic::<Pk>::Thresh(thresh),
                        j <= thresh.inner@.len(), subs@.len() == j,
                        forall|i: int, a: Asg<Pk>| 0 <= i < j ==> #[trigger] sem(*subs@[i], a) == sem(*thresh.inner@[i], a),
                        forall|i: int| 0 <= i < j ==> wf_deep(*#[trigger] subs@[i]),
                        forall|i: int| 0 <= i < j && is_leaf(*thresh.inner@[i]) ==> *#[trigger] subs@[i] == *thresh.inner@[i],"""


@rule("R8-map-collect-to-index-loop")
def map_collect_to_loop(text):
    """`let subs: Vec<_> = thresh.iter().map(|P| BODY).collect();` -> index loop over thresh.data() pushing BODY
    (`P.as_ref()` on the `&Arc` element -> `(**P)`, R7).  BODY is the closure body of /repo."""
    m = re.search(r"let subs: Vec<_> = thresh\s*\.iter\(\)\s*\.map\(\|(\w+)\| (.*?)\)\s*\.collect\(\);", text, flags=re.S)
    if not m:
        return None
    p, body = m.group(1), m.group(2)
    body = body.replace("%s.as_ref()" % p, "(**%s)" % p)
    new = ("let mut subs: Vec<Arc<Self>> = Vec::new();\n                let mut j: usize = 0;\n                while j < thresh.n()\n"
           "                    invariant\n" + INV_MAP + "\n                    decreases thresh.inner@.len() - j,\n                {\n"
           "                    let %s = &thresh.data()[j];\n"
           "                    proof { lemma_wf_child(self, thresh.inner@.len(), j as int); }\n"
           "                    subs.push(%s);\n                    j += 1;\n                }" % (p, body))
    return text[:m.start()] + new + text[m.end():]


@rule("R15-filter-count-to-stub")
def filter_count_to_stub(text):
    """`subs.iter().filter(|&pol| *pol.as_ref() == Self::V).count()` -> count_<v>(&subs); also accepts the spelling
    `subs.iter().filter(|pol| pol.is_trivial()).count()` (is_trivial is `matches!(*self, Self::Trivial)`, verified in
    c18_semantic)."""
    n = 0
    for variant, stub in (("Trivial", "count_trivial"), ("Unsatisfiable", "count_unsatisfiable")):
        pats = [r"subs\s*\.iter\(\)\s*\.filter\(\|&pol\| \*pol\.as_ref\(\) == Self::%s\)\s*\.count\(\)" % variant,
                r"subs\s*\.iter\(\)\s*\.filter\(\|pol\| pol\.is_%s\(\)\)\s*\.count\(\)" % variant.lower()]
        for pat in pats:
            text, k = re.subn(pat, "%s(&subs)" % stub, text)
            n += k
    return text if n else None


LOOP_INV = """                        i <= subs@.len(), subs_s@ == subs@,
                        forall|q: int| 0 <= q < subs@.len() ==> wf_deep(*#[trigger] subs@[q]),
                        loop_inv(subs@, i as int, ret_subs@, is_and, is_or), //@inv flattening_preserves_meaning [C18,C07]"""

FOR_LOOP = for_slice_loop(
    "for sub in subs", "subs.as_slice()", "subs_s", "sub", "i", LOOP_INV,
    body_pre="                    let ghost old_ret = ret_subs@;\n",
    body_post="                    proof { lemma_loop_step(subs@, i as int, old_ret, ret_subs@, is_and, is_or); }\n",
    after="                proof { lemma_final(self, subs@, ret_subs@, m as int, is_and, is_or); }\n")

REWRITES = [
    map_collect_to_loop,
    filter_count_to_stub,
    lit("R10", "let n = subs.len()", "proof { lemma_cnt_bounds(subs@, subs@.len() as int, arbitrary()); }\n                let n = subs.len()"),
    FOR_LOOP,
    lit("R7-arc-as-ref", "match sub.as_ref() {", "match &**sub {"),
    lit("R4-extend-cloned", "ret_subs.extend(subthresh.iter().cloned())", "vec_extend_cloned(&mut ret_subs, subthresh.data())"),
    lit("R7-arc-try-unwrap", "Arc::try_unwrap(policy).unwrap()", "arc_try_unwrap_unique(policy)"),
]

ALL = "forall|a: Asg<Pk>| sem(r, a) == sem(self, a)"


def contract():
    return Contract(requires=["wf_deep(self)"], decreases="self", ensures=[
        Clause("sem_preserved", ("C18", "C07"), ALL),
        Clause("wf_preserved", ("C18", "C07", "C11"), "wf_deep(r)"),
        Clause("leaf_unchanged", ("C18", "C07"), "is_leaf(self) ==> r == self"),
        Clause("or_with_trivial_branch_is_trivial", ("C18", "C07"), "or_with_trivial_branch(self) ==> r is Trivial"),
        Clause("and_with_unsatisfiable_branch_is_unsatisfiable", ("C18", "C07"), "and_with_unsatisfiable_branch(self) ==> r is Unsatisfiable"),
    ])


def emit_prelude(vf):
    """Types, `sem`, the spec layer and the stubs of normalized (shared with c18_semantic)."""
    vf.raw(S.KEY_STUBS, keep_vis=True)
    vf.trust("prelude stubs MiniscriptKey / AbsLockTime / RelLockTime", "out-of-unit types reduced to opaque values")
    vf.item(_tree.THRESH, "struct:Threshold", rewrites=[sub("derive-off", r"#\[derive\([^)]*\)\]\s*", "", required=False)])
    vf.raw(S.THRESH_SPEC)
    vf.raw(S.BITCOIN_STUBS, keep_vis=True)
    S.semantic_enum(vf)
    vf.raw(S.ORACLE)


def emit_threshold_fns(vf):
    vf.item(_tree.THRESH, "struct:ThresholdError", rewrites=[sub("derive-debug-only", r"#\[derive\([^)]*\)\]", "#[derive(Debug)]")])
    vf.fn(_tree.THRESH, "fn:validate_k_n", assumed=True, contract=Contract(ensures=[
        Clause("k_n", (), "r is Ok <==> !(k == 0 || k > n || (MAX > 0 && n > MAX))")]))
    vf.trust("validate_k_n (external_body, contract only)", "three-line function whose error value uses bool::then_some; contract read off its condition (the C12 unit verifies it)")
    with vf.block("impl<T, const MAX: usize> Threshold<T, MAX>"):
        vf.fn(_tree.THRESH, "impl:Threshold<T, MAX>/fn:new", qual="Threshold", props=("C11",), contract=Contract(ensures=[
            Clause("new_ok_iff_valid", (), "r is Ok <==> (1 <= k && k <= inner@.len() && (MAX == 0 || inner@.len() <= MAX))"),
            Clause("new_keeps_k_and_children", (), "r is Ok ==> r->Ok_0.k == k && r->Ok_0.inner@ == inner@")]))
        vf.fn(_tree.THRESH, "impl:Threshold<T, MAX>/fn:n", qual="Threshold", props=("C11",), contract=Contract(ensures=[Clause("n", (), "r == self.inner@.len()")]))
        vf.fn(_tree.THRESH, "impl:Threshold<T, MAX>/fn:k", qual="Threshold", props=("C11",), contract=Contract(ensures=[Clause("k", (), "r == self.k")]))
        vf.fn(_tree.THRESH, "impl:Threshold<T, MAX>/fn:data", qual="Threshold", props=("C11",), contract=Contract(ensures=[Clause("data", (), "r@ == self.inner@")]))


def emit_normalized(vf, assumed=False):
    """Spec layer + stubs + `normalized` itself (or, with assumed=True, its contract only: proved in this unit)."""
    vf.raw(NORM_SPEC)
    if not assumed:
        vf.raw(NORM_STUBS)
        vf.trust("impl Clone for Semantic / Threshold (external_body)", "derived Clone returns an equal value (DESIGN 3.4)")
        vf.trust("count_trivial / count_unsatisfiable (external_body)", "R15: `iter().filter(|p| **p == Self::V).count()` is the number of elements that are the field-less variant V (derived PartialEq is structural)")
        vf.trust("vec_extend_cloned (external_body)", "R4: `v.extend(s.iter().cloned())` appends the elements of s, in order (Clone of an Arc is the same pointer)")
        vf.trust("arc_try_unwrap_unique (external_body)", "R7: `Arc::try_unwrap(a).unwrap()` yields the pointee (panics unless the reference is unique; the code's own comment argues uniqueness; not verified)")
    with vf.block("impl<Pk: MiniscriptKey> Semantic<Pk>"):
        vf.fn(SEM, "impl:Policy<Pk>#2/fn:normalized", qual="Semantic", props=PROPS, contract=contract(),
              rewrites=() if assumed else REWRITES, assumed=assumed)
    if not assumed:
        register_named_invariants(vf, "Semantic::normalized")


def build(repo):
    vf = VerusFile(NAME, repo)
    emit_prelude(vf)
    emit_threshold_fns(vf)
    emit_normalized(vf)
    return vf
