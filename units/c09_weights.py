"""C09, descriptor level (Verus): the static weight figures of the descriptor wrappers are upper bounds of the weight
measured on the input `get_satisfaction` assembles.

Verified text (verbatim from /repo):
  * `Wsh / Wpkh / Bare / Pkh / Sh (all three ShInner arms) / Tr :: max_weight_to_satisfy`, `Descriptor::max_weight_to_satisfy`
  * the deprecated family `Wsh / Wpkh / Bare / Pkh / Sh / Tr / Descriptor :: max_satisfaction_weight`
  * `Miniscript::{max_satisfaction_witness_elements, max_satisfaction_size}`, `ScriptContext::{max_satisfaction_size, pk_len}`
    for Legacy / Segwitv0 / Tap / BareCtx, `push_opcode_size`, `control_block_len`, `Tr::tap_tree`,
    `TapTreeIterItem::{miniscript, depth}`
  * consumed through contracts proved elsewhere: `varint_len` (== CompactSize length, Kani unit k09_weights, complete),
    `Miniscript::script_size` (uninterpreted figure `spec_script_size`; equal to the encoded length: unit c04_encode)

ORACLE (BIP141 / BIP144 transaction serialization, BIP16, BIP341; nothing is read off the formulas under test):
    weight(txin) = 4 * (outpoint 36 + CompactSize(|scriptSig|) + |scriptSig| + sequence 4)
                 + CompactSize(#witness items) + sum over items (CompactSize(len) + len)
    "weight to satisfy" (the doc comment of every max_weight_to_satisfy: difference between the satisfied and the
    non-satisfied TxIn's `segwit_weight`) = weight(satisfied txin) - weight(txin with empty scriptSig and empty witness).
  The input each output type is spent with (what `get_satisfaction` assembles: units c16_wrappers / c01_wrappers):
    wsh(ms)      witness = sat ++ [script]                       scriptSig empty
    sh(wsh(ms))  witness = sat ++ [script]                       scriptSig = push(34-byte witness program)
    sh(wpkh(k))  witness = [sig, key]                            scriptSig = push(22-byte witness program)
    wpkh(k)      witness = [sig, key]                            scriptSig empty
    sh(ms)       witness empty                                   scriptSig = minimal pushes of sat ++ push(script)
    bare(ms)     witness empty                                   scriptSig = minimal pushes of sat
    pkh(k)       witness empty                                   scriptSig = push(sig) push(key)
    tr(k, tree)  key spend: witness = [sig];  script spend through the leaf (depth m, ms): witness = sat ++ [script, control
                 block of 33 + 32 m bytes];  the bound has to cover the key spend AND every leaf
  ECDSA signature element: at most 72 bytes (DER <= 71 with low S + sighash byte; the functions' documented "73 bytes
  including push opcode"), Schnorr: at most 65 bytes, keys 33 (65 uncompressed), x-only 32.

CONTRACT SHAPE.  Hypothesis = what unit k09_extdata proves fragment by fragment: every satisfaction `sat` the library
produces for `ms` lies within the figures `d = ms.ext.sat_data` (`within_figures(d, sat)`: #items <= max_witness_stack_count,
witness serialization of the items <= max_witness_stack_size, minimal scriptSig pushes <= max_script_sig_size).  Each
function clause is quantifier free: "returned weight >= the oracle weight of the worst input within the figures"
(`worst_*`); the lemmas `lemma_measured_*` (obligations of this unit, pure oracle facts) close the gap: for EVERY `sat`
within the figures the measured weight of the assembled input is <= `worst_*`.  `r is Err` exactly when there is no
satisfaction figure.  Overflow (C11): stated precondition `ms_small`: all figures and the script size < 2^40 (2^28 on a
32-bit usize).  `tight_for_the_largest_satisfaction` clauses (no property id) record the equality the doc comment of
Descriptor::max_weight_to_satisfy claims (`assert_eq!`) for the non-deprecated family.

RED ON THE UNCHANGED TREE (genuine, reproduced against the real crate; see the author's report):
  Tr::{max_weight_to_satisfy, max_satisfaction_weight} . tree.covers_key_spend / tree.key_spend_needs_no_leaf -- once a
  tap tree is present the key spend is ignored: (a) the bound is the maximum over the LEAVES only, so a tree whose leaves
  are all lighter than the 66 wu key spend undershoots (Tr::new(K, leaf `1`): 36 < 66 measured on get_satisfaction's key
  spend); (b) when no leaf has a satisfaction figure the functions return Err(ImpossibleSatisfaction) although the
  descriptor is spendable through its key (Descriptor::from_str("tr(K,0)") parses; get_satisfaction succeeds, 66 wu).
  A repair that takes the maximum with the key-spend weight and never errs turns all obligations green (checked).

DOC COMMENT vs FORMULA (flagged, not obligations):
  * Bare / Pkh / Sh / Descriptor ::max_weight_to_satisfy say "if you want to include only legacy inputs ... remove 1WU from
    each input's max_weight_to_satisfy"; the formulas already equal the `legacy_weight` difference exactly (the empty-witness
    count byte is in both terms of the segwit difference and cancels), so following that advice undershoots by 1 wu per
    input.  The second half of Descriptor::max_weight_to_satisfy's own doc (`assert_eq!` against the legacy_weight
    difference) agrees with the formula, not with the advice.
  * deprecated Tr::max_satisfaction_weight: `varint_len(max_sat_elems + 2)` counts the script twice (max_sat_elems already
    includes it; comment says "+2 for control block & script"): over-estimate by 2 wu at the 252/253 item boundary only.
  * Miniscript::max_satisfaction_size documents a `one_cost` parameter that does not exist; deprecated
    Tr::max_satisfaction_weight documents 73-byte "ec-signatures" (Schnorr: 66).
"""
import re

from vlib.verus import VerusFile, Contract, Clause, sub, lit, rule, Undecided, split_fn
from vlib.extract import match_close
from units import _tree
from units import c17_plan as P17
from units import c20_translate as C20
from units.c12_validation import closure_annot

NAME = "c09_weights"
ENGINE = "verus"
PROPS = ("C09", "C11")

SEG = "src/descriptor/segwitv0.rs"
SH = "src/descriptor/sh.rs"
BARE = "src/descriptor/bare.rs"
DMOD = "src/descriptor/mod.rs"
TR = "src/descriptor/tr/mod.rs"
TAPTREE = "src/descriptor/tr/taptree.rs"
MSMOD = "src/miniscript/mod.rs"
CTX = "src/miniscript/context.rs"
UTIL = "src/util.rs"
LIB = "src/lib.rs"

DROPPED = [
    "c09_weights: Tr::{max_weight_to_satisfy, max_satisfaction_weight}: the iterator chain `tree.leaves().filter_map(|leaf| BODY).max()` is "
    "rewritten (R14 + R16): the closure BODY is lambda-lifted verbatim into `tr_leaf_w2s` / `tr_leaf_msw` (it captures nothing) and the chain "
    "becomes a call of the verified index loop `tap_leaves_filter_map_max` over `tree.depths_leaves` (trusted: `TapTree::leaves()` yields "
    "`TapTreeIterItem { depth, node }` for every entry of `depths_leaves` in order -- TapTreeIter::next -- and `filter_map(f).max()` is the "
    "largest `Some` result, `None` if there is none); a `.min()` in place of `.max()` is mapped to the `_min` loop so that the change is judged",
    "c09_weights: struct Tr is extracted without its `spend_info: Mutex<..>` cache field (not read by the verified functions)",
    "c09_weights: bitcoin::Weight is the stub `struct Weight { wu: u64 }` (from_wu / to_wu identity, from_vb = checked_mul(4), `+` = u64 addition that must "
    "not overflow, ZERO); `w + witness_size` is written `weight_add(w, witness_size)` (R7: operator of an external type)",
    "c09_weights: closures `|data| EXPR` passed to Option::map get parameter / result types and a ghost `ensures` (R10)",
    "c09_weights: Miniscript::script_size is an assumed stub returning the uninterpreted `spec_script_size(ms)` (its per-node sum is unit c04_encode)",
    "c09_weights: NoChecks::{max_satisfaction_size, pk_len} (unconditional panic!) are not in the unit: no descriptor type instantiates NoChecks",
]

# ----------------------------------------------------------------------------------------------------------------------
# prelude
# ----------------------------------------------------------------------------------------------------------------------
SCRIPT_CONTEXT = r"""
// ScriptContext reduced to the two methods the weight functions call through the trait
trait ScriptContext: Sized {
    spec fn spec_max_satisfaction_size<Pk: MiniscriptKey>(ms: &Miniscript<Pk, Self>) -> Option<usize>;
    fn max_satisfaction_size<Pk: MiniscriptKey>(ms: &Miniscript<Pk, Self>) -> (r: Option<usize>)
        ensures r == Self::spec_max_satisfaction_size(ms);
    spec fn spec_pk_len<Pk: MiniscriptKey>(pk: &Pk) -> usize;
    fn pk_len<Pk: MiniscriptKey>(pk: &Pk) -> (r: usize)
        ensures r == Self::spec_pk_len(pk);
}
"""

STUBS = r"""
// crate::Error reduced to the variants the weight functions construct
enum Error { ImpossibleSatisfaction, CouldNotSatisfy, Other(u8) }

// bitcoin::Weight (bitcoin-units): a u64 count of weight units
#[derive(Clone, Copy)]
struct Weight { wu: u64 }
impl Weight {
    const ZERO: Weight = Weight { wu: 0 };
    #[verifier::external_body]
    fn from_wu(wu: u64) -> (r: Weight) ensures r.wu == wu { unimplemented!() }
    #[verifier::external_body]
    fn to_wu(self) -> (r: u64) ensures r == self.wu { unimplemented!() }
    // Weight::from_vb: vb.checked_mul(4).map(Weight)
    #[verifier::external_body]
    fn from_vb(vb: u64) -> (r: Option<Weight>)
        ensures vb * 4 <= u64::MAX ==> r is Some && r->Some_0.wu == vb * 4, vb * 4 > u64::MAX ==> r is None,
    { unimplemented!() }
}
// `impl Add for Weight`: Weight(self.0 + rhs.0) (overflow panics in debug builds: the precondition is a C11 obligation)
#[verifier::external_body]
fn weight_add(a: Weight, b: Weight) -> (r: Weight)
    requires a.wu + b.wu <= u64::MAX,
    ensures r.wu == a.wu + b.wu,
{ unimplemented!() }
// core::cmp::max on usize (std; vstd has no specification for it)
#[verifier::external_body]
fn cmp_max_usize(a: usize, b: usize) -> (r: usize)
    ensures r == (if a >= b { a } else { b }),
{ unimplemented!() }
// bitcoin::taproot::{TAPROOT_CONTROL_BASE_SIZE, TAPROOT_CONTROL_NODE_SIZE} (BIP341: 1 + 32 byte header, 32 bytes per node)
const TAPROOT_CONTROL_BASE_SIZE: usize = 33;
const TAPROOT_CONTROL_NODE_SIZE: usize = 32;

uninterp spec fn spec_script_size<Pk: MiniscriptKey, Ctx: ScriptContext>(ms: Miniscript<Pk, Ctx>) -> usize;
"""


def _pick(text, name):
    """One-line `pub open spec fn <name>(...) ... { ... }` definition out of another unit's prelude (reuse, not retyped)."""
    m = re.search(r"^pub open spec fn %s\(.*$" % re.escape(name), text, flags=re.M)
    if not m:
        raise RuntimeError("units/c17_plan.py prelude changed: spec fn %s not found" % name)
    return m.group(0)


# CompactSize length, witness element, script push, "has a one-byte opcode" -- the serialization oracles of unit c17_plan
SIZES = "\n".join(["// ---- oracle: serialized sizes (shared with unit c17_plan) --------------------------------------------------",
                   "// CompactSize (serialize.h WriteCompactSize)",
                   _pick(P17.SCRIPT, "spec_varint_len"),
                   "// one witness stack element of `len` bytes inside a serialized witness (BIP144): CompactSize(len) + len",
                   _pick(P17.SCRIPT, "wit_elem_ser"),
                   "// one data push of `len` bytes inside a script (CScript::operator<<(vector)): opcode (+ length bytes) + len",
                   _pick(P17.SCRIPT, "push_ser"),
                   "// BIP62 rule 3 / CheckMinimalPush: the empty vector, 1..16 and -1 have one-byte opcodes",
                   _pick(P17.SCRIPT, "has_opcode")]) + "\n"

ORACLE = r"""
// ---- oracle: weight of one transaction input (BIP141 / BIP144) ---------------------------------------------------------
// non-witness bytes count 4 wu, witness bytes 1 wu; a segwit transaction serializes an input without witness data as the
// single count byte 0
pub open spec fn txin_weight(script_sig_len: int, wit_count: int, wit_items: int) -> int {
    4 * (36 + spec_varint_len(script_sig_len) + script_sig_len + 4) + spec_varint_len(wit_count) + wit_items
}
// the baseline every max_weight_to_satisfy doc comment names: satisfied `segwit_weight` minus non-satisfied `segwit_weight`
pub open spec fn weight_to_satisfy(script_sig_len: int, wit_count: int, wit_items: int) -> int {
    txin_weight(script_sig_len, wit_count, wit_items) - txin_weight(0, 0, 0)
}
// the baseline the deprecated max_satisfaction_weight doc comment names: "weight of a satisfying witness ... includes the
// weight of the VarInts encoding the scriptSig and witness stack length" -- the scriptSig field, plus the witness field
// where the output type has one
pub open spec fn fields_weight(script_sig_len: int, wit_count: int, wit_items: int, segwit: bool) -> int {
    4 * (spec_varint_len(script_sig_len) + script_sig_len) + (if segwit { spec_varint_len(wit_count) + wit_items } else { 0 })
}
// serialized size of the items of a witness stack (without the count prefix)
pub open spec fn wit_items_ser(w: Seq<Seq<u8>>) -> int decreases w.len() {
    if w.len() == 0 { 0 } else { wit_items_ser(w.drop_last()) + wit_elem_ser(w.last().len() as int) }
}
// size of the minimal pushes of the elements inside a scriptSig (util::witness_to_scriptsig: unit c01_wrappers)
pub open spec fn min_push_ser(e: Seq<u8>) -> int { if has_opcode(e) { 1 } else { push_ser(e.len() as int) } }
pub open spec fn sig_pushes_ser(w: Seq<Seq<u8>>) -> int decreases w.len() {
    if w.len() == 0 { 0 } else { sig_pushes_ser(w.drop_last()) + min_push_ser(w.last()) }
}
// measured "weight to satisfy" of a concrete input
pub open spec fn measured(script_sig_len: int, witness: Seq<Seq<u8>>) -> int {
    weight_to_satisfy(script_sig_len, witness.len() as int, wit_items_ser(witness))
}
pub open spec fn measured_fields(script_sig_len: int, witness: Seq<Seq<u8>>, segwit: bool) -> int {
    fields_weight(script_sig_len, witness.len() as int, wit_items_ser(witness), segwit)
}

// ---- hypothesis: the satisfaction lies within the miniscript's figures (what unit k09_extdata proves per fragment) ----------
pub open spec fn within_figures(d: SatData, sat: Seq<Seq<u8>>) -> bool {
    &&& sat.len() <= d.max_witness_stack_count
    &&& wit_items_ser(sat) <= d.max_witness_stack_size
    &&& sig_pushes_ser(sat) <= d.max_script_sig_size
}
// where the satisfaction of a miniscript lives: scriptSig before segwit (BIP16 / bare), witness after (BIP141 / BIP341)
pub open spec fn sat_in_script_sig(d: Option<SatData>) -> Option<usize> { match d { Some(d) => Some(d.max_script_sig_size), None => None } }
pub open spec fn sat_in_witness(d: Option<SatData>) -> Option<usize> { match d { Some(d) => Some(d.max_witness_stack_size), None => None } }

// ---- the input each output type is spent with, measured; `script`: the encoded miniscript -----------------------------------
pub open spec fn measured_wsh(sat: Seq<Seq<u8>>, script: Seq<u8>) -> int { measured(0, sat.push(script)) }
pub open spec fn measured_sh_wsh(sat: Seq<Seq<u8>>, script: Seq<u8>) -> int { measured(push_ser(34), sat.push(script)) }
pub open spec fn measured_sh_ms(sat: Seq<Seq<u8>>, script: Seq<u8>) -> int { measured(sig_pushes_ser(sat) + push_ser(script.len() as int), Seq::empty()) }
pub open spec fn measured_bare(sat: Seq<Seq<u8>>) -> int { measured(sig_pushes_ser(sat), Seq::empty()) }
pub open spec fn measured_wpkh(sig: Seq<u8>, key: Seq<u8>) -> int { measured(0, seq![sig, key]) }
pub open spec fn measured_sh_wpkh(sig: Seq<u8>, key: Seq<u8>) -> int { measured(push_ser(22), seq![sig, key]) }
pub open spec fn measured_pkh(sig: Seq<u8>, key: Seq<u8>) -> int { measured(push_ser(sig.len() as int) + push_ser(key.len() as int), Seq::empty()) }
pub open spec fn measured_tr_key(sig: Seq<u8>) -> int { measured(0, seq![sig]) }
pub open spec fn measured_tr_leaf(sat: Seq<Seq<u8>>, script: Seq<u8>, control_block: Seq<u8>) -> int { measured(0, sat.push(script).push(control_block)) }

// ---- the same inputs at the worst case the figures allow (the quantity every clause compares the result with) ---------------
pub open spec fn worst_wsh(d: SatData, script_len: int) -> int {
    weight_to_satisfy(0, d.max_witness_stack_count + 1, d.max_witness_stack_size + wit_elem_ser(script_len))
}
pub open spec fn worst_sh_wsh(d: SatData, script_len: int) -> int {
    weight_to_satisfy(push_ser(34), d.max_witness_stack_count + 1, d.max_witness_stack_size + wit_elem_ser(script_len))
}
pub open spec fn worst_sh_ms(d: SatData, script_len: int) -> int { weight_to_satisfy(d.max_script_sig_size + push_ser(script_len), 0, 0) }
pub open spec fn worst_bare(d: SatData) -> int { weight_to_satisfy(d.max_script_sig_size as int, 0, 0) }
// ECDSA signature element <= 72 bytes, SEC1 key 33 / 65 bytes, Schnorr signature <= 65 bytes
pub open spec fn key_len(uncompressed: bool) -> int { if uncompressed { 65 } else { 33 } }
pub open spec fn worst_wpkh() -> int { weight_to_satisfy(0, 2, wit_elem_ser(72) + wit_elem_ser(33)) }
pub open spec fn worst_sh_wpkh() -> int { weight_to_satisfy(push_ser(22), 2, wit_elem_ser(72) + wit_elem_ser(33)) }
pub open spec fn worst_pkh(uncompressed: bool) -> int { weight_to_satisfy(push_ser(72) + push_ser(key_len(uncompressed)), 0, 0) }
pub open spec fn worst_tr_key() -> int { weight_to_satisfy(0, 1, wit_elem_ser(65)) }
// BIP341 control block of a leaf at depth m: 33 + 32 m bytes
pub open spec fn control_block_size(depth: int) -> int { 33 + 32 * depth }
pub open spec fn worst_tr_leaf(d: SatData, script_len: int, depth: int) -> int {
    weight_to_satisfy(0, d.max_witness_stack_count + 2, d.max_witness_stack_size + wit_elem_ser(script_len) + wit_elem_ser(control_block_size(depth)))
}
// deprecated family: absolute weight of the scriptSig and witness fields
pub open spec fn worst_fields_wsh(d: SatData, script_len: int, script_sig_len: int) -> int {
    fields_weight(script_sig_len, d.max_witness_stack_count + 1, d.max_witness_stack_size + wit_elem_ser(script_len), true)
}
pub open spec fn worst_fields_legacy(script_sig_len: int) -> int { fields_weight(script_sig_len, 0, 0, false) }
pub open spec fn worst_fields_wpkh(script_sig_len: int) -> int { fields_weight(script_sig_len, 2, wit_elem_ser(72) + wit_elem_ser(33), true) }
pub open spec fn worst_fields_tr_key() -> int { fields_weight(0, 1, wit_elem_ser(65), true) }
pub open spec fn worst_fields_tr_leaf(d: SatData, script_len: int, depth: int) -> int {
    fields_weight(0, d.max_witness_stack_count + 2, d.max_witness_stack_size + wit_elem_ser(script_len) + wit_elem_ser(control_block_size(depth)), true)
}

// ---- C11: domain of the usize arithmetic -----------------------------------------------------------------------------------
// every figure and the script size below 2^40 (64-bit usize) resp. 2^28 (32-bit): consensus caps a transaction at 4,000,000 wu
pub open spec fn FIG_MAX() -> int { if usize::MAX >= 0xffff_ffff_ffff { 0x100_0000_0000 } else { 0x1000_0000 } }
pub open spec fn sat_small(d: SatData) -> bool {
    d.max_witness_stack_size < FIG_MAX() && d.max_witness_stack_count < FIG_MAX() && d.max_script_sig_size < FIG_MAX()
}
pub open spec fn ms_small<Pk: MiniscriptKey, Ctx: ScriptContext>(ms: Miniscript<Pk, Ctx>) -> bool {
    spec_script_size(ms) < FIG_MAX() && (ms.ext.sat_data matches Some(d) ==> sat_small(d))
}
pub open spec fn leaves_small<Pk: MiniscriptKey>(t: TapTree<Pk>) -> bool {
    forall|j: int| 0 <= j < t.depths_leaves@.len() ==> ms_small(*(#[trigger] t.depths_leaves@[j]).1)
}
pub open spec fn sh_small<Pk: MiniscriptKey>(s: Sh<Pk>) -> bool {
    match s.inner { ShInner::Wsh(w) => ms_small(w.ms), ShInner::Wpkh(_) => true, ShInner::Ms(ms) => ms_small(ms) }
}
pub open spec fn tr_small<Pk: MiniscriptKey>(t: Tr<Pk>) -> bool { t.tree matches Some(tree) ==> leaves_small(tree) }
pub open spec fn desc_small<Pk: MiniscriptKey>(d: Descriptor<Pk>) -> bool {
    match d {
        Descriptor::Bare(b) => ms_small(b.ms), Descriptor::Wsh(w) => ms_small(w.ms), Descriptor::Sh(s) => sh_small(s),
        Descriptor::Tr(t) => tr_small(t), _ => true,
    }
}

// ---- taproot leaves --------------------------------------------------------------------------------------------------------
pub open spec fn leaf_figure<Pk: MiniscriptKey>(l: (u8, Arc<Miniscript<Pk, Tap>>)) -> Option<SatData> { l.1.ext.sat_data }
pub open spec fn worst_leaf<Pk: MiniscriptKey>(l: (u8, Arc<Miniscript<Pk, Tap>>)) -> int {
    worst_tr_leaf(l.1.ext.sat_data->Some_0, spec_script_size(*l.1) as int, l.0 as int)
}
pub open spec fn worst_fields_leaf<Pk: MiniscriptKey>(l: (u8, Arc<Miniscript<Pk, Tap>>)) -> int {
    worst_fields_tr_leaf(l.1.ext.sat_data->Some_0, spec_script_size(*l.1) as int, l.0 as int)
}
pub open spec fn no_leaf_figure<Pk: MiniscriptKey>(t: TapTree<Pk>) -> bool {
    forall|j: int| 0 <= j < t.depths_leaves@.len() ==> leaf_figure(#[trigger] t.depths_leaves@[j]) is None
}
"""

LEMMAS_HELP = r"""
// ---- arithmetic of the oracle (proved) --------------------------------------------------------------------------------------
proof fn lemma_varint_mono(a: int, b: int) requires a <= b ensures spec_varint_len(a) <= spec_varint_len(b) {}
proof fn lemma_push(w: Seq<Seq<u8>>, x: Seq<u8>)
    ensures wit_items_ser(w.push(x)) == wit_items_ser(w) + wit_elem_ser(x.len() as int), w.push(x).len() == w.len() + 1,
{
    assert(w.push(x).drop_last() =~= w);
    assert(w.push(x).last() == x);
}
proof fn lemma_items_nonneg(w: Seq<Seq<u8>>) ensures wit_items_ser(w) >= 0, sig_pushes_ser(w) >= 0 decreases w.len() {
    if w.len() > 0 { lemma_items_nonneg(w.drop_last()); }
}
proof fn lemma_weight_mono(s1: int, c1: int, i1: int, s2: int, c2: int, i2: int)
    requires 0 <= s1 <= s2, c1 <= c2, i1 <= i2,
    ensures weight_to_satisfy(s1, c1, i1) <= weight_to_satisfy(s2, c2, i2), fields_weight(s1, c1, i1, true) <= fields_weight(s2, c2, i2, true),
            fields_weight(s1, c1, i1, false) <= fields_weight(s2, c2, i2, false),
{
    lemma_varint_mono(s1, s2);
    lemma_varint_mono(c1, c2);
}
"""

# the bridging lemmas: obligations of the unit (pure oracle facts, no code involved)
LEMMAS = {
    "measured_wsh_within_worst": r"""
proof fn lemma_measured_wsh(d: SatData, sat: Seq<Seq<u8>>, script: Seq<u8>)
    requires within_figures(d, sat),
    ensures measured_wsh(sat, script) <= worst_wsh(d, script.len() as int),
            measured_sh_wsh(sat, script) <= worst_sh_wsh(d, script.len() as int),
            measured_fields(0, sat.push(script), true) <= worst_fields_wsh(d, script.len() as int, 0),
            measured_fields(push_ser(34), sat.push(script), true) <= worst_fields_wsh(d, script.len() as int, push_ser(34)),
{
    lemma_push(sat, script);
    lemma_varint_mono(sat.len() as int + 1, d.max_witness_stack_count as int + 1);
}
""",
    "measured_legacy_within_worst": r"""
proof fn lemma_measured_legacy(d: SatData, sat: Seq<Seq<u8>>, script: Seq<u8>)
    requires within_figures(d, sat),
    ensures measured_bare(sat) <= worst_bare(d),
            measured_sh_ms(sat, script) <= worst_sh_ms(d, script.len() as int),
            measured_fields(sig_pushes_ser(sat), Seq::empty(), false) <= worst_fields_legacy(d.max_script_sig_size as int),
            measured_fields(sig_pushes_ser(sat) + push_ser(script.len() as int), Seq::empty(), false) <= worst_fields_legacy(d.max_script_sig_size + push_ser(script.len() as int)),
{
    lemma_items_nonneg(sat);
    assert(wit_items_ser(Seq::<Seq<u8>>::empty()) == 0);
    lemma_weight_mono(sig_pushes_ser(sat), 0, 0, d.max_script_sig_size as int, 0, 0);
    lemma_weight_mono(sig_pushes_ser(sat) + push_ser(script.len() as int), 0, 0, d.max_script_sig_size + push_ser(script.len() as int), 0, 0);
}
""",
    "measured_key_spends_within_worst": r"""
proof fn lemma_measured_keys(sig: Seq<u8>, key: Seq<u8>, uncompressed: bool)
    requires sig.len() <= 72, key.len() == key_len(uncompressed),
    ensures !uncompressed ==> measured_wpkh(sig, key) <= worst_wpkh() && measured_sh_wpkh(sig, key) <= worst_sh_wpkh(),
            measured_pkh(sig, key) <= worst_pkh(uncompressed),
            !uncompressed ==> measured_fields(0, seq![sig, key], true) <= worst_fields_wpkh(0) && measured_fields(push_ser(22), seq![sig, key], true) <= worst_fields_wpkh(push_ser(22)),
            measured_fields(push_ser(sig.len() as int) + push_ser(key.len() as int), Seq::empty(), false) <= worst_fields_legacy(push_ser(72) + push_ser(key_len(uncompressed))),
{
    let e = Seq::<Seq<u8>>::empty();
    assert(seq![sig, key] =~= e.push(sig).push(key));
    lemma_push(e, sig);
    lemma_push(e.push(sig), key);
    assert(wit_items_ser(e) == 0);
}
""",
    "measured_taproot_within_worst": r"""
proof fn lemma_measured_tr(d: SatData, sat: Seq<Seq<u8>>, script: Seq<u8>, control_block: Seq<u8>, depth: int, sig: Seq<u8>)
    requires within_figures(d, sat), control_block.len() == control_block_size(depth), 0 <= depth, sig.len() <= 65,
    ensures measured_tr_leaf(sat, script, control_block) <= worst_tr_leaf(d, script.len() as int, depth),
            measured_tr_key(sig) <= worst_tr_key(),
            measured_fields(0, sat.push(script).push(control_block), true) <= worst_fields_tr_leaf(d, script.len() as int, depth),
            measured_fields(0, seq![sig], true) <= worst_fields_tr_key(),
{
    lemma_push(sat, script);
    lemma_push(sat.push(script), control_block);
    lemma_varint_mono(sat.len() as int + 2, d.max_witness_stack_count as int + 2);
    let e = Seq::<Seq<u8>>::empty();
    assert(seq![sig] =~= e.push(sig));
    lemma_push(e, sig);
    assert(wit_items_ser(e) == 0);
}
""",
}

# the leaf loops (R14): verified /verif text standing for `tree.leaves().filter_map(F).max()` / `.min()`
LEAF_LOOP = r"""
// R14: `tree.leaves().filter_map(|leaf| BODY).%(red)s()` with BODY lambda-lifted to `%(lifted)s`
fn tap_leaves_filter_map_%(red)s_%(which)s<Pk: MiniscriptKey>(tree: &TapTree<Pk>) -> (r: Option<usize>)
    requires leaves_small(*tree),
    ensures
        r is None <==> no_leaf_figure(*tree),
        %(post)s
        r is Some ==> r->Some_0 <= 0x7fff_ffff_ffff,
{
    let mut acc: Option<usize> = None;
    let mut i: usize = 0;
    while i < tree.depths_leaves.len()
        invariant
            i <= tree.depths_leaves@.len(), leaves_small(*tree),
            acc is None <==> (forall|j: int| 0 <= j < i ==> leaf_figure(#[trigger] tree.depths_leaves@[j]) is None),
            %(inv)s
            acc is Some ==> acc->Some_0 <= 0x7fff_ffff_ffff,
        decreases tree.depths_leaves@.len() - i,
    {
        // TapTreeIter::next: `.map(|&(depth, ref node)| TapTreeIterItem { depth, node })`
        let leaf = TapTreeIterItem { depth: tree.depths_leaves[i].0, node: &tree.depths_leaves[i].1 };
        match %(lifted)s(leaf) {
            Some(x) => {
                acc = match acc { None => Some(x), Some(a) => Some(if %(cmp)s { x } else { a }) };
            }
            None => {}
        }
        i += 1;
    }
    acc
}
"""


def leaf_loop(red, which, lifted):
    worst = {"w2s": "worst_leaf", "msw": "worst_fields_leaf"}[which]
    if red == "max":
        post = ("r is Some ==> forall|j: int| 0 <= j < tree.depths_leaves@.len() && leaf_figure(#[trigger] tree.depths_leaves@[j]) is Some "
                "==> r->Some_0 >= %s(tree.depths_leaves@[j])," % worst)
        inv = ("acc is Some ==> forall|j: int| 0 <= j < i && leaf_figure(#[trigger] tree.depths_leaves@[j]) is Some "
               "==> acc->Some_0 >= %s(tree.depths_leaves@[j])," % worst)
        cmp_ = "x >= a"
    else:
        post = ("r is Some ==> exists|j: int| 0 <= j < tree.depths_leaves@.len() && leaf_figure(#[trigger] tree.depths_leaves@[j]) is Some "
                "&& r->Some_0 >= %s(tree.depths_leaves@[j])," % worst)
        inv = ("acc is Some ==> exists|j: int| 0 <= j < i && leaf_figure(#[trigger] tree.depths_leaves@[j]) is Some "
               "&& acc->Some_0 >= %s(tree.depths_leaves@[j])," % worst)
        cmp_ = "x < a"
    return LEAF_LOOP % dict(red=red, which=which, lifted=lifted, post=post, inv=inv, cmp=cmp_)


class LeafChain:
    """R14 + R16 on `tree.leaves().filter_map(|leaf| { BODY }).max()`: the closure body is cut out verbatim (kept in
    `self.body`, emitted as the lifted function by the caller), the chain becomes a call of the leaf loop."""
    rule = "R14/R16-leaf-chain"

    def __init__(self, which):
        self.which = which
        self.body = None
        self.red = None

    def __call__(self, text):
        m = re.search(r"\btree\s*\.leaves\(\)\s*\.filter_map\(\|leaf\|\s*\{", text)
        if not m:
            return None
        open_ = m.end() - 1
        close = match_close(text, open_)
        m2 = re.match(r"\s*\)\s*\.(\w+)\(\)", text[close + 1:])
        if not m2 or m2.group(1) not in ("max", "min"):
            return None
        self.body = text[open_:close + 1]
        self.red = m2.group(1)
        call = "tap_leaves_filter_map_%s_%s(tree)" % (self.red, self.which)
        return text[:m.start()] + call + text[close + 1 + m2.end():]


def C(tag, text, props=("C09",)):
    return Clause(tag, props, text)


def TIGHT(text):
    """The doc comment of Descriptor::max_weight_to_satisfy claims equality with the largest possible satisfaction
    (`assert_eq!`); an over-estimate is not a C09 violation, so the clause carries no property id."""
    return Clause("tight_for_the_largest_satisfaction", (), text)


def BOUND(val):
    """C11: the result stays in the range in which the additions of the caller (Sh, nested segwit) cannot overflow."""
    return Clause("bounded", ("C11",), "%s <= 4 * FIG_MAX()" % val)


# ----------------------------------------------------------------------------------------------------------------------
def build(repo):
    vf = VerusFile(NAME, repo)
    strip_derive = sub("derive-off", r"#\[derive\([^)]*\)\]\s*", "", required=False)
    FP = ("C09", "C11")

    _tree.emit(vf, ext="real", types="defs", script_context=SCRIPT_CONTEXT, terminal=True)
    for v in ("ImpossibleSatisfaction", "CouldNotSatisfy"):
        if v not in repo.at(LIB, "enum:Error").text:
            raise Undecided("enum Error lost variant %s" % v)
    vf.raw(STUBS)
    vf.trust("enum Error {ImpossibleSatisfaction, CouldNotSatisfy, Other}", "crate::Error reduced to the variants the weight functions construct")
    vf.trust("struct Weight { wu } with from_wu / to_wu / from_vb / weight_add (external_body), ZERO",
             "bitcoin-units Weight: from_wu is the identity, from_vb is checked_mul(4), `+` is u64 addition (its no-overflow precondition is an obligation)")
    vf.trust("TAPROOT_CONTROL_BASE_SIZE = 33, TAPROOT_CONTROL_NODE_SIZE = 32", "bitcoin::taproot constants (BIP341)")
    vf.trust("spec_script_size (uninterpreted) + Miniscript::script_size (external_body)",
             "the script-size figure is a function of the miniscript; that it equals the encoded length is unit c04_encode's per-node contract")
    vf.raw(SIZES)
    vf.trust("oracle constants: ECDSA signature element <= 72 bytes, SEC1 key 33 / 65 bytes (MiniscriptKey::is_uncompressed tells which), "
             "Schnorr signature <= 65 bytes, x-only key 32 bytes, control block 33 + 32 m, witness programs 22 / 34 bytes",
             "BIP66 DER + low S + sighash byte (the functions' documented 73-byte assumption), SEC1, BIP340 / BIP341, BIP141; "
             "only the bridging lemmas lemma_measured_* use them")
    vf.fn(UTIL, "fn:varint_len", assumed=True, contract=Contract(ensures=[C("compact_size", "r == spec_varint_len(n as int)")]))
    vf.trust("varint_len (external_body) == CompactSize length", "proved on the real function by Kani, unit k09_weights (c09_varint_len, complete, same text)")
    vf.fn(LIB, "fn:push_opcode_size", props=FP, contract=Contract(ensures=[
        C("is_the_push_prefix_length", "r + script_size == push_ser(script_size as int)")]))

    # ---- contexts ----------------------------------------------------------------------------------------------------------
    CTXS = {
        # context: (where the satisfaction lives, key push length: 1 + SEC1 key (33 / 65), segwit v0 keys are compressed, x-only 32)
        "Legacy": ("sat_in_script_sig", "(1 + key_len(pk.spec_is_uncompressed())) as usize"),
        "BareCtx": ("sat_in_script_sig", "(1 + key_len(pk.spec_is_uncompressed())) as usize"),
        "Segwitv0": ("sat_in_witness", "34usize"),
        "Tap": ("sat_in_witness", "33usize"),
    }
    for c, (fig, pklen) in CTXS.items():
        repo.at(CTX, "enum:%s" % c)                      # anchor must exist; `enum X {}` (uninhabited) is not accepted by Verus
        vf.raw("struct %s { marker: u8 }" % c)
        with vf.block("impl ScriptContext for %s" % c):
            vf.raw("    spec fn spec_max_satisfaction_size<Pk: MiniscriptKey>(ms: &Miniscript<Pk, Self>) -> Option<usize> { %s(ms.ext.sat_data) }\n"
                   "    spec fn spec_pk_len<Pk: MiniscriptKey>(pk: &Pk) -> usize { %s }" % (fig, pklen))
            vf.fn(CTX, "impl:ScriptContext for %s/fn:max_satisfaction_size" % c, qual=c, props=FP,
                  rewrites=[closure_annot("data", "SatData", "usize")],
                  contract=Contract(ensures=[C({"sat_in_script_sig": "satisfaction_lives_in_the_script_sig", "sat_in_witness": "satisfaction_lives_in_the_witness"}[fig],
                                               "r == %s(ms.ext.sat_data)" % fig)]))
            vf.fn(CTX, "impl:ScriptContext for %s/fn:pk_len" % c, qual=c, props=FP, rewrites=[lit("R1-param-names", "(_pk: &Pk)", "(pk: &Pk)", required=False)],
                  contract=Contract(ensures=[C("key_push_length", "r == %s" % pklen)]))
    vf.trust("struct Legacy / BareCtx / Segwitv0 / Tap { marker }", "the uninhabited context marker enums as unit-like structs (never constructed)")

    # ---- Miniscript accessors ----------------------------------------------------------------------------------------------
    with vf.block("impl<Pk: MiniscriptKey, Ctx: ScriptContext> Miniscript<Pk, Ctx>"):
        vf.fn(MSMOD, "impl:Miniscript<Pk, Ctx>/fn:script_size", qual="Miniscript", assumed=True, contract=Contract(ensures=[
            Clause("uninterpreted", (), "r == spec_script_size(*self)")]))
        vf.fn(MSMOD, "impl:Miniscript<Pk, Ctx>/fn:max_satisfaction_witness_elements", qual="Miniscript", props=FP,
              rewrites=[closure_annot("data", "SatData", "usize", pre="data.max_witness_stack_count < usize::MAX")],
              contract=Contract(requires=["ms_small(*self)"], ensures=[
                  C("err_iff_no_satisfaction_figure", "r is Err <==> self.ext.sat_data is None"),
                  # doc: "Maximum number of witness elements used to satisfy the Miniscript fragment, including the witness script itself"
                  C("count_plus_the_witness_script", "r is Ok ==> r->Ok_0 == self.ext.sat_data->Some_0.max_witness_stack_count + 1"),
                  C("error_kind", "r is Err ==> r->Err_0 is ImpossibleSatisfaction", ())]))
        vf.fn(MSMOD, "impl:Miniscript<Pk, Ctx>/fn:max_satisfaction_size", qual="Miniscript", props=FP,
              contract=Contract(ensures=[
                  C("err_iff_context_has_no_figure", "r is Err <==> Ctx::spec_max_satisfaction_size(self) is None"),
                  C("is_the_context_figure", "r is Ok ==> Some(r->Ok_0) == Ctx::spec_max_satisfaction_size(self)"),
                  C("error_kind", "r is Err ==> r->Err_0 is ImpossibleSatisfaction", ())]))

    # ---- descriptor types --------------------------------------------------------------------------------------------------
    for rel, a in ((SEG, "struct:Wsh"), (SEG, "struct:Wpkh"), (BARE, "struct:Bare"), (BARE, "struct:Pkh"), (SH, "struct:Sh"), (SH, "enum:ShInner"),
                   (TAPTREE, "struct:TapTree"), (TAPTREE, "struct:TapTreeIterItem"), (DMOD, "enum:Descriptor")):
        vf.item(rel, a, rewrites=[strip_derive])
    vf.item(TR, "struct:Tr", rewrites=[strip_derive, sub("R7-drop-cache-field", r"spend_info\s*:\s*Mutex<[^\n]*>\s*,", "")])
    vf.raw(ORACLE)
    vf.raw(LEMMAS_HELP)
    for name, text in LEMMAS.items():
        vf.spec_obligation("oracle::" + name, text, ("C09",))
    with vf.block("impl<'tr, Pk: MiniscriptKey> TapTreeIterItem<'tr, Pk>"):
        vf.fn(TAPTREE, "impl:TapTreeIterItem<'tr, Pk>/fn:miniscript", qual="TapTreeIterItem", props=("C11",),
              contract=Contract(ensures=[Clause("field", (), "r == self.node")]))
        vf.fn(TAPTREE, "impl:TapTreeIterItem<'tr, Pk>/fn:depth", qual="TapTreeIterItem", props=("C11",),
              contract=Contract(ensures=[Clause("field", (), "r == self.depth")]))
    vf.fn(TR, "fn:control_block_len", props=FP, contract=Contract(ensures=[C("bip341_control_block_size", "r == control_block_size(depth as int)")]))

    ERR = "r is Err <==> %s.ext.sat_data is None"
    D = "%s.ext.sat_data->Some_0"
    S = "spec_script_size(%s) as int"

    # ---- Wsh / Wpkh --------------------------------------------------------------------------------------------------------
    with vf.block("impl<Pk: MiniscriptKey> Wsh<Pk>"):
        I = C20.impl_with_fn(repo, SEG, "Wsh<Pk>", "max_weight_to_satisfy").rsplit("/", 1)[0]
        vf.fn(SEG, I + "/fn:max_weight_to_satisfy", qual="Wsh", props=FP, contract=Contract(requires=["ms_small(self.ms)"], ensures=[
            C("err_iff_no_satisfaction_figure", ERR % "self.ms"),
            C("covers_witness_with_script", "r is Ok ==> r->Ok_0.wu >= worst_wsh(%s, %s)" % (D % "self.ms", S % "self.ms")),
            TIGHT("r is Ok ==> r->Ok_0.wu == worst_wsh(%s, %s)" % (D % "self.ms", S % "self.ms")), BOUND("r is Ok ==> r->Ok_0.wu")]))
        vf.fn(SEG, I + "/fn:max_satisfaction_weight", qual="Wsh", props=FP, contract=Contract(requires=["ms_small(self.ms)"], ensures=[
            C("err_iff_no_satisfaction_figure", ERR % "self.ms"),
            C("covers_script_sig_and_witness_fields", "r is Ok ==> r->Ok_0 >= worst_fields_wsh(%s, %s, 0)" % (D % "self.ms", S % "self.ms")),
            BOUND("r is Ok ==> r->Ok_0")]))
    with vf.block("impl<Pk: MiniscriptKey> Wpkh<Pk>"):
        I = C20.impl_with_fn(repo, SEG, "Wpkh<Pk>", "max_weight_to_satisfy").rsplit("/", 1)[0]
        vf.fn(SEG, I + "/fn:max_weight_to_satisfy", qual="Wpkh", props=FP, contract=Contract(ensures=[
            C("covers_sig_and_key_witness", "r.wu >= worst_wpkh()"), TIGHT("r.wu == worst_wpkh()"), BOUND("r.wu")]))
        vf.fn(SEG, I + "/fn:max_satisfaction_weight", qual="Wpkh", props=FP, contract=Contract(ensures=[
            C("covers_script_sig_and_witness_fields", "r >= worst_fields_wpkh(0)"), BOUND("r")]))

    # ---- Bare / Pkh --------------------------------------------------------------------------------------------------------
    with vf.block("impl<Pk: MiniscriptKey> Bare<Pk>"):
        I = C20.impl_with_fn(repo, BARE, "Bare<Pk>", "max_weight_to_satisfy").rsplit("/", 1)[0]
        vf.fn(BARE, I + "/fn:max_weight_to_satisfy", qual="Bare", props=FP, contract=Contract(requires=["ms_small(self.ms)"], ensures=[
            C("err_iff_no_satisfaction_figure", ERR % "self.ms"),
            C("covers_script_sig", "r is Ok ==> r->Ok_0.wu >= worst_bare(%s)" % (D % "self.ms")),
            TIGHT("r is Ok ==> r->Ok_0.wu == worst_bare(%s)" % (D % "self.ms"))]))
        vf.fn(BARE, I + "/fn:max_satisfaction_weight", qual="Bare", props=FP, contract=Contract(requires=["ms_small(self.ms)"], ensures=[
            C("err_iff_no_satisfaction_figure", ERR % "self.ms"),
            C("covers_script_sig_field", "r is Ok ==> r->Ok_0 >= worst_fields_legacy(%s.max_script_sig_size as int)" % (D % "self.ms"))]))
    with vf.block("impl<Pk: MiniscriptKey> Pkh<Pk>"):
        I = C20.impl_with_fn(repo, BARE, "Pkh<Pk>", "max_weight_to_satisfy").rsplit("/", 1)[0]
        vf.fn(BARE, I + "/fn:max_weight_to_satisfy", qual="Pkh", props=FP, contract=Contract(ensures=[
            C("covers_sig_and_key_pushes", "r.wu >= worst_pkh(self.pk.spec_is_uncompressed())"),
            TIGHT("r.wu == worst_pkh(self.pk.spec_is_uncompressed())")]))
        vf.fn(BARE, I + "/fn:max_satisfaction_weight", qual="Pkh", props=FP, contract=Contract(ensures=[
            C("covers_script_sig_field", "r >= worst_fields_legacy(push_ser(72) + push_ser(key_len(self.pk.spec_is_uncompressed())))")]))

    # ---- Sh ----------------------------------------------------------------------------------------------------------------
    ADD = lit("R7", "Ok(w + witness_size)", "Ok(weight_add(w, witness_size))")
    with vf.block("impl<Pk: MiniscriptKey> Sh<Pk>"):
        I = C20.impl_with_fn(repo, SH, "Sh<Pk>", "max_weight_to_satisfy").rsplit("/", 1)[0]
        vf.fn(SH, I + "/fn:max_weight_to_satisfy", qual="Sh", props=FP, rewrites=[ADD],
              contract=Contract(requires=["sh_small(*self)"], ensures=[
                  C("wsh_arm.err_iff_no_satisfaction_figure", "self.inner matches ShInner::Wsh(w) ==> (%s)" % (ERR % "w.ms")),
                  C("wsh_arm.covers_program_push_and_witness", "self.inner matches ShInner::Wsh(w) ==> r is Ok ==> r->Ok_0.wu >= worst_sh_wsh(%s, %s)" % (D % "w.ms", S % "w.ms")),
                  C("wpkh_arm.never_err", "self.inner is Wpkh ==> r is Ok"),
                  C("wpkh_arm.covers_program_push_and_witness", "self.inner is Wpkh ==> r is Ok ==> r->Ok_0.wu >= worst_sh_wpkh()"),
                  C("ms_arm.err_iff_no_satisfaction_figure", "self.inner matches ShInner::Ms(ms) ==> (%s)" % (ERR % "ms")),
                  C("ms_arm.covers_pushes_and_redeem_script", "self.inner matches ShInner::Ms(ms) ==> r is Ok ==> r->Ok_0.wu >= worst_sh_ms(%s, %s)" % (D % "ms", S % "ms")),
                  TIGHT("r is Ok ==> r->Ok_0.wu == (match self.inner { ShInner::Wsh(w) => worst_sh_wsh(%s, %s), ShInner::Wpkh(_) => worst_sh_wpkh(), ShInner::Ms(ms) => worst_sh_ms(%s, %s) })"
                        % (D % "w.ms", S % "w.ms", D % "ms", S % "ms"))]))
        vf.fn(SH, I + "/fn:max_satisfaction_weight", qual="Sh", props=FP,
              contract=Contract(requires=["sh_small(*self)"], ensures=[
                  C("wsh_arm.err_iff_no_satisfaction_figure", "self.inner matches ShInner::Wsh(w) ==> (%s)" % (ERR % "w.ms")),
                  C("wsh_arm.covers_script_sig_and_witness_fields", "self.inner matches ShInner::Wsh(w) ==> r is Ok ==> r->Ok_0 >= worst_fields_wsh(%s, %s, push_ser(34))" % (D % "w.ms", S % "w.ms")),
                  C("wpkh_arm.never_err", "self.inner is Wpkh ==> r is Ok"),
                  C("wpkh_arm.covers_script_sig_and_witness_fields", "self.inner is Wpkh ==> r is Ok ==> r->Ok_0 >= worst_fields_wpkh(push_ser(22))"),
                  C("ms_arm.err_iff_no_satisfaction_figure", "self.inner matches ShInner::Ms(ms) ==> (%s)" % (ERR % "ms")),
                  C("ms_arm.covers_script_sig_field", "self.inner matches ShInner::Ms(ms) ==> r is Ok ==> r->Ok_0 >= worst_fields_legacy(%s.max_script_sig_size + push_ser(%s))" % (D % "ms", S % "ms"))]))

    # ---- Tr ----------------------------------------------------------------------------------------------------------------
    tr_impl = C20.impl_with_fn(repo, TR, "Tr<Pk>", "max_weight_to_satisfy").rsplit("/", 1)[0]
    chains = {}
    with vf.block("impl<Pk: MiniscriptKey> Tr<Pk>"):
        vf.fn(TR, C20.impl_with_fn(repo, TR, "Tr<Pk>", "tap_tree"), qual="Tr", props=("C11",),
              contract=Contract(ensures=[Clause("field", (), "match r { Some(t) => self.tree == Some(*t), None => self.tree is None }")]))
        for fn, which, key, worst, val in (("max_weight_to_satisfy", "w2s", "worst_tr_key()", "worst_leaf", "r->Ok_0.wu"),
                                           ("max_satisfaction_weight", "msw", "worst_fields_tr_key()", "worst_fields_leaf", "r->Ok_0")):
            ch = chains[which] = LeafChain(which)
            reg = vf.fn(TR, tr_impl + "/fn:" + fn, qual="Tr", props=FP,
                        rewrites=[ch, sub("R7-cmp-max", r"\bcmp::max\(", "cmp_max_usize(", required=False)], contract=Contract(requires=["tr_small(*self)"], ensures=[
                # oracle (BIP341): every tr() output can be spent through its key, with or without a tree: the descriptor is never
                # "impossible to satisfy" and the bound has to cover the key spend as well as every leaf
                C("key_only.never_err", "self.tree is None ==> r is Ok"),
                C("key_only.covers_key_spend", "self.tree is None ==> r is Ok ==> %s >= %s" % (val, key)),
                C("tree.err_only_if_no_leaf_has_a_figure", "self.tree matches Some(t) ==> (r is Err ==> no_leaf_figure(t))"),
                C("tree.covers_every_leaf", "self.tree matches Some(t) ==> r is Ok ==> forall|j: int| 0 <= j < t.depths_leaves@.len() && "
                  "leaf_figure(#[trigger] t.depths_leaves@[j]) is Some ==> %s >= %s(t.depths_leaves@[j])" % (val, worst)),
                C("tree.covers_key_spend", "self.tree is Some ==> r is Ok ==> %s >= %s" % (val, key)),
                C("tree.key_spend_needs_no_leaf", "self.tree is Some ==> r is Ok"),
            ]))
            ch.reg = reg
    for which, worst in (("w2s", "worst_leaf"), ("msw", "worst_fields_leaf")):
        ch = chains[which]
        lifted = "tr_leaf_%s" % which
        L = "(leaf.depth, *leaf.node)"
        fname = "max_weight_to_satisfy" if which == "w2s" else "max_satisfaction_weight"
        vf.fn_text("Tr::%s__leaf" % fname,
                   "fn %s<Pk: MiniscriptKey>(leaf: TapTreeIterItem<'_, Pk>) -> Option<usize> %s" % (lifted, ch.body),
                   Contract(requires=["ms_small(**leaf.node)"], ensures=[
                       C("none_iff_no_satisfaction_figure", "r is None <==> leaf.node.ext.sat_data is None"),
                       C("covers_sat_script_and_control_block", "r is Some ==> r->Some_0 >= %s(%s)" % (worst, L)),
                       C("bounded", "r is Some ==> r->Some_0 <= 0x7fff_ffff_ffff", ("C11",))]),
                   FP, file=TR, lines=ch.reg.lines(), anchor=tr_impl + "/fn:... closure |leaf|")
        vf.spec_obligation("Tr::%s__leaf_loop" % fname, leaf_loop(ch.red, which, lifted), FP)
    vf.trust("cmp_max_usize (external_body): core::cmp::max on usize is the larger argument", "std; `cmp::max(` is rewritten to it in Tr (R7)")
    vf.trust("tap_leaves_filter_map_max / _min (verified loops standing for the iterator chain)",
             "TapTree::leaves() yields TapTreeIterItem { depth, node } for every entry of depths_leaves in order (TapTreeIter::next); "
             "Iterator::filter_map(f).max() is the largest Some result, None if there is none (std)")

    # ---- Descriptor dispatch -----------------------------------------------------------------------------------------------
    def desc_clauses(val, tbl):
        out = []
        for v, (err, cov) in tbl.items():
            if err is not None:
                out.append(C("%s.err_iff_no_satisfaction_figure" % v, "*self matches Descriptor::%s(x) ==> (r is Err <==> %s)" % (v, err)))
            else:
                out.append(C("%s.never_err" % v, "*self is %s ==> r is Ok" % v))
            out.append(C("%s.covers_its_input" % v, "*self matches Descriptor::%s(x) ==> r is Ok ==> %s" % (v, cov % dict(val=val))))
        return out
    dx = D % "x.ms"
    sx = S % "x.ms"
    pre = ["desc_small(*self)"]
    SHW = ("(x.inner matches ShInner::Wsh(w) ==> %(val)s >= worst_sh_wsh(" + D % "w.ms" + ", " + S % "w.ms" + ")) && (x.inner is Wpkh ==> %(val)s >= worst_sh_wpkh()) && "
           "(x.inner matches ShInner::Ms(m) ==> %(val)s >= worst_sh_ms(" + D % "m" + ", " + S % "m" + "))")
    SHF = ("(x.inner matches ShInner::Wsh(w) ==> %(val)s >= worst_fields_wsh(" + D % "w.ms" + ", " + S % "w.ms" + ", push_ser(34))) && (x.inner is Wpkh ==> %(val)s >= worst_fields_wpkh(push_ser(22))) && "
           "(x.inner matches ShInner::Ms(m) ==> %(val)s >= worst_fields_legacy(" + D % "m" + ".max_script_sig_size + push_ser(" + S % "m" + ")))")
    SHE = "(match x.inner { ShInner::Wsh(w) => w.ms.ext.sat_data is None, ShInner::Wpkh(_) => false, ShInner::Ms(m) => m.ext.sat_data is None })"
    TRC = ("%(val)s >= {key} && (x.tree matches Some(t) ==> forall|j: int| 0 <= j < t.depths_leaves@.len() && "
           "leaf_figure(#[trigger] t.depths_leaves@[j]) is Some ==> %(val)s >= {worst}(t.depths_leaves@[j]))")
    with vf.block("impl<Pk: MiniscriptKey> Descriptor<Pk>"):
        vf.fn(DMOD, C20.impl_with_fn(repo, DMOD, "Descriptor<Pk>", "max_weight_to_satisfy"), qual="Descriptor", props=FP,
              contract=Contract(requires=pre, ensures=desc_clauses("r->Ok_0.wu", {
                  "Bare": ("x.ms.ext.sat_data is None", "%(val)s >= worst_bare(" + dx + ")"),
                  "Pkh": (None, "%(val)s >= worst_pkh(x.pk.spec_is_uncompressed())"),
                  "Wpkh": (None, "%(val)s >= worst_wpkh()"),
                  "Wsh": ("x.ms.ext.sat_data is None", "%(val)s >= worst_wsh(" + dx + ", " + sx + ")"),
                  "Sh": (SHE, SHW),
                  "Tr": (None, TRC.format(key="worst_tr_key()", worst="worst_leaf")),
              })))
        vf.fn(DMOD, C20.impl_with_fn(repo, DMOD, "Descriptor<Pk>", "max_satisfaction_weight"), qual="Descriptor", props=FP,
              contract=Contract(requires=pre, ensures=desc_clauses("r->Ok_0", {
                  "Bare": ("x.ms.ext.sat_data is None", "%(val)s >= worst_fields_legacy(" + dx + ".max_script_sig_size as int)"),
                  "Pkh": (None, "%(val)s >= worst_fields_legacy(push_ser(72) + push_ser(key_len(x.pk.spec_is_uncompressed())))"),
                  "Wpkh": (None, "%(val)s >= worst_fields_wpkh(0)"),
                  "Wsh": ("x.ms.ext.sat_data is None", "%(val)s >= worst_fields_wsh(" + dx + ", " + sx + ", 0)"),
                  "Sh": (SHE, SHF),
                  "Tr": (None, TRC.format(key="worst_fields_tr_key()", worst="worst_fields_leaf")),
              })))
    return vf
