"""C16 / C11: descriptor-level derivation and multipath expansion (src/descriptor/mod.rs) -- Verus.

Under contract (real text of /repo, woven):
  Descriptor<DescriptorPublicKey>::{has_wildcard, is_multipath, into_definite, at_derivation_index, derive_at_index,
      derived_descriptor(secp, index), find_derivation_index_for_spk, into_single_descriptors}
  Descriptor<DefiniteDescriptorKey>::derived_descriptor(secp)
  DerivationResult (the real enum) ::{into_result, or_fallback}
  the Translator structs these functions define inline, hoisted to module level, `fn pk` verbatim:
      ToDefinite::pk, AtIndex::pk, IndexChoser::pk, Derivator::pk
  TranslateErr (the real enum) ::expect_translator_err
  the closure of into_single_descriptors (lambda-lifted, verbatim): `into_single_descriptors__key`

Consumed by contract (NOT re-verified here):
  * the key layer -- DescriptorPublicKey::{has_wildcard, is_multipath, at_derivation_index, into_single_keys},
    DefiniteDescriptorKey::{new, derive_public_key}, DerivPaths::paths -- through EXACTLY the clause objects units/c16_keys.py
    proves (harvested from `c16_keys.build(repo)`), with the same prelude / types / oracle vocabulary (imported, not copied);
    CKDpub stays uninterpreted (`bip32::ckd_pub_path`);
  * Descriptor::translate_pk / for_each_key / for_any_key -- through their WHOLE-DESCRIPTOR contract: "same structure, every key
    replaced by the translator's image of it, in order; fails with the translator's error on some key, or with a context error only
    if the key map changes a Miniscript-relevant property of a key" (per-node steps and per-variant wrappers: units/c20_translate.py;
    key order / for_each_key: units/c20_iters.py; traversal: units/c00_tree.py; the induction to the whole tree is not mechanised);
  * Descriptor::script_pubkey -- an uninterpreted function of (structure, keys) (units/c16_wrappers.py decides what it is).

Descriptor<Pk> is modelled as what these functions can observe of it: a key-free SKELETON (output type, fragments, thresholds,
hashes, time locks) and the sequence of its KEYS in the order of the string form.  None of the verified functions looks inside.

ORACLE (not the code): BIP380 (`/*` stands for every unhardened child index: the descriptor at index i is the descriptor with
every wildcard replaced by i; a descriptor without wildcards stands for one script), BIP32 (public derivation, index < 2^31),
BIP389 (`<a;b;..>`: "the descriptor is expanded into one descriptor per alternative, the j-th taking the j-th alternative of EVERY
multipath key expression; all multipath key expressions of a descriptor must have the same number of alternatives"), the doc
comments of the functions for the error / fallback behaviour, and property C16 ("for key-derived descriptors they equal what
independent BIP32 derivation at the same index produces; a multipath descriptor splits into exactly the descriptors obtained by
selecting each path alternative").
"""
import re

from vlib.verus import VerusFile, Contract, Clause, sub, lit, rule, Undecided, drop_vis
from vlib.extract import match_close, AnchorLost, strip_docs
from units import c16_keys as K

NAME = "c16_derive"
ENGINE = "verus"
PROPS = ("C16", "C11")
KEY = K.KEY
DMOD = "src/descriptor/mod.rs"
LIB = "src/lib.rs"

DROPPED = [
    "c16_derive: Descriptor<Pk> is an abstract pair (skeleton, keys in string order); the real enum and its per-variant translate_pk / for_each_key / script_pubkey are the "
    "subject of units/c20_translate.py, c20_iters.py, c16_wrappers.py and are consumed through whole-descriptor contracts (assumed; the induction from the per-node steps is not mechanised)",
    "c16_derive: the Translator structs (`struct ToDefinite`, `AtIndex`, `IndexChoser`, `Derivator`) and their `impl Translator<..>` blocks are local items of the functions; they are hoisted to "
    "module level (R16: a local item is a module item with restricted scope) and deleted from the function text; `fn pk` is verbatim; `translate_hash_clone!(..)` (the four hash methods, "
    "identity on hashes) is dropped with the hash methods of the stub trait Translator: hashes are part of the skeleton",
    "c16_derive: trait Translator is a stub with `spec fn spec_pk(&self, pk)` (the key map as a function of the translator's state and the key), an invariant `inv(&self)` and the frame "
    "'a call keeps the invariant and does not change the key map'; the four translators are checked against it.  Derivator's invariant is generated from its field types (a memo table keyed by the "
    "key itself stores that key's public key; a table keyed by a key source (fingerprint, path) has no invariant: a claimed origin does not determine a key); "
    "`*m.entry(k).or_insert_with(f)` -> `btree_entry_or_insert_with_copied(&mut m, k, f)` (R14, std definition of the idiom; BTreeMap = uninterpreted Map view)",
    "c16_derive: closures get a parameter type and a ghost `requires` / `ensures` (R10): `|key| key.has_wildcard()`, `|e| e.expect_translator_err(..)`",
    "c16_derive: into_single_descriptors: the FnMut closure given to for_any_key (captures `&mut descriptors` and `self`) is lambda-lifted verbatim to `into_single_descriptors__key(this, descriptors, key)` "
    "(R16, `self` -> `this`); the call `self.for_any_key(CLOSURE)` becomes `Self::into_single_descriptors__any_key(&self, &mut descriptors)`, /verif text: the loop that for_any_key is for a stateful "
    "predicate (every key is presented, in an unspecified order, until the predicate answers true); `for (i, desc) in descriptors.iter_mut().enumerate() {BODY}` -> index loop "
    "`while i < descriptors.len() { let desc = &mut descriptors[i]; BODY i += 1; }` with the unit's invariant (R8, BODY verbatim); `for _ in 0..n` gets a ghost label + invariant (R10); "
    "the stateless closure of the length check `|key| match key { .. len() != n_paths }` gets a parameter type + ghost `ensures` if present (R10, optional); the function is verified with "
    "#[verifier::loop_isolation(false)] (the expansion loop sees what the length check in front of it established)",
    "c16_derive: find_derivation_index_for_spk: `for VAR in range {` gets a ghost label + invariant, the `let D = ...derived_descriptor(secp);` statements an extensionality hint "
    "(R10, local names read off the text); no loop rewrite (Verus' native `for` over Range<u32>)",
    "c16_derive: TranslateErr::into_outer_err (`match impossible {}`: zero-arm match, not supported by Verus) is a signature-only stub with an arbitrary result",
    "c16_derive: NOT verified: DerivationResult::unwrap (panics by design), parse_descriptor / to_string_with_secret (secret keys, strings), xkey_network (iter_pk loops), TryFrom (one-line forwarder to into_definite)",
]

# ---------------------------------------------------------------------------------------------------------------
SCRIPT = r"""
// ---- bitcoin::{ScriptBuf, Script}: byte strings; `ScriptBuf == Script` compares the bytes (bitcoin crate) -----
pub struct ScriptBuf { pub opaque: u64 }
pub struct Script { pub opaque: u64 }
impl ScriptBuf { pub uninterp spec fn bytes(&self) -> Seq<u8>; }
impl Script { pub uninterp spec fn bytes(&self) -> Seq<u8>; }
impl PartialEq<Script> for ScriptBuf { #[verifier::external_body] fn eq(&self, o: &Script) -> bool { unimplemented!() } }
impl vstd::std_specs::cmp::PartialEqSpecImpl<Script> for ScriptBuf {
    open spec fn obeys_eq_spec() -> bool { true }
    open spec fn eq_spec(&self, o: &Script) -> bool { self.bytes() == o.bytes() }
}
// the other spelling of the same comparison: `buf.as_script() == script` (ScriptBuf derefs to the Script with the same bytes;
// `Script == Script` compares the bytes)
impl ScriptBuf { #[verifier::external_body] pub fn as_script(&self) -> (r: &Script) ensures r.bytes() == self.bytes() { unimplemented!() } }
impl PartialEq<Script> for Script { #[verifier::external_body] fn eq(&self, o: &Script) -> bool { unimplemented!() } }
impl vstd::std_specs::cmp::PartialEqSpecImpl<Script> for Script {
    open spec fn obeys_eq_spec() -> bool { true }
    open spec fn eq_spec(&self, o: &Script) -> bool { self.bytes() == o.bytes() }
}
// crate::Error reduced to the variant these functions produce
pub enum Error { MultipathDescLenMismatch, Other(u8) }
impl core::fmt::Display for Error {
    #[verifier::external_body]
    fn fmt(&self, f: &mut core::fmt::Formatter<'_>) -> core::fmt::Result { unimplemented!() }
}
use core::ops::Range;
"""

MODEL = r"""
// ---- the Miniscript-relevant properties of a key (MiniscriptKey::{is_uncompressed, is_x_only_key, num_der_paths}); the three
// ---- definitions below are the clauses units/c16_keys.py proves for the real methods -------------------------------------
trait MiniscriptKey: Sized {
    spec fn kind_uncompressed(&self) -> bool;
    spec fn kind_x_only(&self) -> bool;
    spec fn kind_num_der_paths(&self) -> nat;
}
trait ToPublicKey: MiniscriptKey {}
spec fn key_x_only(k: DescriptorPublicKey) -> bool { k matches DescriptorPublicKey::Single(s) && s.key is XOnly }
spec fn key_num_der_paths(k: DescriptorPublicKey) -> nat {
    match k { DescriptorPublicKey::Single(_) => 0, DescriptorPublicKey::XPub(_) => 1, DescriptorPublicKey::MultiXPub(m) => multi_paths(m).len() }
}
impl MiniscriptKey for DescriptorPublicKey {
    spec fn kind_uncompressed(&self) -> bool { key_uncompressed(*self) }
    spec fn kind_x_only(&self) -> bool { key_x_only(*self) }
    spec fn kind_num_der_paths(&self) -> nat { key_num_der_paths(*self) }
}
impl MiniscriptKey for DefiniteDescriptorKey {
    spec fn kind_uncompressed(&self) -> bool { key_uncompressed(self.0) }
    spec fn kind_x_only(&self) -> bool { key_x_only(self.0) }
    spec fn kind_num_der_paths(&self) -> nat { key_num_der_paths(self.0) }
}
impl MiniscriptKey for PublicKey {
    spec fn kind_uncompressed(&self) -> bool { !self.compressed }
    spec fn kind_x_only(&self) -> bool { false }
    spec fn kind_num_der_paths(&self) -> nat { 0 }
}
impl ToPublicKey for PublicKey {}
// The rules of TranslateErr::expect_translator_err's doc comment ("Legacy/Bare does not allow x_only keys; SegwitV0 does not allow
// uncompressed keys and x_only keys; Tapscript does not allow uncompressed keys; ... same number of paths for all the keys"): a key
// map cannot make a context-valid descriptor invalid if it keeps the compressed-ness, does not INTRODUCE x-only keys (an x-only key
// is only legal in Tapscript, where its compressed full key is legal too) and keeps, or removes, multipath-ness.
spec fn kind_kept<P: MiniscriptKey, Q: MiniscriptKey>(p: P, q: Q) -> bool {
    &&& q.kind_uncompressed() == p.kind_uncompressed()
    &&& (q.kind_x_only() == p.kind_x_only() || (p.kind_x_only() && !q.kind_x_only()))
    &&& (q.kind_num_der_paths() == p.kind_num_der_paths() || q.kind_num_der_paths() <= 1)
}

// ---- Translator: the key map is a function of the translator's state and the key.  A call may change the state (a memo table) but
// ---- keeps the translator's invariant and does NOT change the key map --------------------------------------------------------
trait Translator<P: MiniscriptKey>: Sized {
    type TargetPk: MiniscriptKey;
    type Error;
    spec fn inv(&self) -> bool;
    spec fn spec_pk(&self, pk: P) -> Result<Self::TargetPk, Self::Error>;
    fn pk(&mut self, pk: &P) -> (r: Result<Self::TargetPk, Self::Error>)
        requires old(self).inv(),
        ensures r == old(self).spec_pk(*pk), final(self).inv(), forall|k: P| #[trigger] final(self).spec_pk(k) == old(self).spec_pk(k);
}

// ---- Descriptor<Pk>, abstractly: the key-free skeleton and the keys in the order of the string form ------------------------
struct Skeleton { opaque: u64 }
struct Descriptor<Pk: MiniscriptKey> { skeleton: Skeleton, keys: Ghost<Seq<Pk>> }
// derived Clone returns an equal value (DESIGN 3.4 / R13)
impl<Pk: MiniscriptKey> Clone for Descriptor<Pk> {
    #[verifier::external_body]
    fn clone(&self) -> (r: Self) ensures r == *self { unimplemented!() }
}
impl Clone for DescriptorPublicKey {
    #[verifier::external_body]
    fn clone(&self) -> (r: Self) ensures r == *self { unimplemented!() }
}
impl Clone for DefiniteDescriptorKey {
    #[verifier::external_body]
    fn clone(&self) -> (r: Self) ensures r == *self { unimplemented!() }
}
// the descriptor satisfies the rules of its script context (established by the checked constructors and the parser: C12)
uninterp spec fn desc_ctx_valid<Pk: MiniscriptKey>(d: Descriptor<Pk>) -> bool;
// the scriptPubKey is a function of the structure and the keys (units/c16_wrappers.py decides which)
uninterp spec fn spk_bytes<Pk: MiniscriptKey>(skeleton: Skeleton, keys: Seq<Pk>) -> Seq<u8>;
spec fn spk_of<Pk: MiniscriptKey>(d: Descriptor<Pk>) -> Seq<u8> { spk_bytes(d.skeleton, d.keys@) }

// "same structure, every key replaced by the translator's image of it"
spec fn translated_by<P: MiniscriptKey, T: Translator<P>>(d: Descriptor<P>, t: T, out: Descriptor<T::TargetPk>) -> bool {
    &&& out.skeleton == d.skeleton
    &&& out.keys@.len() == d.keys@.len()
    &&& forall|i: int| #![trigger d.keys@[i]] #![trigger out.keys@[i]] 0 <= i < d.keys@.len() ==> t.spec_pk(d.keys@[i]) == Ok::<T::TargetPk, T::Error>(out.keys@[i])
}
spec fn kinds_kept<P: MiniscriptKey, T: Translator<P>>(d: Descriptor<P>, t: T) -> bool {
    forall|i: int| 0 <= i < d.keys@.len() ==> (t.spec_pk(#[trigger] d.keys@[i]) matches Ok(q) ==> kind_kept(d.keys@[i], q))
}
// predicates over the keys of a descriptor (for_each_key / for_any_key)
spec fn pred_true_on_some<'a, Pk: 'a, F: FnMut(&'a Pk) -> bool>(pred: F, keys: Seq<Pk>) -> bool {
    exists|i: int| 0 <= i < keys.len() && call_ensures(pred, (&#[trigger] keys[i],), true)
}
spec fn pred_false_on_some<'a, Pk: 'a, F: FnMut(&'a Pk) -> bool>(pred: F, keys: Seq<Pk>) -> bool {
    exists|i: int| 0 <= i < keys.len() && call_ensures(pred, (&#[trigger] keys[i],), false)
}
spec fn pred_true_on_all<'a, Pk: 'a, F: FnMut(&'a Pk) -> bool>(pred: F, keys: Seq<Pk>) -> bool {
    forall|i: int| 0 <= i < keys.len() ==> call_ensures(pred, (&#[trigger] keys[i],), true)
}
spec fn pred_false_on_all<'a, Pk: 'a, F: FnMut(&'a Pk) -> bool>(pred: F, keys: Seq<Pk>) -> bool {
    forall|i: int| 0 <= i < keys.len() ==> call_ensures(pred, (&#[trigger] keys[i],), false)
}
impl<Pk: MiniscriptKey> Descriptor<Pk> {
    // the keys in the order in which for_each_key presents them (Tr: leaves before the internal key -- units/c20_iters.py):
    // every key is presented, nothing else is
    #[verifier::external_body]
    fn visited_keys<'a>(&'a self) -> (r: Vec<&'a Pk>)
        ensures
            forall|a: int| 0 <= a < r@.len() ==> is_key_of(*self, *(#[trigger] r@[a])),
            forall|i: int| 0 <= i < self.keys@.len() ==> is_visited(r@, #[trigger] self.keys@[i]),
    { unimplemented!() }
}
spec fn is_key_of<Pk: MiniscriptKey>(d: Descriptor<Pk>, k: Pk) -> bool { exists|i: int| 0 <= i < d.keys@.len() && #[trigger] d.keys@[i] == k }
spec fn is_visited<Pk>(v: Seq<&Pk>, k: Pk) -> bool { exists|a: int| 0 <= a < v.len() && *(#[trigger] v[a]) == k }
"""

CACHE = r"""
// ---- alloc::collections::BTreeMap: an uninterpreted view Map<K, V> (vstd has no BTreeMap; same model as units/c14_psbt_satisfier.py) ----
#[verifier::external_body]
#[verifier::accept_recursive_types(K)]
#[verifier::accept_recursive_types(V)]
struct BTreeMap<K, V> { k: PhantomData<K>, v: PhantomData<V> }
impl<K, V> View for BTreeMap<K, V> {
    type V = Map<K, V>;
    uninterp spec fn view(&self) -> Map<K, V>;
}
impl<K, V> BTreeMap<K, V> {
    #[verifier::external_body]
    fn new() -> (r: BTreeMap<K, V>) ensures r@ == Map::<K, V>::empty() { unimplemented!() }
    // std BTreeMap::get (Q = K): the value stored under a key equal to *k
    #[verifier::external_body]
    fn get<'a>(&'a self, k: &K) -> (r: Option<&'a V>)
        ensures r == (if self@.contains_key(*k) { Some(&self@[*k]) } else { None::<&V> })
    { unimplemented!() }
    #[verifier::external_body]
    fn contains_key(&self, k: &K) -> (r: bool) ensures r == self@.contains_key(*k) { unimplemented!() }
    // std: "If the map did have this key present, the value is updated, and the old value is returned"
    #[verifier::external_body]
    fn insert(&mut self, k: K, v: V) -> (r: Option<V>)
        ensures final(self)@ == old(self)@.insert(k, v), r == (if old(self)@.contains_key(k) { Some(old(self)@[k]) } else { None::<V> })
    { unimplemented!() }
}
// std: `*m.entry(k).or_insert_with(f)` -- "Ensures a value is in the entry by inserting the result of the default function if empty,
// and returns a mutable reference to the value in the entry": a hit returns the stored value and calls nothing; a miss calls f once,
// stores and returns its result
#[verifier::external_body]
fn btree_entry_or_insert_with_copied<K, V: Copy, F: FnOnce() -> V>(m: &mut BTreeMap<K, V>, k: K, f: F) -> (r: V)
    requires !old(m)@.contains_key(k) ==> call_requires(f, ()),
    ensures
        old(m)@.contains_key(k) ==> r == old(m)@[k] && final(m)@ == old(m)@,
        !old(m)@.contains_key(k) ==> call_ensures(f, (), r) && final(m)@ == old(m)@.insert(k, r),
{ unimplemented!() }
"""

ORACLE = r"""
// ---- oracle: BIP380 / BIP32 / BIP389 at the level of a whole descriptor ---------------------------------------------------
// the key-level functions (what they are: units/c16_keys.py, whose clauses are restated about them by the axioms below)
uninterp spec fn key_at_index(k: DescriptorPublicKey, index: u32) -> Result<DefiniteDescriptorKey, NonDefiniteKeyError>;
uninterp spec fn spec_definite_new(k: DescriptorPublicKey) -> Result<DefiniteDescriptorKey, NonDefiniteKeyError>;
// BIP32: the public key that key expression `k` stands for at child index `index`
spec fn pub_at(k: DescriptorPublicKey, index: u32) -> Result<PublicKey, NonDefiniteKeyError> {
    match key_at_index(k, index) { Ok(dk) => Ok(the_public_key(dk.0)), Err(e) => Err(e) }
}
spec fn desc_has_wildcard(d: Descriptor<DescriptorPublicKey>) -> bool { exists|i: int| 0 <= i < d.keys@.len() && key_has_wildcard(#[trigger] d.keys@[i]) }
spec fn desc_is_multipath(d: Descriptor<DescriptorPublicKey>) -> bool { exists|i: int| 0 <= i < d.keys@.len() && (#[trigger] d.keys@[i]) is MultiXPub }
spec fn desc_keys_definite(d: Descriptor<DefiniteDescriptorKey>) -> bool { forall|i: int| 0 <= i < d.keys@.len() ==> definite((#[trigger] d.keys@[i]).0) }
// BIP380: the descriptor at index `index` = same structure, every key expression replaced by its key at that index
spec fn keys_at_index(d: Descriptor<DescriptorPublicKey>, index: u32, out: Descriptor<DefiniteDescriptorKey>) -> bool {
    &&& out.skeleton == d.skeleton
    &&& out.keys@.len() == d.keys@.len()
    &&& forall|i: int| #![trigger d.keys@[i]] #![trigger out.keys@[i]] 0 <= i < d.keys@.len() ==> key_at_index(d.keys@[i], index) == Ok::<DefiniteDescriptorKey, NonDefiniteKeyError>(out.keys@[i])
}
spec fn all_keys_derive_at(d: Descriptor<DescriptorPublicKey>, index: u32) -> bool {
    forall|i: int| 0 <= i < d.keys@.len() ==> key_at_index(#[trigger] d.keys@[i], index) is Ok
}
spec fn some_key_fails_at(d: Descriptor<DescriptorPublicKey>, index: u32, e: NonDefiniteKeyError) -> bool {
    exists|i: int| 0 <= i < d.keys@.len() && key_at_index(#[trigger] d.keys@[i], index) == Err::<DefiniteDescriptorKey, NonDefiniteKeyError>(e)
}
// a definite descriptor -> the descriptor of its public keys
spec fn public_keys_of(d: Descriptor<DefiniteDescriptorKey>, out: Descriptor<PublicKey>) -> bool {
    &&& out.skeleton == d.skeleton
    &&& out.keys@.len() == d.keys@.len()
    &&& forall|i: int| #![trigger d.keys@[i]] #![trigger out.keys@[i]] 0 <= i < d.keys@.len() ==> out.keys@[i] == the_public_key(d.keys@[i].0)
}
// C16: the concrete descriptor at an index = same structure, every key expression replaced by what independent BIP32 derivation
// of it at that index produces
spec fn derives_at(d: Descriptor<DescriptorPublicKey>, index: u32, out: Descriptor<PublicKey>) -> bool {
    &&& out.skeleton == d.skeleton
    &&& out.keys@.len() == d.keys@.len()
    &&& forall|i: int| #![trigger d.keys@[i]] #![trigger out.keys@[i]] 0 <= i < d.keys@.len() ==> pub_at(d.keys@[i], index) == Ok::<PublicKey, NonDefiniteKeyError>(out.keys@[i])
}
spec fn keys_pub_at(d: Descriptor<DescriptorPublicKey>, index: u32) -> Seq<PublicKey> {
    Seq::new(d.keys@.len(), |i: int| pub_at(d.keys@[i], index)->Ok_0)
}
// index `index` produces the script `spk`
spec fn matches_at(d: Descriptor<DescriptorPublicKey>, index: u32, spk: Seq<u8>) -> bool {
    all_keys_derive_at(d, index) && spk_bytes(d.skeleton, keys_pub_at(d, index)) == spk
}
// a descriptor without wildcard: every key as written (wrapped unchanged into a definite key)
spec fn keys_wrapped(d: Descriptor<DescriptorPublicKey>, out: Descriptor<DefiniteDescriptorKey>) -> bool {
    &&& out.skeleton == d.skeleton
    &&& out.keys@.len() == d.keys@.len()
    &&& forall|i: int| #![trigger d.keys@[i]] #![trigger out.keys@[i]] 0 <= i < d.keys@.len() ==> out.keys@[i].0 == d.keys@[i]
}
spec fn all_keys_accepted_as_definite(d: Descriptor<DescriptorPublicKey>) -> bool {
    forall|i: int| 0 <= i < d.keys@.len() ==> spec_definite_new(#[trigger] d.keys@[i]) is Ok
}
spec fn some_key_rejected_as_definite(d: Descriptor<DescriptorPublicKey>, e: NonDefiniteKeyError) -> bool {
    exists|i: int| 0 <= i < d.keys@.len() && spec_definite_new(#[trigger] d.keys@[i]) == Err::<DefiniteDescriptorKey, NonDefiniteKeyError>(e)
}
spec fn concrete_without_wildcard(d: Descriptor<DescriptorPublicKey>, out: Descriptor<PublicKey>) -> bool {
    &&& out.skeleton == d.skeleton
    &&& out.keys@.len() == d.keys@.len()
    &&& forall|i: int| #![trigger d.keys@[i]] #![trigger out.keys@[i]] 0 <= i < d.keys@.len() ==> out.keys@[i] == the_public_key(d.keys@[i])
}
// ---- BIP389 ----
// the j-th alternative of a key expression (a single-path key expression is its own only alternative)
spec fn jth_alternative(k: DescriptorPublicKey, j: int) -> DescriptorPublicKey {
    match k { DescriptorPublicKey::MultiXPub(m) => jth_single(m, j), _ => k }
}
// what selecting alternative `j` does to one key expression; a multipath key without a j-th alternative is a length mismatch
spec fn choose_alternative(k: DescriptorPublicKey, j: usize) -> Result<DescriptorPublicKey, Error> {
    match k {
        DescriptorPublicKey::MultiXPub(m) => if j < multi_paths(m).len() { Ok(jth_single(m, j as int)) } else { Err(Error::MultipathDescLenMismatch) },
        _ => Ok(k),
    }
}
// descriptor number j of the expansion: same structure, every key expression replaced by its j-th alternative
spec fn split_at(d: Descriptor<DescriptorPublicKey>, j: int, out: Descriptor<DescriptorPublicKey>) -> bool {
    &&& out.skeleton == d.skeleton
    &&& out.keys@.len() == d.keys@.len()
    &&& forall|i: int| #![trigger d.keys@[i]] #![trigger out.keys@[i]] 0 <= i < d.keys@.len() ==> out.keys@[i] == jth_alternative(d.keys@[i], j)
}
// every multipath key expression of the descriptor has exactly n alternatives
spec fn all_multipath_have(d: Descriptor<DescriptorPublicKey>, n: int) -> bool {
    forall|i: int| 0 <= i < d.keys@.len() ==> ((#[trigger] d.keys@[i]) matches DescriptorPublicKey::MultiXPub(m) ==> multi_paths(m).len() == n)
}
spec fn multipath_counts_disagree(d: Descriptor<DescriptorPublicKey>) -> bool {
    exists|a: int, b: int| 0 <= a < d.keys@.len() && 0 <= b < d.keys@.len() && (#[trigger] d.keys@[a]) is MultiXPub && (#[trigger] d.keys@[b]) is MultiXPub
        && multi_paths(d.keys@[a]->MultiXPub_0).len() != multi_paths(d.keys@[b]->MultiXPub_0).len()
}
// type invariant of DerivPaths (DerivPaths::new, units/c16_keys.py clause never_empty): a multipath key has at least one alternative
spec fn desc_paths_nonempty(d: Descriptor<DescriptorPublicKey>) -> bool {
    forall|i: int| 0 <= i < d.keys@.len() ==> ((#[trigger] d.keys@[i]) matches DescriptorPublicKey::MultiXPub(m) ==> multi_paths(m).len() > 0)
}
"""

# the loop that `for_any_key` is when the predicate has state (Descriptor::for_any_key = !for_each_key(|k| !pred(k)); for_each_key stops at the
# first `false`): every key is presented, in for_each_key's order, until the predicate answers `true`
ANY_KEY = r"""
    fn into_single_descriptors__any_key(this: &Self, descriptors: &mut Vec<Self>) -> (r: bool)
        requires old(descriptors)@.len() == 0, desc_paths_nonempty(*this),
        ensures
            !r ==> !desc_is_multipath(*this) && final(descriptors)@.len() == 0,
            r ==> some_multipath_has(*this, final(descriptors)@.len() as int),
            forall|j: int| 0 <= j < final(descriptors)@.len() ==> #[trigger] final(descriptors)@[j] == *this,
    {
        let keys = this.visited_keys();
        let mut idx: usize = 0;
        while idx < keys.len()
            invariant
                descriptors@.len() == 0, idx <= keys@.len(), desc_paths_nonempty(*this),
                forall|a: int| 0 <= a < idx ==> !(*(#[trigger] keys@[a]) is MultiXPub),
                forall|a: int| 0 <= a < keys@.len() ==> is_key_of(*this, *(#[trigger] keys@[a])),
                forall|i: int| 0 <= i < this.keys@.len() ==> is_visited(keys@, #[trigger] this.keys@[i]),
            decreases keys@.len() - idx,
        {
            proof { assert(is_key_of(*this, *keys@[idx as int])); }
            if Self::into_single_descriptors__key(this, descriptors, keys[idx]) {
                return true;
            }
            idx += 1;
        }
        proof {
            assert forall|i: int| 0 <= i < this.keys@.len() implies !((#[trigger] this.keys@[i]) is MultiXPub) by {
                assert(is_visited(keys@, this.keys@[i]));
            }
        }
        false
    }
"""

LEMMAS = r"""
// some multipath key expression of the descriptor has n alternatives
spec fn some_multipath_has(d: Descriptor<DescriptorPublicKey>, n: int) -> bool {
    exists|f: int| 0 <= f < d.keys@.len() && (#[trigger] d.keys@[f]) is MultiXPub && multi_paths(d.keys@[f]->MultiXPub_0).len() == n
}
// a key expression without alternative j < n, in a descriptor one of whose multipath keys has n alternatives: the BIP389 length mismatch
proof fn lemma_mismatch(d: Descriptor<DescriptorPublicKey>, j: usize, n: int)
    requires some_multipath_has(d, n), j < n,
    ensures
        forall|a: int| 0 <= a < d.keys@.len() ==> (IndexChoser(j).spec_pk(#[trigger] d.keys@[a]) is Err ==>
            IndexChoser(j).spec_pk(d.keys@[a]) == Err::<DescriptorPublicKey, Error>(Error::MultipathDescLenMismatch) && multipath_counts_disagree(d) && !(exists|m: int| all_multipath_have(d, m))),
{
    assert forall|a: int| 0 <= a < d.keys@.len() && IndexChoser(j).spec_pk(#[trigger] d.keys@[a]) is Err
        implies multipath_counts_disagree(d) && !(exists|m: int| all_multipath_have(d, m)) by {
        let f = choose|f: int| 0 <= f < d.keys@.len() && (#[trigger] d.keys@[f]) is MultiXPub && multi_paths(d.keys@[f]->MultiXPub_0).len() == n;
        assert(d.keys@[a] is MultiXPub && multi_paths(d.keys@[a]->MultiXPub_0).len() <= j);
        assert(d.keys@[f] is MultiXPub);
        assert(multipath_counts_disagree(d));
        assert forall|m: int| !all_multipath_have(d, m) by {
            if all_multipath_have(d, m) {
                assert(multi_paths(d.keys@[a]->MultiXPub_0).len() == m);
                assert(multi_paths(d.keys@[f]->MultiXPub_0).len() == m);
            }
        }
    }
}
// multipath key expression `k` has no alternative number j
spec fn lacks_alt(k: DescriptorPublicKey, j: int) -> bool { k matches DescriptorPublicKey::MultiXPub(m) && multi_paths(m).len() <= j }
// selecting an alternative keeps the Miniscript-relevant properties of every key (a multipath xpub becomes a single-path xpub)
proof fn lemma_choose_keeps_kind(d: Descriptor<DescriptorPublicKey>, j: usize)
    ensures kinds_kept(d, IndexChoser(j)),
{}
// one step of the expansion loop: the translation by IndexChoser(j) of the descriptor IS descriptor number j of the expansion
proof fn lemma_split_step(d: Descriptor<DescriptorPublicKey>, j: usize, out: Descriptor<DescriptorPublicKey>)
    requires translated_by(d, IndexChoser(j), out),
    ensures split_at(d, j as int, out),
        forall|a: int| 0 <= a < d.keys@.len() ==> !lacks_alt(#[trigger] d.keys@[a], j as int),
{
    assert forall|a: int| 0 <= a < d.keys@.len() implies out.keys@[a] == jth_alternative(#[trigger] d.keys@[a], j as int) by {
        assert(IndexChoser(j).spec_pk(d.keys@[a]) == Ok::<DescriptorPublicKey, Error>(out.keys@[a]));
    }
    assert forall|a: int| 0 <= a < d.keys@.len() implies !lacks_alt(#[trigger] d.keys@[a], j as int) by {
        assert(IndexChoser(j).spec_pk(d.keys@[a]) == Ok::<DescriptorPublicKey, Error>(out.keys@[a]));
    }
}
"""

STRIP_ATTRS = sub("R1-attrs", r"(?m)^\s*#\[(?:derive|non_exhaustive|allow|must_use|deprecated)\b[^\]]*\]\n", "", required=False)
STRIP_DEPRECATED = sub("R1-attrs", r"(?s)#\[deprecated\(.*?\)\]\s*", "", required=False)


def C(tag, text, props=("C16",)):
    return Clause(tag, props, text)


# ---------------------------------------------------------------------------------------------------------------
_KEYS_CACHE = {}


def keys_unit(repo):
    """units/c16_keys.py woven on the same tree (extraction only, nothing is run): the source of the callee contracts."""
    if id(repo) not in _KEYS_CACHE:
        _KEYS_CACHE[id(repo)] = K.build(repo)
    return _KEYS_CACHE[id(repo)]


def harvested(repo, fq):
    """The clause objects units/c16_keys.py proves for `fq`."""
    info = keys_unit(repo).functions.get(fq)
    if info is None:
        raise Undecided("units/c16_keys.py no longer carries a contract for %s" % fq)
    req = [c for _, (k, c) in sorted(info["clauses"].items()) if k == "requires"]
    ens = [c for _, (k, c) in sorted(info["clauses"].items()) if k == "ensures"]
    return req, ens


def callee(vf, repo, rel, anchor, fq, extra=()):
    req, ens = harvested(repo, fq)
    vf.fn(rel, anchor, assumed=True, contract=Contract(requires=req, ensures=ens + list(extra)))


def axiom_from(repo, fq, name, params, result, self_name=None):
    """The clauses c16_keys proves for `fq`, restated about the spec function that stands for it (`r` -> result, `self` -> self_name)."""
    _, ens = harvested(repo, fq)
    out = []
    for c in ens:
        t = re.sub(r"\br\b", result, c.text)
        if self_name:
            t = re.sub(r"\bself\b", self_name, t)
        out.append("        (%s), // %s.%s" % (re.sub(r"\s*\n\s*", " ", t), fq, c.tag))
    return ("#[verifier::external_body]\nbroadcast proof fn %s(%s)\n    ensures\n        #[trigger] %s == %s,\n%s\n{}\n"
            % (name, params, result, result, "\n".join(out)))


def drop_local_items(*names):
    """R16-hoist: delete `struct NAME ..;` and `impl .. for NAME.. { .. }` from a function body (they are emitted at module level)."""
    @rule("R16-hoist")
    def rw(text):
        for n in names:
            m = re.search(r"\n[ \t]*struct %s\b[^;{]*;" % n, text)
            if not m:
                return None
            text = text[:m.start()] + text[m.end():]
            m = re.search(r"\n[ \t]*impl\b[^{;]*\bfor %s\b[^{]*\{" % n, text)
            if not m:
                return None
            close = match_close(text, m.end() - 1)
            text = text[:m.start()] + text[close + 1:]
        return text
    return rw



@rule("R10-closure-annotation")
def annotate_len_check_closure(text):
    """R10 (optional): the stateless closure `|key| match key { .. MultiXPub(xpub) => xpub.derivation_paths.paths().len() != N }` given to for_any_key gets a
    parameter type and a ghost `ensures` (Verus checks the closure body against it).  Absent pattern: text unchanged."""
    m = re.search(r"\.for_any_key\(\s*\|key\|\s*(match key \{)", text)
    if not m:
        return text
    b0 = m.end() - 1
    b1 = match_close(text, b0)
    body = text[m.start(1):b1 + 1]
    n = re.search(r"\.paths\(\)\s*\.len\(\)\s*!=\s*(\w+)", body)
    if not n:
        return text
    ann = ("|key: &DescriptorPublicKey| -> (b: bool) ensures b == (*key matches DescriptorPublicKey::MultiXPub(m) && multi_paths(m).len() != %s) { %s }"
           % (n.group(1), body))
    return text[:text.index("|key|", m.start())] + ann + text[b1 + 1:]


class AnyKeyClosure:
    """R16 on `self.for_any_key(|key| { BODY })` in into_single_descriptors: the call becomes
    `Self::into_single_descriptors__any_key(&self, &mut descriptors)`; BODY is kept verbatim in `self.body`."""
    rule = "R16-lambda-lift"

    def __init__(self):
        self.body = None

    def __call__(self, text):
        m = re.search(r"self\s*\.for_any_key\(\s*\|key\|\s*\{", text)
        if not m:
            return None
        open_ = text.index("(", m.start())
        close = match_close(text, open_)
        b0 = m.end() - 1
        b1 = match_close(text, b0)
        if text[b1 + 1:close].strip():
            return None
        self.body = text[b0:b1 + 1]
        return text[:m.start()] + "Self::into_single_descriptors__any_key(&self, &mut descriptors)" + text[close + 1:]


def index_loop(inv):
    """R8: `for (i, desc) in descriptors.iter_mut().enumerate() { BODY }` -> index loop, BODY verbatim."""
    @rule("R8-iter_mut-enumerate")
    def rw(text):
        m = re.search(r"for \(i, desc\) in descriptors\s*\.iter_mut\(\)\s*\.enumerate\(\)\s*\{", text)
        if not m:
            return None
        close = match_close(text, m.end() - 1)
        body = text[m.end():close]
        new = ("let mut i: usize = 0;\n        while i < descriptors.len()\n%s\n        {\n            let desc = &mut descriptors[i];%s    i += 1;\n        }"
               % (inv, body))
        return text[:m.start()] + new + text[close + 1:]
    return rw


def derivator_invariant(repo, outer):
    """Derivator may carry a memo table next to the secp context.  Its invariant is generated from the field types: a table keyed by the KEY ITSELF
    (DefiniteDescriptorKey / DescriptorPublicKey) holds, under each key, the public key that key stands for.  A table keyed by a key SOURCE
    ((fingerprint, path): the 32-bit, merely claimed, origin of a key) has no such invariant -- a key source does not determine a public key (BIP32:
    fingerprints are only an identifier hint, collisions must be handled), so a hit is an arbitrary stored value.  Any other table: not understood."""
    text = strip_docs(repo.at(DMOD, "%s/struct:Derivator" % outer).text)
    m = re.search(r"struct\s+Derivator\b[^(]*\(", text)
    if not m:
        raise Undecided("struct Derivator is no longer a tuple struct")
    close = match_close(text, m.end() - 1)
    fields, depth, cur = [], 0, ""
    for ch in text[m.end():close]:
        if ch in "<([":
            depth += 1
        elif ch in ">)]":
            depth -= 1
        if ch == "," and depth == 0:
            fields.append(cur.strip())
            cur = ""
        else:
            cur += ch
    if cur.strip():
        fields.append(cur.strip())
    inv = []
    for i, f in enumerate(fields):
        f = re.sub(r"\s+", "", re.sub(r"^pub(\([^)]*\))?\s+", "", f))
        if i == 0 and f.startswith("&"):
            continue                                    # the secp context
        m = re.match(r"^(?:alloc::collections::|std::collections::)?BTreeMap<(.*),(?:bitcoin::)?PublicKey>$", f)
        if not m:
            raise Undecided("Derivator field %d has type `%s`: translator state the unit does not understand" % (i, f))
        k = m.group(1)
        if k == "DefiniteDescriptorKey":
            inv.append("(forall|k: DefiniteDescriptorKey| #[trigger] self.%d@.contains_key(k) ==> derivable(k.0) && self.%d@[k] == the_public_key(k.0))" % (i, i))
        elif k == "DescriptorPublicKey":
            inv.append("(forall|k: DescriptorPublicKey| #[trigger] self.%d@.contains_key(k) ==> derivable(k) && self.%d@[k] == the_public_key(k))" % (i, i))
        elif re.sub(r"^bitcoin::", "", k) in ("bip32::KeySource", "(bip32::Fingerprint,bip32::DerivationPath)", "(Fingerprint,DerivationPath)", "KeySource"):
            pass                                        # no invariant can make a hit under a claimed key source the right key
        else:
            raise Undecided("Derivator memo table keyed by `%s`: the unit does not know which public key such a key stands for" % k)
    return " && ".join(inv) or "true"


@rule("R14-entry-or_insert_with")
def entry_or_insert_with(text):
    """R14 (optional): `*RECV.entry(KEY).or_insert_with(F)` -> `btree_entry_or_insert_with_copied(&mut RECV, KEY, F)` (std definition of the entry idiom;
    the leading `*` copies the value out).  `|| pk.derive_public_key(X)` gets a ghost `ensures` (R10)."""
    m = re.search(r"\*\s*(self\s*\.\s*\d+)\s*\.entry\(", text)
    if not m:
        return text
    k0 = m.end() - 1
    k1 = match_close(text, k0)
    m2 = re.match(r"\s*\.or_insert_with\(", text[k1 + 1:])
    if not m2:
        return text
    f0 = k1 + 1 + m2.end() - 1
    f1 = match_close(text, f0)
    recv = re.sub(r"\s+", "", m.group(1))
    clo = text[f0 + 1:f1].strip()
    clo = re.sub(r"^\|\|\s*(pk\.derive_public_key\([^()]*\))$", r"|| -> (v: PublicKey) ensures v == the_public_key(pk.0) { \1 }", clo)
    return text[:m.start()] + "btree_entry_or_insert_with_copied(&mut %s, %s, %s)" % (recv, text[k0 + 1:k1], clo) + text[f1 + 1:]


def translator(vf, repo, outer, struct, clause, spec_pk, extra_rw=(), inv="true"):
    """Hoist `struct X` + `impl Translator<..> for X` out of the function at anchor `outer`; `fn pk` verbatim with `clause`."""
    vf.item(DMOD, "%s/struct:%s" % (outer, struct))
    fn_body = repo.at(DMOD, outer)
    impl = None
    for it in fn_body.items():
        if it["kind"] == "impl" and re.search(r"\bfor\s+%s\b" % struct, it["header"]):
            impl = it
    if impl is None:
        raise AnchorLost("%s: no `impl Translator<..> for %s` in %s" % (DMOD, struct, outer))
    header = re.sub(r"\s+", " ", impl["header"]).strip()
    ia = "%s/impl:%s" % (outer, header[len("impl"):].strip() if not header.startswith("impl<") else header[header.index(">") + 1:].strip())
    with vf.block(header):
        vf.item(DMOD, ia + "/type:TargetPk")
        vf.item(DMOD, ia + "/type:Error")
        vf.raw("    spec fn inv(&self) -> bool { %s }" % inv)
        vf.raw("    spec fn spec_pk(&self, pk: %s) -> Result<Self::TargetPk, Self::Error> { %s }" % spec_pk)
        vf.fn(DMOD, ia + "/fn:pk", qual=struct, props=PROPS, contract=Contract(ensures=[clause]), rewrites=list(extra_rw))


def impl_with_fn(repo, rel, impl, fn, inner=""):
    """Anchor of the `impl <impl>` block (several share the generics-insensitive header) that contains `fn` (and, inside it, `inner`)."""
    for i in range(12):
        a = "impl:%s#%d" % (impl, i)
        try:
            repo.at(rel, a)
        except AnchorLost:
            break
        try:
            repo.at(rel, a + "/fn:" + fn + inner)
            return a
        except AnchorLost:
            continue
    raise AnchorLost("%s: no `impl %s` block with fn %s" % (rel, impl, fn))



@rule("R10")
def R10_FIND_INDEX(text):
    """Ghost annotations of find_derivation_index_for_spk, anchored on structure; every local name is read off the text:
      * the first `for VAR in RANGE {` gets the ghost iterator label and the invariant "no index before VAR matches" (required);
      * the statement `let D = <...>.derived_descriptor(<secp>);` that binds the derived descriptor -- before the loop (descriptor
        without wildcard) and inside it (descriptor at index VAR), however the chain in front of `.derived_descriptor` is split over
        statements -- is followed by the extensionality hint on D's key list (optional: ghost code only)."""
    m = re.search(r"for (\w+) in ([^{]*?) \{", text)
    if not m:
        return None
    var, rng = m.groups()
    let = r"(let (\w+) = [^;]*?\.derived_descriptor\(\s*\w+\s*\);)"
    head = re.sub(let, lambda k: k.group(1) + "\n            proof { if %s.keys@ =~= Seq::new(self.keys@.len(), |i: int| the_public_key(self.keys@[i])) { } }"
                  % k.group(2), text[:m.start()], count=1)
    tail = re.sub(let, lambda k: k.group(1) + "\n            proof { if %s.keys@ =~= keys_pub_at(*self, %s) { } }" % (k.group(2), var),
                  text[m.end():], count=1)
    loop = ("for %s in it: %s\n            invariant\n                desc_ctx_valid(*self), desc_has_wildcard(*self),\n"
            "                forall|j: u32| range.start <= j < range.start + it.index() ==> !matches_at(*self, j, script_pubkey.bytes()),\n"
            "        {" % (var, rng))
    return head + loop + tail


def build(repo):
    vf = VerusFile(NAME, repo)
    # ---- the key layer: prelude, real types, oracle vocabulary of units/c16_keys.py (imported) -------------------------------
    vf.raw(K.PRELUDE, keep_vis=True)
    vf.raw(SCRIPT, keep_vis=True)
    vf.trust("the prelude of units/c16_keys.py (secp256k1 / bitcoin::PublicKey / bip32 stubs, Xpub::derive_pub with the uninterpreted ckd_pub_path, slice::from_ref)",
             "imported unchanged (K.PRELUDE); see the trusted list of c16_keys")
    vf.trust("ScriptBuf / Script (opaque, uninterpreted `bytes`), impl PartialEq<Script> for ScriptBuf / for Script + PartialEqSpecImpl, ScriptBuf::as_script (external_body), "
             "enum Error { MultipathDescLenMismatch, Other } + Display",
             "bitcoin crate: `ScriptBuf == Script` and `Script == Script` compare the bytes, `as_script` borrows the same bytes; crate::Error reduced to the variant these functions produce")
    vf.item(KEY, "trait:InnerXKey", rewrites=[sub("R7", r"trait InnerXKey\s*:\s*fmt::Display\s*\+\s*FromStr", "trait InnerXKey: Sized")])
    with vf.block("impl InnerXKey for bip32::Xpub"):
        vf.fn(KEY, "impl:InnerXKey for bip32::Xpub/fn:xkey_fingerprint", assumed=True)
        vf.fn(KEY, "impl:InnerXKey for bip32::Xpub/fn:can_derive_hardened", assumed=True)
    vf.item(KEY, "enum:Wildcard", rewrites=[K.KEEP_COPY_EQ])
    for a in ("enum:DescriptorPublicKey", "struct:SinglePub", "struct:DescriptorXKey", "struct:DerivPaths", "struct:DescriptorMultiXKey",
              "enum:SinglePubKey", "struct:DefiniteDescriptorKey"):
        vf.item(KEY, a, rewrites=[K.STRIP_DERIVE])
    vf.item(KEY, "enum:NonDefiniteKeyError", rewrites=[K.STRIP_ATTRS])
    vf.raw(K.GLUE)
    vf.raw(K.ORACLE)
    vf.trust("K.GLUE of units/c16_keys.py (PartialEqSpecImpl for Wildcard, clone_origin, clone_paths, single_key_fingerprint)", "imported unchanged; unused stubs of the key layer")
    vf.raw("""
impl DefiniteDescriptorKey {
    // type invariant of DefiniteDescriptorKey: `new` is its only constructor (private field); units/c16_keys.py proves
    // DefiniteDescriptorKey::new.invariant_suffices_for_derive_public_key: r is Ok ==> derivable(r->Ok_0.0)
    #[verifier::type_invariant]
    spec fn type_inv(self) -> bool { derivable(self.0) }
}
""")
    vf.trust("#[verifier::type_invariant] DefiniteDescriptorKey: derivable(self.0)",
             "the field is private and DefiniteDescriptorKey::new is the only constructor; units/c16_keys.py proves `new ... r is Ok ==> derivable(r->Ok_0.0)`. Used (use_type_invariant) "
             "for derive_public_key's precondition in Derivator::pk; every exec constructor in this unit is an assumed callee")
    vf.raw(MODEL)
    vf.trust("trait MiniscriptKey (kind_uncompressed / kind_x_only / kind_num_der_paths) and its three impls",
             "the definitions are the clauses units/c16_keys.py proves for is_uncompressed / is_x_only_key / num_der_paths of DescriptorPublicKey, DefiniteDescriptorKey, bitcoin::PublicKey")
    vf.trust("trait Translator (inv(&self), spec_pk(&self, pk); a call keeps the invariant and the key map)",
             "the translator's key map is a function of its state and the key; a call may change the state (memo table) but not the map; the four translators of this file are verified against it")
    vf.trust("struct Descriptor { skeleton, keys: Ghost<Seq<Pk>> }, Skeleton, desc_ctx_valid, spk_bytes (uninterpreted), Clone for Descriptor / DescriptorPublicKey / DefiniteDescriptorKey (external_body, r == *self), Descriptor::visited_keys",
             "a descriptor as these functions observe it: key-free structure + keys in string order; derived Clone returns an equal value; for_each_key presents every key and nothing else (c20_iters)")
    vf.raw(CACHE)
    vf.trust("struct BTreeMap (external_body, uninterpreted Map<K, V> view) with new / get / contains_key / insert, btree_entry_or_insert_with_copied",
             "alloc::collections::BTreeMap as in units/c14_psbt_satisfier.py: std semantics of the four methods and of the idiom `*m.entry(k).or_insert_with(f)`; keys compared by structural equality")
    vf.raw(ORACLE)
    vf.raw(axiom_from(repo, "DescriptorPublicKey::at_derivation_index", "axiom_key_at_index", "k: DescriptorPublicKey, index: u32", "key_at_index(k, index)", "k"))
    vf.raw(axiom_from(repo, "DefiniteDescriptorKey::new", "axiom_definite_new", "key: DescriptorPublicKey", "spec_definite_new(key)"))
    vf.raw("broadcast group key_layer { axiom_key_at_index, axiom_definite_new }")
    vf.trust("axiom_key_at_index / axiom_definite_new (external_body broadcast proof fns) + `r == key_at_index(self, index)` / `r == spec_definite_new(key)` on the assumed callees",
             "at_derivation_index / DefiniteDescriptorKey::new are deterministic total functions; the axioms are EXACTLY the clauses units/c16_keys.py proves for them, restated about the spec function "
             "(generated from the harvested clause objects)")

    # ---- key-layer callees: contracts harvested from units/c16_keys.py -----------------------------------------------------------
    with vf.block("impl DerivPaths"):
        callee(vf, repo, KEY, "impl:DerivPaths/fn:paths", "DerivPaths::paths")
    with vf.block("impl DescriptorPublicKey"):
        DP = "impl:DescriptorPublicKey/fn:"
        callee(vf, repo, KEY, DP + "has_wildcard", "DescriptorPublicKey::has_wildcard")
        callee(vf, repo, KEY, DP + "is_multipath", "DescriptorPublicKey::is_multipath")
        callee(vf, repo, KEY, DP + "at_derivation_index", "DescriptorPublicKey::at_derivation_index",
               extra=[Clause("is_a_function", (), "r == key_at_index(self, index)")])
        callee(vf, repo, KEY, DP + "into_single_keys", "DescriptorPublicKey::into_single_keys")
    with vf.block("impl DefiniteDescriptorKey"):
        DD = "impl:DefiniteDescriptorKey/fn:"
        callee(vf, repo, KEY, DD + "new", "DefiniteDescriptorKey::new", extra=[Clause("is_a_function", (), "r == spec_definite_new(key)")])
        callee(vf, repo, KEY, DD + "derive_public_key", "DefiniteDescriptorKey::derive_public_key")
        for f in ("master_fingerprint", "full_derivation_path", "as_descriptor_public_key", "into_descriptor_public_key"):
            callee(vf, repo, KEY, DD + f, "DefiniteDescriptorKey::" + f)
    vf.trust("assumed callees DerivPaths::paths, DescriptorPublicKey::{has_wildcard, is_multipath, at_derivation_index, into_single_keys}, DefiniteDescriptorKey::{new, derive_public_key, "
             "master_fingerprint, full_derivation_path, as_descriptor_public_key, into_descriptor_public_key}",
             "signature from /repo, contract = the clause objects units/c16_keys.py proves on the same tree (harvested from c16_keys.build(repo))")

    # ---- TranslateErr (real enum) and its two unwrapping helpers -----------------------------------------------------------------
    vf.item(LIB, "enum:TranslateErr")
    with vf.block("impl<E> TranslateErr<E>"):
        vf.fn(LIB, impl_with_fn(repo, LIB, "TranslateErr<E>", "expect_translator_err") + "/fn:expect_translator_err", qual="TranslateErr", props=("C11",), contract=Contract(
            requires=["self is TranslatorErr"], ensures=[C("the_translator_error", "r == self->TranslatorErr_0", ("C11",))]))
    with vf.block("impl TranslateErr<core::convert::Infallible>"):
        # `match impossible {}` (zero-arm match on Infallible) is outside Verus' subset: signature-only stub, arbitrary result (only feeds a panic message)
        vf.fn(LIB, impl_with_fn(repo, LIB, "TranslateErr<core::convert::Infallible>", "into_outer_err") + "/fn:into_outer_err", assumed=True)
    vf.trust("TranslateErr::into_outer_err (external_body, no contract)", "zero-arm match is not supported by Verus; nothing is assumed about the result, it only feeds the message of a panic! that is proved unreachable")

    # ---- whole-descriptor callees ---------------------------------------------------------------------------------------------------
    with vf.block("impl<Pk: MiniscriptKey> Descriptor<Pk>"):
        vf.fn(DMOD, impl_with_fn(repo, DMOD, "Descriptor<Pk>", "translate_pk") + "/fn:translate_pk", assumed=True, contract=Contract(requires=["old(t).inv()"], ensures=[
            Clause("translator_invariant_and_key_map_kept", (), "final(t).inv() && forall|k: Pk| #[trigger] final(t).spec_pk(k) == old(t).spec_pk(k)"),
            Clause("structure_kept_keys_mapped_in_order", (), "r is Ok ==> translated_by(*self, *old(t), r->Ok_0)"),
            Clause("result_is_context_valid", (), "r is Ok ==> desc_ctx_valid(r->Ok_0)"),
            Clause("translator_error_is_some_keys_error", (), "r is Err ==> (r->Err_0 matches TranslateErr::TranslatorErr(e) ==> "
                   "exists|i: int| 0 <= i < self.keys@.len() && old(t).spec_pk(#[trigger] self.keys@[i]) == Err::<T::TargetPk, T::Error>(e))"),
            Clause("context_error_only_if_a_key_kind_changes", (), "r is Err ==> (r->Err_0 is OuterError ==> !(desc_ctx_valid(*self) && kinds_kept(*self, *old(t))))"),
        ]))
        vf.fn(DMOD, "impl:ForEachKey<Pk> for Descriptor<Pk>/fn:for_each_key", assumed=True, contract=Contract(
            requires=["forall|i: int| 0 <= i < self.keys@.len() ==> call_requires(pred, (&#[trigger] self.keys@[i],))"],
            ensures=[Clause("all", (), "r ==> pred_true_on_all(pred, self.keys@)"), Clause("some_false", (), "!r ==> pred_false_on_some(pred, self.keys@)")]))
        vf.fn(LIB, "trait:ForEachKey/fn:for_any_key", assumed=True, contract=Contract(
            requires=["forall|i: int| 0 <= i < self.keys@.len() ==> call_requires(pred, (&#[trigger] self.keys@[i],))"],
            ensures=[Clause("some", (), "r ==> pred_true_on_some(pred, self.keys@)"), Clause("none", (), "!r ==> pred_false_on_all(pred, self.keys@)")]))
    with vf.block("impl<Pk: MiniscriptKey + ToPublicKey> Descriptor<Pk>"):
        vf.fn(DMOD, impl_with_fn(repo, DMOD, "Descriptor<Pk>", "script_pubkey") + "/fn:script_pubkey", assumed=True, contract=Contract(
            ensures=[Clause("function_of_structure_and_keys", (), "r.bytes() == spk_of(*self)")]))
    vf.trust("Descriptor::translate_pk (external_body, real signature): whole-descriptor contract",
             "ASSUMED: same structure, every key replaced by the translator's image in order, the result passed the context checks again; Err(TranslatorErr(e)) only with e the translator's error on "
             "some key; Err(OuterError) only if the source was not context-valid or the key map changes is_uncompressed / introduces x-only / introduces multipath (the rules listed in the doc "
             "comment of TranslateErr::expect_translator_err).  Per-node steps + per-variant wrappers are proved in units/c20_translate.py (translate_step.*, Descriptor::translate_pk.*), traversal "
             "in units/c00_tree.py; the induction to the whole tree is not mechanised")
    vf.trust("Descriptor::for_each_key / for_any_key (external_body, real signatures)",
             "ASSUMED whole-descriptor contract for predicates without state: for_each_key is true only if pred is true on every key, false only if pred is false on some key; for_any_key "
             "(= !for_each_key(|k| !pred(k)), its one-line default body in src/lib.rs, a closure capturing `&mut pred`) dually.  units/c20_translate.py (for_each_key_step, wrappers), units/c20_iters.py")
    vf.trust("Descriptor::script_pubkey (external_body, real signature)", "an uninterpreted function of (skeleton, keys); units/c16_wrappers.py decides what it is per output type")

    I3 = impl_with_fn(repo, DMOD, "Descriptor<DescriptorPublicKey>", "at_derivation_index", "/struct:AtIndex")
    I4 = impl_with_fn(repo, DMOD, "Descriptor<DefiniteDescriptorKey>", "derived_descriptor", "/struct:Derivator")
    NDE = "Err::<Descriptor<DefiniteDescriptorKey>, NonDefiniteKeyError>(NonDefiniteKeyError::%s)"
    OKP = "Ok::<DefiniteDescriptorKey, NonDefiniteKeyError>"

    # ---- the four translators (hoisted), `fn pk` verbatim ----------------------------------------------------------------------------
    translator(vf, repo, I3 + "/fn:into_definite", "ToDefinite",
               C("key_is_wrapped_by_definite_key_new", "r == spec_definite_new(*pk)"),
               ("DescriptorPublicKey", "spec_definite_new(pk)"))
    translator(vf, repo, I3 + "/fn:at_derivation_index", "AtIndex",
               C("key_derived_at_exactly_the_descriptors_index", "r == key_at_index(*pk, old(self).0)"),
               ("DescriptorPublicKey", "key_at_index(pk, self.0)"))
    translator(vf, repo, I3 + "/fn:into_single_descriptors", "IndexChoser",
               C("multipath_key_replaced_by_its_jth_alternative_else_len_mismatch", "r == choose_alternative(*pk, old(self).0)"),
               ("DescriptorPublicKey", "choose_alternative(pk, self.0)"))
    translator(vf, repo, I4 + "/fn:derived_descriptor", "Derivator",
               C("key_replaced_by_its_bip32_derived_public_key", "r == Ok::<PublicKey, core::convert::Infallible>(the_public_key(pk.0))"),
               ("DefiniteDescriptorKey", "Ok(the_public_key(pk.0))"),
               extra_rw=[sub("R10", r"^([^{]*\{)", r"\1\n                proof { use_type_invariant(pk); }", count=1), entry_or_insert_with],
               inv=derivator_invariant(repo, I4 + "/fn:derived_descriptor"))
    vf.raw(LEMMAS)

    # ---- DerivationResult ---------------------------------------------------------------------------------------------------------------
    vf.item(DMOD, "enum:DerivationResult", rewrites=[STRIP_ATTRS])
    CLOSURE_ERR = lambda e: sub("R10", r"\|e\|\s*e\.expect_translator_err\(",
                                "|e: TranslateErr<%s>| -> (o: %s) requires e is TranslatorErr ensures o == e->TranslatorErr_0 { e.expect_translator_err(" % (e, e))
    CLOSE_ERR = sub("R10", r"(e\.expect_translator_err\(\"[^\"]*\"\))\)", r"\1 })")

    with vf.block("impl Descriptor<DescriptorPublicKey>"):
        F = I3 + "/fn:"
        vf.fn(DMOD, F + "has_wildcard", qual="Descriptor", props=PROPS, rewrites=[
            sub("R10", r"\|key\|\s*key\.has_wildcard\(\)", "|key: &DescriptorPublicKey| -> (b: bool) ensures b == key_has_wildcard(*key) { key.has_wildcard() }")],
            contract=Contract(ensures=[C("some_key_has_a_wildcard", "r == desc_has_wildcard(*self)")]))
        vf.fn(DMOD, F + "is_multipath", qual="Descriptor", props=PROPS, contract=Contract(ensures=[C("some_key_is_multipath", "r == desc_is_multipath(*self)")]))
        vf.fn(DMOD, F + "into_definite", qual="Descriptor", props=PROPS,
              rewrites=[drop_local_items("ToDefinite"), CLOSURE_ERR("NonDefiniteKeyError"), CLOSE_ERR,
                        sub("R10", r"self\.translate_pk\(", "broadcast use key_layer;\n        self.translate_pk(", count=1)],
              contract=Contract(requires=["desc_ctx_valid(*self)"], ensures=[
                  C("wildcard_is_reported", "desc_has_wildcard(*self) ==> r == %s" % (NDE % "Wildcard")),
                  C("every_key_kept_as_written", "r is Ok ==> keys_wrapped(*self, r->Ok_0)"),
                  C("ok_iff_no_wildcard_and_every_key_is_accepted", "r is Ok <==> !desc_has_wildcard(*self) && all_keys_accepted_as_definite(*self)"),
                  C("error_is_some_keys_error", "r is Err && !desc_has_wildcard(*self) ==> some_key_rejected_as_definite(*self, r->Err_0)"),
                  C("multipath_is_an_error", "desc_is_multipath(*self) ==> r is Err"),
                  C("result_keys_definite", "r is Ok ==> desc_keys_definite(r->Ok_0) && desc_ctx_valid(r->Ok_0)", ("C11",)),
              ]))
        vf.fn(DMOD, F + "at_derivation_index", qual="Descriptor", props=PROPS,
              rewrites=[STRIP_DEPRECATED, drop_local_items("AtIndex"), CLOSURE_ERR("NonDefiniteKeyError"), CLOSE_ERR,
                        sub("R10", r"self\.translate_pk\(", "broadcast use key_layer;\n        self.translate_pk(", count=1)],
              contract=Contract(requires=["desc_ctx_valid(*self)"], ensures=[
                  C("every_key_replaced_by_its_key_at_the_index_structure_kept", "r is Ok ==> keys_at_index(*self, index, r->Ok_0)"),
                  C("ok_iff_every_key_derives", "r is Ok <==> all_keys_derive_at(*self, index)"),
                  C("error_is_some_keys_error", "r is Err ==> some_key_fails_at(*self, index, r->Err_0)"),
                  C("keys_without_wildcard_unchanged", "r is Ok ==> forall|i: int| 0 <= i < self.keys@.len() ==> (!key_has_wildcard(#[trigger] self.keys@[i]) ==> r->Ok_0.keys@[i].0 == self.keys@[i])"),
                  C("wildcard_replaced_by_exactly_the_index", "r is Ok ==> forall|i: int| 0 <= i < self.keys@.len() ==> ((#[trigger] self.keys@[i]) matches DescriptorPublicKey::XPub(x) ==> "
                    "(x.wildcard is Unhardened ==> wildcard_replaced(x, bip32::ChildNumber::Normal { index }, r->Ok_0.keys@[i].0)))"),
                  C("hardened_index_is_an_error", "desc_has_wildcard(*self) && index >= 0x8000_0000u32 ==> r is Err"),
                  C("multipath_is_an_error", "desc_is_multipath(*self) ==> r is Err"),
                  C("result_keys_definite", "r is Ok ==> desc_keys_definite(r->Ok_0) && desc_ctx_valid(r->Ok_0)", ("C11",)),
              ]))
        vf.fn(DMOD, F + "derive_at_index", qual="Descriptor", props=PROPS, rewrites=[STRIP_ATTRS],
              contract=Contract(requires=["desc_ctx_valid(*self)"], ensures=[
                  C("without_wildcard_hands_back_the_descriptor", "!desc_has_wildcard(*self) ==> r == DerivationResult::WithoutWildcard(*self)"),
                  C("with_wildcard_never_the_fallback", "desc_has_wildcard(*self) ==> !(r is WithoutWildcard)"),
                  C("every_key_replaced_by_its_key_at_the_index_structure_kept", "r matches DerivationResult::Ok(d) ==> keys_at_index(*self, index, d)"),
                  C("ok_iff_wildcard_and_every_key_derives", "r is Ok <==> desc_has_wildcard(*self) && all_keys_derive_at(*self, index)"),
                  C("error_is_some_keys_error", "r matches DerivationResult::Error(e) ==> some_key_fails_at(*self, index, e)"),
                  C("result_keys_definite", "r matches DerivationResult::Ok(d) ==> desc_keys_definite(d) && desc_ctx_valid(d)", ("C11",)),
              ]))
    with vf.block("impl Descriptor<DefiniteDescriptorKey>"):
        vf.fn(DMOD, I4 + "/fn:derived_descriptor", qual="Descriptor<DefiniteDescriptorKey>", props=PROPS,
              rewrites=[drop_local_items("Derivator"),
                        sub("R10", r"let derived = self\.translate_pk\(", "broadcast use key_layer;\n        let derived = self.translate_pk(", count=1)],
              contract=Contract(requires=["desc_ctx_valid(*self)", "desc_keys_definite(*self)"], ensures=[
                  C("every_key_replaced_by_its_public_key_structure_kept", "public_keys_of(*self, r)"),
              ]))
    with vf.block("impl DerivationResult"):
        vf.fn(DMOD, "impl:DerivationResult/fn:into_result", qual="DerivationResult", props=PROPS, contract=Contract(ensures=[
            C("ok_is_ok", "self matches DerivationResult::Ok(d) ==> r == Ok::<Descriptor<DefiniteDescriptorKey>, NonDefiniteKeyError>(d)"),
            C("without_wildcard_is_the_no_wildcard_error", "self is WithoutWildcard ==> r == %s" % (NDE % "NoWildcard")),
            C("error_is_kept", "self matches DerivationResult::Error(e) ==> r == Err::<Descriptor<DefiniteDescriptorKey>, NonDefiniteKeyError>(e)"),
        ]))
        vf.fn(DMOD, "impl:DerivationResult/fn:or_fallback", qual="DerivationResult", props=PROPS, contract=Contract(
            requires=["self matches DerivationResult::WithoutWildcard(o) ==> desc_ctx_valid(o)"], ensures=[
                C("ok_is_ok", "self matches DerivationResult::Ok(d) ==> r == Ok::<Descriptor<DefiniteDescriptorKey>, NonDefiniteKeyError>(d)"),
                C("without_wildcard_falls_back_to_the_keys_as_written", "self matches DerivationResult::WithoutWildcard(o) ==> (r is Ok ==> keys_wrapped(o, r->Ok_0)) && "
                  "(r is Ok <==> !desc_has_wildcard(o) && all_keys_accepted_as_definite(o))"),
                C("error_is_kept", "self matches DerivationResult::Error(e) ==> r == Err::<Descriptor<DefiniteDescriptorKey>, NonDefiniteKeyError>(e)"),
            ]))

    # ---- index -> concrete descriptor; search over a range; multipath expansion -----------------------------------------------------
    OKD = "Ok::<Option<(u32, Descriptor<PublicKey>)>, NonDefiniteKeyError>"
    with vf.block("impl Descriptor<DescriptorPublicKey>"):
        vf.fn(DMOD, F + "derived_descriptor", qual="Descriptor", props=PROPS, rewrites=[STRIP_ATTRS],
              contract=Contract(requires=["desc_ctx_valid(*self)"], ensures=[
                  C("every_key_replaced_by_its_bip32_public_key_at_the_index_structure_kept", "r is Ok ==> derives_at(*self, index, r->Ok_0)"),
                  C("ok_iff_every_key_derives", "r is Ok <==> all_keys_derive_at(*self, index)"),
                  C("error_is_some_keys_error", "r is Err ==> some_key_fails_at(*self, index, r->Err_0)"),
              ]))
        vf.fn(DMOD, F + "find_derivation_index_for_spk", qual="Descriptor", props=PROPS,
              rewrites=[R10_FIND_INDEX],
              contract=Contract(requires=["desc_ctx_valid(*self)"], ensures=[
                  # ranged descriptor (BIP380 `/*`)
                  C("found_index_is_in_the_range", "desc_has_wildcard(*self) ==> (r matches Ok(Some(p)) ==> range.start <= p.0 < range.end)"),
                  C("found_descriptor_is_the_descriptor_derived_at_the_found_index", "desc_has_wildcard(*self) ==> (r matches Ok(Some(p)) ==> derives_at(*self, p.0, p.1))"),
                  C("found_descriptor_has_the_script", "r matches Ok(Some(p)) ==> spk_of(p.1) == script_pubkey.bytes()"),
                  C("found_index_is_the_smallest_match", "desc_has_wildcard(*self) ==> (r matches Ok(Some(p)) ==> forall|j: u32| range.start <= j < p.0 ==> !matches_at(*self, j, script_pubkey.bytes()))"),
                  C("none_means_no_index_of_the_range_matches", "desc_has_wildcard(*self) ==> (r matches Ok(None) ==> forall|j: u32| range.start <= j < range.end ==> !matches_at(*self, j, script_pubkey.bytes()))"),
                  C("error_is_a_derivation_error_inside_the_range", "desc_has_wildcard(*self) ==> (r is Err ==> exists|j: u32| range.start <= j < range.end && #[trigger] some_key_fails_at(*self, j, r->Err_0))"),
                  C("error_only_after_no_smaller_index_matched", "desc_has_wildcard(*self) ==> (r is Err ==> exists|j: u32| range.start <= j < range.end && #[trigger] some_key_fails_at(*self, j, r->Err_0) "
                    "&& forall|j2: u32| range.start <= j2 < j ==> !matches_at(*self, j2, script_pubkey.bytes()))"),
                  # descriptor without wildcard (doc comment: "it will simply check the script pubkey against the descriptor and return it if it matches")
                  C("without_wildcard_single_check_found", "!desc_has_wildcard(*self) ==> (r matches Ok(Some(p)) ==> concrete_without_wildcard(*self, p.1))"),
                  C("without_wildcard_single_check_none", "!desc_has_wildcard(*self) ==> (r matches Ok(None) ==> all_keys_accepted_as_definite(*self) && "
                    "spk_bytes(self.skeleton, Seq::new(self.keys@.len(), |i: int| the_public_key(self.keys@[i]))) != script_pubkey.bytes())"),
                  C("without_wildcard_error_is_some_keys_error", "!desc_has_wildcard(*self) ==> (r is Err ==> some_key_rejected_as_definite(*self, r->Err_0))"),
              ]))

    # ---- BIP389 expansion ------------------------------------------------------------------------------------------------------------
    lift = AnyKeyClosure()
    LOOP_INV = ("            invariant\n"
                "                desc_ctx_valid(self), desc_paths_nonempty(self), i <= descriptors@.len(), descriptors@.len() == n_alt,\n"
                "                forall|j: int| 0 <= j < i ==> split_at(self, j, #[trigger] descriptors@[j]),\n"
                "                forall|j: int| i <= j < descriptors@.len() ==> #[trigger] descriptors@[j] == self,\n"
                "                some_multipath_has(self, n_alt as int),\n"
                "                i > 0 ==> forall|a: int| 0 <= a < self.keys@.len() ==> !lacks_alt(#[trigger] self.keys@[a], i - 1),\n"
                "            decreases descriptors@.len() - i,")
    ERRS = "Err::<Vec<Descriptor<DescriptorPublicKey>>, Error>"
    with vf.block("impl Descriptor<DescriptorPublicKey>"):
        reg = vf.fn(DMOD, F + "into_single_descriptors", qual="Descriptor", props=PROPS,
                    attrs="#[verifier::loop_isolation(false)]",
                    rewrites=[STRIP_ATTRS, drop_local_items("IndexChoser"), lift, annotate_len_check_closure, index_loop(LOOP_INV),
                              sub("R10", r"assert!\(!descriptors\.is_empty\(\)\);", "assert!(!descriptors.is_empty());\n        let ghost n_alt = descriptors@.len();", count=1),
                              CLOSURE_ERR("Error"), CLOSE_ERR,
                              sub("R10", r"(let mut index_choser = IndexChoser\([^;]*\);)", r"\1\n            proof { lemma_choose_keeps_kind(self, i); lemma_mismatch(self, i, n_alt as int); }", count=1),
                              sub("R10", r"(\.map_err\([^;]*\)\?;)(\s*)i \+= 1;", r"\1\n            proof { if translated_by(self, IndexChoser(i), descriptors@[i as int]) { lemma_split_step(self, i, descriptors@[i as int]); } }\2i += 1;", count=1, flags=re.S)],
                    contract=Contract(requires=["desc_ctx_valid(self)", "desc_paths_nonempty(self)"], ensures=[
                        C("single_path_descriptor_is_returned_as_is", "!desc_is_multipath(self) ==> r is Ok && r->Ok_0@ =~= seq![self]"),
                        C("jth_descriptor_takes_the_jth_alternative_of_every_key_structure_kept", "r is Ok ==> forall|j: int| 0 <= j < r->Ok_0@.len() ==> split_at(self, j, #[trigger] r->Ok_0@[j])"),
                        C("never_empty", "r is Ok ==> r->Ok_0@.len() >= 1"),
                        C("no_multipath_key_has_fewer_alternatives_than_descriptors", "r is Ok ==> forall|a: int| 0 <= a < self.keys@.len() ==> "
                          "((#[trigger] self.keys@[a]) matches DescriptorPublicKey::MultiXPub(m) ==> multi_paths(m).len() >= r->Ok_0@.len())"),
                        # The next clause and `different_numbers_of_alternatives_are_an_error` were RED on /repo b1fd8751 (finding fixed by 452a64b9): the number of descriptors was taken
                        # from the FIRST multipath key for_each_key presents and IndexChoser only notices keys with FEWER alternatives; a later key with MORE alternatives was silently
                        # truncated (tr(X/<0;1;2>/*,pk(Y/<0;1>/*)) -> Ok, 2 descriptors, alternative 2 of X dropped; with the two keys swapped -> MultipathDescLenMismatch).
                        C("one_descriptor_per_alternative", "desc_is_multipath(self) ==> (r is Ok ==> all_multipath_have(self, r->Ok_0@.len() as int))"),
                        C("ok_if_all_multipath_keys_have_the_same_number_of_alternatives", "(exists|n: int| all_multipath_have(self, n)) ==> r is Ok"),
                        C("error_is_the_length_mismatch", "r is Err ==> r == %s(Error::MultipathDescLenMismatch) && multipath_counts_disagree(self)" % ERRS),
                        C("different_numbers_of_alternatives_are_an_error", "multipath_counts_disagree(self) ==> r == %s(Error::MultipathDescLenMismatch)" % ERRS),
                    ]))
        if lift.body is None:
            raise Undecided("into_single_descriptors: closure of for_any_key not found")
        text = "fn into_single_descriptors__key(this: &Self, descriptors: &mut Vec<Self>, key: &DescriptorPublicKey) -> bool %s\n" % re.sub(r"\bself\b", "this", lift.body)
        text = vf._apply(text, [sub("R10", r"for _ in ([^{]*?) \{", "for _ in it: \\1\n                        invariant descriptors@.len() == it.index(), forall|j: int| 0 <= j < descriptors@.len() ==> #[trigger] descriptors@[j] == *this,\n                    {", count=1)],
                         "into_single_descriptors closure |key|")
        vf.fn_text("Descriptor::into_single_descriptors__key", text, Contract(ensures=[
            C("already_counted_answers_true", "old(descriptors)@.len() > 0 ==> r && final(descriptors)@ == old(descriptors)@"),
            C("single_path_key_is_skipped", "old(descriptors)@.len() == 0 && !(*key is MultiXPub) ==> !r && final(descriptors)@.len() == 0"),
            C("first_multipath_key_fixes_the_number_of_descriptors", "old(descriptors)@.len() == 0 ==> (*key matches DescriptorPublicKey::MultiXPub(m) ==> r && final(descriptors)@.len() == multi_paths(m).len())"),
            C("copies_of_the_descriptor", "old(descriptors)@.len() == 0 ==> forall|j: int| 0 <= j < final(descriptors)@.len() ==> #[trigger] final(descriptors)@[j] == *this"),
        ]), PROPS, file=DMOD, lines=reg.lines(), anchor=F + "into_single_descriptors closure |key|")
        vf.raw(ANY_KEY)
        vf.functions["Descriptor::into_single_descriptors__any_key"] = dict(props=PROPS, file=None, lines=None, clauses={}, start=vf._lines - ANY_KEY.count("\n"), end=vf._lines, origin="verif")
    return vf
