"""C12 (Kani): what Verus cannot reach -- ScriptContext::top_level_checks (FnMut closure over for_each_key), the descriptor
constructors Wsh::new / Sh::new / Bare::new / Tr::new, and Threshold::from_iter (generic iterator + closure).
All harnesses over ASTs are BOUNDED (one fixed tiny AST each; keys, root type and analysis data symbolic)."""
NAME = "k12_context"
ENGINE = "kani"
PROPS = ("C12", "C11")
INJECT = [("src/descriptor/mod.rs", "contracts/kani/k12_context.rs"),
          ("src/primitives/threshold.rs", "contracts/kani/k12_threshold.rs")]
TRUSTED = [
    "one-byte key type K(u8) implementing MiniscriptKey (bit 0 uncompressed, bit 1 x-only, bits 2.. number of derivation paths): "
    "generic code can only use the trait methods (parametricity, DESIGN 3.5)",
    "Miniscript::from_components_unchecked is used to make the root type / analysis data symbolic (the public API allows it)",
]
DROPPED = ["the from_str / from_tree entry points (string parsers) are not run; what is decided is every check function the constructors call",
           "`constructor accepts ==> validate(ms, Ctx::CONSENSUS) accepts` on a real two-node AST: CBMC > 20 min / out of memory; the node-level form is in the Verus unit c12_validation"]
AST1 = "AST multi(1,K1,K2) as root; keys, root Type and ExtData symbolic"


def _tl(ctx):
    return dict(name="top_level_checks_%s" % ctx, fn="ScriptContext::top_level_checks", props=("C12", "C11"), kind="bounded", bound=AST1,
                tags=["C12:top_level_checks.accepted_is_b", "C12:top_level_checks.multipath_consistent", "C12:top_level_checks.rejects_only_for_cause"])


HARNESSES = [
    _tl("segwitv0"), _tl("legacy"), _tl("tap"), _tl("bare"),
    dict(name="wsh_new_root_type", fn="Wsh::new", props=("C12", "C11"), kind="bounded", bound=AST1,
         tags=["C12:wsh_new.accepted_is_b", "C12:wsh_new.multipath_consistent"]),
    dict(name="sh_new_root_type", fn="Sh::new", props=("C12", "C11"), kind="bounded", bound=AST1,
         tags=["C12:sh_new.accepted_is_b", "C12:sh_new.multipath_consistent"]),
    dict(name="bare_new_root_type", fn="Bare::new", props=("C12", "C11"), kind="bounded", bound=AST1,
         tags=["C12:bare_new.accepted_is_b", "C12:bare_new.multipath_consistent"]),
    dict(name="tr_new_internal_key", fn="Tr::new", props=("C12", "C11"), kind="complete", tags=["C12:tr_new.internal_key_kind"]),
    dict(name="tr_new_leaf_type", fn="Tr::new", props=("C12", "C11"), kind="bounded", bound="leaf multi_a(1,K1,K2); keys, leaf Type and ExtData symbolic; internal key fixed (compressed)",
         tags=["C12:tr_new.leaf_is_b"]),
    dict(name="from_iter_capped", fn="Threshold::from_iter", props=("C12", "C11"), kind="bounded", bound="n <= 4, MAX = 3, k any usize",
         tags=["C12:from_iter.ok_iff_in_range", "C12:from_iter.keeps_k_and_n", "C12:from_iter.keeps_data", "C12:from_iter.wf", "C12:from_iter.err_payload"]),
    dict(name="from_iter_uncapped", fn="Threshold::from_iter", props=("C12", "C11"), kind="bounded", bound="n <= 4, MAX = 0, k <= 8",
         tags=["C12:from_iter.ok_iff_in_range", "C12:from_iter.keeps_k_and_n", "C12:from_iter.keeps_data", "C12:from_iter.wf", "C12:from_iter.err_payload"]),
    dict(name="from_iter_uncapped_any_k", fn="Threshold::from_iter", props=("C12", "C11"), kind="bounded", bound="n <= 2, MAX = 0, k any usize",
         tags=["C12,C11:from_iter.any_k_no_panic"]),
]
