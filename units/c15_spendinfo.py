"""C15 (Verus): the Merkle half of "taproot outputs commit to exactly the described script tree", for trees with ANY number
of leaves (unbounded: loop invariants, no unrolling) -- src/descriptor/tr/spend_info.rs and the glue in src/descriptor/tr/mod.rs.

ORACLE (BIP341 "Constructing and spending Taproot outputs"; nothing read off the code)
    Tree            a binary tree with a script (Arc<Miniscript<Pk, Tap>>) at every leaf
    listing(t, d)   the depth-first, left-to-right list of (depth, leaf): what a `TapTree` stores (`depths_leaves`) and what
                    `tr(K,{..})` spells.  A TapTree DENOTES t when its list is listing(t, 0) and height(t) <= 128
                    (<=> the Kraft equality / the TapTreeBuilder invariant decided by unit k15_taptree); the denotation is unique
                    (oracle::denotation_is_unique, proved)
    leaf hash / branch hash / tap tweak     UNINTERPRETED functions; the ONLY axiom is branch_hash(a, b) == branch_hash(b, a)
                    (BIP341 sorts the two children before hashing; rust-bitcoin TapNodeHash::from_node_hashes)
    mroot(t)        taproot_tree_helper: structural recursion
    path_of(t, i)   the sibling hashes on the way from leaf i UP to the root (control block order), depth_of, leaf_at
    verify_fold     script-path validation: k_{j+1} = branch_hash(k_j, e_j)
    oracle::control_block_fold_reproduces_merkle_root (proved by induction, uses the axiom for right children):
                    verify_fold(leaf_hash(leaf_at(t, i)), path_of(t, i)) == mroot(t)
    output key      Q = tap_tweak(x_only(internal key), merkle root)      (secp256k1 is outside every verifier: uninterpreted)

UNDER CONTRACT (real text, extracted on every run)
    TrSpendInfo::nodes_from_tap_tree   the single pass over the (depth, leaf) list with the stack of unfinished ancestors: for EVERY
                    well-formed list the result is the pre-order node list of the denoted tree, the root entry carries the BIP341
                    Merkle root, every other entry the Merkle root of its sibling, a leaf entry its script / leaf hash / Miniscript;
                    read back per leaf: exactly path_of(t, i), bottom-up.  No panic (assert_eq!, index arithmetic, `len() - 1`).
    TrSpendInfoIter::next (+ TrSpendInfo::leaves)   yields every leaf once, in tree order; item i carries leaf_at(t, i), its script and
                    leaf hash, and the control block (TapScript, output-key parity, internal key, path_of(t, i)); therefore
                    (clause control_block_proves_leaf) folding the control block from the leaf hash gives the Merkle root.
                    No panic (`expect` on the 128 limit, BitStack128 capacity, index).
    TrSpendInfo::{from_tr, merkle_root, internal_key, output_key, output_key_parity}, TrSpendInfoIterItem accessors,
    Tr::{internal_key, tap_tree, spend_info, script_pubkey, address}: the spend info is a function of (internal key, tree) only;
                    output key = tap_tweak(x_only(K), mroot(tree)); script_pubkey = OP_1 <32-byte output key>.
    BitStack128::{push, pop} are CONSUMED through contracts (proved complete by Kani in unit k15_taptree).

REWRITES (all mechanical; a missing pattern is UNDECIDED)
    R8    `for LEAF in TREE.leaves() { BODY }` -> index loop over `TREE.depths_leaves` building `TapTreeIterItem { depth, node }` per entry
          (TapTreeIter::next = slice iterator + map), BODY verbatim
    R10   ghost only: loop invariants / decreases, ghost snapshots, lemma calls at anchored positions (local names are read off the text,
          so renaming a local or reordering independent statements changes nothing); closure `|n| n.sibling_hash` gets its type and
          `ensures`
    R7    `assert_eq!(a, b)` -> `assert!(a == b)`, `debug_assert_eq!/ne!` likewise; `super::X` -> X; `impl Iterator for TrSpendInfoIter`
          { fn next } is verified as an inherent method (`Self::Item` -> the item type: Verus forbids `requires` on Iterator::next);
          `*guard` / `*guard = v` on the MutexGuard -> `guard.get()` / `guard.set(v)`; paths into rust-bitcoin -> the unit's stubs
"""
import re

from vlib.verus import VerusFile, Contract, Clause, sub, lit, rule, Undecided, split_fn, drop_vis
from vlib.extract import match_close
from units.c02_multi import for_slice_loop, register_named_invariants

NAME = "c15_spendinfo"
ENGINE = "verus"
PROPS = ("C15", "C11")

SPEND = "src/descriptor/tr/spend_info.rs"
TAPTREE = "src/descriptor/tr/taptree.rs"
TRMOD = "src/descriptor/tr/mod.rs"

DROPPED = [
    "c15_spendinfo: precondition of everything: the TapTree is WELL-FORMED (its depth list is the depth-first listing of a binary tree of height <= 128). "
    "That is the type invariant of TapTree (TapTree::leaf / combine / TapTreeBuilder), decided by unit k15_taptree (builder: Kani complete; combine: bounded); "
    "it is NOT re-proved here",
    "c15_spendinfo: SHA-256 tagged hashes (TapLeafHash::from_script, TapNodeHash::from_node_hashes, TapNodeHash::from) and the secp256k1 tweak "
    "(XOnlyPublicKey::tap_tweak) are uninterpreted functions; the only property assumed is commutativity of the branch hash (BIP341's sorted pair)",
    "c15_spendinfo: Miniscript::encode is an uninterpreted per-leaf function spec_encode (script templates: unit c04_encode)",
    "c15_spendinfo: nodes_from_tap_tree: `for leaf in tree.leaves()` is rewritten to an index loop over `tree.depths_leaves` (R8; trusted: TapTreeIter::next "
    "yields TapTreeIterItem { depth, node } for every entry in order)",
    "c15_spendinfo: `impl Iterator for TrSpendInfoIter { fn next }` is verified as an inherent method (Verus allows no `requires` on Iterator::next; the "
    "representation invariant is a precondition).  Iterator adaptors applied by callers (`.map`, `.collect`) are outside the unit",
    "c15_spendinfo: BitStack128::{push, pop} are consumed as assumed contracts `stack' == stack.push(bit)` / `pop returns the top bit, stack' == stack.drop_last(), "
    "None iff empty` over the view `bit i of inner for i < height`; proved by Kani in k15_taptree (harnesses bitstack_push / bitstack_pop / bitstack_lifo: "
    "height_plus_one + sets_top_bit + lower_bits_unchanged  <=>  view' == view.push(bit), etc.); #[derive(Default)] is written out as an inherent `default()` "
    "(all fields zero)",
    "c15_spendinfo: Tr::spend_info: std::sync::Mutex is a stub following the lock-invariant discipline: `lock()` yields a content satisfying the mutex' "
    "invariant, a store through the guard must re-establish it; `*lock` / `*lock = v` are written `lock.get()` / `lock.set(v)` (R7).  The invariant of "
    "Tr's cache (`empty or the spend info of THIS descriptor`) is a precondition (type invariant of Tr: the field is private; Tr::new stores None, Clone "
    "copies the cache of an equal (key, tree)); spend_info is proved to store only values satisfying it.  Lock poisoning is assumed away (the only code "
    "run under the lock, from_tr, is proved panic-free).  `impl Clone for Tr` (iterator adaptors on the guard) is not verified",
    "c15_spendinfo: TrSpendInfo::to_tap_tree (rust-bitcoin TaprootBuilder) is not verified",
    "c15_spendinfo: Tr::script_pubkey / address: script Builder, TweakedPublicKey::serialize and Address::p2tr_tweaked are stubs of rust-bitcoin "
    "(push_slice specialised to the 32-byte array it is called with); Descriptor::script_pubkey's dispatch to Tr is unit c16_wrappers (which treats the Tr payload as opaque)",
    "c15_spendinfo: ScriptBuf / Script are one opaque stub type (`&Script` is what `&ScriptBuf` derefs to); ControlBlock / TaprootMerkleBranch are plain stubs of the "
    "rust-bitcoin structs (TaprootMerkleBranch::try_from: Err iff more than 128 hashes)",
    "c15_spendinfo: call-stack / allocation failure is not modelled; Vec lengths are assumed to fit usize (vstd)",
]

STUBS = r"""
use std::sync::Arc;
use std::marker::PhantomData;

// ---- crate traits / markers (R7 stubs) ---------------------------------------------------------------------------------------
pub trait MiniscriptKey: Sized {}
pub trait ScriptContext {}
pub struct Tap { marker: u8 }
impl ScriptContext for Tap {}
pub trait ToPublicKey: MiniscriptKey {
    spec fn spec_x_only(&self) -> XOnlyPublicKey;
    fn to_x_only_pubkey(&self) -> (r: XOnlyPublicKey)
        ensures r == self.spec_x_only();
}

// ---- rust-bitcoin value types: opaque Copy values ----------------------------------------------------------------------------
#[derive(Clone, Copy)] pub struct TapNodeHash { bytes: [u8; 32] }
#[derive(Clone, Copy)] pub struct TapLeafHash { bytes: [u8; 32] }
#[derive(Clone, Copy)] pub struct XOnlyPublicKey { bytes: [u8; 32] }
pub type UntweakedPublicKey = XOnlyPublicKey;
#[derive(Clone, Copy)] pub struct TweakedPublicKey { key: XOnlyPublicKey }
#[derive(Clone, Copy)] pub enum Parity { Even, Odd }
#[derive(Clone, Copy)] pub enum LeafVersion { TapScript, Future(u8) }
pub struct ScriptBuf { bytes: Vec<u8> }
pub type Script = ScriptBuf;          // `&Script` is what `&ScriptBuf` derefs to
pub struct Secp256k1 { ctx: u8 }
pub struct TaprootMerkleBranch { hashes: Vec<TapNodeHash> }
#[derive(Debug)] pub struct TaprootError { code: u8 }
pub struct ControlBlock {
    pub leaf_version: LeafVersion,
    pub output_key_parity: Parity,
    pub internal_key: UntweakedPublicKey,
    pub merkle_branch: TaprootMerkleBranch,
}

// ---- the three hash functions of BIP341 and the output-key tweak: UNINTERPRETED -------------------------------------------------
pub uninterp spec fn spec_leaf_hash(script: ScriptBuf, ver: LeafVersion) -> TapLeafHash;     // tagged hash "TapLeaf"(ver || compact_size(script) || script)
pub uninterp spec fn node_of_leaf(h: TapLeafHash) -> TapNodeHash;                              // the same 32 bytes, as a tree node hash
pub uninterp spec fn branch_hash(a: TapNodeHash, b: TapNodeHash) -> TapNodeHash;               // tagged hash "TapBranch"(min(a,b) || max(a,b))
pub uninterp spec fn spec_tap_tweak(internal_key: XOnlyPublicKey, merkle_root: Option<TapNodeHash>) -> (TweakedPublicKey, Parity);
pub uninterp spec fn spec_serialize_xonly(k: TweakedPublicKey) -> Seq<u8>;

// BIP341: the two children are sorted lexicographically before hashing, i.e. the branch hash is COMMUTATIVE.  The only axiom.
#[verifier::external_body]
pub proof fn axiom_branch_hash_commutes(a: TapNodeHash, b: TapNodeHash)
    ensures branch_hash(a, b) == branch_hash(b, a),
{}

impl TapLeafHash {
    #[verifier::external_body]
    pub fn from_script(script: &Script, ver: LeafVersion) -> (r: TapLeafHash)
        ensures r == spec_leaf_hash(*script, ver),
    { unimplemented!() }
}
impl TapNodeHash {
    #[verifier::external_body]
    pub fn from(h: TapLeafHash) -> (r: TapNodeHash)
        ensures r == node_of_leaf(h),
    { unimplemented!() }
    #[verifier::external_body]
    pub fn from_node_hashes(a: TapNodeHash, b: TapNodeHash) -> (r: TapNodeHash)
        ensures r == branch_hash(a, b),
    { unimplemented!() }
}
impl Secp256k1 {
    #[verifier::external_body]
    pub fn verification_only() -> Secp256k1 { unimplemented!() }
}
impl XOnlyPublicKey {
    #[verifier::external_body]
    pub fn tap_tweak(self, secp: &Secp256k1, merkle_root: Option<TapNodeHash>) -> (r: (TweakedPublicKey, Parity))
        ensures r == spec_tap_tweak(self, merkle_root),
    { unimplemented!() }
}
impl TaprootMerkleBranch {
    pub closed spec fn view(&self) -> Seq<TapNodeHash> { self.hashes@ }
    // rust-bitcoin: TryFrom<Vec<TapNodeHash>>: Err iff more than TAPROOT_CONTROL_MAX_NODE_COUNT = 128 hashes
    #[verifier::external_body]
    pub fn try_from(v: Vec<TapNodeHash>) -> (r: Result<TaprootMerkleBranch, TaprootError>)
        ensures r is Ok <==> v@.len() <= 128,
                r is Ok ==> r->Ok_0@ == v@,
    { unimplemented!() }
    #[verifier::external_body]
    pub fn len(&self) -> (r: usize)
        ensures r == self@.len(),
    { unimplemented!() }
}

// ---- Miniscript: opaque; its script encoding is unit c04_encode's business ------------------------------------------------------
pub struct Miniscript<Pk: MiniscriptKey, Ctx: ScriptContext> { opaque: u64, phantom: PhantomData<(Pk, Ctx)> }
pub uninterp spec fn spec_encode<Pk: MiniscriptKey, Ctx: ScriptContext>(ms: Miniscript<Pk, Ctx>) -> ScriptBuf;
impl<Pk: MiniscriptKey, Ctx: ScriptContext> Miniscript<Pk, Ctx> {
    #[verifier::external_body]
    pub fn encode(&self) -> (r: ScriptBuf) where Pk: ToPublicKey
        ensures r == spec_encode(*self),
    { unimplemented!() }
}


// ---- BitStack128: contracts PROVED by Kani in unit k15_taptree (complete harnesses bitstack_push / bitstack_pop / bitstack_lifo) --
pub uninterp spec fn bit_of(inner: u128, i: int) -> bool;       // bit i of the word
impl BitStack128 {
    // the stack of bits, bottom first
    pub open spec fn view(&self) -> Seq<bool> { Seq::new(self.height as nat, |i: int| bit_of(self.inner, i)) }
}
"""

ASSUME_SPECS = r"""
// std: `<[T]>::reverse`
pub assume_specification<T> [<[T]>::reverse] (s: &mut [T])
    ensures final(s)@ == old(s)@.reverse();
"""

GLUE_STUBS_AND_ORACLE = r"""
// ---- std::sync::Mutex (R7 stub): interior mutability is modelled by the lock-invariant discipline -----------------------------
// every Mutex carries an (uninterpreted) invariant on its content; `lock` hands out a content that satisfies it, a store through
// the guard must re-establish it.  Poisoning (a panic while the lock is held) is assumed away: the only code that runs under
// this lock is TrSpendInfo::from_tr, which is proved panic-free here.
pub struct Mutex<T> { cell: T }
pub struct MutexGuard<'a, T> { owner: &'a Mutex<T>, content: T }
#[derive(Debug)] pub struct PoisonError { code: u8 }
pub uninterp spec fn lock_inv<T>(m: Mutex<T>, v: T) -> bool;
impl<T> Mutex<T> {
    #[verifier::external_body]
    pub fn lock(&self) -> (r: Result<MutexGuard<'_, T>, PoisonError>)
        ensures r is Ok, r->Ok_0.mutex() == *self, lock_inv(*self, r->Ok_0@),
    { unimplemented!() }
}
impl<'a, T> MutexGuard<'a, T> {
    pub uninterp spec fn view(&self) -> T;
    pub uninterp spec fn mutex(&self) -> Mutex<T>;
    // R7: `*guard` (Deref) and `*guard = v` (DerefMut)
    #[verifier::external_body]
    pub fn get(&self) -> (r: &T)
        ensures *r == self@,
    { unimplemented!() }
    #[verifier::external_body]
    pub fn set(&mut self, v: T)
        requires lock_inv(old(self).mutex(), v),
        ensures final(self)@ == v, final(self).mutex() == old(self).mutex(),
    { unimplemented!() }
}

// ---- script builder / address (rust-bitcoin; R7 stubs) -----------------------------------------------------------------------------
#[derive(Clone, Copy)] pub struct Opcode { code: u8 }
pub const OP_PUSHNUM_1: Opcode = Opcode { code: 0x51 };
pub struct Builder { bytes: Vec<u8> }
#[derive(Clone, Copy)] pub enum Network { Bitcoin, Testnet, Signet, Regtest }
pub struct Address { opaque: u64 }
pub uninterp spec fn spec_p2tr_address(k: TweakedPublicKey, network: Network) -> Address;       // bech32m(hrp(network), 1, serialize(k)): BIP350
pub open spec fn script_bytes(s: ScriptBuf) -> Seq<u8> { s.bytes@ }
impl Builder {
    #[verifier::external_body]
    pub fn new() -> (r: Builder) ensures r.bytes@ == Seq::<u8>::empty() { unimplemented!() }
    #[verifier::external_body]
    pub fn push_opcode(self, op: Opcode) -> (r: Builder) ensures r.bytes@ == self.bytes@.push(op.code) { unimplemented!() }
    // a data push of 32 bytes is the length byte 0x20 followed by the data (direct push, 1..=75 bytes)
    #[verifier::external_body]
    pub fn push_slice(self, data: [u8; 32]) -> (r: Builder) ensures r.bytes@ == self.bytes@.push(32u8) + data@ { unimplemented!() }
    #[verifier::external_body]
    pub fn into_script(self) -> (r: ScriptBuf) ensures script_bytes(r) == self.bytes@ { unimplemented!() }
}
impl TweakedPublicKey {
    #[verifier::external_body]
    pub fn serialize(&self) -> (r: [u8; 32]) ensures r@ == spec_serialize_xonly(*self) { unimplemented!() }
}
impl Address {
    #[verifier::external_body]
    pub fn p2tr_tweaked(output_key: TweakedPublicKey, network: Network) -> (r: Address) ensures r == spec_p2tr_address(output_key, network) { unimplemented!() }
}

// ================================================================================================================================
// ORACLE for the descriptor level (BIP341 / BIP386): tr(K) and tr(K, TREE)
// ================================================================================================================================
pub open spec fn tree_merkle_root<Pk: MiniscriptKey>(tree: Option<TapTree<Pk>>) -> Option<TapNodeHash> {
    match tree { None => None, Some(tt) => Some(mroot(denoted(tt))) }
}
// Q = taproot_tweak_pubkey(P, merkle_root): a function of the internal key and the script tree ONLY
pub open spec fn tr_output_key<Pk: ToPublicKey>(tr: Tr<Pk>) -> TweakedPublicKey {
    spec_tap_tweak(tr.internal_key.spec_x_only(), tree_merkle_root(tr.tree)).0
}
pub open spec fn tr_tree_wf<Pk: MiniscriptKey>(tr: Tr<Pk>) -> bool { tr.tree matches Some(tt) ==> tap_tree_wf(tt) }
// the spend info of a descriptor: every field is determined by (internal key, tree)
pub open spec fn is_spend_info_of<Pk: ToPublicKey>(info: TrSpendInfo<Pk>, tr: Tr<Pk>) -> bool {
    &&& info.internal_key == tr.internal_key.spec_x_only()
    &&& (tr.tree is None ==> info.nodes@.len() == 0)
    &&& (tr.tree matches Some(tt) ==> nodes_denote(info.nodes@, denoted(tt)))
    &&& (info.output_key, info.output_key_parity) == spec_tap_tweak(tr.internal_key.spec_x_only(), tree_merkle_root(tr.tree))
}
// type invariant of Tr (private field, written by Tr::new with None, by Clone with the source's cache, and by spend_info):
// the lock invariant of the cache is "empty, or the spend info of this descriptor"
pub open spec fn cache_ok<Pk: ToPublicKey>(tr: Tr<Pk>, v: Option<Arc<TrSpendInfo<Pk>>>) -> bool { v matches Some(x) ==> is_spend_info_of(*x, tr) }
pub open spec fn tr_cache_inv<Pk: ToPublicKey>(tr: Tr<Pk>) -> bool {
    forall|v: Option<Arc<TrSpendInfo<Pk>>>| #[trigger] lock_inv(tr.spend_info, v) == cache_ok(tr, v)
}
pub proof fn lemma_spend_info_of<Pk: ToPublicKey>(info: TrSpendInfo<Pk>, tr: Tr<Pk>)
    requires is_spend_info_of(info, tr),
    ensures info_wf(info), info_merkle_root(info) == tree_merkle_root(tr.tree), info_keys_ok(info), info.output_key == tr_output_key(tr),
            tr.tree matches Some(tt) ==> info_tree(info) == denoted(tt),
{
    match tr.tree {
        None => {}
        Some(tt) => { lemma_nodes_tree(info.nodes@, denoted(tt)); }
    }
}
"""

ORACLE = r"""
// ================================================================================================================================
// ORACLE (BIP341 "Constructing and spending Taproot outputs"), nothing read off the code
// ================================================================================================================================
// A script tree is a binary tree with a script at every leaf.
pub enum Tree<Pk: MiniscriptKey> {
    Leaf(Arc<Miniscript<Pk, Tap>>),
    Branch(Box<Tree<Pk>>, Box<Tree<Pk>>),
}

pub open spec fn nleaves<Pk: MiniscriptKey>(t: Tree<Pk>) -> nat
    decreases t,
{
    match t { Tree::Leaf(_) => 1, Tree::Branch(l, r) => nleaves(*l) + nleaves(*r) }
}
// number of tree nodes (inner nodes + leaves)
pub open spec fn size<Pk: MiniscriptKey>(t: Tree<Pk>) -> nat
    decreases t,
{
    match t { Tree::Leaf(_) => 1, Tree::Branch(l, r) => 1 + size(*l) + size(*r) }
}
pub open spec fn height<Pk: MiniscriptKey>(t: Tree<Pk>) -> nat
    decreases t,
{
    match t { Tree::Leaf(_) => 0, Tree::Branch(l, r) => 1 + if height(*l) >= height(*r) { height(*l) } else { height(*r) } }
}
// the depth-first (left to right) listing of (depth, leaf): what a `TapTree` stores and what `tr(K,{..})` spells
pub open spec fn listing<Pk: MiniscriptKey>(t: Tree<Pk>, d: nat) -> Seq<(nat, Arc<Miniscript<Pk, Tap>>)>
    decreases t,
{
    match t { Tree::Leaf(ms) => seq![(d, ms)], Tree::Branch(l, r) => listing(*l, d + 1) + listing(*r, d + 1) }
}
// BIP341 leaf: k0 = hash_TapLeaf(v || compact_size(script) || script), the script being the leaf's Miniscript encoding, v = 0xc0
pub open spec fn leaf_tap_hash<Pk: MiniscriptKey>(ms: Arc<Miniscript<Pk, Tap>>) -> TapLeafHash {
    spec_leaf_hash(spec_encode(*ms), LeafVersion::TapScript)
}
pub open spec fn leaf_node_hash<Pk: MiniscriptKey>(ms: Arc<Miniscript<Pk, Tap>>) -> TapNodeHash { node_of_leaf(leaf_tap_hash(ms)) }
// BIP341 taproot_tree_helper: the Merkle root by structural recursion
pub open spec fn mroot<Pk: MiniscriptKey>(t: Tree<Pk>) -> TapNodeHash
    decreases t,
{
    match t { Tree::Leaf(ms) => leaf_node_hash(ms), Tree::Branch(l, r) => branch_hash(mroot(*l), mroot(*r)) }
}
// the i-th leaf (left to right), its depth, and the hashes of the siblings on its way UP to the root (control block order)
pub open spec fn leaf_at<Pk: MiniscriptKey>(t: Tree<Pk>, i: int) -> Arc<Miniscript<Pk, Tap>>
    decreases t,
{
    match t { Tree::Leaf(ms) => ms, Tree::Branch(l, r) => if i < nleaves(*l) { leaf_at(*l, i) } else { leaf_at(*r, i - nleaves(*l)) } }
}
pub open spec fn depth_of<Pk: MiniscriptKey>(t: Tree<Pk>, i: int) -> nat
    decreases t,
{
    match t { Tree::Leaf(_) => 0, Tree::Branch(l, r) => 1 + if i < nleaves(*l) { depth_of(*l, i) } else { depth_of(*r, i - nleaves(*l)) } }
}
pub open spec fn path_of<Pk: MiniscriptKey>(t: Tree<Pk>, i: int) -> Seq<TapNodeHash>
    decreases t,
{
    match t {
        Tree::Leaf(_) => Seq::empty(),
        Tree::Branch(l, r) => if i < nleaves(*l) { path_of(*l, i).push(mroot(*r)) } else { path_of(*r, i - nleaves(*l)).push(mroot(*l)) },
    }
}
// BIP341 script-path validation: k_{j+1} = hash_TapBranch(sorted(k_j, e_j)) over the control block's path e_0 .. e_{m-1}
pub open spec fn verify_fold(k: TapNodeHash, path: Seq<TapNodeHash>) -> TapNodeHash
    decreases path.len(),
{
    if path.len() == 0 { k } else { verify_fold(branch_hash(k, path[0]), path.drop_first()) }
}

// what a TapTree value denotes: its (depth, leaf) list is the depth-first listing of a binary tree of height <= 128
// (the type invariant of TapTree: leaf / combine / TapTreeBuilder, decided by unit k15_taptree; `exists t` <=> Kraft equality)
pub open spec fn tap_listing<Pk: MiniscriptKey>(tree: TapTree<Pk>) -> Seq<(nat, Arc<Miniscript<Pk, Tap>>)> {
    Seq::new(tree.depths_leaves@.len(), |j: int| (tree.depths_leaves@[j].0 as nat, tree.depths_leaves@[j].1))
}
pub open spec fn denotes<Pk: MiniscriptKey>(tree: TapTree<Pk>, t: Tree<Pk>) -> bool {
    listing(t, 0) == tap_listing(tree) && height(t) <= 128
}
pub open spec fn tap_tree_wf<Pk: MiniscriptKey>(tree: TapTree<Pk>) -> bool { exists|t: Tree<Pk>| denotes(tree, t) }
pub open spec fn denoted<Pk: MiniscriptKey>(tree: TapTree<Pk>) -> Tree<Pk> { choose|t: Tree<Pk>| denotes(tree, t) }

// ---- oracle lemmas (pure mathematics over the abstract tree) ---------------------------------------------------------------------
pub proof fn lemma_counts<Pk: MiniscriptKey>(t: Tree<Pk>, d: nat)
    ensures nleaves(t) >= 1, size(t) == 2 * nleaves(t) - 1, listing(t, d).len() == nleaves(t),
    decreases t,
{
    match t {
        Tree::Leaf(_) => {}
        Tree::Branch(l, r) => { lemma_counts(*l, d + 1); lemma_counts(*r, d + 1); }
    }
}

pub proof fn lemma_fold_push(k: TapNodeHash, p: Seq<TapNodeHash>, x: TapNodeHash)
    ensures verify_fold(k, p.push(x)) == branch_hash(verify_fold(k, p), x),
    decreases p.len(),
{
    if p.len() == 0 {
        assert(p.push(x).drop_first() =~= Seq::<TapNodeHash>::empty());
        assert(verify_fold(branch_hash(k, x), Seq::<TapNodeHash>::empty()) == branch_hash(k, x));
    } else {
        assert(p.push(x).drop_first() =~= p.drop_first().push(x));
        lemma_fold_push(branch_hash(k, p[0]), p.drop_first(), x);
    }
}

// THE control-block lemma: folding the sibling path of leaf i bottom-up from its leaf hash reproduces the Merkle root;
// the path has one hash per level; the listing entry i is (depth, leaf) of that leaf
pub proof fn lemma_path_verifies<Pk: MiniscriptKey>(t: Tree<Pk>, i: int, d: nat)
    requires 0 <= i < nleaves(t),
    ensures verify_fold(leaf_node_hash(leaf_at(t, i)), path_of(t, i)) == mroot(t),
            path_of(t, i).len() == depth_of(t, i),
            depth_of(t, i) <= height(t),
            listing(t, d)[i] == (d + depth_of(t, i), leaf_at(t, i)),
    decreases t,
{
    match t {
        Tree::Leaf(_) => {}
        Tree::Branch(l, r) => {
            lemma_counts(*l, d + 1);
            lemma_counts(*r, d + 1);
            let k = leaf_node_hash(leaf_at(t, i));
            if i < nleaves(*l) {
                lemma_path_verifies(*l, i, d + 1);
                lemma_fold_push(k, path_of(*l, i), mroot(*r));
            } else {
                lemma_path_verifies(*r, i - nleaves(*l), d + 1);
                lemma_fold_push(k, path_of(*r, i - nleaves(*l)), mroot(*l));
                axiom_branch_hash_commutes(mroot(*r), mroot(*l));
            }
        }
    }
}

// the denotation is unique: two trees with the same listing (followed by anything) are the same tree
pub proof fn lemma_listing_injective<Pk: MiniscriptKey>(t1: Tree<Pk>, t2: Tree<Pk>, d: nat, s1: Seq<(nat, Arc<Miniscript<Pk, Tap>>)>, s2: Seq<(nat, Arc<Miniscript<Pk, Tap>>)>)
    requires listing(t1, d) + s1 == listing(t2, d) + s2,
    ensures t1 == t2, s1 == s2,
    decreases t1, t2,
{
    let a = listing(t1, d) + s1;
    let b = listing(t2, d) + s2;
    lemma_counts(t1, d); lemma_counts(t2, d);
    lemma_first_leaf(t1, d); lemma_first_leaf(t2, d);
    assert(a[0] == listing(t1, d)[0]);
    assert(b[0] == listing(t2, d)[0]);
    match t1 {
        Tree::Leaf(m1) => {
            match t2 {
                Tree::Leaf(m2) => {
                    assert(s1 =~= a.drop_first());
                    assert(s2 =~= b.drop_first());
                }
                Tree::Branch(l2, r2) => { assert(false); }
            }
        }
        Tree::Branch(l1, r1) => {
            match t2 {
                Tree::Leaf(m2) => { assert(false); }
                Tree::Branch(l2, r2) => {
                    assert(a =~= listing(*l1, d + 1) + (listing(*r1, d + 1) + s1));
                    assert(b =~= listing(*l2, d + 1) + (listing(*r2, d + 1) + s2));
                    lemma_listing_injective(*l1, *l2, d + 1, listing(*r1, d + 1) + s1, listing(*r2, d + 1) + s2);
                    lemma_listing_injective(*r1, *r2, d + 1, s1, s2);
                }
            }
        }
    }
}

// first entry of a listing: the leftmost leaf; it sits at depth d exactly when the tree is a single leaf
pub open spec fn first_depth<Pk: MiniscriptKey>(t: Tree<Pk>, d: nat) -> nat
    decreases t,
{
    match t { Tree::Leaf(_) => d, Tree::Branch(l, _) => first_depth(*l, d + 1) }
}
pub open spec fn first_leaf<Pk: MiniscriptKey>(t: Tree<Pk>) -> Arc<Miniscript<Pk, Tap>>
    decreases t,
{
    match t { Tree::Leaf(ms) => ms, Tree::Branch(l, _) => first_leaf(*l) }
}
pub proof fn lemma_first_leaf<Pk: MiniscriptKey>(t: Tree<Pk>, d: nat)
    ensures listing(t, d).len() >= 1, listing(t, d)[0] == (first_depth(t, d), first_leaf(t)),
            first_depth(t, d) >= d, (first_depth(t, d) == d) == (t is Leaf),
    decreases t,
{
    match t {
        Tree::Leaf(_) => {}
        Tree::Branch(l, r) => { lemma_first_leaf(*l, d + 1); lemma_counts(*l, d + 1); }
    }
}
"""

REPR = r"""
// ================================================================================================================================
// REPRESENTATION (derived from the code): the node vector of a TrSpendInfo and positions in it
// ================================================================================================================================
// `nodes` is the pre-order list of ALL tree nodes; an inner node has no leaf data; every node stores the hash of its SIBLING,
// except the root, which stores the Merkle root
pub open spec fn leaf_data_of<Pk: MiniscriptKey>(ms: Arc<Miniscript<Pk, Tap>>) -> LeafData<Pk> {
    LeafData { script: spec_encode(*ms), miniscript: ms, leaf_hash: leaf_tap_hash(ms) }
}
pub open spec fn top_node<Pk: MiniscriptKey>(t: Tree<Pk>, h: TapNodeHash) -> TrSpendInfoNode<Pk> {
    TrSpendInfoNode { sibling_hash: h, leaf_data: match t { Tree::Leaf(ms) => Some(leaf_data_of(ms)), Tree::Branch(_, _) => None } }
}
pub open spec fn final_nodes<Pk: MiniscriptKey>(t: Tree<Pk>, h: TapNodeHash) -> Seq<TrSpendInfoNode<Pk>>
    decreases t,
{
    seq![top_node(t, h)] + (match t {
        Tree::Leaf(_) => Seq::empty(),
        Tree::Branch(l, r) => final_nodes(*l, mroot(*r)) + final_nodes(*r, mroot(*l)),
    })
}
// reading the representation back: position of leaf i, and the sibling hashes stored on its way up
pub open spec fn leaf_pos<Pk: MiniscriptKey>(t: Tree<Pk>, i: int) -> int
    decreases t,
{
    match t { Tree::Leaf(_) => 0, Tree::Branch(l, r) => if i < nleaves(*l) { 1 + leaf_pos(*l, i) } else { 1 + size(*l) + leaf_pos(*r, i - nleaves(*l)) } }
}
pub open spec fn recorded_path<Pk: MiniscriptKey>(nodes: Seq<TrSpendInfoNode<Pk>>, base: int, t: Tree<Pk>, i: int) -> Seq<TapNodeHash>
    decreases t,
{
    match t {
        Tree::Leaf(_) => Seq::empty(),
        Tree::Branch(l, r) => if i < nleaves(*l) { recorded_path(nodes, base + 1, *l, i).push(nodes[base + 1].sibling_hash) }
                              else { recorded_path(nodes, base + 1 + size(*l), *r, i - nleaves(*l)).push(nodes[base + 1 + size(*l)].sibling_hash) },
    }
}

// ---- a path from the root, as the stack of left/right turns (false = into the left child, true = into the right child) ---------
pub open spec fn child<Pk: MiniscriptKey>(t: Tree<Pk>, right: bool) -> Tree<Pk> {
    match t { Tree::Branch(l, r) => if right { *r } else { *l }, Tree::Leaf(_) => t }
}
// size / leaf count of the left child (what lies between a node and its right child in pre-order)
pub open spec fn left_size<Pk: MiniscriptKey>(t: Tree<Pk>) -> nat { match t { Tree::Branch(l, _) => size(*l), Tree::Leaf(_) => 0 } }
pub open spec fn left_leaves<Pk: MiniscriptKey>(t: Tree<Pk>) -> nat { match t { Tree::Branch(l, _) => nleaves(*l), Tree::Leaf(_) => 0 } }
// Merkle root of the sibling of child(t, right)
pub open spec fn sib_hash<Pk: MiniscriptKey>(t: Tree<Pk>, right: bool) -> TapNodeHash {
    match t { Tree::Branch(l, r) => if right { mroot(*l) } else { mroot(*r) }, Tree::Leaf(_) => mroot(t) }
}
pub open spec fn sub_at<Pk: MiniscriptKey>(t: Tree<Pk>, bits: Seq<bool>) -> Tree<Pk>
    decreases bits.len(),
{
    if bits.len() == 0 { t } else { child(sub_at(t, bits.drop_last()), bits.last()) }
}
pub open spec fn path_ok<Pk: MiniscriptKey>(t: Tree<Pk>, bits: Seq<bool>) -> bool
    decreases bits.len(),
{
    bits.len() == 0 || (path_ok(t, bits.drop_last()) && sub_at(t, bits.drop_last()) is Branch)
}
// pre-order index of the node the path leads to, number of leaves before it, sibling hashes met on the way DOWN
pub open spec fn pos_at<Pk: MiniscriptKey>(t: Tree<Pk>, bits: Seq<bool>) -> nat
    decreases bits.len(),
{
    if bits.len() == 0 { 0 } else { pos_at(t, bits.drop_last()) + 1 + if bits.last() { left_size(sub_at(t, bits.drop_last())) } else { 0 } }
}
pub open spec fn leaves_before<Pk: MiniscriptKey>(t: Tree<Pk>, bits: Seq<bool>) -> nat
    decreases bits.len(),
{
    if bits.len() == 0 { 0 } else { leaves_before(t, bits.drop_last()) + if bits.last() { left_leaves(sub_at(t, bits.drop_last())) } else { 0 } }
}
pub open spec fn sibs<Pk: MiniscriptKey>(t: Tree<Pk>, bits: Seq<bool>) -> Seq<TapNodeHash>
    decreases bits.len(),
{
    if bits.len() == 0 { Seq::empty() } else { sibs(t, bits.drop_last()).push(sib_hash(sub_at(t, bits.drop_last()), bits.last())) }
}
// what the node a path leads to stores as its "sibling hash"
pub open spec fn stored_hash<Pk: MiniscriptKey>(t: Tree<Pk>, bits: Seq<bool>) -> TapNodeHash {
    if bits.len() == 0 { mroot(t) } else { sib_hash(sub_at(t, bits.drop_last()), bits.last()) }
}

// ---- lemmas ------------------------------------------------------------------------------------------------------------------------
pub proof fn lemma_final_len<Pk: MiniscriptKey>(t: Tree<Pk>, h: TapNodeHash)
    ensures final_nodes(t, h).len() == size(t), size(t) >= 1, final_nodes(t, h)[0] == top_node(t, h),
    decreases t,
{
    match t {
        Tree::Leaf(_) => {}
        Tree::Branch(l, r) => { lemma_final_len(*l, mroot(*r)); lemma_final_len(*r, mroot(*l)); }
    }
}
// only the first node depends on the hash handed down
pub proof fn lemma_final_top<Pk: MiniscriptKey>(t: Tree<Pk>, h1: TapNodeHash, h2: TapNodeHash)
    ensures final_nodes(t, h2) =~= final_nodes(t, h1).update(0, top_node(t, h2)),
{
    lemma_final_len(t, h1);
    lemma_final_len(t, h2);
}
// the pieces of the node list of an inner node
pub proof fn lemma_final_branch<Pk: MiniscriptKey>(t: Tree<Pk>, h: TapNodeHash)
    requires t is Branch,
    ensures ({
        let l = child(t, false); let r = child(t, true); let s = final_nodes(t, h);
        &&& s.len() == 1 + size(l) + size(r)
        &&& s[0] == top_node(t, h)
        &&& s.subrange(1, 1 + size(l) as int) == final_nodes(l, mroot(r))
        &&& s.subrange(1 + size(l) as int, s.len() as int) == final_nodes(r, mroot(l))
    }),
{
    let l = child(t, false); let r = child(t, true); let s = final_nodes(t, h);
    lemma_final_len(l, mroot(r));
    lemma_final_len(r, mroot(l));
    assert(s.subrange(1, 1 + size(l) as int) =~= final_nodes(l, mroot(r)));
    assert(s.subrange(1 + size(l) as int, s.len() as int) =~= final_nodes(r, mroot(l)));
}

// one more turn at the end of a path
pub proof fn lemma_path_push<Pk: MiniscriptKey>(t: Tree<Pk>, bits: Seq<bool>, b: bool)
    ensures ({
        let nb = bits.push(b); let p = sub_at(t, bits);
        &&& sub_at(t, nb) == child(p, b)
        &&& path_ok(t, nb) == (path_ok(t, bits) && p is Branch)
        &&& pos_at(t, nb) == pos_at(t, bits) + 1 + if b { left_size(p) } else { 0 }
        &&& leaves_before(t, nb) == leaves_before(t, bits) + if b { left_leaves(p) } else { 0 }
        &&& sibs(t, nb) == sibs(t, bits).push(sib_hash(p, b))
        &&& stored_hash(t, nb) == sib_hash(p, b)
    }),
{
    assert(bits.push(b).drop_last() =~= bits);
}

pub proof fn lemma_path_bounds<Pk: MiniscriptKey>(t: Tree<Pk>, bits: Seq<bool>)
    requires path_ok(t, bits),
    ensures pos_at(t, bits) + size(sub_at(t, bits)) <= size(t),
            leaves_before(t, bits) + nleaves(sub_at(t, bits)) <= nleaves(t),
            bits.len() + height(sub_at(t, bits)) <= height(t),
            sibs(t, bits).len() == bits.len(),
            bits.len() > 0 ==> pos_at(t, bits) > pos_at(t, bits.drop_last()),
            (pos_at(t, bits) == 0) == (bits.len() == 0),
    decreases bits.len(),
{
    if bits.len() > 0 {
        lemma_path_bounds(t, bits.drop_last());
    }
}

// the listing of the subtree a path leads to is a slice of the whole listing, starting at `leaves_before`
pub proof fn lemma_listing_at<Pk: MiniscriptKey>(t: Tree<Pk>, bits: Seq<bool>, d: nat)
    requires path_ok(t, bits),
    ensures listing(t, d).subrange(leaves_before(t, bits) as int, (leaves_before(t, bits) + nleaves(sub_at(t, bits))) as int)
                == listing(sub_at(t, bits), d + bits.len()),
    decreases bits.len(),
{
    lemma_path_bounds(t, bits);
    lemma_counts(t, d);
    if bits.len() == 0 {
        assert(listing(t, d).subrange(0, nleaves(t) as int) =~= listing(t, d));
    } else {
        let pb = bits.drop_last();
        let p = sub_at(t, pb);
        lemma_listing_at(t, pb, d);
        lemma_path_bounds(t, pb);
        let dd = (d + pb.len()) as nat;
        let l = child(p, false); let r = child(p, true);
        lemma_counts(l, dd + 1); lemma_counts(r, dd + 1);
        let lb = leaves_before(t, pb) as int;
        let whole = listing(t, d);
        let mid = whole.subrange(lb, lb + nleaves(p));
        assert(mid == listing(l, dd + 1) + listing(r, dd + 1));
        if bits.last() {
            assert(whole.subrange(lb + nleaves(l), lb + nleaves(l) + nleaves(r)) =~= mid.subrange(nleaves(l) as int, nleaves(p) as int));
            assert(mid.subrange(nleaves(l) as int, nleaves(p) as int) =~= listing(r, dd + 1));
        } else {
            assert(whole.subrange(lb, lb + nleaves(l)) =~= mid.subrange(0, nleaves(l) as int));
            assert(mid.subrange(0, nleaves(l) as int) =~= listing(l, dd + 1));
        }
    }
}

// the nodes of the subtree a path leads to are a slice of the whole node list, starting at `pos_at`
pub proof fn lemma_nodes_at<Pk: MiniscriptKey>(t: Tree<Pk>, bits: Seq<bool>)
    requires path_ok(t, bits),
    ensures final_nodes(t, mroot(t)).subrange(pos_at(t, bits) as int, (pos_at(t, bits) + size(sub_at(t, bits))) as int)
                == final_nodes(sub_at(t, bits), stored_hash(t, bits)),
    decreases bits.len(),
{
    lemma_path_bounds(t, bits);
    let whole = final_nodes(t, mroot(t));
    lemma_final_len(t, mroot(t));
    if bits.len() == 0 {
        assert(whole.subrange(0, size(t) as int) =~= whole);
    } else {
        let pb = bits.drop_last();
        let p = sub_at(t, pb);
        lemma_nodes_at(t, pb);
        lemma_path_bounds(t, pb);
        lemma_final_branch(p, stored_hash(t, pb));
        let l = child(p, false); let r = child(p, true);
        let pp = pos_at(t, pb) as int;
        let mid = whole.subrange(pp, pp + size(p));
        if bits.last() {
            assert(whole.subrange(pp + 1 + size(l), pp + 1 + size(l) + size(r)) =~= mid.subrange(1 + size(l) as int, mid.len() as int));
        } else {
            assert(whole.subrange(pp + 1, pp + 1 + size(l)) =~= mid.subrange(1, 1 + size(l) as int));
        }
    }
}

// leaf number `leaves_before(path) + i` of the whole tree is leaf i of the subtree the path leads to; its sibling path is
// the subtree's own path followed by the siblings met on the way down, read bottom-up
pub proof fn lemma_leaf_via_path<Pk: MiniscriptKey>(t: Tree<Pk>, bits: Seq<bool>, i: int)
    requires path_ok(t, bits), 0 <= i < nleaves(sub_at(t, bits)),
    ensures path_of(t, leaves_before(t, bits) + i) == path_of(sub_at(t, bits), i) + sibs(t, bits).reverse(),
            leaf_at(t, leaves_before(t, bits) + i) == leaf_at(sub_at(t, bits), i),
            depth_of(t, leaves_before(t, bits) + i) == bits.len() + depth_of(sub_at(t, bits), i),
    decreases bits.len(),
{
    if bits.len() == 0 {
        assert(sibs(t, bits).reverse() =~= Seq::<TapNodeHash>::empty());
        assert(path_of(t, i) + Seq::<TapNodeHash>::empty() =~= path_of(t, i));
    } else {
        let pb = bits.drop_last();
        let p = sub_at(t, pb);
        let l = child(p, false); let r = child(p, true);
        let cur = sub_at(t, bits);
        let ii = i + if bits.last() { nleaves(l) as int } else { 0 };
        lemma_counts(l, 0); lemma_counts(r, 0);
        lemma_leaf_via_path(t, pb, ii);
        lemma_path_bounds(t, pb);
        let x = sib_hash(p, bits.last());
        assert(path_of(p, ii) == path_of(cur, i).push(x));
        assert(sibs(t, bits) == sibs(t, pb).push(x));
        assert(sibs(t, bits).reverse() =~= seq![x] + sibs(t, pb).reverse());
        assert(path_of(cur, i).push(x) + sibs(t, pb).reverse() =~= path_of(cur, i) + (seq![x] + sibs(t, pb).reverse()));
    }
}

// the sibling hashes stored in a node list of the right shape are the BIP341 sibling paths, and the leaves sit where expected
pub proof fn lemma_recorded<Pk: MiniscriptKey>(nodes: Seq<TrSpendInfoNode<Pk>>, base: int, t: Tree<Pk>, h: TapNodeHash, i: int)
    requires 0 <= base, base + size(t) <= nodes.len(), nodes.subrange(base, base + size(t)) == final_nodes(t, h), 0 <= i < nleaves(t),
    ensures recorded_path(nodes, base, t, i) == path_of(t, i),
            0 <= leaf_pos(t, i) < size(t),
            nodes[base + leaf_pos(t, i)].leaf_data == Some(leaf_data_of(leaf_at(t, i))),
    decreases t,
{
    lemma_final_len(t, h);
    let s = nodes.subrange(base, base + size(t));
    match t {
        Tree::Leaf(_) => { assert(s[0] == nodes[base]); }
        Tree::Branch(l, r) => {
            lemma_final_branch(t, h);
            lemma_counts(*l, 0); lemma_counts(*r, 0);
            lemma_final_len(*l, mroot(*r)); lemma_final_len(*r, mroot(*l));
            if i < nleaves(*l) {
                assert(nodes.subrange(base + 1, base + 1 + size(*l)) =~= s.subrange(1, 1 + size(*l) as int));
                lemma_recorded(nodes, base + 1, *l, mroot(*r), i);
                assert(nodes[base + 1] == nodes.subrange(base + 1, base + 1 + size(*l))[0]);
            } else {
                let b2 = base + 1 + size(*l);
                assert(nodes.subrange(b2, b2 + size(*r)) =~= s.subrange(1 + size(*l) as int, s.len() as int));
                lemma_recorded(nodes, b2, *r, mroot(*l), i - nleaves(*l));
                assert(nodes[b2] == nodes.subrange(b2, b2 + size(*r))[0]);
            }
        }
    }
}

// a node list determines the tree (leaf data carries the leaf itself; the shape is in the None / Some pattern)
pub proof fn lemma_final_nodes_injective<Pk: MiniscriptKey>(t1: Tree<Pk>, h1: TapNodeHash, s1: Seq<TrSpendInfoNode<Pk>>, t2: Tree<Pk>, h2: TapNodeHash, s2: Seq<TrSpendInfoNode<Pk>>)
    requires final_nodes(t1, h1) + s1 == final_nodes(t2, h2) + s2,
    ensures t1 == t2, s1 == s2,
    decreases t1, t2,
{
    let a = final_nodes(t1, h1) + s1;
    let b = final_nodes(t2, h2) + s2;
    lemma_final_len(t1, h1); lemma_final_len(t2, h2);
    assert(a[0] == top_node(t1, h1));
    assert(b[0] == top_node(t2, h2));
    match t1 {
        Tree::Leaf(m1) => {
            match t2 {
                Tree::Leaf(m2) => {
                    assert(leaf_data_of(m1).miniscript == leaf_data_of(m2).miniscript);
                    assert(s1 =~= a.drop_first());
                    assert(s2 =~= b.drop_first());
                }
                Tree::Branch(l2, r2) => { assert(false); }
            }
        }
        Tree::Branch(l1, r1) => {
            match t2 {
                Tree::Leaf(m2) => { assert(false); }
                Tree::Branch(l2, r2) => {
                    let a1 = final_nodes(*l1, mroot(*r1)); let a2 = final_nodes(*r1, mroot(*l1));
                    let b1 = final_nodes(*l2, mroot(*r2)); let b2 = final_nodes(*r2, mroot(*l2));
                    assert(a.drop_first() =~= a1 + (a2 + s1));
                    assert(b.drop_first() =~= b1 + (b2 + s2));
                    lemma_final_nodes_injective(*l1, mroot(*r1), a2 + s1, *l2, mroot(*r2), b2 + s2);
                    lemma_final_nodes_injective(*r1, mroot(*l1), s1, *r2, mroot(*l2), s2);
                }
            }
        }
    }
}

// ... for every leaf at once, together with what the listing says about that leaf
pub proof fn lemma_recorded_all<Pk: MiniscriptKey>(nodes: Seq<TrSpendInfoNode<Pk>>, t: Tree<Pk>)
    ensures nodes == final_nodes(t, mroot(t)) ==> {
        &&& forall|i: int| 0 <= i < nleaves(t) ==> #[trigger] recorded_path(nodes, 0, t, i) == path_of(t, i)
                && path_of(t, i).len() == depth_of(t, i) && listing(t, 0)[i] == (depth_of(t, i), leaf_at(t, i))
        &&& forall|i: int| 0 <= i < nleaves(t) ==> 0 <= #[trigger] leaf_pos(t, i) < nodes.len()
                && nodes[leaf_pos(t, i)].leaf_data == Some(leaf_data_of(leaf_at(t, i))) && listing(t, 0)[i] == (depth_of(t, i), leaf_at(t, i))
    },
{
    if nodes == final_nodes(t, mroot(t)) {
        lemma_final_len(t, mroot(t));
        assert(nodes.subrange(0, size(t) as int) =~= nodes);
        assert forall|i: int| 0 <= i < nleaves(t) implies #[trigger] recorded_path(nodes, 0, t, i) == path_of(t, i)
                && path_of(t, i).len() == depth_of(t, i) && listing(t, 0)[i] == (depth_of(t, i), leaf_at(t, i)) by {
            lemma_recorded(nodes, 0, t, mroot(t), i);
            lemma_path_verifies(t, i, 0);
        }
        assert forall|i: int| 0 <= i < nleaves(t) implies 0 <= #[trigger] leaf_pos(t, i) < nodes.len()
                && nodes[leaf_pos(t, i)].leaf_data == Some(leaf_data_of(leaf_at(t, i))) && listing(t, 0)[i] == (depth_of(t, i), leaf_at(t, i)) by {
            lemma_recorded(nodes, 0, t, mroot(t), i);
            lemma_path_verifies(t, i, 0);
        }
    }
}
"""

BUILD_INV = r"""
// ================================================================================================================================
// nodes_from_tap_tree: the loop states (derived from the code)
// ================================================================================================================================
// the left/right flags of the parent stack, bottom first
pub open spec fn flags(ps: Seq<(bool, usize)>) -> Seq<bool> { Seq::new(ps.len(), |j: int| ps[j].0) }

// parent stack: one entry per unfinished ancestor of the position reached = (its left subtree is finished, its index in `nodes`);
// an unfinished inner node has no leaf data; a finished left subtree lies right behind its parent, its own hash on top
pub open spec fn stack_ok<Pk: MiniscriptKey>(t: Tree<Pk>, nodes: Seq<TrSpendInfoNode<Pk>>, ps: Seq<(bool, usize)>) -> bool
    decreases ps.len(),
{
    if ps.len() == 0 { true } else {
        let rest = ps.drop_last(); let e = ps.last(); let p = sub_at(t, flags(rest)); let l = child(p, false);
        &&& stack_ok(t, nodes, rest)
        &&& p is Branch
        &&& e.1 == pos_at(t, flags(rest))
        &&& e.1 < nodes.len()
        &&& nodes[e.1 as int].leaf_data is None
        &&& (e.0 ==> e.1 + 1 + size(l) <= nodes.len() && nodes.subrange(e.1 + 1, e.1 + 1 + size(l)) == final_nodes(l, mroot(l)))
    }
}
// between two leaves: i leaves consumed; the subtree that comes next hangs at the end of the path flags(ps)
pub open spec fn open_inv<Pk: MiniscriptKey>(t: Tree<Pk>, nodes: Seq<TrSpendInfoNode<Pk>>, ps: Seq<(bool, usize)>, i: int) -> bool {
    &&& stack_ok(t, nodes, ps)
    &&& i == leaves_before(t, flags(ps))
    &&& nodes.len() == pos_at(t, flags(ps))
}
// while completing right branches: the subtree at the end of the path flags(ps) is finished; its nodes are the tail of `nodes`
// with its own Merkle root on top; leaf i was the last one consumed
pub open spec fn climb_inv<Pk: MiniscriptKey>(t: Tree<Pk>, nodes: Seq<TrSpendInfoNode<Pk>>, ps: Seq<(bool, usize)>, i: int, cur_index: int, current_hash: TapNodeHash) -> bool {
    let b = flags(ps); let d = sub_at(t, b);
    &&& stack_ok(t, nodes, ps)
    &&& i + 1 == leaves_before(t, b) + nleaves(d)
    &&& cur_index == pos_at(t, b)
    &&& nodes.len() == cur_index + size(d)
    &&& nodes.subrange(cur_index, nodes.len() as int) == final_nodes(d, mroot(d))
    &&& current_hash == mroot(d)
}
// all leaves consumed
pub open spec fn done_inv<Pk: MiniscriptKey>(t: Tree<Pk>, nodes: Seq<TrSpendInfoNode<Pk>>, i: int) -> bool {
    i == nleaves(t) && nodes.subrange(0, nodes.len() as int) == final_nodes(t, mroot(t))
}

pub proof fn lemma_flags_push(ps: Seq<(bool, usize)>, e: (bool, usize))
    ensures flags(ps.push(e)) == flags(ps).push(e.0), ps.push(e).drop_last() == ps, ps.push(e).last() == e,
{
    assert(flags(ps.push(e)) =~= flags(ps).push(e.0));
    assert(ps.push(e).drop_last() =~= ps);
}
pub proof fn lemma_flags_pop(ps: Seq<(bool, usize)>)
    requires ps.len() > 0,
    ensures flags(ps).drop_last() == flags(ps.drop_last()), flags(ps).last() == ps.last().0, flags(ps).len() == ps.len(),
            ps == ps.drop_last().push(ps.last()),
{
    assert(flags(ps).drop_last() =~= flags(ps.drop_last()));
    assert(ps =~= ps.drop_last().push(ps.last()));
}

pub proof fn lemma_stack_path<Pk: MiniscriptKey>(t: Tree<Pk>, nodes: Seq<TrSpendInfoNode<Pk>>, ps: Seq<(bool, usize)>)
    requires stack_ok(t, nodes, ps),
    ensures path_ok(t, flags(ps)), pos_at(t, flags(ps)) <= nodes.len(), flags(ps).len() == ps.len(),
    decreases ps.len(),
{
    if ps.len() > 0 {
        lemma_flags_pop(ps);
        lemma_stack_path(t, nodes, ps.drop_last());
    }
}
// the stack invariant reads `nodes` only below the position reached
pub proof fn lemma_stack_frame<Pk: MiniscriptKey>(t: Tree<Pk>, n1: Seq<TrSpendInfoNode<Pk>>, n2: Seq<TrSpendInfoNode<Pk>>, ps: Seq<(bool, usize)>)
    requires stack_ok(t, n1, ps), n2.len() >= pos_at(t, flags(ps)),
             forall|k: int| 0 <= k < pos_at(t, flags(ps)) ==> n1[k] == n2[k],
    ensures stack_ok(t, n2, ps),
    decreases ps.len(),
{
    if ps.len() > 0 {
        let rest = ps.drop_last(); let e = ps.last(); let p = sub_at(t, flags(rest)); let l = child(p, false);
        lemma_flags_pop(ps);
        lemma_stack_path(t, n1, ps);
        lemma_path_bounds(t, flags(ps));
        lemma_stack_frame(t, n1, n2, rest);
        if e.0 {
            assert(n2.subrange(e.1 + 1, e.1 + 1 + size(l)) =~= n1.subrange(e.1 + 1, e.1 + 1 + size(l)));
        }
    }
}

// start of a round: what the next (depth, leaf) entry says about the subtree that comes next
pub proof fn lemma_round_start<Pk: MiniscriptKey>(t: Tree<Pk>, nodes: Seq<TrSpendInfoNode<Pk>>, ps: Seq<(bool, usize)>, i: int)
    requires open_inv(t, nodes, ps, i),
    ensures i < nleaves(t),
            listing(t, 0)[i] == (first_depth(sub_at(t, flags(ps)), ps.len()), first_leaf(sub_at(t, flags(ps)))),
{
    let b = flags(ps);
    lemma_stack_path(t, nodes, ps);
    lemma_path_bounds(t, b);
    lemma_listing_at(t, b, 0);
    lemma_counts(sub_at(t, b), b.len());
    lemma_counts(t, 0);
    lemma_first_leaf(sub_at(t, b), b.len());
    let s = listing(t, 0).subrange(i, i + nleaves(sub_at(t, b)));
    assert(s[0] == listing(t, 0)[i]);
}

// step 1 of a round: one more ancestor is opened (what the two pushes must have done is the hypothesis, not a precondition:
// a changed push makes the named invariants fail, not this call)
pub proof fn lemma_descend<Pk: MiniscriptKey>(t: Tree<Pk>, nodes: Seq<TrSpendInfoNode<Pk>>, ps: Seq<(bool, usize)>, i: int, depth: nat,
                                              n2: Seq<TrSpendInfoNode<Pk>>, ps2: Seq<(bool, usize)>)
    requires open_inv(t, nodes, ps, i), first_depth(sub_at(t, flags(ps)), ps.len()) == depth, ps.len() < depth,
    ensures ps2.len() > 0 && n2.len() > 0 && ps2 == ps.push(ps2.last()) && !ps2.last().0 && ps2.last().1 == nodes.len()
                && n2 == nodes.push(n2.last()) && n2.last().leaf_data is None
            ==> open_inv(t, n2, ps2, i) && first_depth(sub_at(t, flags(ps2)), ps2.len()) == depth
                && first_leaf(sub_at(t, flags(ps2))) == first_leaf(sub_at(t, flags(ps))),
{
    if ps2.len() > 0 && n2.len() > 0 && ps2 == ps.push(ps2.last()) && !ps2.last().0 && ps2.last().1 == nodes.len()
        && n2 == nodes.push(n2.last()) && n2.last().leaf_data is None {
        let b = flags(ps); let cur = sub_at(t, b);
        let e = ps2.last();
        lemma_first_leaf(cur, ps.len());
        lemma_flags_push(ps, e);
        lemma_path_push(t, b, false);
        lemma_stack_path(t, nodes, ps);
        lemma_stack_frame(t, nodes, n2, ps);
    }
}

// step 2 of a round: the leaf node itself
pub proof fn lemma_leaf_node<Pk: MiniscriptKey>(t: Tree<Pk>, nodes: Seq<TrSpendInfoNode<Pk>>, ps: Seq<(bool, usize)>, i: int, n2: Seq<TrSpendInfoNode<Pk>>)
    requires open_inv(t, nodes, ps, i), first_depth(sub_at(t, flags(ps)), ps.len()) <= ps.len(),
    ensures sub_at(t, flags(ps)) == Tree::Leaf(first_leaf(sub_at(t, flags(ps)))),
            n2.len() > 0 && n2 == nodes.push(n2.last()) && n2.last() == top_node(sub_at(t, flags(ps)), mroot(sub_at(t, flags(ps))))
            ==> climb_inv(t, n2, ps, i, nodes.len() as int, mroot(sub_at(t, flags(ps)))),
{
    let b = flags(ps); let cur = sub_at(t, b);
    lemma_first_leaf(cur, ps.len());
    if n2.len() > 0 && n2 == nodes.push(n2.last()) && n2.last() == top_node(cur, mroot(cur)) {
        let node = n2.last();
        lemma_stack_path(t, nodes, ps);
        lemma_stack_frame(t, nodes, n2, ps);
        assert(n2.subrange(nodes.len() as int, n2.len() as int) =~= seq![node]);
        assert(final_nodes(cur, mroot(cur)) =~= seq![node]);
    }
}

// step 3 of a round, after popping the top entry e: where the finished subtree hangs
pub proof fn lemma_climb_pop<Pk: MiniscriptKey>(t: Tree<Pk>, nodes: Seq<TrSpendInfoNode<Pk>>, ps0: Seq<(bool, usize)>, i: int, cur_index: int, current_hash: TapNodeHash)
    requires climb_inv(t, nodes, ps0, i, cur_index, current_hash), ps0.len() > 0,
    ensures ({
        let e = ps0.last(); let rest = ps0.drop_last(); let p = sub_at(t, flags(rest)); let l = child(p, false);
        &&& p is Branch
        &&& e.1 == pos_at(t, flags(rest))
        &&& sub_at(t, flags(ps0)) == child(p, e.0)
        &&& e.1 + 1 <= cur_index < nodes.len()
        &&& (e.0 ==> cur_index == e.1 + 1 + size(l) && size(l) >= 1 && nodes[e.1 + 1].sibling_hash == mroot(l))
        &&& (!e.0 ==> cur_index == e.1 + 1)
        // (BIP341: the order in which the two children are handed to the branch hash does not matter)
        &&& branch_hash(current_hash, nodes[e.1 + 1].sibling_hash) == branch_hash(nodes[e.1 + 1].sibling_hash, current_hash)
    }),
{
    axiom_branch_hash_commutes(current_hash, nodes[ps0.last().1 + 1].sibling_hash);
    let e = ps0.last(); let rest = ps0.drop_last(); let p = sub_at(t, flags(rest)); let l = child(p, false);
    lemma_flags_pop(ps0);
    lemma_path_push(t, flags(rest), e.0);
    lemma_final_len(sub_at(t, flags(ps0)), current_hash);
    if e.0 {
        lemma_final_len(l, mroot(l));
        assert(nodes.subrange(e.1 + 1, e.1 + 1 + size(l))[0] == nodes[e.1 + 1]);
    }
}

// what the three stores of a right-branch completion must have done to `nodes`
pub open spec fn right_completion_stores<Pk: MiniscriptKey>(n0: Seq<TrSpendInfoNode<Pk>>, n1: Seq<TrSpendInfoNode<Pk>>, pi: int, ci0: int, h0: TapNodeHash) -> bool {
    let lh = n0[pi + 1].sibling_hash;
    &&& n1.len() == n0.len()
    &&& n1[pi] == TrSpendInfoNode { sibling_hash: branch_hash(lh, h0), leaf_data: n0[pi].leaf_data }        // parent: its own hash
    &&& n1[pi + 1] == TrSpendInfoNode { sibling_hash: h0, leaf_data: n0[pi + 1].leaf_data }                    // left child: hash of the right one
    &&& n1[ci0] == TrSpendInfoNode { sibling_hash: lh, leaf_data: n0[ci0].leaf_data }                          // right child: hash of the left one
    &&& forall|k: int| 0 <= k < n0.len() && k != pi && k != pi + 1 && k != ci0 ==> n1[k] == n0[k]
}
// ... the popped ancestor had its left subtree finished: now it is finished itself
pub proof fn lemma_climb_right<Pk: MiniscriptKey>(t: Tree<Pk>, n0: Seq<TrSpendInfoNode<Pk>>, ps0: Seq<(bool, usize)>, n1: Seq<TrSpendInfoNode<Pk>>, i: int, ci0: int, h0: TapNodeHash)
    requires climb_inv(t, n0, ps0, i, ci0, h0), ps0.len() > 0,
    ensures ({
        let rest = ps0.drop_last(); let pi = ps0.last().1 as int; let p = sub_at(t, flags(rest));
        // position, leaf count and hash of the completed parent do not depend on the stores
        &&& (ps0.last().0 ==> i + 1 == leaves_before(t, flags(rest)) + nleaves(p) && pi == pos_at(t, flags(rest))
                              && n0.len() == pi + size(p) && branch_hash(n0[pi + 1].sibling_hash, h0) == mroot(p))
        // nothing below the parent is touched: the rest of the stack stays described
        &&& (ps0.last().0 && n1.len() == n0.len() && (forall|k: int| 0 <= k < pi ==> n1[k] == n0[k]) ==> stack_ok(t, n1, rest))
        // the three stores make the parent's nodes final below it, own hash on top
        &&& (ps0.last().0 && right_completion_stores(n0, n1, pi, ci0, h0) ==> n1.subrange(pi, n1.len() as int) == final_nodes(p, mroot(p)))
    }),
{
    let e = ps0.last(); let rest = ps0.drop_last(); let p = sub_at(t, flags(rest)); let l = child(p, false); let r = child(p, true);
    let pi = e.1 as int; let lh = n0[pi + 1].sibling_hash;
    if e.0 {
        lemma_climb_pop(t, n0, ps0, i, ci0, h0);
        lemma_flags_pop(ps0);
        lemma_path_push(t, flags(rest), true);
        lemma_stack_path(t, n0, rest);
        lemma_final_len(l, mroot(l)); lemma_final_len(r, mroot(r));
        lemma_final_len(l, mroot(r)); lemma_final_len(r, mroot(l));
        if n1.len() == n0.len() && (forall|k: int| 0 <= k < pi ==> n1[k] == n0[k]) {
            lemma_stack_frame(t, n0, n1, rest);
        }
        if right_completion_stores(n0, n1, pi, ci0, h0) {
            lemma_final_top(l, mroot(l), mroot(r));
            lemma_final_top(r, mroot(r), mroot(l));
            let old_l = n0.subrange(pi + 1, pi + 1 + size(l));
            let old_r = n0.subrange(ci0, n0.len() as int);
            assert(old_l[0] == n0[pi + 1]);
            assert(old_r[0] == n0[ci0]);
            let want = final_nodes(p, mroot(p));
            let got = n1.subrange(pi, n1.len() as int);
            assert(got.len() == want.len());
            assert forall|k: int| 0 <= k < got.len() implies got[k] == want[k] by {
                if k == 0 {
                } else if k < 1 + size(l) {
                    assert(want[k] == final_nodes(l, mroot(r))[k - 1]);
                    if k > 1 { assert(old_l[k - 1] == n0[pi + k]); }
                } else {
                    assert(want[k] == final_nodes(r, mroot(l))[k - 1 - size(l)]);
                    if k > 1 + size(l) { assert(old_r[k - 1 - size(l)] == n0[pi + k]); }
                }
            }
            assert(got =~= want);
        }
    }
}

// ... the popped ancestor had not: its left subtree is finished now, the right one comes next
pub proof fn lemma_climb_left<Pk: MiniscriptKey>(t: Tree<Pk>, nodes: Seq<TrSpendInfoNode<Pk>>, ps0: Seq<(bool, usize)>, ps2: Seq<(bool, usize)>, i: int, ci0: int, h0: TapNodeHash)
    requires climb_inv(t, nodes, ps0, i, ci0, h0), ps0.len() > 0,
    ensures !ps0.last().0 && ps2 == ps0.drop_last().push((true, ps0.last().1)) ==> open_inv(t, nodes, ps2, i + 1) && ps2.len() > 0,
{
    if !ps0.last().0 && ps2 == ps0.drop_last().push((true, ps0.last().1)) {
        let e = ps0.last(); let rest = ps0.drop_last();
        lemma_climb_pop(t, nodes, ps0, i, ci0, h0);
        lemma_flags_pop(ps0);
        lemma_flags_push(rest, (true, e.1));
        lemma_path_push(t, flags(rest), false);
        lemma_path_push(t, flags(rest), true);
    }
}
"""

ITER_INV = r"""
// ================================================================================================================================
// TrSpendInfo / TrSpendInfoIter: representation invariants (derived from the code)
// ================================================================================================================================
// a non-empty node vector is the node list of exactly one tree (lemma_final_nodes_injective), of height <= 128
pub open spec fn nodes_denote<Pk: MiniscriptKey>(nodes: Seq<TrSpendInfoNode<Pk>>, t: Tree<Pk>) -> bool {
    nodes == final_nodes(t, mroot(t)) && height(t) <= 128
}
pub open spec fn nodes_tree<Pk: MiniscriptKey>(nodes: Seq<TrSpendInfoNode<Pk>>) -> Tree<Pk> { choose|t: Tree<Pk>| nodes_denote(nodes, t) }
// no nodes = key-spend only
pub open spec fn nodes_wf<Pk: MiniscriptKey>(nodes: Seq<TrSpendInfoNode<Pk>>) -> bool {
    nodes.len() > 0 ==> exists|t: Tree<Pk>| nodes_denote(nodes, t)
}
pub open spec fn nodes_merkle_root<Pk: MiniscriptKey>(nodes: Seq<TrSpendInfoNode<Pk>>) -> Option<TapNodeHash> {
    if nodes.len() == 0 { None } else { Some(mroot(nodes_tree(nodes))) }
}
pub open spec fn info_tree<Pk: MiniscriptKey>(info: TrSpendInfo<Pk>) -> Tree<Pk> { nodes_tree(info.nodes@) }
pub open spec fn info_wf<Pk: MiniscriptKey>(info: TrSpendInfo<Pk>) -> bool { nodes_wf(info.nodes@) }
pub open spec fn info_merkle_root<Pk: MiniscriptKey>(info: TrSpendInfo<Pk>) -> Option<TapNodeHash> { nodes_merkle_root(info.nodes@) }
// the output key commits to the internal key and the Merkle root (BIP341: Q = P + hash_TapTweak(P || root) G); secp is outside every verifier
pub open spec fn info_keys_ok<Pk: MiniscriptKey>(info: TrSpendInfo<Pk>) -> bool {
    (info.output_key, info.output_key_parity) == spec_tap_tweak(info.internal_key, info_merkle_root(info))
}

// sibling hashes of the proper ancestors of the node a path leads to (what the iterator keeps on its stack between two nodes)
pub open spec fn above<Pk: MiniscriptKey>(t: Tree<Pk>, bits: Seq<bool>) -> Seq<TapNodeHash> {
    if bits.len() == 0 { Seq::empty() } else { sibs(t, bits.drop_last()) }
}
// the iterator is about to visit the node at the end of the path `bits`
pub open spec fn iter_at<Pk: MiniscriptKey>(t: Tree<Pk>, index: int, stack: Seq<TapNodeHash>, bits: Seq<bool>) -> bool {
    path_ok(t, bits) && index == pos_at(t, bits) && stack == above(t, bits)
}
// the subtree at the end of the path `bits` has just been walked completely; `yielded` leaves have been produced so far
pub open spec fn iter_up<Pk: MiniscriptKey>(t: Tree<Pk>, index: int, stack: Seq<TapNodeHash>, bits: Seq<bool>, yielded: int) -> bool {
    &&& path_ok(t, bits)
    &&& index == pos_at(t, bits) + size(sub_at(t, bits))
    &&& stack == above(t, bits)
    &&& yielded == leaves_before(t, bits) + nleaves(sub_at(t, bits))
}
pub open spec fn iter_done<Pk: MiniscriptKey>(t: Tree<Pk>, index: int, stack: Seq<TapNodeHash>, bits: Seq<bool>) -> bool {
    index == size(t) && bits.len() == 0 && stack.len() == 0
}
pub open spec fn iter_inv<Pk: MiniscriptKey>(it: TrSpendInfoIter<'_, Pk>) -> bool {
    let info = *it.spend_info; let t = info_tree(info);
    &&& info_wf(info)
    &&& (info.nodes@.len() > 0 ==> iter_at(t, it.index as int, it.merkle_stack@, it.done_left_stack@) || iter_done(t, it.index as int, it.merkle_stack@, it.done_left_stack@))
}
// number of leaves the iterator has yielded so far
pub open spec fn iter_pos<Pk: MiniscriptKey>(it: TrSpendInfoIter<'_, Pk>) -> nat {
    let info = *it.spend_info; let t = info_tree(info);
    if info.nodes@.len() == 0 { 0 } else if it.index >= info.nodes@.len() { nleaves(t) } else { leaves_before(t, it.done_left_stack@) }
}
pub open spec fn n_leaves_of<Pk: MiniscriptKey>(info: TrSpendInfo<Pk>) -> nat {
    if info.nodes@.len() == 0 { 0 } else { nleaves(info_tree(info)) }
}

pub proof fn lemma_nodes_tree<Pk: MiniscriptKey>(nodes: Seq<TrSpendInfoNode<Pk>>, t: Tree<Pk>)
    requires nodes_denote(nodes, t),
    ensures nodes_wf(nodes), nodes_tree(nodes) == t, nodes.len() == size(t), nodes.len() > 0, nodes[0].sibling_hash == mroot(t),
{
    let t2 = nodes_tree(nodes);
    lemma_final_len(t, mroot(t));
    assert(final_nodes(t, mroot(t)) + Seq::<TrSpendInfoNode<Pk>>::empty() =~= final_nodes(t, mroot(t)));
    assert(final_nodes(t2, mroot(t2)) + Seq::<TrSpendInfoNode<Pk>>::empty() =~= final_nodes(t2, mroot(t2)));
    lemma_final_nodes_injective(t, mroot(t), Seq::empty(), t2, mroot(t2), Seq::empty());
}
pub proof fn lemma_nodes_wf<Pk: MiniscriptKey>(nodes: Seq<TrSpendInfoNode<Pk>>)
    requires nodes_wf(nodes), nodes.len() > 0,
    ensures nodes_denote(nodes, nodes_tree(nodes)), nodes.len() == size(nodes_tree(nodes)), nodes[0].sibling_hash == mroot(nodes_tree(nodes)),
{
    lemma_final_len(nodes_tree(nodes), mroot(nodes_tree(nodes)));
}

// what the iterator finds at the node it is about to visit, and where either continuation leads
pub proof fn lemma_iter_visit<Pk: MiniscriptKey>(t: Tree<Pk>, bits: Seq<bool>)
    requires path_ok(t, bits),
    ensures ({
        let n = final_nodes(t, mroot(t)); let cur = sub_at(t, bits); let k = pos_at(t, bits) as int; let i = leaves_before(t, bits) as int;
        &&& n.len() == size(t)
        &&& k < n.len()
        &&& n[k] == top_node(cur, stored_hash(t, bits))
        &&& (k == 0) == (bits.len() == 0)
        &&& sibs(t, bits).len() == bits.len()
        &&& sibs(t, bits) == (if bits.len() == 0 { Seq::empty() } else { above(t, bits).push(stored_hash(t, bits)) })
        &&& i < nleaves(t)
        // a leaf: the sibling hashes met on the way down, reversed, are its BIP341 path
        &&& (cur is Leaf ==> sibs(t, bits).reverse() == path_of(t, i) && cur == Tree::Leaf(leaf_at(t, i)) && depth_of(t, i) == bits.len()
                             && bits.len() <= height(t) && iter_up(t, k + 1, above(t, bits), bits, i + 1))
        // an inner node: one level down, into its left child
        &&& (cur is Branch ==> iter_at(t, k + 1, sibs(t, bits), bits.push(false)) && leaves_before(t, bits.push(false)) == i
                               && bits.len() < height(t) && k + 1 < n.len())
    }),
{
    let n = final_nodes(t, mroot(t)); let cur = sub_at(t, bits); let k = pos_at(t, bits) as int;
    lemma_path_bounds(t, bits);
    lemma_nodes_at(t, bits);
    lemma_final_len(t, mroot(t));
    lemma_final_len(cur, stored_hash(t, bits));
    lemma_counts(cur, 0);
    assert(n.subrange(k, k + size(cur))[0] == n[k]);
    if cur is Leaf {
        lemma_leaf_via_path(t, bits, 0);
        assert(Seq::<TapNodeHash>::empty() + sibs(t, bits).reverse() =~= sibs(t, bits).reverse());
    } else {
        lemma_path_push(t, bits, false);
        assert(bits.push(false).drop_last() =~= bits);
        lemma_path_bounds(t, bits.push(false));
        lemma_final_len(sub_at(t, bits.push(false)), mroot(t));
    }
}

// after a subtree has been walked: the three things the bit on top of the turn stack can say
pub proof fn lemma_iter_step<Pk: MiniscriptKey>(t: Tree<Pk>, index: int, stack: Seq<TapNodeHash>, bits: Seq<bool>, yielded: int)
    requires iter_up(t, index, stack, bits, yielded),
    ensures
        // nothing above: the walk is over
        bits.len() == 0 ==> iter_done(t, index, stack, bits) && yielded == nleaves(t),
        // it was a left child: its right sibling comes next
        bits.len() > 0 && !bits.last() ==> iter_at(t, index, stack, bits.drop_last().push(true))
                                           && leaves_before(t, bits.drop_last().push(true)) == yielded && index < size(t),
        // it was a right child: the parent is finished as well (its sibling hash leaves the stack, unless the parent is the root)
        bits.len() > 0 && bits.last() ==> iter_up(t, index, if stack.len() > 0 { stack.drop_last() } else { stack }, bits.drop_last(), yielded),
        index <= size(t), bits.len() <= height(t),
{
    lemma_path_bounds(t, bits);
    if bits.len() > 0 {
        let pb = bits.drop_last();
        lemma_path_bounds(t, pb);
        if !bits.last() {
            lemma_path_push(t, pb, true);
            assert(pb.push(true).drop_last() =~= pb);
            lemma_path_bounds(t, pb.push(true));
            lemma_final_len(sub_at(t, pb.push(true)), mroot(t));
        } else if pb.len() > 0 {
            assert(sibs(t, pb).drop_last() =~= sibs(t, pb.drop_last()));
        }
    }
}
// between two calls of next: being at a node means not being at the end
pub proof fn lemma_iter_at_bound<Pk: MiniscriptKey>(t: Tree<Pk>, index: int, stack: Seq<TapNodeHash>, bits: Seq<bool>)
    requires iter_at(t, index, stack, bits),
    ensures index < size(t),
{
    lemma_path_bounds(t, bits);
    lemma_final_len(sub_at(t, bits), mroot(t));
}
"""

BITSTACK_DEFAULT = r"""
impl BitStack128 {
    // #[derive(Default)] written out: all fields zero = the empty stack
    fn default() -> (r: Self)
        ensures r@.len() == 0,
    { BitStack128 { inner: 0, height: 0 } }
}
// the clause families proved by Kani in k15_taptree are exactly the Seq form consumed here
proof fn lemma_bitstack_clauses_are_the_seq_contract(old_s: BitStack128, new_s: BitStack128, bit: bool)
    ensures
        // bitstack_push.{height_plus_one, sets_top_bit, lower_bits_unchanged}
        (new_s.height == old_s.height + 1 && bit_of(new_s.inner, old_s.height as int) == bit
            && (forall|i: int| 0 <= i < old_s.height ==> bit_of(new_s.inner, i) == bit_of(old_s.inner, i))) ==> new_s@ == old_s@.push(bit),
        // bitstack_pop.{height_minus_one, lower_bits_unchanged}; returns_top_bit is old_s@.last() by definition of the view
        (old_s.height > 0 && new_s.height == old_s.height - 1
            && (forall|i: int| 0 <= i < new_s.height ==> bit_of(new_s.inner, i) == bit_of(old_s.inner, i))) ==> new_s@ == old_s@.drop_last()
                && old_s@.last() == bit_of(old_s.inner, old_s.height - 1),
{
    if new_s.height == old_s.height + 1 && bit_of(new_s.inner, old_s.height as int) == bit
        && (forall|i: int| 0 <= i < old_s.height ==> bit_of(new_s.inner, i) == bit_of(old_s.inner, i)) {
        assert(new_s@ =~= old_s@.push(bit));
    }
    if old_s.height > 0 && new_s.height == old_s.height - 1
        && (forall|i: int| 0 <= i < new_s.height ==> bit_of(new_s.inner, i) == bit_of(old_s.inner, i)) {
        assert(new_s@ =~= old_s@.drop_last());
    }
}
"""

END_TO_END = r"""
// what a caller sees, end to end: the i-th item of `tr.spend_info().leaves()` is the i-th entry of the TapTree's list (leaf and depth),
// and its control block folds to the Merkle root the output key commits to
proof fn lemma_leaves_and_depths_are_the_tap_tree_listing<Pk: MiniscriptKey>(tree: TapTree<Pk>, i: int)
    requires tap_tree_wf(tree), 0 <= i < tree.depths_leaves@.len(),
    ensures ({
        let t = denoted(tree);
        &&& nleaves(t) == tree.depths_leaves@.len()
        &&& leaf_at(t, i) == tree.depths_leaves@[i].1
        &&& depth_of(t, i) == tree.depths_leaves@[i].0
        &&& path_of(t, i).len() == tree.depths_leaves@[i].0
        &&& verify_fold(leaf_node_hash(tree.depths_leaves@[i].1), path_of(t, i)) == mroot(t)
    }),
{
    let t = denoted(tree);
    lemma_counts(t, 0);
    let e = tap_listing(tree)[i];
    lemma_path_verifies(t, i, 0);
}
"""


def _novis(text):
    """what vf.raw does to /verif-authored text: one module, no visibility"""
    text = re.sub(r"\bpub\s+open\s+spec\b", "spec", text)
    text = re.sub(r"\bpub\s+closed\s+spec\b", "spec", text)
    return drop_vis(text)


def C(tag, text, props=("C15",)):
    return Clause(tag, props, text)


def _need(m, what):
    if not m:
        raise Undecided("c15_spendinfo: %s not found (anchor lost)" % what)
    return m


def _apply_edits(text, edits):
    """edits: (position, text to insert) / (start, end, replacement); applied right to left."""
    norm = [(e[0], e[0], e[1]) if len(e) == 2 else e for e in edits]
    for s, e, new in sorted(norm, key=lambda x: (x[0], x[1]), reverse=True):
        text = text[:s] + new + text[e:]
    return text


def _block_after(text, header_match):
    """(open, close) of the brace block whose `{` ends the regex match."""
    open_ = header_match.end() - 1
    assert text[open_] == "{"
    return open_, match_close(text, open_)


@rule("R8/R10-merkle-pass")
def annotate_nodes_from_tap_tree(text):
    """Ghost scaffolding for the single pass.  Every local name is read off the text."""
    NODES = _need(re.search(r"let\s+mut\s+(\w+)\s*=\s*(?:vec!\[\]|Vec::new\(\))\s*;", text), "`let mut NODES = vec![];`").group(1)
    STACK = _need(re.search(r"let\s+mut\s+(\w+)\s*=\s*Vec::with_capacity\(\s*128\s*\)\s*;", text), "`let mut STACK = Vec::with_capacity(128);`").group(1)
    mfor = _need(re.search(r"for\s+(\w+)\s+in\s+(\w+)\s*\.leaves\(\)\s*\{", text), "`for LEAF in TREE.leaves() {`")
    LEAF, TREE = mfor.group(1), mfor.group(2)
    DEPTH = _need(re.search(r"let\s+(\w+)\s*=\s*usize::from\(\s*%s\.depth\(\)\s*\)" % LEAF, text), "`let DEPTH = usize::from(LEAF.depth())`").group(1)
    HASH = _need(re.search(r"let\s+mut\s+(\w+)\s*=\s*TapNodeHash::from\(", text), "`let mut HASH = TapNodeHash::from(..)`").group(1)
    mcur = _need(re.search(r"let\s+mut\s+(\w+)\s*=\s*%s\.len\(\)\s*-\s*1\s*;" % NODES, text), "`let mut CUR = NODES.len() - 1;`")
    CUR = mcur.group(1)
    d = dict(NODES=NODES, STACK=STACK, LEAF=LEAF, TREE=TREE, DEPTH=DEPTH, HASH=HASH, CUR=CUR)
    SUB = "sub_at(t, flags(%(STACK)s@))" % d
    d["SUB"] = SUB
    edits = []

    # function body start
    head, ret, where, body = split_fn(text)
    edits.append((len(text) - len(body) + 1, "\n        let ghost t = denoted(*%(TREE)s);\n        proof { lemma_counts(t, 0); }" % d))

    # step 1: `while STACK.len() < DEPTH {`
    m1 = _need(re.search(r"while\s+%(STACK)s\.len\(\)\s*<\s*%(DEPTH)s\s*\{" % d, text), "`while STACK.len() < DEPTH {`")
    o1, c1 = _block_after(text, m1)
    edits.append((o1, ("\n                invariant\n"
                       "                    stack_ok(t, %(NODES)s@, %(STACK)s@), //@inv descend_parent_stack_lists_the_unfinished_ancestors [C15]\n"
                       "                    tt_i == leaves_before(t, flags(%(STACK)s@)), //@inv descend_leaves_are_consumed_in_listing_order [C15]\n"
                       "                    %(NODES)s@.len() == pos_at(t, flags(%(STACK)s@)), //@inv descend_nodes_are_a_preorder_prefix [C15]\n"
                       "                    first_depth(%(SUB)s, %(STACK)s@.len()) == %(DEPTH)s, //@inv descend_next_leaf_hangs_at_its_listed_depth [C15]\n"
                       "                    first_leaf(%(SUB)s) == tt_entry.1, //@inv descend_next_leaf_is_the_listed_leaf [C15]\n"
                       "                decreases %(DEPTH)s - %(STACK)s.len()\n            ") % d))
    edits.append((o1 + 1, "\n                let ghost tt_nd0 = %(NODES)s@; let ghost tt_psd0 = %(STACK)s@;" % d))
    edits.append((c1, "    proof { lemma_descend(t, tt_nd0, tt_psd0, tt_i as int, %(DEPTH)s as nat, %(NODES)s@, %(STACK)s@); }\n            " % d))

    # `assert_eq!(DEPTH, STACK.len());`
    ma = _need(re.search(r"assert_eq!\(\s*([^;]*?)\s*,\s*([^,;]*?)\s*\)\s*;", text[c1:mcur.start()]), "`assert_eq!(DEPTH, STACK.len());` between step 1 and step 3")
    edits.append((c1 + ma.start(), c1 + ma.end(),
                  ("proof { lemma_first_leaf(%(SUB)s, %(STACK)s@.len()); }\n            assert!(%%s == %%s);\n            let ghost tt_nl0 = %(NODES)s@;" % d) % (ma.group(1), ma.group(2))))

    # after `let mut CUR = NODES.len() - 1;`
    edits.append((mcur.end(), ("\n            proof { lemma_leaf_node(t, tt_nl0, %(STACK)s@, tt_i as int, %(NODES)s@); }\n"
                               "            let ghost mut tt_ps = %(STACK)s@;") % d))

    # step 3: `while let Some((FLAG, PIDX)) = STACK.pop() {`
    m3 = _need(re.search(r"while\s+let\s+Some\(\(\s*(\w+)\s*,\s*(\w+)\s*\)\)\s*=\s*%(STACK)s\.pop\(\)\s*\{" % d, text), "`while let Some((FLAG, PIDX)) = STACK.pop() {`")
    FLAG, PIDX = m3.group(1), m3.group(2)
    o3, c3 = _block_after(text, m3)
    edits.append((o3, ("\n                invariant_except_break\n"
                       "                    tt_ps == %(STACK)s@,\n"
                       "                    stack_ok(t, %(NODES)s@, %(STACK)s@), //@inv climb_parent_stack_lists_the_unfinished_ancestors [C15]\n"
                       "                    tt_i + 1 == leaves_before(t, flags(%(STACK)s@)) + nleaves(%(SUB)s), //@inv climb_leaves_are_consumed_in_listing_order [C15]\n"
                       "                    %(CUR)s == pos_at(t, flags(%(STACK)s@)), //@inv climb_cur_index_is_the_root_of_the_finished_subtree [C15]\n"
                       "                    %(NODES)s@.len() == %(CUR)s + size(%(SUB)s), //@inv climb_finished_subtree_is_the_tail_of_nodes [C15]\n"
                       "                    %(NODES)s@.subrange(%(CUR)s as int, %(NODES)s@.len() as int) == final_nodes(%(SUB)s, mroot(%(SUB)s)), //@inv climb_finished_subtree_stores_sibling_hashes [C15]\n"
                       "                    %(HASH)s == mroot(%(SUB)s), //@inv climb_current_hash_is_the_merkle_root_of_the_finished_subtree [C15]\n"
                       "                ensures\n"
                       "                    %(STACK)s@.len() > 0 ==> stack_ok(t, %(NODES)s@, %(STACK)s@), //@inv round_end_parent_stack_lists_the_unfinished_ancestors [C15]\n"
                       "                    %(STACK)s@.len() > 0 ==> tt_i + 1 == leaves_before(t, flags(%(STACK)s@)), //@inv round_end_leaves_are_consumed_in_listing_order [C15]\n"
                       "                    %(STACK)s@.len() > 0 ==> %(NODES)s@.len() == pos_at(t, flags(%(STACK)s@)), //@inv round_end_nodes_are_a_preorder_prefix [C15]\n"
                       "                    %(STACK)s@.len() == 0 ==> done_inv(t, %(NODES)s@, tt_i as int + 1), //@inv round_end_tree_complete_when_stack_empties [C15]\n"
                       "                decreases %(STACK)s.len()\n            ") % d))
    edits.append((o3 + 1, ("\n                let ghost tt_ps0 = tt_ps; let ghost tt_n0 = %(NODES)s@; let ghost tt_ci0 = %(CUR)s as int; let ghost tt_h0 = %(HASH)s;\n"
                           "                proof {\n"
                           "                    let tt_e1 = tt_ps0.drop_last() =~= %(STACK)s@;\n"
                           "                    lemma_climb_pop(t, tt_n0, tt_ps0, tt_i as int, tt_ci0, tt_h0);\n"
                           "                }") % d))
    body3 = text[o3:c3]
    mif = _need(re.search(r"\bif\s+!?\s*%s\s*\{" % FLAG, body3), "`if FLAG {` in the completion loop")
    oi = o3 + mif.end() - 1
    ci = match_close(text, oi)
    edits.append((ci, "    proof { lemma_climb_right(t, tt_n0, tt_ps0, %(NODES)s@, tt_i as int, tt_ci0, tt_h0); tt_ps = %(STACK)s@; }\n                " % d))
    mbr = _need(re.search(r"\bbreak\s*;", text[ci:c3]), "`break;` in the completion loop")
    edits.append((ci + mbr.start(), "proof { lemma_climb_left(t, tt_n0, tt_ps0, %(STACK)s@, tt_i as int, tt_ci0, tt_h0); }\n                    " % d))

    text = _apply_edits(text, edits)
    text = re.sub(r"debug_assert_eq!\(\s*([^;]*?)\s*,\s*([^,;]*?)\s*\)\s*;", r"debug_assert!(\1 == \2);", text)
    text = re.sub(r"debug_assert_ne!\(\s*([^;]*?)\s*,\s*([^,;]*?)\s*\)\s*;", r"debug_assert!(\1 != \2);", text)

    # the outer loop (R8)
    G = "(tt_i == 0 || %(STACK)s@.len() > 0) ==> " % d
    inv = ("                tt_src@ == %(TREE)s.depths_leaves@, tt_i <= tt_src@.len(), denotes(*%(TREE)s, t), tt_src@.len() == nleaves(t),\n"
           "                " + G + "stack_ok(t, %(NODES)s@, %(STACK)s@), //@inv parent_stack_lists_the_unfinished_ancestors [C15]\n"
           "                " + G + "tt_i == leaves_before(t, flags(%(STACK)s@)), //@inv leaves_are_consumed_in_listing_order [C15]\n"
           "                " + G + "%(NODES)s@.len() == pos_at(t, flags(%(STACK)s@)), //@inv nodes_are_a_preorder_prefix [C15]\n"
           "                (tt_i > 0 && %(STACK)s@.len() == 0) ==> done_inv(t, %(NODES)s@, tt_i as int), //@inv tree_complete_when_stack_empties [C15]") % d
    loop = for_slice_loop(
        "for %(LEAF)s in %(TREE)s" % d, "%(TREE)s.depths_leaves.as_slice()" % d, "tt_src", "tt_entry", "tt_i", inv,
        body_pre=("            let %(LEAF)s = TapTreeIterItem { depth: tt_entry.0, node: &tt_entry.1 };\n"
                  "            proof { lemma_round_start(t, %(NODES)s@, %(STACK)s@, tt_i as int); let tt_e0 = tap_listing(*%(TREE)s)[tt_i as int]; }\n") % d,
        after=("        proof {\n"
               "            if %(STACK)s@.len() > 0 { lemma_round_start(t, %(NODES)s@, %(STACK)s@, tt_i as int); }\n"
               "            let tt_e2 = %(NODES)s@.subrange(0, %(NODES)s@.len() as int) =~= %(NODES)s@;\n"
               "            lemma_final_len(t, mroot(t));\n"
               "            lemma_recorded_all(%(NODES)s@, t);\n"
               "        }\n") % d)
    return loop(text)


@rule("R10-iterator-next")
def annotate_next(text):
    MS = _need(re.search(r"let\s+mut\s+(\w+)\s*=\s*self\.merkle_stack\.clone\(\)\s*;", text), "`let mut MS = self.merkle_stack.clone();`").group(1)
    AT = "iter_at(t, self.index as int, self.merkle_stack@, self.done_left_stack@)"
    DONE = "iter_done(t, self.index as int, self.merkle_stack@, self.done_left_stack@)"
    edits = []
    head, ret, where, body = split_fn(text)
    edits.append((len(text) - len(body) + 1,
                  ("\n        let ghost t = info_tree(*self.spend_info);\n"
                   "        let ghost tt_pos0 = iter_pos(*self);\n"
                   "        proof {\n"
                   "            if self.spend_info.nodes@.len() > 0 {\n"
                   "                lemma_nodes_wf(self.spend_info.nodes@);\n"
                   "                if %s { lemma_iter_at_bound(t, self.index as int, self.merkle_stack@, self.done_left_stack@); }\n"
                   "            }\n"
                   "        }") % AT))
    mo = _need(re.search(r"while\s+self\.index\s*<=?\s*self\.spend_info\.nodes\.len\(\)\s*\{", text), "`while self.index < self.spend_info.nodes.len() {`")
    oo, co = _block_after(text, mo)
    edits.append((oo, ("\n            invariant\n"
                       "                self.spend_info == old(self).spend_info, info_wf(*self.spend_info), t == info_tree(*self.spend_info), tt_pos0 == iter_pos(*old(self)),\n"
                       "                self.spend_info.nodes@.len() > 0 ==> nodes_denote(self.spend_info.nodes@, t),\n"
                       "                self.spend_info.nodes@.len() > 0 ==> %s || %s, //@inv stacks_track_the_path_to_the_next_node [C15]\n"
                       "                self.index < self.spend_info.nodes@.len() ==> leaves_before(t, self.done_left_stack@) == tt_pos0, //@inv no_leaf_is_skipped_before_the_next_one [C15]\n"
                       "                self.spend_info.nodes@.len() > 0 && self.index >= self.spend_info.nodes@.len() ==> tt_pos0 == nleaves(t), //@inv end_is_reached_only_after_the_last_leaf [C15]\n"
                       "            decreases self.spend_info.nodes.len() - self.index\n        ") % (AT, DONE)))
    edits.append((oo + 1, ("\n            let ghost tt_bits = self.done_left_stack@;\n"
                           "            proof {\n"
                           "                lemma_nodes_wf(self.spend_info.nodes@);\n"
                           "                lemma_iter_visit(t, tt_bits);\n"
                           "                lemma_path_verifies(t, tt_pos0 as int, 0);\n"
                           "            }")))
    ml = _need(re.search(r"\bloop\s*\{", text), "the `loop {` popping the turn stack")
    ol, cl = _block_after(text, ml)
    edits.append((ml.start(), ("proof {\n"
                               "                    let tt_e1 = %s@ =~= sibs(t, tt_bits).reverse();\n"
                               "                    let tt_e2 = self.merkle_stack@ =~= above(t, tt_bits);\n"
                               "                }\n                ") % MS))
    edits.append((ol, ("\n                    invariant_except_break\n"
                       "                        iter_up(t, self.index as int, self.merkle_stack@, self.done_left_stack@, tt_pos0 as int + 1), //@inv finished_subtrees_are_popped_level_by_level [C15]\n"
                       "                    invariant\n"
                       "                        self.spend_info == old(self).spend_info, nodes_denote(self.spend_info.nodes@, t), self.spend_info.nodes@.len() == size(t),\n"
                       "                    ensures\n"
                       "                        %s || %s, //@inv after_a_leaf_stacks_track_the_path_to_the_next_node [C15]\n"
                       "                        self.index < self.spend_info.nodes@.len() ==> leaves_before(t, self.done_left_stack@) == tt_pos0 + 1, //@inv after_a_leaf_exactly_one_more_leaf_is_behind [C15]\n"
                       "                        self.index >= self.spend_info.nodes@.len() ==> tt_pos0 + 1 == nleaves(t), //@inv after_the_last_leaf_the_end_is_reached [C15]\n"
                       "                    decreases self.done_left_stack@.len()\n                ") % (AT, DONE)))
    edits.append((ol + 1, "\n                    proof { lemma_iter_step(t, self.index as int, self.merkle_stack@, self.done_left_stack@, tt_pos0 as int + 1); }"))
    return _apply_edits(text, edits)


# R10: `.map(|n| n.sibling_hash)` -- the closure gets its parameter type and an `ensures` (ghost annotation only)
CLOSURE_SIBLING = sub("R10-closure-ensures", r"\.map\(\s*\|\s*(\w+)\s*\|\s*\1\s*\.sibling_hash\s*\)",
                      r".map(|\1: &TrSpendInfoNode<Pk>| -> (tt_h: TapNodeHash) ensures tt_h == \1.sibling_hash { \1.sibling_hash })")
NO_SUPER = sub("R7-super", r"\bsuper::", "", required=False)
STRIP_DERIVE = sub("R1-derive", r"#\[derive\([^)]*\)\]\s*", "", required=False)


@rule("R7-mutex-guard")
def mutex_guard(text):
    m = re.search(r"let\s+mut\s+(\w+)\s*=\s*self\s*\.spend_info\s*\.lock\(\)\s*\.(?:unwrap\(\)|expect\(\"[^\"]*\"\))\s*;", text)
    if not m:
        return None
    g = m.group(1)
    text, k1 = re.subn(r"\bmatch\s+\*%s\s*\{" % g, "match *%s.get() {" % g, text)
    text, k2 = re.subn(r"(?<![\w.])\*%s\s*=\s*([^;]*);" % g, r"%s.set(\1);" % g, text)
    if k1 != 1 or k2 < 1:
        return None
    return text


def body_start(ghost):
    @rule("R10-body-start")
    def rw(text):
        head, ret, where, body = split_fn(text)
        return text[:len(text) - len(body)] + "{\n        " + ghost + body[1:]
    return rw


# ----------------------------------------------------------------------------------------------------------------------------------
def build(repo):
    vf = VerusFile(NAME, repo)

    # ---- stubs ----------------------------------------------------------------------------------------------------------------------
    vf.raw(STUBS)
    vf.raw(ASSUME_SPECS, keep_vis=True)
    vf.trust("uninterp spec fns spec_leaf_hash / node_of_leaf / branch_hash / spec_tap_tweak / spec_encode / spec_serialize_xonly / spec_p2tr_address",
             "SHA-256 tagged hashes, the secp256k1 tweak, the Miniscript script encoding (unit c04_encode) and bech32m are outside this unit: uninterpreted; "
             "their exec counterparts (TapLeafHash::from_script, TapNodeHash::{from, from_node_hashes}, XOnlyPublicKey::tap_tweak, Miniscript::encode, "
             "TweakedPublicKey::serialize, Address::p2tr_tweaked; all external_body) return exactly these values")
    vf.trust("axiom_branch_hash_commutes (external_body proof fn)", "BIP341: `if right_h < left_h: swap` before hash_TapBranch, i.e. the branch hash does not depend on the "
             "order of the children; rust-bitcoin TapNodeHash::from_node_hashes implements that rule.  The ONLY property of the hashes that is assumed")
    vf.trust("stub types TapNodeHash / TapLeafHash / XOnlyPublicKey / TweakedPublicKey / Parity / LeafVersion / ScriptBuf (= Script) / Secp256k1 / ControlBlock / "
             "TaprootMerkleBranch / TaprootError / Miniscript / Tap / traits MiniscriptKey, ToPublicKey (to_x_only_pubkey == spec_x_only), ScriptContext",
             "opaque stand-ins for rust-bitcoin / crate types (R7); TaprootMerkleBranch::try_from is Err iff more than 128 hashes (TAPROOT_CONTROL_MAX_NODE_COUNT), "
             "Ok keeps the hashes in order; len() is the number of hashes; Secp256k1::verification_only has no contract")
    vf.trust("assume_specification <[T]>::reverse", "std: reverses the slice in place (final@ == old@.reverse())")

    # ---- the real data types ------------------------------------------------------------------------------------------------------------
    vf.item(TAPTREE, "struct:TapTree", rewrites=[STRIP_DERIVE])
    vf.item(TAPTREE, "struct:TapTreeIterItem", rewrites=[STRIP_DERIVE])
    for name in ("BitStack128", "TrSpendInfo", "TrSpendInfoNode", "LeafData", "TrSpendInfoIter", "TrSpendInfoIterItem"):
        vf.item(SPEND, "struct:" + name, rewrites=[STRIP_DERIVE])
    vf.item(TRMOD, "struct:Tr", rewrites=[STRIP_DERIVE])
    vf.raw(GLUE_STUBS_AND_ORACLE)
    vf.trust("Mutex / MutexGuard / PoisonError stubs with lock_inv (external_body lock / get / set)",
             "std::sync::Mutex under the lock-invariant discipline: lock() yields a content satisfying the mutex' invariant and never reports poisoning (the only code "
             "run under Tr's lock, from_tr, is proved panic-free); get() = Deref, set(v) = DerefMut store, which must re-establish the invariant")
    vf.trust("Builder / Opcode / OP_PUSHNUM_1 / Network / Address stubs (external_body)", "rust-bitcoin script builder: push_opcode appends the opcode byte, push_slice of a 32-byte "
             "array appends 0x20 and the bytes (direct push), into_script keeps the bytes; OP_PUSHNUM_1 = 0x51; Address::p2tr_tweaked is uninterpreted")

    # ---- oracle, representation, loop states (each block is an obligation of its own: the lemmas are proved) ---------------------------------
    vf.spec_obligation("oracle::bip341_tree_merkle_root_and_control_block_fold", _novis(ORACLE), ("C15",))
    vf.spec_obligation("repr::node_list_and_paths", _novis(REPR), ("C15",))
    vf.spec_obligation("repr::merkle_pass_states", _novis(BUILD_INV), ("C15",))
    vf.spec_obligation("repr::iterator_states", _novis(ITER_INV), ("C15",))
    vf.spec_obligation("oracle::leaves_and_depths_are_the_tap_tree_listing", END_TO_END, ("C15",))

    # ---- TapTreeIterItem accessors (taptree.rs) --------------------------------------------------------------------------------------------
    with vf.block("impl<'tr, Pk: MiniscriptKey> TapTreeIterItem<'tr, Pk>"):
        vf.fn(TAPTREE, "impl:TapTreeIterItem<'tr, Pk>/fn:miniscript", qual="TapTreeIterItem", props=("C11",),
              contract=Contract(ensures=[C("field", "r == self.node", ())]))
        vf.fn(TAPTREE, "impl:TapTreeIterItem<'tr, Pk>/fn:depth", qual="TapTreeIterItem", props=("C11",),
              contract=Contract(ensures=[C("field", "r == self.depth", ())]))
        vf.fn(TAPTREE, "impl:TapTreeIterItem<'tr, Pk>/fn:leaf_version", qual="TapTreeIterItem", props=("C11",),
              contract=Contract(ensures=[C("tapscript", "r == LeafVersion::TapScript")]))

    # ---- BitStack128: contracts consumed (proved by Kani, k15_taptree) ---------------------------------------------------------------------------
    with vf.block("impl BitStack128"):
        vf.fn(SPEND, "impl:BitStack128/fn:push", qual="BitStack128", assumed=True,
              contract=Contract(requires=["old(self).height < 128"], ensures=[C("pushes_the_bit", "final(self)@ == old(self)@.push(bit)")]))
        vf.fn(SPEND, "impl:BitStack128/fn:pop", qual="BitStack128", assumed=True,
              contract=Contract(ensures=[C("none_iff_empty", "old(self)@.len() == 0 ==> r is None && *final(self) == *old(self)"),
                                         C("returns_top_bit", "old(self)@.len() > 0 ==> r == Some(old(self)@.last()) && final(self)@ == old(self)@.drop_last()")]))
    vf.trust("BitStack128::{push, pop} (external_body, contract only)",
             "proved COMPLETE by Kani in unit k15_taptree (harnesses bitstack_push, bitstack_pop, bitstack_lifo) with the same clause meaning: push (height < 128): "
             "height + 1, bit `height` = the pushed bit, lower bits unchanged  <=>  view' == view.push(bit); pop: None iff height == 0 (then unchanged), else returns bit "
             "height-1, height - 1, lower bits unchanged  <=>  Some(view.last()), view' == view.drop_last(), over view = [bit i of inner | i < height] "
             "(equivalence proved: lemma_bitstack_clauses_are_the_seq_contract)")
    vf.spec_obligation("BitStack128::default_and_clause_equivalence", BITSTACK_DEFAULT, ("C15", "C11"))
    vf.trust("BitStack128::default (inherent fn written by /verif)", "#[derive(Default)] yields inner = 0, height = 0")

    T = "denoted(*tree)"
    with vf.block("impl<Pk: ToPublicKey> TrSpendInfo<Pk>"):
        vf.fn(SPEND, "impl:TrSpendInfo<Pk>/fn:nodes_from_tap_tree", qual="TrSpendInfo", props=PROPS,
              rewrites=[NO_SUPER, annotate_nodes_from_tap_tree],
              contract=Contract(requires=["tap_tree_wf(*tree)"], ensures=[
                  C("root_entry_is_the_bip341_merkle_root", "r@.len() > 0 && r@[0].sibling_hash == mroot(%s)" % T),
                  C("one_node_per_tree_node", "r@.len() == 2 * tree.depths_leaves@.len() - 1"),
                  C("preorder_nodes_store_sibling_hashes", "r@ == final_nodes(%s, mroot(%s))" % (T, T)),
                  C("recorded_sibling_hashes_are_the_bip341_paths",
                    "forall|i: int| 0 <= i < tree.depths_leaves@.len() ==> #[trigger] recorded_path(r@, 0, %s, i) == path_of(%s, i)" % (T, T)),
                  C("recorded_path_length_is_the_listed_depth",
                    "forall|i: int| 0 <= i < tree.depths_leaves@.len() ==> (#[trigger] recorded_path(r@, 0, %s, i)).len() == tree.depths_leaves@[i].0" % T),
                  C("leaf_entries_carry_the_listed_leaves_in_order",
                    "forall|i: int| 0 <= i < tree.depths_leaves@.len() ==> 0 <= #[trigger] leaf_pos(%s, i) < r@.len() "
                    "&& r@[leaf_pos(%s, i)].leaf_data == Some(leaf_data_of(tree.depths_leaves@[i].1))" % (T, T)),
              ]))
        register_named_invariants(vf, "TrSpendInfo::nodes_from_tap_tree")

        vf.fn(SPEND, "impl:TrSpendInfo<Pk>/fn:from_tr", qual="TrSpendInfo", props=PROPS,
              rewrites=[NO_SUPER, CLOSURE_SIBLING,
                        sub("R10", r"(let\s+(\w+)\s*=\s*match\s+tr\.tap_tree\(\)\s*\{.*?\}\s*;)",
                            r"\1\n        proof { if tr.tree is Some { lemma_nodes_tree(\2@, denoted(tr.tree->Some_0)); } }", flags=re.S)],
              contract=Contract(requires=["tr_tree_wf(*tr)"], ensures=[
                  C("internal_key_is_the_x_only_key", "r.internal_key == tr.internal_key.spec_x_only()"),
                  C("no_tree_no_nodes", "tr.tree is None ==> r.nodes@.len() == 0"),
                  C("nodes_are_the_trees_node_list", "tr.tree matches Some(tt) ==> nodes_denote(r.nodes@, denoted(tt))"),
                  C("output_key_is_internal_key_tweaked_by_the_bip341_merkle_root",
                    "(r.output_key, r.output_key_parity) == spec_tap_tweak(tr.internal_key.spec_x_only(), tree_merkle_root(tr.tree))"),
                  C("is_a_function_of_key_and_tree", "is_spend_info_of(r, *tr)"),
                  C("invariant", "info_wf(r)", ("C15", "C11")),
              ]))
        vf.fn(SPEND, "impl:TrSpendInfo<Pk>/fn:merkle_root", qual="TrSpendInfo", props=PROPS,
              rewrites=[CLOSURE_SIBLING, body_start("proof { if self.nodes@.len() > 0 { lemma_nodes_wf(self.nodes@); } }")],
              contract=Contract(requires=["info_wf(*self)"], ensures=[
                  C("is_the_bip341_merkle_root_of_the_tree", "r == info_merkle_root(*self)"),
                  C("none_iff_key_spend_only", "r is None <==> self.nodes@.len() == 0")]))
        for f, field in (("internal_key", "internal_key"), ("output_key", "output_key"), ("output_key_parity", "output_key_parity")):
            vf.fn(SPEND, "impl:TrSpendInfo<Pk>/fn:" + f, qual="TrSpendInfo", props=("C11",),
                  contract=Contract(ensures=[C("field", "r == self.%s" % field, ())]))
        vf.fn(SPEND, "impl:TrSpendInfo<Pk>/fn:leaves", qual="TrSpendInfo", props=PROPS,
              contract=Contract(requires=["info_wf(*self)"], ensures=[
                  C("invariant", "iter_inv(r)", ("C15", "C11")),
                  C("starts_before_the_first_leaf", "iter_pos(r) == 0"),
                  C("iterates_this_spend_info", "r.spend_info == self")]))

    I = "*old(self).spend_info"
    TI = "info_tree(%s)" % I
    POS = "iter_pos(*old(self)) as int"
    S = "r is Some ==> "
    with vf.block("impl<'sp, Pk: MiniscriptKey> TrSpendInfoIter<'sp, Pk>"):
        vf.fn(SPEND, "impl:Iterator for TrSpendInfoIter<'sp, Pk>/fn:next", qual="TrSpendInfoIter", props=PROPS,
              rewrites=[sub("R7-item-type", r"Option<Self::Item>", "Option<TrSpendInfoIterItem<'sp, Pk>>"), annotate_next],
              contract=Contract(requires=["iter_inv(*old(self))"], ensures=[
                  C("invariant", "iter_inv(*final(self))", ("C15", "C11")),
                  C("same_spend_info", "final(self).spend_info == old(self).spend_info"),
                  C("none_only_after_the_last_leaf", "r is None ==> iter_pos(*old(self)) == n_leaves_of(%s)" % I),
                  C("stays_exhausted", "r is None ==> iter_pos(*final(self)) == n_leaves_of(%s)" % I),
                  C("yields_the_leaves_one_by_one_in_tree_order", S + "iter_pos(*old(self)) < n_leaves_of(%s) && iter_pos(*final(self)) == iter_pos(*old(self)) + 1" % I),
                  C("item_is_the_next_leaf", S + "*r->Some_0.miniscript == leaf_at(%s, %s)" % (TI, POS)),
                  C("script_is_the_leafs_encoding", S + "*r->Some_0.script == spec_encode(**r->Some_0.miniscript)"),
                  C("leaf_hash_is_the_bip341_leaf_hash", S + "r->Some_0.leaf_hash == leaf_tap_hash(*r->Some_0.miniscript)"),
                  C("control_block_version_parity_internal_key", S + "r->Some_0.control_block.leaf_version == LeafVersion::TapScript "
                    "&& r->Some_0.control_block.output_key_parity == old(self).spend_info.output_key_parity "
                    "&& r->Some_0.control_block.internal_key == old(self).spend_info.internal_key"),
                  C("control_block_path_is_the_bip341_sibling_path_bottom_up", S + "r->Some_0.control_block.merkle_branch@ == path_of(%s, %s)" % (TI, POS)),
                  C("control_block_path_length_is_the_leaf_depth", S + "r->Some_0.control_block.merkle_branch@.len() == depth_of(%s, %s) "
                    "&& r->Some_0.control_block.merkle_branch@.len() <= 128" % (TI, POS)),
                  C("control_block_proves_leaf", S + "verify_fold(node_of_leaf(r->Some_0.leaf_hash), r->Some_0.control_block.merkle_branch@) == mroot(%s)" % TI),
              ]))
        register_named_invariants(vf, "TrSpendInfoIter::next")

    with vf.block("impl<'sp, Pk: MiniscriptKey> TrSpendInfoIterItem<'sp, Pk>"):
        for f, post in (("script", "r == self.script"), ("miniscript", "r == self.miniscript"), ("leaf_hash", "r == self.leaf_hash"),
                        ("control_block", "*r == self.control_block"), ("into_control_block", "r == self.control_block")):
            vf.fn(SPEND, "impl:TrSpendInfoIterItem<'sp, Pk>/fn:" + f, qual="TrSpendInfoIterItem", props=("C11",),
                  contract=Contract(ensures=[C("field", post, ())]))
        vf.fn(SPEND, "impl:TrSpendInfoIterItem<'sp, Pk>/fn:leaf_version", qual="TrSpendInfoIterItem", props=("C11",),
              contract=Contract(ensures=[C("field", "r == self.control_block.leaf_version", ())]))
        vf.fn(SPEND, "impl:TrSpendInfoIterItem<'sp, Pk>/fn:depth", qual="TrSpendInfoIterItem", props=PROPS,
              contract=Contract(requires=["self.control_block.merkle_branch@.len() <= 128"], ensures=[
                  C("depth_is_the_path_length", "r as nat == self.control_block.merkle_branch@.len()")]))

    # ---- Tr (tr/mod.rs) ------------------------------------------------------------------------------------------------------------------------
    TRPRE = ["tr_tree_wf(*self)", "tr_cache_inv(*self)"]
    with vf.block("impl<Pk: MiniscriptKey> Tr<Pk>"):
        vf.fn(TRMOD, "impl:Tr<Pk>/fn:internal_key", qual="Tr", props=("C11",), contract=Contract(ensures=[C("field", "r == &self.internal_key", ())]))
        vf.fn(TRMOD, "impl:Tr<Pk>/fn:tap_tree", qual="Tr", props=("C11",),
              contract=Contract(ensures=[C("field", "r == (match self.tree { Some(tt) => Some(&tt), None => None })", ())]))
        vf.fn(TRMOD, "impl:Tr<Pk>/fn:spend_info", qual="Tr", props=PROPS, rewrites=[mutex_guard],
              contract=Contract(requires=TRPRE, ensures=[
                  C("cached_or_fresh_is_a_function_of_key_and_tree", "is_spend_info_of(*r, *self)"),
                  C("output_key_is_internal_key_tweaked_by_the_bip341_merkle_root", "r.output_key == tr_output_key(*self)"),
                  C("invariant", "info_wf(*r)", ("C15", "C11"))]))
    with vf.block("impl<Pk: MiniscriptKey + ToPublicKey> Tr<Pk>"):
        vf.fn(TRMOD, "impl:Tr<Pk>#1/fn:script_pubkey", qual="Tr", props=PROPS,
              rewrites=[sub("R7", r"\bbitcoin::blockdata::script::Builder\b", "Builder"), sub("R7", r"\bopcodes::all::OP_PUSHNUM_1\b", "OP_PUSHNUM_1")],
              contract=Contract(requires=TRPRE, ensures=[
                  C("op_1_push32_output_key", "script_bytes(r) == seq![0x51u8, 0x20u8] + spec_serialize_xonly(tr_output_key(*self))")]))
        vf.fn(TRMOD, "impl:Tr<Pk>#1/fn:address", qual="Tr", props=PROPS,
              contract=Contract(requires=TRPRE, ensures=[C("p2tr_of_the_output_key", "r == spec_p2tr_address(tr_output_key(*self), network)")]))
    return vf
