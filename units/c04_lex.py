"""C04 unit: the tokenizer `lex` (src/miniscript/lex.rs), per-instruction step.

The arms of `match ins.map_err(Error::Script)? { .. }` are cut verbatim into

    fn lex_step(ins: script::Instruction, ret: &mut Vec<Token>) -> Result<(), Error>

bitcoin's `Opcode`, `Instruction`, `PushBytes`, `read_scriptint` and the `OP_*` constants are prelude
stubs; the constants carry the CONSENSUS byte values of Bitcoin Core's script/script.h (table `OPS`
below, written from script.h -- not from the crate, not from rust-bitcoin).

Oracle (outside the code): Bitcoin opcode table + the Miniscript specification's "Bitcoin Script"
column (which opcodes occur at all) + Bitcoin Core's miniscript.cpp::DecomposeScript (fused *VERIFY
opcodes are split into X, VERIFY; a separate VERIFY after CHECKSIG / CHECKMULTISIG / EQUAL / NUMEQUAL
is rejected as non-minimal; OP_1..OP_16 and OP_0 are numbers, OP_1NEGATE is not Miniscript) +
CScriptNum (minimal, at most 4 bytes) for number pushes.
"""
import re

from vlib.verus import VerusFile, Contract, Clause, sub, lit, Undecided

NAME = "c04_lex"
ENGINE = "verus"
PROPS = ("C04", "C11")
LEX = "src/miniscript/lex.rs"
DECODE = "src/miniscript/decode.rs"

DROPPED = [
    "lex: the `for ins in script.instructions_minimal()` loop, `ins.map_err(Error::Script)?`, `Vec::with_capacity` and the final `Ok(ret)` are dropped; "
    "the step is wrapped as `let step_result = match ins { ARMS }; Ok(step_result)`. Minimal-push enforcement (a 1-byte push of 1..16 / 0x81, PUSHDATA "
    "where a direct push fits) happens inside rust-bitcoin's `instructions_minimal()` and is NOT covered here; rust-bitcoin yields OP_0 as "
    "`PushBytes(empty)`, so the `Op(OP_PUSHBYTES_0)` arm is dead in practice (both routes are contracted to give Num(0))",
    "lex PushBytes arm: `<&[u8] as TryInto<[u8; N]>>::try_into` is replaced (R7) by the stub `slice_try_into_array::<N>` (N inferred by rustc exactly as in "
    "the original), `script::read_scriptint` / `PushBytes::{as_bytes,to_owned}` are prelude stubs; nothing is excluded (no R9 in this unit)",
]

# ------------------------------------------------------------------------------------------------
# Bitcoin Core src/script/script.h, enum opcodetype (consensus values)
# ------------------------------------------------------------------------------------------------
OPS = {
    "OP_0": 0x00, "OP_PUSHDATA1": 0x4c, "OP_PUSHDATA2": 0x4d, "OP_PUSHDATA4": 0x4e, "OP_1NEGATE": 0x4f, "OP_RESERVED": 0x50,
    "OP_1": 0x51, "OP_2": 0x52, "OP_3": 0x53, "OP_4": 0x54, "OP_5": 0x55, "OP_6": 0x56, "OP_7": 0x57, "OP_8": 0x58, "OP_9": 0x59,
    "OP_10": 0x5a, "OP_11": 0x5b, "OP_12": 0x5c, "OP_13": 0x5d, "OP_14": 0x5e, "OP_15": 0x5f, "OP_16": 0x60,
    "OP_NOP": 0x61, "OP_VER": 0x62, "OP_IF": 0x63, "OP_NOTIF": 0x64, "OP_VERIF": 0x65, "OP_VERNOTIF": 0x66, "OP_ELSE": 0x67,
    "OP_ENDIF": 0x68, "OP_VERIFY": 0x69, "OP_RETURN": 0x6a,
    "OP_TOALTSTACK": 0x6b, "OP_FROMALTSTACK": 0x6c, "OP_2DROP": 0x6d, "OP_2DUP": 0x6e, "OP_3DUP": 0x6f, "OP_2OVER": 0x70,
    "OP_2ROT": 0x71, "OP_2SWAP": 0x72, "OP_IFDUP": 0x73, "OP_DEPTH": 0x74, "OP_DROP": 0x75, "OP_DUP": 0x76, "OP_NIP": 0x77,
    "OP_OVER": 0x78, "OP_PICK": 0x79, "OP_ROLL": 0x7a, "OP_ROT": 0x7b, "OP_SWAP": 0x7c, "OP_TUCK": 0x7d,
    "OP_CAT": 0x7e, "OP_SUBSTR": 0x7f, "OP_LEFT": 0x80, "OP_RIGHT": 0x81, "OP_SIZE": 0x82,
    "OP_INVERT": 0x83, "OP_AND": 0x84, "OP_OR": 0x85, "OP_XOR": 0x86, "OP_EQUAL": 0x87, "OP_EQUALVERIFY": 0x88,
    "OP_RESERVED1": 0x89, "OP_RESERVED2": 0x8a,
    "OP_1ADD": 0x8b, "OP_1SUB": 0x8c, "OP_2MUL": 0x8d, "OP_2DIV": 0x8e, "OP_NEGATE": 0x8f, "OP_ABS": 0x90, "OP_NOT": 0x91,
    "OP_0NOTEQUAL": 0x92, "OP_ADD": 0x93, "OP_SUB": 0x94, "OP_MUL": 0x95, "OP_DIV": 0x96, "OP_MOD": 0x97, "OP_LSHIFT": 0x98,
    "OP_RSHIFT": 0x99, "OP_BOOLAND": 0x9a, "OP_BOOLOR": 0x9b, "OP_NUMEQUAL": 0x9c, "OP_NUMEQUALVERIFY": 0x9d,
    "OP_NUMNOTEQUAL": 0x9e, "OP_LESSTHAN": 0x9f, "OP_GREATERTHAN": 0xa0, "OP_LESSTHANOREQUAL": 0xa1,
    "OP_GREATERTHANOREQUAL": 0xa2, "OP_MIN": 0xa3, "OP_MAX": 0xa4, "OP_WITHIN": 0xa5,
    "OP_RIPEMD160": 0xa6, "OP_SHA1": 0xa7, "OP_SHA256": 0xa8, "OP_HASH160": 0xa9, "OP_HASH256": 0xaa, "OP_CODESEPARATOR": 0xab,
    "OP_CHECKSIG": 0xac, "OP_CHECKSIGVERIFY": 0xad, "OP_CHECKMULTISIG": 0xae, "OP_CHECKMULTISIGVERIFY": 0xaf,
    "OP_NOP1": 0xb0, "OP_CHECKLOCKTIMEVERIFY": 0xb1, "OP_CHECKSEQUENCEVERIFY": 0xb2, "OP_NOP4": 0xb3, "OP_NOP5": 0xb4,
    "OP_NOP6": 0xb5, "OP_NOP7": 0xb6, "OP_NOP8": 0xb7, "OP_NOP9": 0xb8, "OP_NOP10": 0xb9, "OP_CHECKSIGADD": 0xba,
    "OP_INVALIDOPCODE": 0xff,
}

# rust-bitcoin spells some constants differently; the stub constant of that name gets the consensus
# value of the script.h opcode on the right (trusted: rust-bitcoin's constants have these values).
RUST_BITCOIN_ALIASES = dict(
    [("OP_PUSHBYTES_0", "OP_0"), ("OP_PUSHNUM_NEG1", "OP_1NEGATE"), ("OP_CSV", "OP_CHECKSEQUENCEVERIFY"),
     ("OP_CLTV", "OP_CHECKLOCKTIMEVERIFY")] + [("OP_PUSHNUM_%d" % i, "OP_%d" % i) for i in range(1, 17)])
_RENAMED = set(RUST_BITCOIN_ALIASES.values())


def opcode_consts():
    """`pub const OP_X: Opcode = Opcode { code: 0x.. };` for every opcode under rust-bitcoin's name."""
    out = []
    for name, val in OPS.items():
        if name not in _RENAMED:
            out.append("pub const %s: Opcode = Opcode { code: 0x%02x };" % (name, val))
    for alias, name in RUST_BITCOIN_ALIASES.items():
        out.append("pub const %s: Opcode = Opcode { code: 0x%02x }; // script.h %s" % (alias, OPS[name], name))
    return "\n        ".join(out)


def bitcoin_stubs():
    return r"""
// ---- stubs of the `bitcoin` crate (trusted, listed): opcode constants = consensus values ----------
#[derive(Clone, Copy, PartialEq, Eq, Debug, Hash)]
pub struct Opcode { pub code: u8 }
pub mod opcodes {
    use super::Opcode;
    pub mod all {
        use super::super::Opcode;
        %(consts)s
    }
    pub const OP_TRUE: Opcode = Opcode { code: 0x51 };   // script.h: OP_TRUE = OP_1
    pub const OP_FALSE: Opcode = Opcode { code: 0x00 };  // script.h: OP_FALSE = OP_0
}
""" % dict(consts=opcode_consts())


SCRIPT_STUBS = r"""
pub mod script {
    use vstd::prelude::*;
    use super::Opcode;
    verus!{
    pub struct PushBytes { pub bytes: Vec<u8> }
    pub struct PushBytesBuf { pub bytes: Vec<u8> }
    pub struct Error { pub kind: u8 }
    pub enum Instruction<'a> { PushBytes(&'a PushBytes), Op(Opcode) }
    impl PushBytes {
        pub open spec fn view(&self) -> Seq<u8> { self.bytes@ }
        pub fn as_bytes(&self) -> (r: &[u8]) ensures r@ == self@ { self.bytes.as_slice() }
        #[verifier::external_body]
        pub fn to_owned(&self) -> (r: PushBytesBuf) ensures r.bytes@ == self@ { unimplemented!() }
    }
    // CScriptNum(vch, fRequireMinimal = true, nMaxNumSize = 4)  (Bitcoin Core script/script.h)
    pub open spec fn scriptnum_minimal(b: Seq<u8>) -> bool {
        b.len() == 0 || (b.last() & 0x7f) != 0 || (b.len() > 1 && (b[b.len() - 2] & 0x80) != 0)
    }
    pub open spec fn le_value(b: Seq<u8>) -> int decreases b.len() {
        if b.len() == 0 { 0 } else { b[0] as int + 256 * le_value(b.drop_first()) }
    }
    pub open spec fn pow256(n: nat) -> int decreases n { if n == 0 { 1 } else { 256 * pow256((n - 1) as nat) } }
    pub open spec fn scriptnum_value(b: Seq<u8>) -> int {
        if b.len() == 0 { 0 }
        else if (b.last() & 0x80) != 0 { -(le_value(b) - 0x80 * pow256((b.len() - 1) as nat)) }
        else { le_value(b) }
    }
    pub open spec fn scriptnum_ok(b: Seq<u8>) -> bool { b.len() <= 4 && scriptnum_minimal(b) }
    #[verifier::external_body]
    pub fn read_scriptint(v: &[u8]) -> (r: Result<i64, Error>)
        ensures r is Ok <==> scriptnum_ok(v@),
                r is Ok ==> r->Ok_0 == scriptnum_value(v@) && -0x8000_0000 < r->Ok_0 < 0x8000_0000,
    { unimplemented!() }
    }
}
// std: `impl TryFrom<&[u8]> for [u8; N]` -- Ok iff the slice has exactly N elements, which are copied
#[verifier::external_body]
struct TryFromSliceError {}
#[verifier::external_body]
fn slice_try_into_array<const N: usize>(s: &[u8]) -> (r: Result<[u8; N], TryFromSliceError>)
    ensures r is Ok <==> s@.len() == N, r is Ok ==> r->Ok_0@ == s@,
{ match <[u8; N] as core::convert::TryFrom<&[u8]>>::try_from(s) { Ok(a) => Ok(a), Err(_) => Err(TryFromSliceError {}) } }
"""

# ------------------------------------------------------------------------------------------------
# Oracle: the Miniscript alphabet.  One-opcode/one-token entries: every non-push opcode that occurs in
# the specification's "Bitcoin Script" column (miniscript + tapscript multi_a), with the token that
# names it.  script.h name -> Token variant.
# ------------------------------------------------------------------------------------------------
SINGLE = [
    ("OP_BOOLAND", "BoolAnd"), ("OP_BOOLOR", "BoolOr"), ("OP_ADD", "Add"), ("OP_EQUAL", "Equal"), ("OP_NUMEQUAL", "NumEqual"),
    ("OP_CHECKSIG", "CheckSig"), ("OP_CHECKSIGADD", "CheckSigAdd"), ("OP_CHECKMULTISIG", "CheckMultiSig"),
    ("OP_CHECKSEQUENCEVERIFY", "CheckSequenceVerify"), ("OP_CHECKLOCKTIMEVERIFY", "CheckLockTimeVerify"),
    ("OP_FROMALTSTACK", "FromAltStack"), ("OP_TOALTSTACK", "ToAltStack"), ("OP_DUP", "Dup"), ("OP_IF", "If"), ("OP_IFDUP", "IfDup"),
    ("OP_NOTIF", "NotIf"), ("OP_ELSE", "Else"), ("OP_ENDIF", "EndIf"), ("OP_0NOTEQUAL", "ZeroNotEqual"), ("OP_SIZE", "Size"),
    ("OP_SWAP", "Swap"), ("OP_RIPEMD160", "Ripemd160"), ("OP_HASH160", "Hash160"), ("OP_SHA256", "Sha256"), ("OP_HASH256", "Hash256"),
]
# fused opcodes: X-VERIFY lexes to (X, Verify)
FUSED = [("OP_EQUALVERIFY", "Equal"), ("OP_NUMEQUALVERIFY", "NumEqual"), ("OP_CHECKSIGVERIFY", "CheckSig"),
         ("OP_CHECKMULTISIGVERIFY", "CheckMultiSig")]
# Not in the specification's alphabet but lexed to a dedicated token that no decoder rule consumes
# (decode.rs never mentions it -- checked at build time below), so the script is rejected one stage
# later.  Listed explicitly so that the `invalid_opcode` clause stays exact for every other opcode.
DEAD_TOKENS = [("OP_DROP", "Drop")]


def oracle():
    alpha = " || ".join("c == 0x%02x" % OPS[o] for o, _ in SINGLE + FUSED)
    return r"""
// ---- oracle: Miniscript alphabet over consensus opcode bytes ---------------------------------------
spec fn spec_is_small_num(c: u8) -> bool { c == 0x00 || (0x51 <= c && c <= 0x60) }       // OP_0, OP_1..OP_16
spec fn spec_small_num(c: u8) -> u32 { if c == 0x00 { 0u32 } else { (c - 0x50) as u32 } }  // CScript::DecodeOP_N
spec fn spec_in_alphabet(c: u8) -> bool { %(alpha)s || c == 0x69 || spec_is_small_num(c) }
spec fn spec_dead_token(c: u8) -> bool { %(dead)s }
// a token whose opcode has a fused X-VERIFY form (DecomposeScript: CHECKSIG, CHECKMULTISIG, EQUAL, NUMEQUAL)
spec fn spec_has_fused_verify(t: Token) -> bool { t is Equal || t is NumEqual || t is CheckSig || t is CheckMultiSig }
spec fn op_code(ins: script::Instruction) -> u8 { ins->Op_0.code }
spec fn push_len(ins: script::Instruction) -> nat { ins->PushBytes_0@.len() }
spec fn is_keyhash_len(n: nat) -> bool { n == 20 || n == 32 || n == 33 || n == 65 }
""" % dict(alpha=alpha, dead=" || ".join("c == 0x%02x" % OPS[o] for o, _ in DEAD_TOKENS))


def contract():
    ens = []
    pushes = lambda toks: "r is Ok && final(ret)@ == old(ret)@ + seq![%s]" % ", ".join("Token::%s" % t for t in toks)
    # (a) fused opcodes -> exactly (X, Verify)
    for o, t in FUSED:
        ens.append(Clause("fused_%s" % o[3:], ("C04",), "ins is Op && op_code(ins) == 0x%02x ==> %s" % (OPS[o], pushes([t, "Verify"]))))
    # (b) separate VERIFY after a token with a fused form is non-minimal; one clause per token
    for _, t in FUSED:
        ens.append(Clause("nonminimal_verify_rejected_%s" % t, ("C04",),
                          "ins is Op && op_code(ins) == 0x69 && old(ret)@.len() > 0 && old(ret)@.last() == Token::%s ==> r is Err && r->Err_0 is NonMinimalVerify" % t))
    ens.append(Clause("verify_accepted_otherwise", ("C04",),
                      "ins is Op && op_code(ins) == 0x69 && (old(ret)@.len() == 0 || !spec_has_fused_verify(old(ret)@.last())) ==> " + pushes(["Verify"])))
    # (c) outside the alphabet
    ens.append(Clause("invalid_opcode", ("C04",),
                      "ins is Op && !spec_in_alphabet(op_code(ins)) && !spec_dead_token(op_code(ins)) ==> r is Err && r->Err_0 is InvalidOpcode && r->Err_0->InvalidOpcode_0 == ins->Op_0"))
    ens.append(Clause("OP_1NEGATE_rejected", ("C04",), "ins is Op && op_code(ins) == 0x4f ==> r is Err && r->Err_0 is InvalidOpcode"))
    # (d) OP_0 / OP_1..OP_16
    ens.append(Clause("small_num", ("C04",),
                      "ins is Op && spec_is_small_num(op_code(ins)) ==> r is Ok && final(ret)@ == old(ret)@ + seq![Token::Num(spec_small_num(op_code(ins)))]"))
    # (e) one opcode, one token (its own)
    for o, t in SINGLE + DEAD_TOKENS:
        ens.append(Clause("token_%s" % o[3:], ("C04",), "ins is Op && op_code(ins) == 0x%02x ==> %s" % (OPS[o], pushes([t]))))
    # pushes: 20 / 32 / 33 / 65 bytes are hash / key tokens carrying exactly the pushed bytes ...
    for n, v in ((20, "Hash20"), (32, "Bytes32"), (33, "Bytes33"), (65, "Bytes65")):
        ens.append(Clause("push_%d_is_%s" % (n, v), ("C04",),
                          "ins is PushBytes && push_len(ins) == %d ==> r is Ok && final(ret)@.len() == old(ret)@.len() + 1 && final(ret)@.drop_last() == old(ret)@ "
                          "&& final(ret)@.last() is %s && final(ret)@.last()->%s_0@ == ins->PushBytes_0@" % (n, v, v)))
    # ... every other push must be a minimally encoded, non-negative script number of at most 4 bytes
    ens.append(Clause("push_number_accepted_iff_minimal_nonneg", ("C04",),
                      "ins is PushBytes && !is_keyhash_len(push_len(ins)) ==> (r is Ok <==> script::scriptnum_ok(ins->PushBytes_0@) && script::scriptnum_value(ins->PushBytes_0@) >= 0)"))
    ens.append(Clause("push_number_value", ("C04",),
                      "ins is PushBytes && !is_keyhash_len(push_len(ins)) && r is Ok ==> final(ret)@.len() == old(ret)@.len() + 1 && final(ret)@.drop_last() == old(ret)@ "
                      "&& final(ret)@.last() is Num && final(ret)@.last()->Num_0 as int == script::scriptnum_value(ins->PushBytes_0@)"))
    ens.append(Clause("push_number_error_kind", ("C04",),
                      "ins is PushBytes && !is_keyhash_len(push_len(ins)) && r is Err ==> "
                      "(script::scriptnum_ok(ins->PushBytes_0@) ==> r->Err_0 is NegativeInt) && (!script::scriptnum_ok(ins->PushBytes_0@) ==> r->Err_0 is InvalidInt)"))
    # frame for every accepted instruction: existing tokens untouched, one or two appended
    ens.append(Clause("frame", ("C04", "C11"),
                      "r is Ok ==> old(ret)@.len() < final(ret)@.len() <= old(ret)@.len() + 2 && final(ret)@.subrange(0, old(ret)@.len() as int) == old(ret)@"))
    return Contract(ensures=ens)


def build(repo):
    vf = VerusFile(NAME, repo)
    # the tolerated dead token(s) must really be dead: decode.rs must not consume them
    dec = repo.file(DECODE).text
    for _, tok in DEAD_TOKENS:
        if re.search(r"\b(Tk|Token)::%s\b" % tok, dec):
            raise Undecided("decode.rs now consumes Token::%s: the lexer oracle's dead-token list is out of date" % tok)
    vf.raw(bitcoin_stubs(), keep_vis=True)
    vf.raw(SCRIPT_STUBS, keep_vis=True)
    vf.trust("bitcoin stubs: Opcode, opcodes::all::OP_* (consensus byte values from Bitcoin Core script.h), script::Instruction / PushBytes / PushBytesBuf / Error",
             "external crate reduced to plain data; rust-bitcoin's constants of the same names are assumed to have the consensus values")
    vf.trust("script::read_scriptint (external_body)", "assumed to be CScriptNum decoding with fRequireMinimal and nMaxNumSize = 4: Ok iff <= 4 bytes and minimal, value as specified, |value| < 2^31")
    vf.trust("PushBytes::to_owned (external_body)", "copies the bytes; only used to fill error payloads")
    vf.trust("slice_try_into_array (external_body)", "std `TryFrom<&[u8]> for [u8; N]`: Ok iff len == N, elements copied")
    vf.item(LEX, "enum:Token")
    vf.item(LEX, "enum:Error", rewrites=[
        sub("derive-off", r"#\[derive\([^)]*\)\]\s*", ""),
        lit("R7", "bitcoin::script::PushBytesBuf", "script::PushBytesBuf"),
        lit("R7", "bitcoin::script::Error", "script::Error"),
        lit("R7", "bitcoin::Opcode", "Opcode"),
    ])
    vf.raw(oracle())
    vf.step(LEX, "fn:lex/match:ins.map_err", "lex_step",
            "fn lex_step<'a>(ins: script::Instruction<'a>, ret: &mut Vec<Token>) -> Result<(), Error>",
            contract=contract(), props=PROPS, scrutinee="ins",
            post_match="    let step_result: Result<(), Error> = Ok(step_result);",
            arm_rewrites={
                # R3: reference patterns
                "script::Instruction::Op(opcodes::all::OP_VERIFY)": [sub("R3", r"@\s*&Token::", "@ Token::", required=False)],
                # R7: std slice -> array conversion
                "script::Instruction::PushBytes(bytes)": [lit("R7", "bytes.as_bytes().try_into()", "slice_try_into_array(bytes.as_bytes())")],
            })
    return vf
