"""C09 dispatch unit: ExtData::type_check -- which ExtData row is applied to which Terminal variant, with
which child's figures in which argument position.  The rows themselves are proved by Kani (unit k09_extdata)
on the compiled crate; here each row is an uninterpreted function of its arguments and the dispatcher
(extracted whole) must call the row the fragment kind names, children in source order."""
from vlib.verus import VerusFile, Contract, Clause, sub, lit, replace_arm, DERIVE_TRIM
from units import _tree

NAME = "c09_dispatch"
ENGINE = "verus"
PROPS = ("C09", "C04", "C11")
EXT = _tree.EXT
DROPPED = ["ExtData::type_check: the Thresh arm (closure `|n| thresh.data()[n].ext` passed to ExtData::threshold) is excluded (R9); "
           "ExtData::threshold itself is covered bounded by Kani (k09_extdata c09_thresh_*)"]

UNARY = ["cast_alt", "cast_swap", "cast_check", "cast_dupif", "cast_verify", "cast_nonzero", "cast_zeronotequal"]
BINARY = ["and_b", "and_v", "or_b", "or_d", "or_c", "or_i"]
HASHES = ["sha256", "hash256", "ripemd160", "hash160"]

ROWS = r"""
// ---- the ExtData rows as uninterpreted functions of their arguments (proved row by row in k09_extdata) ----
uninterp spec fn e_pk_k<Pk: MiniscriptKey, Ctx: ScriptContext>(k: Pk) -> ExtData;
uninterp spec fn e_pk_h<Pk: MiniscriptKey, Ctx: ScriptContext>(k: Option<Pk>) -> ExtData;
uninterp spec fn e_multi<Pk: MiniscriptKey>(t: Threshold<Pk, MAX_PUBKEYS_PER_MULTISIG>) -> ExtData;
uninterp spec fn e_sortedmulti<Pk: MiniscriptKey>(t: Threshold<Pk, MAX_PUBKEYS_PER_MULTISIG>) -> ExtData;
uninterp spec fn e_multi_a(k: usize, n: usize) -> ExtData;
uninterp spec fn e_after(t: AbsLockTime) -> ExtData;
uninterp spec fn e_older(t: RelLockTime) -> ExtData;
uninterp spec fn e_and_or(a: ExtData, b: ExtData, c: ExtData) -> ExtData;
%s
#[verifier::external_body]
fn thresh_arm_excluded<Pk: MiniscriptKey, Ctx: ScriptContext>(thresh: &Threshold<Arc<Miniscript<Pk, Ctx>>, 0>) -> ExtData { unimplemented!() }

impl ExtData {
    #[verifier::external_body] fn pk_k<Pk: MiniscriptKey, Ctx: ScriptContext>(pk: &Pk) -> (r: Self) ensures r == e_pk_k::<Pk, Ctx>(*pk) { unimplemented!() }
    #[verifier::external_body] fn pk_h<Pk: MiniscriptKey, Ctx: ScriptContext>(pk: Option<&Pk>) -> (r: Self)
        ensures r == e_pk_h::<Pk, Ctx>(match pk { Some(k) => Some(*k), None => None }) { unimplemented!() }
    #[verifier::external_body] fn multi<Pk: MiniscriptKey>(thresh: &Threshold<Pk, MAX_PUBKEYS_PER_MULTISIG>) -> (r: Self) ensures r == e_multi(*thresh) { unimplemented!() }
    #[verifier::external_body] fn sortedmulti<Pk: MiniscriptKey>(thresh: &Threshold<Pk, MAX_PUBKEYS_PER_MULTISIG>) -> (r: Self) ensures r == e_sortedmulti(*thresh) { unimplemented!() }
    #[verifier::external_body] fn multi_a(k: usize, n: usize) -> (r: Self) ensures r == e_multi_a(k, n) { unimplemented!() }
    #[verifier::external_body] fn after(t: AbsLockTime) -> (r: Self) ensures r == e_after(t) { unimplemented!() }
    #[verifier::external_body] fn older(t: RelLockTime) -> (r: Self) ensures r == e_older(t) { unimplemented!() }
    #[verifier::external_body] fn and_or(a: Self, b: Self, c: Self) -> (r: Self) ensures r == e_and_or(a, b, c) { unimplemented!() }
%s
}
""" % (
    "\n".join(["uninterp spec fn e_%s() -> ExtData;" % h for h in HASHES + ["true_", "false_"]]
              + ["uninterp spec fn e_%s(x: ExtData) -> ExtData;" % u for u in UNARY]
              + ["uninterp spec fn e_%s(l: ExtData, r: ExtData) -> ExtData;" % b for b in BINARY]),
    "\n".join(["    #[verifier::external_body] fn %s() -> (r: Self) ensures r == e_%s() { unimplemented!() }" % (h, h) for h in HASHES]
              + ["    #[verifier::external_body] fn TRUE() -> (r: Self) ensures r == e_true_() { unimplemented!() }",
                 "    #[verifier::external_body] fn FALSE() -> (r: Self) ensures r == e_false_() { unimplemented!() }"]
              + ["    #[verifier::external_body] fn %s(self) -> (r: Self) ensures r == e_%s(self) { unimplemented!() }" % (u, u) for u in UNARY]
              + ["    #[verifier::external_body] fn %s(l: Self, r: Self) -> (o: Self) ensures o == e_%s(l, r) { unimplemented!() }" % (b, b) for b in BINARY]),
)


def cases():
    out = []

    def case(v, text):
        out.append((v, "*fragment is %s" % v, [Clause("row", ("C09", "C04"), text)]))
    case("True", "r == e_true_()")
    case("False", "r == e_false_()")
    case("PkK", "*fragment matches Terminal::PkK(k) ==> r == e_pk_k::<Pk, Ctx>(k)")
    case("PkH", "*fragment matches Terminal::PkH(k) ==> r == e_pk_h::<Pk, Ctx>(Some(k))")
    case("RawPkH", "r == e_pk_h::<Pk, Ctx>(None)")
    case("Multi", "*fragment matches Terminal::Multi(t) ==> r == e_multi(t)")
    case("SortedMulti", "*fragment matches Terminal::SortedMulti(t) ==> r == e_sortedmulti(t)")
    case("MultiA", "*fragment matches Terminal::MultiA(t) ==> r == e_multi_a(t.spec_k(), t.spec_n() as usize)")
    case("SortedMultiA", "*fragment matches Terminal::SortedMultiA(t) ==> r == e_multi_a(t.spec_k(), t.spec_n() as usize)")
    case("After", "*fragment matches Terminal::After(t) ==> r == e_after(t)")
    case("Older", "*fragment matches Terminal::Older(t) ==> r == e_older(t)")
    for v, h in (("Sha256", "sha256"), ("Hash256", "hash256"), ("Ripemd160", "ripemd160"), ("Hash160", "hash160")):
        case(v, "r == e_%s()" % h)
    for v, u in (("Alt", "cast_alt"), ("Swap", "cast_swap"), ("Check", "cast_check"), ("DupIf", "cast_dupif"), ("Verify", "cast_verify"),
                 ("NonZero", "cast_nonzero"), ("ZeroNotEqual", "cast_zeronotequal")):
        case(v, "*fragment matches Terminal::%s(x) ==> r == e_%s(x.ext)" % (v, u))
    for v, b in (("AndB", "and_b"), ("AndV", "and_v"), ("OrB", "or_b"), ("OrD", "or_d"), ("OrC", "or_c"), ("OrI", "or_i")):
        case(v, "*fragment matches Terminal::%s(x, y) ==> r == e_%s(x.ext, y.ext)" % (v, b))
    case("AndOr", "*fragment matches Terminal::AndOr(x, y, z) ==> r == e_and_or(x.ext, y.ext, z.ext)")
    out.append(("Thresh", "*fragment is Thresh", []))
    return out


def build(repo):
    vf = VerusFile(NAME, repo)
    _tree.emit(vf, ext="none", types="defs")
    # ExtData is an opaque Copy value here: its fields are irrelevant for the dispatch
    vf.raw("#[derive(Clone, Copy, PartialEq, Eq)]\nstruct ExtData { opaque: u64 }\n")
    vf.raw(ROWS)
    vf.trust("ExtData::{pk_k .. and_or, TRUE, FALSE} (external_body, each `r == e_<row>(args)` with e_<row> uninterpreted)",
             "the rows are proved one by one by Kani on the compiled crate (unit k09_extdata); this unit only decides WHICH row is applied to WHICH arguments")
    vf.trust("thresh_arm_excluded (external_body)", "R9: Thresh arm of ExtData::type_check not verified here")
    with vf.block("impl ExtData"):
        vf.fn(EXT, "impl:ExtData#1/fn:type_check", qual="ExtData", props=("C09", "C04", "C11"), rewrites=[
            replace_arm("*fragment", "Terminal::Thresh(ref thresh)", "thresh_arm_excluded(thresh)", rule_name="R9"),
            sub("R12", r"\bSelf::(TRUE|FALSE)\b(?!\s*\()", r"Self::\1()"),
        ], contract=Contract(requires=[
            "*fragment matches Terminal::MultiA(t) ==> t.spec_n() <= usize::MAX",
        ]), cases=cases())
    return vf
