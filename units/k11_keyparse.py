"""C11 -- the descriptor-key text parser never panics (Kani, BOUNDED).

`parse_key_origin` (src/descriptor/key.rs) slices its input at byte offsets (`s[1..]`; its caller
`DescriptorPublicKey::from_str` slices the returned key part at `[0..2]`).  These slices are panic-free only
because of the byte-level ASCII guard at the top of the function.  The harnesses run the REAL function on every
valid UTF-8 string (symbolic bytes filtered by the real `core::str::from_utf8`) up to the stated length and require
that no panic / failed slice-boundary check is reachable, and that an accepted key part is pure ASCII (what the
caller's `key_part[0..2]` relies on).  A 2-byte first character (e.g. U+00E9) is enough to trip a guard that lets
non-ASCII text through.

Out of reach (stated): `DescriptorPublicKey::from_str` itself rejects everything shorter than 64 bytes before it
calls `parse_key_origin`; symbolic 64..66-byte strings through UTF-8 validation, `str::split`, base58 / hex / secp
parsing are far beyond CBMC's budget.  `parse_xkey_deriv` needs a base58-decoded xpub (78 bytes + checksum, SHA-256d)
before any derivation-step parsing happens: not attempted.
"""
NAME = "k11_keyparse"
ENGINE = "kani"
PROPS = ("C11",)
INJECT = [("src/descriptor/key.rs", "contracts/kani/k11_keyparse.rs")]
TRUSTED = [
    "Kani/CBMC; core::str::{from_utf8, split, chars}, bip32 types executed as compiled",
    "k11_keyparse: core::str::slice_error_fail (cold panic path of a failed &str slice; recursive, formats) stubbed by a plain panic carrying the obligation tag",
    "k11_keyparse: bip32::Fingerprint::from_hex stubbed by a PANICKING stub: within the bound (<= 3 bytes) the 8-character fingerprint check in front of it always fails, "
    "so the call is unreachable -- the harness proves that (a reachable stub fails the harness); the stub only lets CBMC cut the hex / Vec / integer parsing code behind it",
    "kani::assume only restricts the symbolic length to the stated bound",
]
DROPPED = [
    "DescriptorPublicKey::from_str / DescriptorSecretKey::from_str / parse_xkey_deriv on symbolic input: from_str rejects everything below 64 bytes before parse_key_origin runs; symbolic 64..66-byte strings through UTF-8 validation, str::split, base58 + SHA-256d + secp256k1 FFI are out of CBMC's reach (parse_key_origin alone on 2 symbolic bytes WITHOUT the from_hex cut: > 15 min, > 8 GB)",
    "parse_key_origin on strings long enough to reach Fingerprint::from_hex / ChildNumber::from_str (>= 10 bytes): not within the 120 s budget",
    "termination / allocation bounds on arbitrary-length input: not decided",
]
KANI_ARGS = ["--no-assertion-reach-checks"]

T = ["C11:keyparse.str_slice_on_char_boundary", "C11:keyparse.accepted_key_part_is_ascii", "C11:keyparse.bound_does_not_reach_fingerprint_parser"]
HARNESSES = [
    dict(name="parse_key_origin_no_panic_utf8_len01", fn="parse_key_origin", props=("C11",), kind="bounded",
         bound="every valid UTF-8 string of 0 or 1 bytes", tier="quick", tags=T + ["C11:keyparse.empty_key_rejected"]),
    dict(name="parse_key_origin_no_panic_utf8_len2", fn="parse_key_origin", props=("C11",), kind="bounded",
         bound="every valid UTF-8 string of exactly 2 bytes (incl. every 2-byte character U+0080..U+07FF)", tier="quick", tags=T),
    dict(name="parse_key_origin_no_panic_utf8_len3", fn="parse_key_origin", props=("C11",), kind="bounded",
         bound="every valid UTF-8 string of exactly 3 bytes (incl. every 3-byte character and 2-byte + ASCII mixes)", tier="quick", tags=T),
]
