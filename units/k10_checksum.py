"""C10 (checksum half) -- the descriptor checksum engine against BIP380's reference code.

Proof structure (Kani, real `Engine` compiled with the real `bech32` crate):
  engine_new                 initial state == descsum_polymod's `chk = 1`, no pending groups
  engine_step_inductive      COMPLETE: from EVERY invariant state and every charset character, one real
                             input_unchecked step == one iteration of descsum_expand/descsum_polymod; invariant kept
  checksum_chars_inductive   COMPLETE: from EVERY invariant state, checksum_chars() == descsum_create's characters
  charset_*                  COMPLETE: CHAR_MAP == INPUT_CHARSET.find on all 256 bytes / all `char`s; rejection exact
=> by induction on the string length, Engine::checksum == descsum_create for every string (the induction itself is
   the standard argument, listed as assumption).  Bounded twins without the transmute: engine_reachable_le4.
  verify_checksum_*          BOUNDED: short strings of fixed shape with symbolic characters against descsum_check.
The error-detection guarantee (any 1-2 substitutions, <= 4 inside the first group) is a theorem about BIP380's
polynomial code, not about this implementation: assumed mathematics.
"""
NAME = "k10_checksum"
ENGINE = "kani"
PROPS = ("C10", "C11")
INJECT = [("src/descriptor/checksum.rs", "contracts/kani/k10_checksum.rs")]
TRUSTED = [
    "Kani/CBMC; the bech32 crate's checksum::Engine / Fe32 are executed as compiled (not stubbed)",
    "engine_with(): an arbitrary residue is installed in bech32's Engine<DescriptorChecksum> (single private u64 field) "
    "by core::mem::transmute; engine_new.transmute_installs_residue checks the transmute on a sample value",
    "induction over the string length: initial state + inductive step + finalisation => whole-string equality with "
    "descsum_create (standard argument, not mechanised)",
    "assumed mathematics: BIP380's code detects any 1-2 character substitutions and up to 4 substitutions inside "
    "the first character group (property of the generator polynomial, stated in BIP380)",
    "kani::assume only restricts symbolic inputs to the stated domain (charset characters, invariant states)",
]
# one SAT call for all assertions instead of one reachability query per assertion (x2-x200 faster; the driver only
# consumes kani::cover! results, not assertion reachability)
KANI_ARGS = ["--no-assertion-reach-checks"]
DROPPED = [
    "checksum::Formatter (fmt::Write wrapper): core::fmt machinery; it feeds the same Engine::input piecewise",
    "Display/FromStr round trips of descriptors (text half of C10): not decided by this unit",
]

HARNESSES = [
    dict(name="charset_table_complete", fn="CHAR_MAP / charset test", props=("C10", "C11"), kind="complete",
         tags=["C10:charset.accepts_exactly_input_charset", "C10:charset.char_map_is_input_charset_find"]),
    dict(name="charset_bytes_complete", fn="CHAR_MAP index domain", props=("C10", "C11"), kind="complete",
         tags=["C10:charset.table_domain_is_input_charset", "C10:charset.char_map_is_input_charset_find",
               "C10:charset.char_map_in_range"]),
    dict(name="charset_ref_table", fn="harness oracle (tabulated INPUT_CHARSET.find)", props=("C10",), kind="complete",
         tags=["C10:charset.tabulated_oracle_is_str_find"]),
    dict(name="engine_input_one_ascii", fn="Engine::input", props=("C10", "C11"), kind="bounded", bound="all 128 one-byte strings",
         tags=["C10:engine_input.rejects_exactly_non_charset", "C10:engine_input.error_names_char",
               "C10:engine_input.state_is_bip380"]),
    dict(name="engine_new", fn="Engine::new", props=("C10", "C11"), kind="complete",
         tags=["C10:engine_new.state_is_bip380_initial", "C10:engine_new.transmute_installs_residue"]),
    dict(name="engine_step_inductive", fn="Engine::input_unchecked", props=("C10", "C11"), kind="complete",
         tags=["C10:engine_step.abstraction_well_formed", "C10:engine_step.polymod_is_bip380",
               "C10:engine_step.group_count_is_bip380", "C10:engine_step.group_value_is_bip380",
               "C10:engine_step.invariant_preserved"]),
    dict(name="checksum_chars_inductive", fn="Engine::checksum_chars", props=("C10", "C11"), kind="complete",
         tags=["C10:checksum_chars.is_descsum_create"]),
    dict(name="engine_reachable_le4", fn="Engine::{new,input_unchecked,checksum_chars}", props=("C10", "C11"),
         kind="bounded", bound="every string of <= 4 charset characters",
         tags=["C10:engine_reachable.state_is_bip380", "C10:engine_reachable.checksum_is_descsum_create"]),
] + [
    dict(name=n, fn="verify_checksum", props=("C10", "C11"), kind="bounded", bound=b, tags=t,
         tier="thorough" if n in ("verify_checksum_one_char_len8", "verify_checksum_two_hashes", "verify_checksum_long") else "quick")
    for n, b, t in [
        ("verify_checksum_no_hash", "2 symbolic characters, no '#'", ["C10:verify_checksum.no_hash_is_payload"]),
        ("verify_checksum_one_char_len8", "1 payload char + '#' + 8 symbolic chars",
         ["C10:verify_checksum.ok_iff_descsum_check", "C10:verify_checksum.returns_payload",
          "C10:verify_checksum.error_reports_expected", "C10:verify_checksum.error_kind"]),
        ("verify_checksum_nopayload_len8", "'#' + 8 symbolic chars",
         ["C10:verify_checksum.ok_iff_descsum_check", "C10:verify_checksum.returns_payload",
          "C10:verify_checksum.error_reports_expected", "C10:verify_checksum.error_kind"]),
        ("verify_checksum_short", "1 payload char + '#' + 7 chars", ["C10:verify_checksum.wrong_length_rejected"]),
        ("verify_checksum_long", "1 payload char + '#' + 9 chars", ["C10:verify_checksum.wrong_length_rejected"]),
        ("verify_checksum_empty_tail", "1 payload char + '#'", ["C10:verify_checksum.wrong_length_rejected"]),
        ("verify_checksum_two_hashes", "'a##' + 8 symbolic chars",
         ["C10:verify_checksum.last_hash_delimits", "C10:verify_checksum.returns_payload"]),
        ("verify_checksum_invalid_char", "'a' + one symbolic non-printable / non-ASCII char",
         ["C10:verify_checksum.invalid_char_rejected"]),
    ]
]
