"""C20 (Verus): key translation and key iteration of POLICIES, per node.

`Concrete::translate_pk` (src/policy/concrete.rs) and `Semantic::translate_pk` (src/policy/semantic.rs) are
"rtl-post-order loop + per-node match": the arms of the match are cut verbatim into a step (vf.step).  The
rtl traversal pushes the children right-to-left, so child 0 of the node is on TOP of the stack:
`child(S, i) = S[len - 1 - i]`.  `for_each_key` / `keys` apply a per-node `match policy { .. }` inside
`pre_order_iter().all(..)` / `.filter_map(..)`: that match is the step.

Oracle (not the code): functor laws of a structure-preserving key map.  With `f = T::spec_*` the (uninterpreted,
possibly failing) key / hash maps of the `Translator`: the rebuilt node is the SAME variant; child i of the result is
the already translated child i; for `Or` every child keeps ITS OWN odds (the pair (prob_i, child_i)); `And` keeps the
order; `Thresh` keeps k and the order; keys / hashes are mapped pointwise; lock times untouched; the step fails iff
the key / hash map fails.  for_each_key presents exactly the key of a Key node to the predicate and continues on every
other node; keys yields exactly that key.

Rewrites of the closure plumbing in the n-ary arms (the closure BODIES stay the text of /repo):
  R8  `(0..subs.len()).map(|_| BODY).collect()`                 -> `{ let mut v = Vec::new(); let mut i = 0;
                                                                      while i < subs.len() { v.push(BODY); i += 1; } v }`
  R8  `subs.iter().map(|(prob, _)| BODY).collect()`             -> the same loop with `let (prob, _) = &subs[i];` in front
  R9  `thresh.map_ref(|_| translated.pop().unwrap())`           -> stub map_ref_pop (Threshold::map_ref's contract
                                                                   instantiated with the popping closure)
  R12 `.map(Key)` (a constructor used as a function value)      -> eta-expanded closure with its `ensures`
Alternative plumbing that is also understood (so that a restructured arm is judged, not lost):
  R15 `translated.split_off(translated.len() - n)` -> vec_split_off;  `xs.into_iter().rev().collect()` -> vec_rev_collect;
      `subs.iter().zip(xs).rev().map(|((prob, _), sub)| (*prob, sub)).collect()` -> zip_rev_probs (std semantics:
      pair j of the zip is (subs[j].0, xs[j]); `rev` yields them last to first)
"""
import re

from vlib.verus import VerusFile, Contract, Clause, sub, lit, rule, Undecided
from units import _tree
from units import c18_semantic as S
from units import c20_translate as C20

NAME = "c20_policy"
ENGINE = "verus"
PROPS = ("C20", "C11")
SEM = "src/policy/semantic.rs"
CONC = "src/policy/concrete.rs"
DROPPED = [
    "translate_pk (concrete and semantic): the `for data in self.rtl_post_order_iter()` loop, `translated.push(Arc::new(new_policy))` and the epilogue `Arc::try_unwrap(translated.pop().unwrap()).unwrap()` are dropped (per-node step; traversal order is the contract of iter/tree.rs)",
    "n-ary arms: the iterator chains around the popping closures are rewritten to index loops (R8, closure body verbatim) / the stub map_ref_pop (R9); `.map(Key)` etc. are eta-expanded (R12)",
    "for_each_key / keys: only the per-node `match policy {..}` inside `.all(..)` / `.filter_map(..)`; the pre-order iteration and the short-circuit of `all` are not verified",
    "translate_unsatisfiable_pk and the whole-tree induction are not in this unit",
]


def translator_stub():
    t = C20.PRELUDE
    try:
        s = t.index("trait Translator<P: MiniscriptKey>")
        return t[s:t.index("\n}\n", s) + 3]
    except ValueError:
        raise Undecided("c20_translate.PRELUDE no longer contains the Translator stub")


PRELUDE = r"""
// what the rtl-post-order iterator yields (only the field the steps read)
struct PostOrderIterItem<T> { node: T }
// the children of a node with n children: the top n stack entries, child 0 on top
spec fn child<U>(st: Seq<U>, i: int) -> U { st[st.len() - 1 - i] }
spec fn children_seq<U>(st: Seq<U>, n: nat) -> Seq<U> { Seq::new(n, |i: int| st[st.len() - 1 - i]) }

// R9 stub for `thresh.map_ref(|_| stack.pop().unwrap())`: map_ref keeps k and maps the elements in order; the closure
// pops once per element
#[verifier::external_body]
fn map_ref_pop<T, U, const MAX: usize>(thresh: &Threshold<T, MAX>, stack: &mut Vec<U>) -> (r: Threshold<U, MAX>)
    requires old(stack)@.len() >= thresh.inner@.len(),
    ensures r.k == thresh.k,
            r.inner@ == children_seq(old(stack)@, thresh.inner@.len()),
            final(stack)@ == old(stack)@.take(old(stack)@.len() - thresh.inner@.len()),
{ unimplemented!() }

// R15 stubs for the alternative plumbing (std semantics)
#[verifier::external_body]
fn vec_split_off<U>(v: &mut Vec<U>, at: usize) -> (r: Vec<U>)
    requires at <= old(v)@.len(),
    ensures final(v)@ == old(v)@.take(at as int), r@ == old(v)@.skip(at as int),
{ unimplemented!() }
#[verifier::external_body]
fn vec_rev_collect<U>(v: Vec<U>) -> (r: Vec<U>)
    ensures r@.len() == v@.len(), forall|i: int| 0 <= i < v@.len() ==> #[trigger] r@[i] == v@[v@.len() - 1 - i],
{ unimplemented!() }
// subs.iter().zip(xs).rev().map(|((prob, _), sub)| (*prob, sub)).collect(): the zip pairs index j with index j; rev
// yields the pairs last to first
#[verifier::external_body]
fn zip_rev_probs<A, U>(subs: &Vec<(usize, A)>, xs: Vec<U>) -> (r: Vec<(usize, U)>)
    requires subs@.len() == xs@.len(),
    ensures r@.len() == xs@.len(), forall|i: int| 0 <= i < xs@.len() ==> #[trigger] r@[i] == (subs@[xs@.len() - 1 - i].0, xs@[xs@.len() - 1 - i]),
{ unimplemented!() }

spec fn carity<Pk: MiniscriptKey>(p: Concrete<Pk>) -> nat {
    match p { Concrete::And(subs) => subs@.len(), Concrete::Or(subs) => subs@.len(), Concrete::Thresh(th) => th.inner@.len(), _ => 0 }
}
spec fn sarity<Pk: MiniscriptKey>(p: Semantic<Pk>) -> nat {
    match p { Semantic::Thresh(th) => th.inner@.len(), _ => 0 }
}
"""

# ---- R8: the two closure shapes of the And / Or arms -> index loops, closure body verbatim ----------------------
LOOP = ("{{\n                    let ghost st0 = translated@;\n                    let mut new_subs = Vec::new();\n                    let mut i: usize = 0;\n"
        "                    while i < subs.len()\n                        invariant\n"
        "                            i <= subs@.len(), st0.len() >= subs@.len(), new_subs@.len() == i,\n"
        "                            translated@ == st0.take(st0.len() - i),\n"
        "                            {inv}\n"
        "                        decreases subs@.len() - i,\n                    {{\n{pre}"
        "                        new_subs.push({body});\n                        i += 1;\n                    }}\n                    new_subs\n                }}")


@rule("R8-closure-map-collect-to-index-loop")
def closures_to_loops(text):
    n = 0
    m = re.search(r"\(0\.\.subs\.len\(\)\)\.map\(\|_\| (translated\.pop\(\)\.unwrap\(\))\)\.collect\(\)", text)
    if m:
        new = LOOP.format(inv="forall|q: int| 0 <= q < i ==> #[trigger] new_subs@[q] == child(st0, q),", pre="", body=m.group(1))
        text = text[:m.start()] + new + text[m.end():]
        n += 1
    m = re.search(r"subs\s*\.iter\(\)\s*\.map\(\|(\(prob, _\))\| (\(\*prob, translated\.pop\(\)\.unwrap\(\)\))\)\s*\.collect\(\)", text)
    if m:
        new = LOOP.format(inv="forall|q: int| 0 <= q < i ==> #[trigger] new_subs@[q] == (subs@[q].0, child(st0, q)),",
                          pre="                        let %s = &subs[i];\n" % m.group(1), body=m.group(2))
        text = text[:m.start()] + new + text[m.end():]
        n += 1
    return text if n else text


@rule("R15-alternative-plumbing")
def alt_plumbing(text):
    text = re.sub(r"translated\.split_off\(translated\.len\(\) - subs\.len\(\)\)", "vec_split_off(translated, translated.len() - subs.len())", text)
    text = re.sub(r"new_subs\.into_iter\(\)\.rev\(\)\.collect\(\)", "vec_rev_collect(new_subs)", text)
    text = re.sub(r"subs\s*\.iter\(\)\s*\.zip\(new_subs\)\s*\.rev\(\)\s*\.map\(\|\(\(prob, _\), sub\)\| \(\*prob, sub\)\)\s*\.collect\(\)", "zip_rev_probs(subs, new_subs)", text)
    return text


def nary_rewrites(which):
    """Either the closure shape of /repo (-> loops) or the alternative plumbing must be present in the arm."""
    @rule("R8/R15-nary-arm-%s" % which)
    def rw(text):
        new = alt_plumbing(closures_to_loops(text))
        return None if new == text else new
    return [rw]


def eta(ctor, ty, target):
    """R12: `.map(Ctor)` -> closure with ensures (Verus has no constructor-as-function values)."""
    return lit("R12-eta", ".map(%s)" % ctor,
               ".map(|x: %s| -> (o: %s) ensures o == %s::%s(x) { %s(x) })" % (ty, target, target.replace("<", "::<", 1), ctor, ctor))


TP = "T::TargetPk"
HASHES = [("Sha256", "sha256"), ("Hash256", "hash256"), ("Ripemd160", "ripemd160"), ("Hash160", "hash160")]


def leaf_clauses(N, enum):
    tgt = "%s::<%s>" % (enum, TP)
    cl = [Clause("constants", ("C20",), "(%s is Trivial ==> r == Ok::<_, T::Error>(%s::Trivial)) && (%s is Unsatisfiable ==> r == Ok::<_, T::Error>(%s::Unsatisfiable))" % (N, tgt, N, tgt)),
          Clause("key_mapped", ("C20",), "%s matches %s::Key(pk) ==> (r is Ok <==> T::spec_pk(pk) is Ok) && (r is Ok ==> r->Ok_0 == %s::Key(T::spec_pk(pk)->Ok_0)) && (r is Err ==> T::spec_pk(pk) == Err::<%s, T::Error>(r->Err_0))" % (N, enum, tgt, TP)),
          Clause("locks_untouched", ("C20",), "(%s matches %s::After(n) ==> r == Ok::<_, T::Error>(%s::After(n))) && (%s matches %s::Older(n) ==> r == Ok::<_, T::Error>(%s::Older(n)))" % (N, enum, tgt, N, enum, tgt))]
    for v, f in HASHES:
        cl.append(Clause("%s_mapped" % f, ("C20",), "%s matches %s::%s(h) ==> (r is Ok <==> T::spec_%s(h) is Ok) && (r is Ok ==> r->Ok_0 == %s::%s(T::spec_%s(h)->Ok_0))" % (N, enum, v, f, tgt, v, f)))
    return cl


def build(repo):
    vf = VerusFile(NAME, repo)
    vf.raw(S.KEY_STUBS, keep_vis=True)
    vf.trust("prelude stubs MiniscriptKey / AbsLockTime / RelLockTime", "out-of-unit types reduced to opaque values")
    vf.raw(translator_stub())
    vf.trust("trait Translator (stub shared with c20_translate)", "the key / hash maps are uninterpreted, possibly failing functions of the key (spec_pk, spec_sha256, ..)")
    vf.item(_tree.THRESH, "struct:Threshold", rewrites=[sub("derive-off", r"#\[derive\([^)]*\)\]\s*", "", required=False)])
    vf.raw(S.THRESH_SPEC)
    strip = sub("derive-off", r"#\[derive\([^)]*\)\]\s*", "")
    vf.item(SEM, "enum:Policy", rewrites=[strip, sub("R7-rename", r"\benum Policy<", "enum Semantic<")])
    vf.item(CONC, "enum:Policy", rewrites=[strip, sub("R7-rename", r"\benum Policy<", "enum Concrete<")])
    vf.raw(PRELUDE)
    vf.trust("map_ref_pop (external_body)", "R9: Threshold::map_ref keeps k and maps the elements in order (its `iter().map(f).collect()` is verified in c20_translate modulo the std wrapper); the closure pops once per element")
    vf.trust("vec_split_off / vec_rev_collect / zip_rev_probs (external_body)", "R15: std semantics of Vec::split_off, into_iter().rev().collect(), iter().zip(xs).rev().map(..).collect(); only used when an arm is written with that plumbing")

    # ---- Concrete::translate_pk ---------------------------------------------------------------------------------
    N = "*data.node"
    st, n = "old(translated)@", "carity(*data.node)"
    tgt = "Concrete::<%s>" % TP
    conc = leaf_clauses(N, "Concrete") + [
        Clause("and_children_in_order", ("C20",),
               "%s is And ==> r is Ok && r->Ok_0 is And && r->Ok_0->And_0@ =~= children_seq(%s, %s)" % (N, st, n)),
        Clause("or_children_in_order", ("C20",),
               "%s matches Concrete::Or(subs) ==> r is Ok && r->Ok_0 is Or && r->Ok_0->Or_0@.len() == subs@.len() && (forall|i: int| 0 <= i < subs@.len() ==> (#[trigger] r->Ok_0->Or_0@[i]).1 == child(%s, i))" % (N, st)),
        Clause("or_child_keeps_its_own_odds", ("C20",),
               "%s matches Concrete::Or(subs) ==> r is Ok && r->Ok_0 is Or && r->Ok_0->Or_0@.len() == subs@.len() && (forall|i: int| 0 <= i < subs@.len() ==> (#[trigger] r->Ok_0->Or_0@[i]).0 == subs@[i].0)" % N),
        Clause("thresh_k_and_order", ("C20",),
               "%s matches Concrete::Thresh(th) ==> r is Ok && r->Ok_0 is Thresh && r->Ok_0->Thresh_0.k == th.k && r->Ok_0->Thresh_0.inner@ =~= children_seq(%s, %s)" % (N, st, n)),
        Clause("same_variant", ("C20",),
               "r is Ok ==> ((%s is And) == (r->Ok_0 is And)) && ((%s is Or) == (r->Ok_0 is Or)) && ((%s is Thresh) == (r->Ok_0 is Thresh)) && ((%s is Key) == (r->Ok_0 is Key))" % (N, N, N, N)),
        Clause("stack_frame", ("C20", "C11"), "r is Ok ==> final(translated)@ == %s.take(%s.len() - %s)" % (st, st, n)),
    ]
    etas = [eta("Key", TP, "Concrete<%s>" % TP)] + [eta(v, "<%s as MiniscriptKey>::%s" % (TP, v), "Concrete<%s>" % TP) for v, _ in HASHES]
    with vf.block("impl<Pk: MiniscriptKey> Concrete<Pk>"):
        vf.step(CONC, "impl:Policy<Pk>#3/fn:translate_pk/match:data.node", "Concrete::translate_pk_step",
                "fn translate_pk_step<T: Translator<Pk>>(data: PostOrderIterItem<&Concrete<Pk>>, translated: &mut Vec<Arc<Concrete<%s>>>, t: &mut T) -> Result<Concrete<%s>, T::Error>" % (TP, TP),
                props=PROPS, rewrites=etas,
                arm_rewrites={"And(ref subs)": nary_rewrites("and"), "Or(ref subs)": nary_rewrites("or"),
                              "Thresh(ref thresh)": [lit("R9", "thresh.map_ref(|_| translated.pop().unwrap())", "map_ref_pop(thresh, translated)")]},
                pre_match="    use Concrete::*;",
                post_match="    let step_result = Ok(step_result);",
                contract=Contract(requires=["old(translated)@.len() >= carity(*data.node)"], ensures=conc))
        vf.step(CONC, "impl:ForEachKey<Pk> for Policy<Pk>/fn:for_each_key/match:policy", "Concrete::for_each_key_step",
                "fn for_each_key_step<'a, F: FnMut(&'a Pk) -> bool>(policy: &'a Self, mut pred: F) -> bool", props=PROPS,
                contract=Contract(requires=["*policy matches Concrete::Key(pk) ==> call_requires(pred, (&pk,))"], canary=False, ensures=[
                    Clause("key_is_presented_to_the_predicate", ("C20",), "*policy matches Concrete::Key(pk) ==> call_ensures(pred, (&pk,), r)"),
                    Clause("other_nodes_continue", ("C20",), "!(*policy is Key) ==> r")]))
        vf.step(CONC, "impl:Policy<Pk>#3/fn:keys/match:policy", "Concrete::keys_step",
                "fn keys_step<'a>(policy: &'a Self) -> Option<&'a Pk>", props=PROPS,
                contract=Contract(ensures=[
                    Clause("yields_exactly_the_key", ("C20",), "(*policy matches Concrete::Key(pk) ==> r == Some(&pk)) && (!(*policy is Key) ==> r is None)")]))

    # ---- Semantic::translate_pk ---------------------------------------------------------------------------------
    sn = "sarity(*data.node)"
    semc = leaf_clauses(N, "Semantic") + [
        Clause("thresh_k_and_order", ("C20",),
               "%s matches Semantic::Thresh(th) ==> r is Ok && r->Ok_0 is Thresh && r->Ok_0->Thresh_0.k == th.k && r->Ok_0->Thresh_0.inner@ =~= children_seq(%s, %s)" % (N, st, sn)),
        Clause("same_variant", ("C20",), "r is Ok ==> ((%s is Thresh) == (r->Ok_0 is Thresh)) && ((%s is Key) == (r->Ok_0 is Key))" % (N, N)),
        Clause("stack_frame", ("C20", "C11"), "r is Ok ==> final(translated)@ == %s.take(%s.len() - %s)" % (st, st, sn)),
    ]
    setas = [eta("Key", TP, "Semantic<%s>" % TP)] + [eta(v, "<%s as MiniscriptKey>::%s" % (TP, v), "Semantic<%s>" % TP) for v, _ in HASHES]
    with vf.block("impl<Pk: MiniscriptKey> Semantic<Pk>"):
        vf.step(SEM, "impl:Policy<Pk>#1/fn:translate_pk/match:data.node", "Semantic::translate_pk_step",
                "fn translate_pk_step<T: Translator<Pk>>(data: PostOrderIterItem<&Semantic<Pk>>, translated: &mut Vec<Arc<Semantic<%s>>>, t: &mut T) -> Result<Semantic<%s>, T::Error>" % (TP, TP),
                props=PROPS, rewrites=setas,
                arm_rewrites={"Thresh(ref thresh)": [lit("R9", "thresh.map_ref(|_| translated.pop().unwrap())", "map_ref_pop(thresh, translated)")]},
                pre_match="    use Semantic::*;",
                post_match="    let step_result = Ok(step_result);",
                contract=Contract(requires=["old(translated)@.len() >= sarity(*data.node)"], ensures=semc))
        vf.step(SEM, "impl:ForEachKey<Pk> for Policy<Pk>/fn:for_each_key/match:policy", "Semantic::for_each_key_step",
                "fn for_each_key_step<'a, F: FnMut(&'a Pk) -> bool>(policy: &'a Self, mut pred: F) -> bool", props=PROPS,
                contract=Contract(requires=["*policy matches Semantic::Key(pk) ==> call_requires(pred, (&pk,))"], canary=False, ensures=[
                    Clause("key_is_presented_to_the_predicate", ("C20",), "*policy matches Semantic::Key(pk) ==> call_ensures(pred, (&pk,), r)"),
                    Clause("other_nodes_continue", ("C20",), "!(*policy is Key) ==> r")]))
    return vf
