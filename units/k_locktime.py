"""Kani contracts on the lock-time primitives (complete: loop-free, full u32 domain)."""
NAME = "k_locktime"
ENGINE = "kani"
PROPS = ("C02", "C12", "C17", "C19", "C11")
INJECT = [("src/primitives/absolute_locktime.rs", "contracts/kani/k_abslock.rs"),
          ("src/primitives/relative_locktime.rs", "contracts/kani/k_rellock.rs")]
TRUSTED = ["bitcoin::absolute::LockTime / bitcoin::Sequence are executed as compiled (not stubbed)"]
HARNESSES = [
    dict(name="abs_from_consensus", fn="AbsLockTime::from_consensus", props=("C12", "C11"), kind="complete",
         tags=["C12:abs_from_consensus.range", "C12:abs_from_consensus.value", "C12:abs_from_consensus.height_unit", "C12:abs_from_consensus.time_unit"]),
    dict(name="abs_max", fn="AbsLockTime::max", props=("C02", "C17", "C11"), kind="complete",
         tags=["C02,C17:abs_max.none_iff_units_differ", "C02,C17:abs_max.is_larger", "C19:abs_cmp_by_consensus.total"]),
    dict(name="rel_from_consensus", fn="RelLockTime::from_consensus", props=("C12", "C11"), kind="complete",
         tags=["C12:rel_from_consensus.range", "C12:rel_from_consensus.value", "C12:rel_from_consensus.time_unit", "C12:rel_from_consensus.height_unit"]),
    dict(name="rel_max", fn="RelLockTime::max", props=("C02", "C17", "C11"), kind="complete",
         tags=["C02,C17:rel_max.none_iff_units_differ", "C02,C17:rel_max.is_one_of_them", "C02,C17:rel_max.is_larger"]),
]
