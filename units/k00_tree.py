"""Bounded Kani twin of c00_tree on the REAL iterators of src/iter/tree.rs, with a harness-local TreeLike
implementation over level-order arity tables (all five `Tree` kinds; every node announced by its arity kind and,
in a second run, as Nary).  Oracles: recursive textbook traversals written in the harness.

What is feasible in CBMC (measured, 10 GB cap):
  * accessors n_children / nth_child, also through the mirroring adaptor Rtl: SYMBOLIC over all ordered trees with
    <= 5 nodes, any node, any child index (2 s);
  * the shape tables used below are complete: every symbolic ordered tree with <= 5 nodes is in them (1 s);
  * PreOrderIter run to exhaustion on all shapes with 1..5 nodes (1 s, 1 s, 3 s, 13 s, 58 s);
  * VerbosePreOrderIter on all shapes with 1..2 nodes (1 s, 33 s); 3 nodes exceeds 10 GB;
  * PostOrderIter / RtlPostOrderIter only on the single-leaf tree (1 s): their stack is a Vec of items that own a Vec
    and `next` is recursive; the 2-node tree exceeds 12 GB after 10 min.  The reordering mutants of the post-order
    iterators are therefore caught by the Verus unit c00_tree only (unbounded), the index off-by-one by both.
BOUNDED: never counted as proved."""
NAME = "k00_tree"
ENGINE = "kani"
TIER = "thorough"   # bounded twin of c00_tree (which is the unbounded proof); ~65 s, so thorough tier only
TRAVERSAL = ("C01", "C02", "C03", "C04", "C07", "C09", "C17", "C19", "C20")
HPROPS = TRAVERSAL + ("C11",)
PROPS = HPROPS
INJECT = [("src/iter/tree.rs", "contracts/kani/k00_tree.rs")]
TRUSTED = ["harness-local TreeLike implementation `Nd` (one-byte node handle, shape in a `static mut`) over level-order arity tables; "
           "the tables are checked complete against the symbolic definition of an ordered tree by harness shape_tables_complete",
           "std Vec / Option executed as compiled by Kani"]
DROPPED = []
_P = ",".join(TRAVERSAL)


def _tags(*names):
    return ["%s:%s" % (_P, n) for n in names] + ["C11:treelike.child_index_in_range"]


_POST = lambda p: _tags("oracle.visits_all", p + ".no_extra_item", p + ".order", p + ".index_counts_yields", p + ".child_indices", p + ".yields_every_node_once")
_PRE = _tags("oracle.visits_all", "pre.no_extra_item", "pre.order", "pre.yields_every_node_once")
_VERB = _tags("oracle.visits_all", "verbose.no_extra_item", "verbose.order", "verbose.parent", "verbose.index_of_first_yield",
              "verbose.n_children_yielded", "verbose.is_complete", "verbose.yields_n_plus_1_times")
_ACC = _tags("n_children.counts_children", "rtl.n_children", "nth_child.some_iff_in_range", "nth_child.is_nth",
             "rtl.nth_child_some_iff_in_range", "rtl.nth_child_is_mirrored")

_TAB = ["%s:shapes.table_complete" % _P]


def _h(name, fn, bound, tags, tier="quick"):
    return dict(name="verif_k00_tree::" + name, fn=fn, props=HPROPS, kind="bounded", bound=bound, tier=tier, tags=tags)


HARNESSES = [
    _h("accessors_le5", "TreeLike::{n_children, nth_child}, Rtl::{as_node, nary_index}", "all ordered trees with <= 5 nodes (symbolic), any node, any child index <= 5", _ACC),
    _h("shape_tables_complete", "harness tables", "all ordered trees with <= 5 nodes (symbolic)", _TAB),
    _h("pre_order_n1", "PreOrderIter::next", "the 1-node tree", _PRE),
    _h("pre_order_n2", "PreOrderIter::next", "the 2-node tree", _PRE),
    _h("pre_order_n3", "PreOrderIter::next", "all 2 ordered trees with 3 nodes", _PRE),
    _h("pre_order_n4", "PreOrderIter::next", "all 5 ordered trees with 4 nodes", _PRE),
    _h("pre_order_n5", "PreOrderIter::next", "all 14 ordered trees with 5 nodes", _PRE),
    _h("post_order_n1", "PostOrderIter::next", "the 1-node tree", _POST("post")),
    _h("rtl_post_order_n1", "RtlPostOrderIter::next", "the 1-node tree", _POST("rtl")),
    _h("verbose_n1", "VerbosePreOrderIter::next", "the 1-node tree", _VERB),
    _h("verbose_n2", "VerbosePreOrderIter::next", "the 2-node tree", _VERB),
]
