"""Bounded Kani twin of c00_tree: the four REAL iterators of src/iter/tree.rs (and the provided accessors
n_children / nth_child, also through the mirroring adaptor Rtl) run to exhaustion on ALL ordered tree
shapes with at most 4 (quick) / 5 (thorough) nodes, every node announced either by its arity kind
(Nullary/Unary/Binary/Ternary) or as Nary; compared item by item (node, index, child_indices, parent,
n_children_yielded, is_complete) with recursive oracle traversals written in the harness.
BOUNDED: never counted as proved; the unbounded statement is the Verus unit c00_tree."""
NAME = "k00_tree"
ENGINE = "kani"
TRAVERSAL = ("C01", "C02", "C03", "C04", "C07", "C09", "C17", "C19", "C20")
PROPS = TRAVERSAL + ("C11",)
INJECT = [("src/iter/tree.rs", "contracts/kani/k00_tree.rs")]
TRUSTED = ["harness-local TreeLike implementation `Nd` over a parent array (tree shapes with parent[i] < i cover all ordered trees: number a tree in pre-order)",
           "std Vec / Option executed as compiled by Kani"]
DROPPED = []
_P = ",".join(TRAVERSAL)


def _tags(*names):
    return ["%s:%s" % (_P, n) for n in names] + ["C11:treelike.child_index_in_range"]


_POST = lambda p: _tags("oracle.visits_all", p + ".no_extra_item", p + ".order", p + ".index_counts_yields", p + ".child_indices", p + ".yields_every_node_once")
_PRE = _tags("oracle.visits_all", "pre.no_extra_item", "pre.order", "pre.yields_every_node_once")
_VERB = _tags("oracle.visits_all", "verbose.no_extra_item", "verbose.order", "verbose.parent", "verbose.index_of_first_yield",
              "verbose.n_children_yielded", "verbose.is_complete", "verbose.yields_n_plus_1_times")
_ACC = _tags("n_children.counts_children", "rtl.n_children", "nth_child.some_iff_in_range", "nth_child.is_nth",
             "rtl.nth_child_some_iff_in_range", "rtl.nth_child_is_mirrored")

HARNESSES = [
    dict(name="accessors_le5", fn="TreeLike::{n_children, nth_child}, Rtl::{as_node, nary_index}", props=PROPS, kind="bounded",
         bound="all ordered trees with <= 5 nodes, any node, any child index <= 5", tier="quick", tags=_ACC),
    dict(name="pre_order_le4", fn="PreOrderIter::next", props=PROPS, kind="bounded", bound="all ordered trees with <= 4 nodes", tier="quick", tags=_PRE),
    dict(name="post_order_le4", fn="PostOrderIter::next", props=PROPS, kind="bounded", bound="all ordered trees with <= 4 nodes", tier="quick", tags=_POST("post")),
    dict(name="rtl_post_order_le4", fn="RtlPostOrderIter::next", props=PROPS, kind="bounded", bound="all ordered trees with <= 4 nodes", tier="quick", tags=_POST("rtl")),
    dict(name="verbose_pre_order_le4", fn="VerbosePreOrderIter::next", props=PROPS, kind="bounded", bound="all ordered trees with <= 4 nodes", tier="quick", tags=_VERB),
    dict(name="pre_order_le5", fn="PreOrderIter::next", props=PROPS, kind="bounded", bound="all ordered trees with <= 5 nodes", tier="thorough", tags=_PRE),
    dict(name="post_order_le5", fn="PostOrderIter::next", props=PROPS, kind="bounded", bound="all ordered trees with <= 5 nodes", tier="thorough", tags=_POST("post")),
    dict(name="rtl_post_order_le5", fn="RtlPostOrderIter::next", props=PROPS, kind="bounded", bound="all ordered trees with <= 5 nodes", tier="thorough", tags=_POST("rtl")),
    dict(name="verbose_pre_order_le5", fn="VerbosePreOrderIter::next", props=PROPS, kind="bounded", bound="all ordered trees with <= 5 nodes", tier="thorough", tags=_VERB),
]
