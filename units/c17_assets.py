"""C17 / C02 / C11 unit: the ASSET side of planning (src/plan.rs) -- what an `Assets` value can do.

Under contract (every body verbatim from /repo, rewrites listed in DROPPED):
  * `is_key_direct_child_of`, `TaprootCanSign::sig_len`, `TaprootAvailableLeaves::is_available`, `CanSign::default`,
    `TaprootCanSign::default`
  * `Assets::{has_ecdsa_key, has_taproot_internal_key, has_taproot_script_key}` + every helper they (transitively) call
    inside src/plan.rs (discovered from the text, see `Helpers`)
  * `impl AssetProvider<DefiniteDescriptorKey> for Assets` (all methods of the block) and the four `provider_lookup_raw_pkh_*`
    defaults of `trait AssetProvider` that `Assets` inherits
  * `Assets::{new, add, older, after, append}`, `impl FromIterator<DescriptorPublicKey> for Assets`, the `IntoAssets` impls for
    the four hash types, `Assets`, `Vec<DescriptorPublicKey>`, `DescriptorPublicKey`

ORACLE (never read off the function bodies): the doc comments of the PUBLIC types
  `Assets.keys`: "A pair (fingerprint, derivation_path) is provided, meaning that the user can sign using the key with
      `fingerprint`, derived with either `derivation_path` or a derivation path that extends `derivation_path` by exactly one
      child number."  The field is a SET of (KeySource, CanSign) records.
  `CanSign.ecdsa`: "Whether the key can produce ECDSA signatures"; `TaprootCanSign.key_spend`: "Can produce key spend
      signatures"; `.script_spend`: "Can produce script spend signatures" with `TaprootAvailableLeaves` None / Any / Single(h):
      "only for a specific leaf" / Many(list): "for multiple leaves"; `.sighash_default`: "Whether SIGHASH_DEFAULT will be used".
  `Assets.*_preimages`: "Set of available <hash> preimages"; `absolute_timelock` / `relative_timelock`: "Maximum ... timelock allowed".
and property C17 / C02: a plan exists exactly when the satisfier would succeed with the caller's assets, for ALL key sources
with per-leaf signing capabilities.  Hence, with  matches(K, source) := K.master_fingerprint == source.fingerprint and K's full
derivation path is source.path or source.path + one step:

    ECDSA signature for K available        <=>  THERE IS a record (source, can) in assets.keys with matches(K, source) and can.ecdsa
    taproot key-spend signature for K      <=>  THERE IS a record with matches(K, source) and can.taproot.key_spend
    script-spend signature for (K, leaf)   <=>  THERE IS a record with matches(K, source) and can.taproot.script_spend allows leaf

stated over the WHOLE set: when several records match the same key, any one of them granting the capability suffices (a
lookup that consults only the first matching record fails `any_granting_record_suffices`).  The announced Schnorr size is
the BIP341 length (64 bytes with SIGHASH_DEFAULT, 65 with an explicit sighash byte) of a GRANTING record.  Hash preimages:
available iff the hash is in the set of its own kind.  `check_older / check_after`: BIP68/112 resp. BIP65 -- a lock the script
asks for can be met iff it has the same unit as, and is not larger than, the maximum the caller allows (the comparison oracle is
the `implied_by` spec of unit c18_semantic, itself checked against the compiled bitcoin crate by Kani unit k18_policy).

The iterator chains over the BTreeSets (`self.keys.iter().any(..)` / `.find_map(..)` ...) are rewritten (R14/R16, class
`SetChains`) into /verif-authored VERIFIED index loops over `btree_set_iter_as_vec(&set)`; the closure body is lambda-lifted
VERBATIM.  Every lifted closure and every discovered helper gets a "twin": a spec fn with the SAME body text (exec callees are
mapped to their specs through `when_used_as_spec`) and the proof obligation `r == twin(args)`, so that callers see exactly
what the code computes; the top-level clauses above are then proved (or refuted) against that.
"""
import re

from vlib.verus import VerusFile, Contract, Clause, sub, lit, rule, Undecided, split_fn
from vlib.extract import match_close, AnchorLost, strip_docs
from units import c18_semantic as C18
from units.c17_plan import name_anonymous_params, prologue

NAME = "c17_assets"
ENGINE = "verus"
PROPS = ("C17", "C02", "C11")
PLAN = "src/plan.rs"

DROPPED = [
    "c17_assets: `self.<set>.iter().any|all|find|find_map|position(|p| BODY)` and `.filter(|p| BODY).next()` over a BTreeSet field of Assets "
    "(optionally followed by `.map(|p| E)`) are rewritten (R14/R16, class SetChains) into a call of a generated, VERIFIED index loop over the "
    "trusted `btree_set_iter_as_vec(&set)`; BODY is lambda-lifted verbatim (closure parameter `|(a, b)|` / `|x|` becomes `let` bindings of the "
    "lifted function's parameter); any other adapter, a closure capturing `self`, a `find_map` that is not the whole function body (its closure "
    "cannot be typed) => UNDECIDED",
    "c17_assets: every lifted closure and every helper of src/plan.rs that a contracted function calls (discovered from the text, class Helpers) "
    "is emitted TWICE from the same text: as the exec fn and as a spec fn (`twin`; exec callees resolve to their specs through "
    "when_used_as_spec), with the obligation `r == twin(args)`; a helper whose body is outside the expression subset => UNDECIDED",
    "c17_assets: chains of Option combinators (map, map_or, map_or_else, filter, and_then, is_some_and, is_none_or, unwrap_or(_else), or(_else), "
    "is_some, is_none, copied, cloned) are replaced, leftmost first, by the `match` that is their std definition, closure bodies verbatim "
    "(R12'-option; Verus knows nothing about an un-annotated closure, and the spec twin of a helper cannot call exec std functions)",
    "c17_assets: is_key_direct_child_of: the `for` loop gets a ghost iterator name and an invariant (R10), nothing else is touched (`==` on "
    "paths / slices and the `[..n]` indexing go through the PartialEq / Index impls of the DerivationPath stub)",
    "c17_assets: `fn f(mut self, ..)` -> `fn f(self, ..) { let mut slf = self; ..slf.. }` (R17-mut-self: Verus has no `mut self`; a by-value "
    "parameter and a local initialised from it are the same thing)",
    "c17_assets: `vec![x].into_iter().collect()` into a BTreeSet -> `btree_set_from_vec(vec![x])` (R15, std: the set of the vector's elements)",
    "c17_assets: FromIterator::from_iter: the generic `I: IntoIterator<Item = DescriptorPublicKey>` is specialised to Vec<DescriptorPublicKey> "
    "(R8; what `IntoAssets for Vec<DescriptorPublicKey>` passes) and emitted as an inherent fn; both `for` loops get ghost iterator names and "
    "invariants, the insert is bracketed by two ghost `let`s and a lemma call, the inner loop is followed by a lemma call (R10)",
    "c17_assets: trait IntoAssets is a stub with one extra spec fn `into_assets_post` (the oracle of each impl); `impl IntoAssets for KeyMap` "
    "(BTreeMap::into_iter().map(|(k, _)| k)) is NOT verified",
    "c17_assets: trait AssetProvider: anonymous parameters `_: T` are named (R1); the four provider_lookup_raw_pkh_* defaults carry the clause "
    "`r is None` IN THE TRAIT (Assets inherits them; an override added to `impl AssetProvider for Assets` would be judged against it); "
    "LoggerAssetProvider (dbg! macro) and the blanket impl for satisfiers (unit c17_plan) are not part of this unit",
    "c17_assets: DefiniteDescriptorKey / DescriptorPublicKey are opaque: master fingerprint and full derivation path(s) are uninterpreted "
    "functions of the key (their meaning is unit c16_keys); derives of CanSign / TaprootCanSign / TaprootAvailableLeaves / Assets are dropped",
    "c17_assets: BTreeSet element identity: the real set identifies elements by Ord (a DerivationPath by its child numbers); the stub's `has` / "
    "`insert` / `extend` use the stub types' structural equality.  No clause depends on the difference (nothing is said about `len`, the result "
    "of `insert`, or duplicates; every oracle statement is an exists / forall over records read through `steps()`)",
]

# ======================================================================================================================
# prelude: stubs
# ======================================================================================================================
PRELUDE = r"""
use vstd::std_specs::cmp::PartialEqSpec;

// ---- std ------------------------------------------------------------------------------------------------------------------
pub assume_specification<T>[Option::<T>::or](a: Option<T>, b: Option<T>) -> (r: Option<T>) ensures r == (if a is Some { a } else { b });
pub assume_specification<T: PartialEq> [<[T]>::contains] (s: &[T], x: &T) -> (r: bool)
    ensures T::obeys_eq_spec() ==> r == (exists|i: int| 0 <= i < s@.len() && (#[trigger] s@[i]).eq_spec(x));

// alloc::collections::BTreeSet<T>: a finite set, given by the sequence `elems()` in which `iter()` yields its elements
#[verifier::external_body]
#[verifier::reject_recursive_types(T)]
pub struct BTreeSet<T> { s: std::collections::BTreeSet<T> }
impl<T> BTreeSet<T> {
    pub uninterp spec fn elems(&self) -> Seq<T>;
    pub open spec fn has(&self, x: T) -> bool { self.elems().contains(x) }
    #[verifier::external_body]
    pub fn new() -> (r: Self) ensures r.elems().len() == 0 { unimplemented!() }
    #[verifier::external_body]
    pub fn contains(&self, x: &T) -> (r: bool) ensures r == self.has(*x) { unimplemented!() }
    #[verifier::external_body]
    pub fn insert(&mut self, x: T) -> (r: bool)
        ensures forall|y: T| #![trigger final(self).has(y)] #![trigger old(self).has(y)] final(self).has(y) <==> (old(self).has(y) || y == x),
    { unimplemented!() }
    // Extend<T>::extend with another set as the source
    #[verifier::external_body]
    pub fn extend(&mut self, other: BTreeSet<T>)
        ensures forall|y: T| #![trigger final(self).has(y)] #![trigger old(self).has(y)] #![trigger other.has(y)] final(self).has(y) <==> (old(self).has(y) || other.has(y)),
    { unimplemented!() }
}
// `set.iter()`: every element exactly once
#[verifier::external_body]
fn btree_set_iter_as_vec<'a, T>(s: &'a BTreeSet<T>) -> (v: Vec<&'a T>)
    ensures v@.len() == s.elems().len(),
            forall|i: int| 0 <= i < v@.len() ==> *(#[trigger] v@[i]) == s.elems()[i],
            forall|i: int, j: int| 0 <= i < j < v@.len() ==> *(#[trigger] v@[i]) != *(#[trigger] v@[j]),
{ unimplemented!() }
// `vec.into_iter().collect::<BTreeSet<_>>()`
#[verifier::external_body]
fn btree_set_from_vec<T>(v: Vec<T>) -> (r: BTreeSet<T>)
    ensures forall|y: T| #![trigger r.has(y)] #![trigger v@.contains(y)] r.has(y) <==> v@.contains(y),
{ unimplemented!() }

// ---- bitcoin ----------------------------------------------------------------------------------------------------------------
pub mod bip32 {
    use vstd::prelude::*;
    verus!{
    #[derive(Clone, Copy, PartialEq, Eq)]
    pub struct Fingerprint { pub bytes: [u8; 4] }
    // the real enum of bitcoin::bip32
    #[derive(Clone, Copy, PartialEq, Eq)]
    pub enum ChildNumber { Normal { index: u32 }, Hardened { index: u32 } }
    // a list of child numbers (bitcoin: `struct DerivationPath(Vec<ChildNumber>)`)
    pub struct DerivationPath { pub v: Vec<ChildNumber> }
    pub type KeySource = (Fingerprint, DerivationPath);
    impl DerivationPath {
        pub open spec fn steps(&self) -> Seq<ChildNumber> { self.v@ }
        pub fn as_ref(&self) -> (r: &[ChildNumber]) ensures r@ == self.steps() { self.v.as_slice() }
        pub fn len(&self) -> (r: usize) ensures r == self.steps().len() { self.v.len() }
        pub fn is_empty(&self) -> (r: bool) ensures r == (self.steps().len() == 0) { self.v.len() == 0 }
    }
    }
}
impl vstd::std_specs::cmp::PartialEqSpecImpl for bip32::Fingerprint { open spec fn obeys_eq_spec() -> bool { true } open spec fn eq_spec(&self, o: &bip32::Fingerprint) -> bool { *self == *o } }
impl vstd::std_specs::cmp::PartialEqSpecImpl for bip32::ChildNumber { open spec fn obeys_eq_spec() -> bool { true } open spec fn eq_spec(&self, o: &bip32::ChildNumber) -> bool { *self == *o } }
// derived PartialEq of the Vec newtype: same child numbers
impl PartialEq for bip32::DerivationPath { #[verifier::external_body] fn eq(&self, o: &bip32::DerivationPath) -> bool { unimplemented!() } }
impl vstd::std_specs::cmp::PartialEqSpecImpl for bip32::DerivationPath { open spec fn obeys_eq_spec() -> bool { true } open spec fn eq_spec(&self, o: &bip32::DerivationPath) -> bool { self.steps() == o.steps() } }
// `impl<I> Index<I> for DerivationPath where Vec<ChildNumber>: Index<I>` at I = RangeTo<usize>: the slice `[..end]`, panics if end > len
impl core::ops::Index<core::ops::RangeTo<usize>> for bip32::DerivationPath {
    type Output = [bip32::ChildNumber];
    #[verifier::external_body]
    fn index(&self, r: core::ops::RangeTo<usize>) -> (o: &[bip32::ChildNumber]) ensures o@ == self.steps().subrange(0, r.end as int) { unimplemented!() }
}
impl vstd::std_specs::core::IndexSpecImpl<core::ops::RangeTo<usize>> for bip32::DerivationPath {
    open spec fn index_req(&self, index: &core::ops::RangeTo<usize>) -> bool { index.end <= self.steps().len() }
}

macro_rules! hash_stub { ($m:ident, $n:expr) => {
    pub mod $m {
        use vstd::prelude::*;
        verus!{
        #[derive(Clone, Copy, PartialEq, Eq)]
        pub struct Hash(pub [u8; $n]);
        impl Hash {
            pub fn to_byte_array(self) -> (r: [u8; $n]) ensures r == self.0 { self.0 }
            pub fn as_byte_array(&self) -> (r: &[u8; $n]) ensures *r == self.0 { &self.0 }
            pub fn from_byte_array(b: [u8; $n]) -> (r: Hash) ensures r.0 == b { Hash(b) }
        }
        }
    }
} }
hash_stub!(sha256, 32);
hash_stub!(hash256, 32);
hash_stub!(ripemd160, 20);
hash_stub!(hash160, 20);
pub mod bitcoin {
    pub use crate::bip32;
    #[derive(Clone, Copy)] pub struct PublicKey { pub compressed: bool, pub point: u64 }
    // `use bitcoin::hashes::Hash as _;` brings to_byte_array / from_byte_array into scope; the stubs have them as inherent methods
    pub mod hashes { pub trait Hash {} pub use crate::{sha256, ripemd160, hash160}; }
}
impl vstd::std_specs::cmp::PartialEqSpecImpl for sha256::Hash { open spec fn obeys_eq_spec() -> bool { true } open spec fn eq_spec(&self, o: &sha256::Hash) -> bool { *self == *o } }
impl vstd::std_specs::cmp::PartialEqSpecImpl for hash256::Hash { open spec fn obeys_eq_spec() -> bool { true } open spec fn eq_spec(&self, o: &hash256::Hash) -> bool { *self == *o } }
impl vstd::std_specs::cmp::PartialEqSpecImpl for ripemd160::Hash { open spec fn obeys_eq_spec() -> bool { true } open spec fn eq_spec(&self, o: &ripemd160::Hash) -> bool { *self == *o } }
impl vstd::std_specs::cmp::PartialEqSpecImpl for hash160::Hash { open spec fn obeys_eq_spec() -> bool { true } open spec fn eq_spec(&self, o: &hash160::Hash) -> bool { *self == *o } }
#[derive(Clone, Copy)] pub struct XOnlyPublicKey { pub x: u64 }
#[derive(Clone, Copy, PartialEq, Eq)] pub struct TapLeafHash(pub [u8; 32]);
impl vstd::std_specs::cmp::PartialEqSpecImpl for TapLeafHash { open spec fn obeys_eq_spec() -> bool { true } open spec fn eq_spec(&self, o: &TapLeafHash) -> bool { *self == *o } }

// ---- miniscript keys (meaning: unit c16_keys) ----------------------------------------------------------------------------------
pub trait MiniscriptKey: Sized { type Sha256; type Hash256; type Ripemd160; type Hash160; }
// a key with no wildcard / multipath: ONE master fingerprint, ONE full derivation path (origin path ++ key path)
pub struct DefiniteDescriptorKey { pub opaque: u64 }
impl MiniscriptKey for DefiniteDescriptorKey { type Sha256 = sha256::Hash; type Hash256 = hash256::Hash; type Ripemd160 = ripemd160::Hash; type Hash160 = hash160::Hash; }
impl DefiniteDescriptorKey {
    pub uninterp spec fn spec_master_fingerprint(&self) -> bip32::Fingerprint;
    pub uninterp spec fn spec_full_path(&self) -> Seq<bip32::ChildNumber>;
    #[verifier::external_body]
    #[verifier::when_used_as_spec(spec_master_fingerprint)]
    pub fn master_fingerprint(&self) -> (r: bip32::Fingerprint) ensures r == self.spec_master_fingerprint() { unimplemented!() }
    #[verifier::external_body]
    pub fn full_derivation_paths(&self) -> (r: Vec<bip32::DerivationPath>) ensures r@.len() == 1, r@[0].steps() == self.spec_full_path() { unimplemented!() }
}
// any descriptor key (possibly multipath): one master fingerprint, one full path per alternative
pub struct DescriptorPublicKey { pub opaque: u64 }
impl DescriptorPublicKey {
    pub uninterp spec fn spec_master_fingerprint(&self) -> bip32::Fingerprint;
    pub uninterp spec fn spec_full_paths(&self) -> Seq<Seq<bip32::ChildNumber>>;
    #[verifier::external_body]
    #[verifier::when_used_as_spec(spec_master_fingerprint)]
    pub fn master_fingerprint(&self) -> (r: bip32::Fingerprint) ensures r == self.spec_master_fingerprint() { unimplemented!() }
    #[verifier::external_body]
    pub fn full_derivation_paths(&self) -> (r: Vec<bip32::DerivationPath>)
        ensures r@.len() == self.spec_full_paths().len(), forall|j: int| 0 <= j < r@.len() ==> (#[trigger] r@[j]).steps() == self.spec_full_paths()[j]
    { unimplemented!() }
}
"""

LOCK_EXTRA = r"""
// consensus encodings of the lock types (bitcoin crate): nLockTime value; BIP68 nSequence with bit 22 = 512-second units
impl absolute::LockTime {
    #[verifier::external_body]
    pub fn to_consensus_u32(self) -> (r: u32) ensures r == (match self { absolute::LockTime::Blocks(n) => n, absolute::LockTime::Seconds(n) => n }) { unimplemented!() }
}
// relative::LockTime::to_consensus_u32 (BIP68 encoding) now comes with c18_semantic's stub of the type
"""

# ======================================================================================================================
# oracle
# ======================================================================================================================
ORACLE = r"""
// ---- ORACLE: doc comments of Assets / CanSign / TaprootCanSign / TaprootAvailableLeaves, BIP341 sizes, property C17 ------------
type KeyRecord = (bip32::KeySource, CanSign);
// "derived with either `derivation_path` or a derivation path that extends `derivation_path` by exactly one child number"
spec fn o_direct_child(p: Seq<bip32::ChildNumber>, d: Seq<bip32::ChildNumber>) -> bool {
    p =~= d || (p.len() == d.len() + 1 && p.subrange(0, d.len() as int) =~= d)
}
// "the user can sign using the key with `fingerprint`, derived with ..."
spec fn o_source_matches(pk: DefiniteDescriptorKey, ks: bip32::KeySource) -> bool {
    pk.spec_master_fingerprint() == ks.0 && o_direct_child(pk.spec_full_path(), ks.1.steps())
}
// TaprootAvailableLeaves: None "Cannot sign for any leaf", Any "any leaf", Single "only for a specific leaf", Many "multiple leaves"
spec fn o_leaf_allowed(a: TaprootAvailableLeaves, lh: TapLeafHash) -> bool {
    match a {
        TaprootAvailableLeaves::None => false,
        TaprootAvailableLeaves::Any => true,
        TaprootAvailableLeaves::Single(h) => h == lh,
        TaprootAvailableLeaves::Many(list) => list@.contains(lh),
    }
}
// BIP341: a signature is 64 bytes (SIGHASH_DEFAULT implied) or 65 bytes (explicit sighash byte)
spec fn o_schnorr_sig_len(sighash_default: bool) -> usize { if sighash_default { 64 } else { 65 } }
spec fn o_grants_ecdsa(rec: KeyRecord, pk: DefiniteDescriptorKey) -> bool { o_source_matches(pk, rec.0) && rec.1.ecdsa }
spec fn o_grants_key_spend(rec: KeyRecord, pk: DefiniteDescriptorKey) -> bool { o_source_matches(pk, rec.0) && rec.1.taproot.key_spend }
spec fn o_grants_script_spend(rec: KeyRecord, pk: DefiniteDescriptorKey, lh: TapLeafHash) -> bool {
    o_source_matches(pk, rec.0) && o_leaf_allowed(rec.1.taproot.script_spend, lh)
}
// capability of the WHOLE set: there is a record ...
spec fn o_can_ecdsa(a: Assets, pk: DefiniteDescriptorKey) -> bool {
    exists|i: int| 0 <= i < a.keys.elems().len() && o_grants_ecdsa(#[trigger] a.keys.elems()[i], pk)
}
spec fn o_can_key_spend(a: Assets, pk: DefiniteDescriptorKey) -> bool {
    exists|i: int| 0 <= i < a.keys.elems().len() && o_grants_key_spend(#[trigger] a.keys.elems()[i], pk)
}
spec fn o_can_script_spend(a: Assets, pk: DefiniteDescriptorKey, lh: TapLeafHash) -> bool {
    exists|i: int| 0 <= i < a.keys.elems().len() && o_grants_script_spend(#[trigger] a.keys.elems()[i], pk, lh)
}
// the announced size belongs to a record that grants the capability
spec fn o_key_spend_size_ok(a: Assets, pk: DefiniteDescriptorKey, n: usize) -> bool {
    exists|i: int| 0 <= i < a.keys.elems().len() && o_grants_key_spend(#[trigger] a.keys.elems()[i], pk) && n == o_schnorr_sig_len(a.keys.elems()[i].1.taproot.sighash_default)
}
spec fn o_script_spend_size_ok(a: Assets, pk: DefiniteDescriptorKey, lh: TapLeafHash, n: usize) -> bool {
    exists|i: int| 0 <= i < a.keys.elems().len() && o_grants_script_spend(#[trigger] a.keys.elems()[i], pk, lh) && n == o_schnorr_sig_len(a.keys.elems()[i].1.taproot.sighash_default)
}
// "Maximum relative / absolute timelock allowed": BIP68/112 resp. BIP65 -- same unit, not larger
spec fn o_older_allowed(a: Assets, s: relative::LockTime) -> bool { a.relative_timelock matches Some(t) && s.implied_by(t) }
spec fn o_after_allowed(a: Assets, l: absolute::LockTime) -> bool { a.absolute_timelock matches Some(t) && l.implied_by(t) }
// documented defaults: "Defaults to `ecdsa=true` and `taproot=TaprootCanSign::default()`", "Defaults to `key_spend=true`,
// `script_spend=Any` and `sighash_default=true`"
pub closed spec fn o_default_taproot_can_sign() -> TaprootCanSign { TaprootCanSign { key_spend: true, script_spend: TaprootAvailableLeaves::Any, sighash_default: true } }
pub closed spec fn o_default_can_sign() -> CanSign { CanSign { ecdsa: true, taproot: o_default_taproot_can_sign() } }

// ---- sets of assets ----
pub closed spec fn o_no_assets(a: Assets) -> bool {
    a.keys.elems().len() == 0 && a.sha256_preimages.elems().len() == 0 && a.hash256_preimages.elems().len() == 0
        && a.ripemd160_preimages.elems().len() == 0 && a.hash160_preimages.elems().len() == 0 && a.absolute_timelock is None && a.relative_timelock is None
}
spec fn o_same_keys(r: Assets, a: Assets) -> bool { forall|x: KeyRecord| #![trigger r.keys.has(x)] #![trigger a.keys.has(x)] r.keys.has(x) <==> a.keys.has(x) }
spec fn o_same_hashes(r: Assets, a: Assets) -> bool {
    &&& forall|x: sha256::Hash| #![trigger r.sha256_preimages.has(x)] #![trigger a.sha256_preimages.has(x)] r.sha256_preimages.has(x) <==> a.sha256_preimages.has(x)
    &&& forall|x: hash256::Hash| #![trigger r.hash256_preimages.has(x)] #![trigger a.hash256_preimages.has(x)] r.hash256_preimages.has(x) <==> a.hash256_preimages.has(x)
    &&& forall|x: ripemd160::Hash| #![trigger r.ripemd160_preimages.has(x)] #![trigger a.ripemd160_preimages.has(x)] r.ripemd160_preimages.has(x) <==> a.ripemd160_preimages.has(x)
    &&& forall|x: hash160::Hash| #![trigger r.hash160_preimages.has(x)] #![trigger a.hash160_preimages.has(x)] r.hash160_preimages.has(x) <==> a.hash160_preimages.has(x)
}
// "Add some assets": everything either side holds
spec fn o_keys_union(r: Assets, a: Assets, b: Assets) -> bool {
    forall|x: KeyRecord| #![trigger r.keys.has(x)] #![trigger a.keys.has(x)] #![trigger b.keys.has(x)] r.keys.has(x) <==> (a.keys.has(x) || b.keys.has(x))
}
spec fn o_hashes_union(r: Assets, a: Assets, b: Assets) -> bool {
    &&& forall|x: sha256::Hash| #![trigger r.sha256_preimages.has(x)] #![trigger a.sha256_preimages.has(x)] #![trigger b.sha256_preimages.has(x)]
            r.sha256_preimages.has(x) <==> (a.sha256_preimages.has(x) || b.sha256_preimages.has(x))
    &&& forall|x: hash256::Hash| #![trigger r.hash256_preimages.has(x)] #![trigger a.hash256_preimages.has(x)] #![trigger b.hash256_preimages.has(x)]
            r.hash256_preimages.has(x) <==> (a.hash256_preimages.has(x) || b.hash256_preimages.has(x))
    &&& forall|x: ripemd160::Hash| #![trigger r.ripemd160_preimages.has(x)] #![trigger a.ripemd160_preimages.has(x)] #![trigger b.ripemd160_preimages.has(x)]
            r.ripemd160_preimages.has(x) <==> (a.ripemd160_preimages.has(x) || b.ripemd160_preimages.has(x))
    &&& forall|x: hash160::Hash| #![trigger r.hash160_preimages.has(x)] #![trigger a.hash160_preimages.has(x)] #![trigger b.hash160_preimages.has(x)]
            r.hash160_preimages.has(x) <==> (a.hash160_preimages.has(x) || b.hash160_preimages.has(x))
}
// a single Option cannot hold two maxima: a lock is never invented, one that only one side has is kept, and if both sides
// carry one the result is one of the two (which one is not documented)
spec fn o_lock_merged<T>(r: Option<T>, a: Option<T>, b: Option<T>) -> bool {
    &&& (a is None ==> r == b)
    &&& (b is None ==> r == a)
    &&& (r == a || r == b)
}
spec fn o_is_union(r: Assets, a: Assets, b: Assets) -> bool {
    o_keys_union(r, a, b) && o_hashes_union(r, a, b) && o_lock_merged(r.absolute_timelock, a.absolute_timelock, b.absolute_timelock)
        && o_lock_merged(r.relative_timelock, a.relative_timelock, b.relative_timelock)
}
// a key given as an asset: "the user can sign using the key": a record for its fingerprint and each of its full derivation
// paths, with the default (= every) signing capability, and nothing else
spec fn o_record_of(rec: KeyRecord, k: DescriptorPublicKey, j: int) -> bool {
    rec.0.0 == k.spec_master_fingerprint() && rec.0.1.steps() == k.spec_full_paths()[j] && rec.1 == o_default_can_sign()
}
spec fn o_in_region(ks: Seq<DescriptorPublicKey>, nk: int, nj: int, k: int, j: int) -> bool {
    0 <= k < ks.len() && 0 <= j < ks[k].spec_full_paths().len() && (k < nk || (k == nk && j < nj))
}
spec fn o_records_sound(s: BTreeSet<KeyRecord>, ks: Seq<DescriptorPublicKey>, nk: int, nj: int) -> bool {
    forall|rec: KeyRecord| #[trigger] s.has(rec) ==> exists|k: int, j: int| o_in_region(ks, nk, nj, k, j) && #[trigger] o_record_of(rec, ks[k], j)
}
spec fn o_records_complete(s: BTreeSet<KeyRecord>, ks: Seq<DescriptorPublicKey>, nk: int, nj: int) -> bool {
    forall|k: int, j: int| #[trigger] o_in_region(ks, nk, nj, k, j) ==> exists|rec: KeyRecord| s.has(rec) && #[trigger] o_record_of(rec, ks[k], j)
}
spec fn o_from_keys(r: Assets, ks: Seq<DescriptorPublicKey>) -> bool {
    &&& o_records_sound(r.keys, ks, ks.len() as int, 0)
    &&& o_records_complete(r.keys, ks, ks.len() as int, 0)
    &&& r.sha256_preimages.elems().len() == 0 && r.hash256_preimages.elems().len() == 0 && r.ripemd160_preimages.elems().len() == 0
    &&& r.hash160_preimages.elems().len() == 0 && r.absolute_timelock is None && r.relative_timelock is None
}
// ---- lemmas about the oracle's vocabulary (used by the loop invariants of from_iter) ----
#[verifier::spinoff_prover]
proof fn lemma_records_insert(s0: BTreeSet<KeyRecord>, s1: BTreeSet<KeyRecord>, x: KeyRecord, ks: Seq<DescriptorPublicKey>, nk: int, nj: int)
    requires
        o_records_sound(s0, ks, nk, nj), o_records_complete(s0, ks, nk, nj),
        forall|y: KeyRecord| #![trigger s1.has(y)] #![trigger s0.has(y)] s1.has(y) <==> (s0.has(y) || y == x),
        0 <= nk < ks.len(), 0 <= nj < ks[nk].spec_full_paths().len(), o_record_of(x, ks[nk], nj),
    ensures
        o_records_sound(s1, ks, nk, nj + 1), o_records_complete(s1, ks, nk, nj + 1),
{
    assert(o_in_region(ks, nk, nj + 1, nk, nj));
    assert forall|rec: KeyRecord| #[trigger] s1.has(rec) implies exists|k: int, j: int| o_in_region(ks, nk, nj + 1, k, j) && #[trigger] o_record_of(rec, ks[k], j) by {
        if s0.has(rec) {
            let (k, j) = choose|k: int, j: int| o_in_region(ks, nk, nj, k, j) && #[trigger] o_record_of(rec, ks[k], j);
            assert(o_in_region(ks, nk, nj + 1, k, j) && o_record_of(rec, ks[k], j));
        } else {
            assert(rec == x);
            assert(o_in_region(ks, nk, nj + 1, nk, nj) && o_record_of(rec, ks[nk], nj));
        }
    }
    assert forall|k: int, j: int| #[trigger] o_in_region(ks, nk, nj + 1, k, j) implies exists|rec: KeyRecord| s1.has(rec) && #[trigger] o_record_of(rec, ks[k], j) by {
        if o_in_region(ks, nk, nj, k, j) {
            let rec = choose|rec: KeyRecord| s0.has(rec) && #[trigger] o_record_of(rec, ks[k], j);
            assert(s1.has(rec) && o_record_of(rec, ks[k], j));
        } else {
            assert(k == nk && j == nj);
            assert(s1.has(x) && o_record_of(x, ks[k], j));
        }
    }
}
#[verifier::spinoff_prover]
proof fn lemma_records_next_key(s: BTreeSet<KeyRecord>, ks: Seq<DescriptorPublicKey>, nk: int)
    requires 0 <= nk < ks.len(), o_records_sound(s, ks, nk, ks[nk].spec_full_paths().len() as int), o_records_complete(s, ks, nk, ks[nk].spec_full_paths().len() as int),
    ensures o_records_sound(s, ks, nk + 1, 0), o_records_complete(s, ks, nk + 1, 0),
{
    let n = ks[nk].spec_full_paths().len() as int;
    assert forall|rec: KeyRecord| #[trigger] s.has(rec) implies exists|k: int, j: int| o_in_region(ks, nk + 1, 0, k, j) && #[trigger] o_record_of(rec, ks[k], j) by {
        let (k, j) = choose|k: int, j: int| o_in_region(ks, nk, n, k, j) && #[trigger] o_record_of(rec, ks[k], j);
        assert(o_in_region(ks, nk + 1, 0, k, j) && o_record_of(rec, ks[k], j));
    }
    assert forall|k: int, j: int| #[trigger] o_in_region(ks, nk + 1, 0, k, j) implies exists|rec: KeyRecord| s.has(rec) && #[trigger] o_record_of(rec, ks[k], j) by {
        assert(o_in_region(ks, nk, n, k, j));
    }
}
"""

GLUE = r"""
// derived Default of Assets: empty sets, no locks (BTreeSet::default() is empty, Option::default() is None)
impl Default for Assets {
    #[verifier::external_body]
    fn default() -> (r: Self) ensures o_no_assets(r) { unimplemented!() }
}
// spec counterparts (`when_used_as_spec`) of the contracted functions, so that the twins of closures / helpers can mention them
spec fn spec_is_key_direct_child_of(pk: &DefiniteDescriptorKey, derivation_path: &bip32::DerivationPath) -> bool {
    o_direct_child(pk.spec_full_path(), derivation_path.steps())
}
// IntoAssets with the oracle of each impl as a spec fn (stub of the one-method trait)
trait IntoAssets: Sized {
    spec fn into_assets_post(self, r: Assets) -> bool;
    fn into_assets(self) -> (r: Assets) ensures self.into_assets_post(r);
}
"""

SCAN_FACTS = "broadcast use scan_lemmas;"
KEYS_AS_ASSETS = r"""
// the j-th full derivation path of key `k` covers `pk`: same master fingerprint, pk's path is that path or one step below it
spec fn o_key_covers(k: DescriptorPublicKey, j: int, pk: DefiniteDescriptorKey) -> bool {
    pk.spec_master_fingerprint() == k.spec_master_fingerprint() && o_direct_child(pk.spec_full_path(), k.spec_full_paths()[j])
}
spec fn o_some_key_covers(ks: Seq<DescriptorPublicKey>, pk: DefiniteDescriptorKey) -> bool {
    exists|k: int, j: int| 0 <= k < ks.len() && 0 <= j < ks[k].spec_full_paths().len() && #[trigger] o_key_covers(ks[k], j, pk)
}
// Assets built from public keys (IntoAssets for Vec<DescriptorPublicKey> / DescriptorPublicKey, FromIterator) can produce every kind
// of signature for exactly the keys that are direct children of one of the given keys' paths
#[verifier::spinoff_prover]
proof fn lemma_keys_as_assets(a: Assets, ks: Seq<DescriptorPublicKey>, pk: DefiniteDescriptorKey, lh: TapLeafHash)
    requires o_from_keys(a, ks),
    ensures
        o_can_ecdsa(a, pk) <==> o_some_key_covers(ks, pk),
        o_can_key_spend(a, pk) <==> o_some_key_covers(ks, pk),
        o_can_script_spend(a, pk, lh) <==> o_some_key_covers(ks, pk),
        forall|n: usize| o_key_spend_size_ok(a, pk, n) ==> n == 64,
{
    let e = a.keys.elems();
    assert forall|i: int| 0 <= i < e.len() && o_source_matches(pk, (#[trigger] e[i]).0) implies o_some_key_covers(ks, pk) && e[i].1 == o_default_can_sign() by {
        assert(a.keys.has(e[i]));
        let (k, j) = choose|k: int, j: int| o_in_region(ks, ks.len() as int, 0, k, j) && #[trigger] o_record_of(e[i], ks[k], j);
        assert(o_key_covers(ks[k], j, pk));
    }
    if o_some_key_covers(ks, pk) {
        let (k, j) = choose|k: int, j: int| 0 <= k < ks.len() && 0 <= j < ks[k].spec_full_paths().len() && #[trigger] o_key_covers(ks[k], j, pk);
        assert(o_in_region(ks, ks.len() as int, 0, k, j));
        let rec = choose|rec: KeyRecord| a.keys.has(rec) && #[trigger] o_record_of(rec, ks[k], j);
        let i = choose|i: int| 0 <= i < e.len() && e[i] == rec;
        assert(o_grants_ecdsa(e[i], pk) && o_grants_key_spend(e[i], pk) && o_grants_script_spend(e[i], pk, lh));
    }
}
"""

DERIVE_OFF = sub("R1-derive", r"#\[derive\([^)]*\)\]\s*", "", required=False)


def C(tag, text, props=("C17",)):
    return Clause(tag, props, text)


# ======================================================================================================================
# R14 / R16: iterator chains over the BTreeSet fields of Assets
# ======================================================================================================================
FIELD_ELEM = {
    "keys": "(bip32::KeySource, CanSign)",
    "sha256_preimages": "sha256::Hash",
    "hash256_preimages": "hash256::Hash",
    "ripemd160_preimages": "ripemd160::Hash",
    "hash160_preimages": "hash160::Hash",
}
KINDS = ("any", "all", "find", "find_map", "position", "filter")


def fn_params(text):
    """[(name, type)] of the non-self parameters, has_self, generics text of a fn item text."""
    head, ret, where, body = split_fn(text)
    m = re.search(r"\bfn\s+(\w+)\s*(<.*?>)?\s*\(", head, flags=re.S)
    i = head.index("(", m.end() - 1)
    inner = head[i + 1:head.rindex(")")]
    parts, depth, cur = [], 0, ""
    for ch in inner:
        if ch in "(<[":
            depth += 1
        elif ch in ")>]":
            depth -= 1
        if ch == "," and depth == 0:
            parts.append(cur)
            cur = ""
        else:
            cur += ch
    if cur.strip():
        parts.append(cur)
    params, self_form = [], None
    for p in parts:
        p = p.strip()
        if re.match(r"^(&\s*(mut\s+)?|mut\s+)?self$", p):
            self_form = p
            continue
        n, _, t = p.partition(":")
        params.append((n.strip(), t.strip()))
    return m.group(1), (m.group(2) or ""), self_form, params, ret


def with_lifetime(ty, lt="'a"):
    """`&T` -> `&'a T` for references without a lifetime."""
    return re.sub(r"&(?!\s*')\s*", "&%s " % lt, ty)


class SetChains:
    """Rewrite of `self.<set>.iter().<adapter>(|PARAMS| BODY)` chains inside ONE function text.  `generated` collects
    (kind, name, text, meta) items to be emitted after the function: the lifted closure (verbatim BODY), its twin, the scan
    spec + lemma and the verified loop."""
    rule = "R14/R16-set-chain"

    def __init__(self, owner):
        self.owner = owner          # e.g. "has_ecdsa_key": used in generated names
        self.generated = []
        self.count = 0

    def __call__(self, text):
        fname, generics, self_form, params, ret = fn_params(text)
        pat = re.compile(r"\bself\s*\.\s*(\w+)\s*\.\s*iter\(\)\s*\.\s*(\w+)\s*\(")
        while True:
            ms = list(pat.finditer(text))
            if not ms:
                break
            m = ms[-1]
            field, kind = m.group(1), m.group(2)
            if field not in FIELD_ELEM:
                raise Undecided("%s: iterator chain over unknown field `%s`" % (fname, field))
            if kind not in KINDS:
                raise Undecided("%s: iterator adapter `.%s(` over self.%s is outside the supported set %s" % (fname, kind, field, KINDS))
            if generics:
                raise Undecided("%s: iterator chain inside a generic function" % fname)
            open_ = m.end() - 1
            close = match_close(text, open_)
            inner = text[open_ + 1:close].strip()
            cm = re.match(r"^\|([^|]*)\|\s*(.*)$", inner, flags=re.S)
            if not cm:
                raise Undecided("%s: `.%s(` is not given a closure literal" % (fname, kind))
            cparams, cbody = cm.group(1).strip(), cm.group(2).strip()
            end = close + 1
            if kind == "filter":
                m2 = re.match(r"\s*\.\s*next\(\)", text[end:])
                if not m2:
                    raise Undecided("%s: `.filter(..)` not followed by `.next()`" % fname)
                end += m2.end()
            # optional `.map(|PAT| EXPR)` on the Option<&elem> of find / filter-next
            post = None
            if kind in ("find", "filter"):
                m3 = re.match(r"\s*\.\s*map\s*\(", text[end:])
                if m3:
                    o3 = end + m3.end() - 1
                    c3 = match_close(text, o3)
                    mm = re.match(r"^\|([^|]*)\|\s*(.*)$", text[o3 + 1:c3].strip(), flags=re.S)
                    if not mm:
                        raise Undecided("%s: `.map(` after `.%s(..)` is not given a closure literal" % (fname, kind))
                    post = (mm.group(1).strip(), mm.group(2).strip())
                    end = c3 + 1
            # the result type of a find_map closure: the chain must be the function's whole body
            rest_before = split_fn(text)[3]
            lift_ret = "bool"
            if kind == "find_map":
                whole = re.sub(r"\s+", "", rest_before) == re.sub(r"\s+", "", "{" + text[m.start():end] + "}")
                if not whole or ret is None:
                    raise Undecided("%s: cannot type the closure of `.find_map(` (the chain is not the whole function body)" % fname)
                lift_ret = ret
            cid = "%s_%d" % (self.owner, self.count)
            self.count += 1
            caps = [(n, t) for n, t in params if re.search(r"\b%s\b" % re.escape(n), cbody)]
            if re.search(r"\bself\b", cbody):
                raise Undecided("%s: closure of `.%s(` captures `self`" % (fname, kind))
            call = self._generate(cid, field, kind, cparams, cbody, caps, lift_ret, fname)
            if post is not None:
                bind = self._bind(post[0], "found__", FIELD_ELEM[field], fname)
                call = "(match %s { Some(found__) => { %s Some(%s) }, None => None })" % (call, bind, post[1])
            text = text[:m.start()] + call + text[end:]
        if re.search(r"\.\s*iter\(\)|\.\s*into_iter\(\)", text) and "for " not in text:
            raise Undecided("%s: unsupported iterator chain" % fname)
        return text

    @staticmethod
    def _bind(pattern, var, elem, fname):
        """`let` bindings standing for the closure parameter pattern applied to `var: &elem`."""
        pattern = pattern.strip()
        if re.match(r"^\w+$", pattern):
            return "" if pattern == "_" else "let %s = %s;" % (pattern, var)
        tm = re.match(r"^\(\s*(\w+)\s*,\s*(\w+)\s*\)$", pattern)
        if tm and elem.startswith("("):
            out = []
            for idx, nm in enumerate(tm.groups()):
                if nm != "_":
                    out.append("let %s = &%s.%d;" % (nm, var, idx))
            return " ".join(out)
        raise Undecided("%s: closure parameter pattern `|%s|` is outside the supported forms (`|x|`, `|(a, b)|`)" % (fname, pattern))

    def _generate(self, cid, field, kind, cparams, cbody, caps, lift_ret, fname):
        elem = FIELD_ELEM[field]
        ident = re.match(r"^\w+$", cparams) is not None
        # find / filter closures get `&Self::Item` = `&&elem`
        double = kind in ("find", "filter") and ident and cparams != "_"
        ptype = "&'a &'a %s" % elem if double else "&'a %s" % elem
        bind = self._bind(cparams, "rec__", elem, fname)
        cap_decl = "".join(", %s: %s" % (n, t) for n, t in caps)
        cap_args = "".join(", %s" % n for n, _ in caps)
        ret_lt = with_lifetime(lift_ret) if kind == "find_map" else "bool"
        cbody = option_map(cbody)                      # Option combinators inside the closure body (R12'-option)
        body = cbody if cbody.startswith("{") else "{ %s }" % cbody
        lifted = "fn lift_%s<'a>(rec__: %s%s) -> %s {\n    %s\n    %s\n}" % (cid, ptype, cap_decl, ret_lt, bind, body)
        twin = "spec fn spec_lift_%s<'a>(rec__: %s%s) -> %s {\n    %s\n    %s\n}\n" % (cid, ptype, cap_decl, ret_lt, bind, body)
        self.generated.append(("twin", "spec_lift_" + cid, twin, None))
        self.generated.append(("lift", "lift_" + cid, lifted, dict(ret="r == spec_lift_%s(rec__%s)" % (cid, cap_args), kind=kind)))
        arg = lambda e: ("&(&%s)" % e) if double else ("&%s" % e)       # spec-level argument for element expression e
        hit = {"all": "!spec_lift_%s(%s%s)", "find_map": "(spec_lift_%s(%s%s) is Some)"}.get(kind, "spec_lift_%s(%s%s)")
        H = lambda e: hit % (cid, arg(e), cap_args)
        chain_ret = {"any": "bool", "all": "bool", "position": "Option<usize>", "find": "Option<&'a %s>" % elem,
                     "filter": "Option<&'a %s>" % elem, "find_map": ret_lt}[kind]
        some = {"any": "true", "all": "false", "position": "Some(i as usize)", "find": "Some(&set.elems()[i])", "filter": "Some(&set.elems()[i])",
                "find_map": "spec_lift_%s(%s%s)" % (cid, arg("set.elems()[i]"), cap_args)}[kind]
        none = {"any": "false", "all": "true"}.get(kind, "None")
        x_arg = "&v[i]" if double else "v[i]"
        hit_exec = {"all": "!x", "find_map": "x.is_some()"}.get(kind, "x")
        some_exec = {"any": "true", "all": "false", "position": "Some(i)", "find": "Some(v[i])", "filter": "Some(v[i])", "find_map": "x"}[kind]
        spec = r"""
// ---- R14/R16: `self.%(field)s.iter().%(kind)s(|%(cparams)s| ..)` in %(fname)s -------------------------------------------------
// index of the first element (in iteration order) on which the closure "hits", if any
spec fn spec_scan_%(cid)s<'a>(s: Seq<%(elem)s>%(cap_decl)s, from: int) -> Option<int>
    decreases s.len() - from
{
    if from < 0 || from >= s.len() { None } else if %(hit_from)s { Some(from) } else { spec_scan_%(cid)s(s%(cap_args)s, from + 1) }
}
broadcast proof fn lemma_scan_%(cid)s<'a>(s: Seq<%(elem)s>%(cap_decl)s, from: int)
    requires 0 <= from <= s.len(),
    ensures match #[trigger] spec_scan_%(cid)s(s%(cap_args)s, from) {
        Some(i) => from <= i < s.len() && %(hit_i)s && (forall|j: int| #![trigger s[j]] from <= j < i ==> !%(hit_j)s),
        None => forall|j: int| #![trigger s[j]] from <= j < s.len() ==> !%(hit_j)s,
    },
    decreases s.len() - from,
{
    if from < s.len() && !%(hit_from)s { lemma_scan_%(cid)s(s%(cap_args)s, from + 1); }
}
spec fn spec_chain_%(cid)s<'a>(set: &'a BTreeSet<%(elem)s>%(cap_decl)s) -> %(chain_ret)s {
    match spec_scan_%(cid)s(set.elems()%(cap_args)s, 0) { Some(i) => %(some)s, None => %(none)s }
}
""" % dict(cid=cid, field=field, kind=kind, cparams=cparams, fname=fname, elem=elem, cap_decl=cap_decl, cap_args=cap_args,
           hit_from=H("s[from]"), hit_i=H("s[i]"), hit_j=H("s[j]"), chain_ret=chain_ret, some=some, none=none)
        loop = r"""
#[verifier::when_used_as_spec(spec_chain_%(cid)s)]
fn chain_%(cid)s<'a>(set: &'a BTreeSet<%(elem)s>%(cap_decl)s) -> (r: %(chain_ret)s)
    ensures r == spec_chain_%(cid)s(set%(cap_args)s),
{
    let v = btree_set_iter_as_vec(set);
    let mut i: usize = 0;
    while i < v.len()
        invariant
            i <= v@.len(), v@.len() == set.elems().len(),
            forall|j: int| 0 <= j < v@.len() ==> *(#[trigger] v@[j]) == set.elems()[j],
            spec_scan_%(cid)s(set.elems()%(cap_args)s, 0) == spec_scan_%(cid)s(set.elems()%(cap_args)s, i as int),
        decreases v@.len() - i,
    {
        let x = lift_%(cid)s(%(x_arg)s%(cap_args)s);
        if %(hit_exec)s { return %(some_exec)s; }
        i += 1;
    }
    %(none)s
}
""" % dict(cid=cid, elem=elem, cap_decl=cap_decl, cap_args=cap_args, chain_ret=chain_ret, x_arg=x_arg, hit_exec=hit_exec, some_exec=some_exec, none=none)
        self.generated.append(("spec", "spec_scan_" + cid, spec, "lemma_scan_" + cid))
        self.generated.append(("loop", "chain_" + cid, loop, None))
        return "chain_%s(&self.%s%s)" % (cid, field, cap_args)


KEYWORDS = ("if", "match", "return", "while", "in", "else", "let", "mut", "move", "ref", "as", "break", "loop")


def receiver_start(text, dot):
    """Start offset of the postfix expression that ends right before the `.` at `dot` (method-call chain, field accesses,
    paths, calls, indexing, a parenthesised expression).  Unary `&` / `*` / `!` bind weaker than a method call and are not
    part of the receiver."""
    i = dot
    while True:
        j = i
        while j > 0 and text[j - 1].isspace():
            j -= 1
        after_group = False
        if j > 0 and text[j - 1] in ")]":
            depth, k = 0, j - 1
            while k >= 0:
                if text[k] in ")]}":
                    depth += 1
                elif text[k] in "([{":
                    depth -= 1
                    if depth == 0:
                        break
                k -= 1
            if k < 0:
                return None
            j = k
            after_group = True
        k = j
        while k > 0 and (text[k - 1].isalnum() or text[k - 1] == "_"):
            k -= 1
        if after_group and text[k:j] in KEYWORDS:
            k = j                                                # `if (..)`, `return (..)`: the group itself is the receiver
        # path segments `a::b`, turbofish-free
        while k < j and k > 1 and text[k - 2:k] == "::":
            k -= 2
            while k > 0 and (text[k - 1].isalnum() or text[k - 1] == "_"):
                k -= 1
        if k == j and not after_group:
            return None
        j = k
        m = j
        while m > 0 and text[m - 1].isspace():
            m -= 1
        if m > 0 and text[m - 1] == "." and not (m > 1 and text[m - 2] == "."):
            i = m - 1
            continue
        if m > 0 and text[m - 1] == "?":
            return None
        return j


def split_args(inner):
    """Top-level comma split of an argument list (closure bars `|a, b|` protect their commas)."""
    parts, depth, cur, in_bars = [], 0, "", False
    i = 0
    while i < len(inner):
        ch = inner[i]
        if ch == "|" and depth == 0 and inner[i:i + 2] != "||" and (in_bars or not cur.strip()):
            in_bars = not in_bars
        if ch in "([{":
            depth += 1
        elif ch in ")]}":
            depth -= 1
        if ch == "," and depth == 0 and not in_bars:
            parts.append(cur.strip())
            cur = ""
        else:
            cur += ch
        i += 1
    if cur.strip():
        parts.append(cur.strip())
    return parts


def closure_parts(arg, what):
    """(pattern, body) of a closure literal `|PAT| BODY` (a `move` prefix and a type annotation of the parameter are dropped);
    a plain function path `F` is taken as `|v__| F(v__)`; `|| BODY` gives pattern ''."""
    arg = re.sub(r"^move\s+", "", arg.strip())
    if arg.startswith("||"):
        return "", arg[2:].strip()
    cm = re.match(r"^\|([^|]*)\|\s*(.*)$", arg, flags=re.S)
    if cm:
        pat_ = cm.group(1).strip()
        if not pat_.startswith("("):
            pat_ = re.sub(r"\s*:\s*.+$", "", pat_, flags=re.S)      # `|x: T|`
        return pat_, cm.group(2).strip()
    if re.match(r"^[A-Za-z_][\w:]*$", arg):
        return "v__", "%s(v__)" % arg
    raise Undecided("argument `%s` of `.%s(` is neither a closure literal nor a function path" % (arg[:60], what))


SIMPLE_VALUE = re.compile(r"^(?:-?\d[\w.]*|true|false|None|\"[^\"]*\"|[A-Za-z_][\w]*(?:::[A-Za-z_]\w*)*)$")
OPTION_COMBINATORS = ("map_or_else", "map_or", "map", "filter", "and_then", "is_some_and", "is_none_or", "unwrap_or_else", "unwrap_or",
                      "is_some", "is_none", "copied", "cloned", "or_else", "or")


@rule("R12'-option")
def option_map(text):
    """Chains of Option combinators -> `match` (every iterator chain has been rewritten before, so a remaining `.map(` /
    `.filter(` ... has an Option receiver; on any other receiver the `Some` / `None` patterns do not type-check => UNDECIDED).
    Each combinator is replaced by its std definition with the closure body inlined VERBATIM, so that Verus (and the spec twin
    of a helper) sees what it computes:
        o.map(|p| B)            match o { Some(p) => Some(B), None => None }
        o.map_or(D, |p| B)      match o { Some(p) => B, None => D }            (D evaluated before the match unless it is a literal / path)
        o.map_or_else(|| D, |p| B)   match o { Some(p) => B, None => D }
        o.filter(|p| B)         match o { Some(v) => { let p = &v; if B { Some(v) } else { None } }, None => None }
        o.and_then(|p| B)       match o { Some(p) => B, None => None }
        o.is_some_and(|p| B) / o.is_none_or(|p| B)     match o { Some(p) => B, None => false / true }
        o.unwrap_or(D) / o.unwrap_or_else(|| D)        match o { Some(v) => v, None => D }
        o.or(D) / o.or_else(|| D)                      match o { Some(v) => Some(v), None => D }
        o.is_some() / o.is_none()                      match o { Some(_) => true / false, None => false / true }
        o.copied() / o.cloned()                        match o { Some(v) => Some(*v) / Some((*v).clone()), None => None }
    The leftmost combinator is rewritten first, so the receiver of the next one is the parenthesised `match`."""
    pat = re.compile(r"\.\s*(%s)\s*\(" % "|".join(OPTION_COMBINATORS))
    guard = 0
    while True:
        guard += 1
        m = pat.search(text)
        if not m or guard > 200:
            return text
        name = m.group(1)
        open_ = m.end() - 1
        close = match_close(text, open_)
        start = receiver_start(text, m.start())
        if start is None:
            raise Undecided("cannot find the receiver of `.%s(` at `%s`" % (name, text[max(0, m.start() - 40):m.start() + 30]))
        recv = text[start:m.start()].strip()
        args = split_args(text[open_ + 1:close])
        nargs = {"map_or_else": 2, "map_or": 2, "is_some": 0, "is_none": 0, "copied": 0, "cloned": 0}.get(name, 1)
        if len(args) != nargs:
            raise Undecided("`.%s(` with %d argument(s)" % (name, len(args)))
        pre = ""

        def value(d):
            """an eagerly evaluated argument: literals / paths are used in place, anything else is bound first (after the receiver)"""
            nonlocal pre, recv
            if SIMPLE_VALUE.match(d):
                return d
            pre = "let opt__ = %s; let dflt__ = %s; " % (recv, d)
            recv = "opt__"
            return "dflt__"
        if name == "map":
            p_, b_ = closure_parts(args[0], name)
            arms = "Some(%s) => Some(%s), None => None" % (p_, b_)
        elif name == "map_or":
            d_ = value(args[0])
            p_, b_ = closure_parts(args[1], name)
            arms = "Some(%s) => %s, None => %s" % (p_, b_, d_)
        elif name == "map_or_else":
            _, d_ = closure_parts(args[0], name)
            p_, b_ = closure_parts(args[1], name)
            arms = "Some(%s) => %s, None => %s" % (p_, b_, d_)
        elif name == "filter":
            p_, b_ = closure_parts(args[0], name)
            if re.match(r"^\w+$", p_):
                bind = "" if p_ == "_" else "let %s = &v__; " % p_
            elif re.match(r"^&\s*\w+$", p_):
                bind = "let %s = v__; " % p_.lstrip("& ")
            else:
                raise Undecided("closure parameter pattern `|%s|` of Option::filter is outside the supported forms" % p_)
            arms = "Some(v__) => { %sif %s { Some(v__) } else { None } }, None => None" % (bind, b_)
        elif name == "and_then":
            p_, b_ = closure_parts(args[0], name)
            arms = "Some(%s) => %s, None => None" % (p_, b_)
        elif name in ("is_some_and", "is_none_or"):
            p_, b_ = closure_parts(args[0], name)
            arms = "Some(%s) => %s, None => %s" % (p_, b_, "false" if name == "is_some_and" else "true")
        elif name == "unwrap_or":
            arms = "Some(v__) => v__, None => %s" % value(args[0])
        elif name == "unwrap_or_else":
            arms = "Some(v__) => v__, None => %s" % closure_parts(args[0], name)[1]
        elif name == "or":
            arms = "Some(v__) => Some(v__), None => %s" % value(args[0])
        elif name == "or_else":
            arms = "Some(v__) => Some(v__), None => %s" % closure_parts(args[0], name)[1]
        elif name in ("is_some", "is_none"):
            arms = "Some(_) => %s, None => %s" % (("true", "false") if name == "is_some" else ("false", "true"))
        elif name == "copied":
            arms = "Some(v__) => Some(*v__), None => None"
        else:
            arms = "Some(v__) => Some((*v__).clone()), None => None"
        new = "(match %s { %s })" % (recv, arms)
        if pre:
            new = "({ %s%s })" % (pre, new[1:-1])
        text = text[:start] + new + text[close + 1:]


def emit_generated(vf, chains, fq, reg, props):
    """Emit what a SetChains rewrite produced for function `fq` (after its impl block was closed)."""
    lemmas = []
    for kind, name, text, meta in chains.generated:
        if kind == "twin":
            vf.raw(text)
        elif kind == "lift":
            vf.fn_text("%s__closure_%s" % (fq, name.rsplit("_", 1)[1]), text,
                       Contract(ensures=[Clause("is_what_its_body_computes", ("C11",), meta["ret"])]), props,
                       file=PLAN, lines=reg.lines(), anchor="closure of .%s( in %s" % (meta["kind"], fq),
                       attrs="#[verifier::when_used_as_spec(spec_%s)]" % name)
        elif kind == "spec":
            vf.raw(text)
            lemmas.append(meta)
        elif kind == "loop":
            vf.spec_obligation("%s__chain_%s" % (fq, name.rsplit("_", 1)[1]), text, props)
    return lemmas


# ======================================================================================================================
# R17: `mut self`
# ======================================================================================================================
@rule("R17-mut-self")
def mut_self(text):
    head, ret, where, body = split_fn(text)
    if not re.search(r"\(\s*mut\s+self\b", head):
        return None
    head2 = re.sub(r"\(\s*mut\s+self\b", "(self", head, count=1)
    body2 = re.sub(r"\bself\b", "slf", body)
    return head2 + text[len(head):len(text) - len(body)] + "{\n        let mut slf = self;" + body2[1:]


# ======================================================================================================================
# helpers: functions of src/plan.rs that the contracted functions call but this unit does not know
# ======================================================================================================================
OWNERS = ("Assets", "CanSign", "TaprootCanSign", "TaprootAvailableLeaves")


class Helpers:
    """Inventory of the fn items of src/plan.rs (top level and in the inherent impl blocks of OWNERS).  A function that a
    verified text calls and that is not under an explicit contract is emitted with a TWIN: spec fn with the same body text +
    obligation `r == twin(args)` + when_used_as_spec, so that callers are judged on what it computes.  A body outside the
    expression subset (loops, `return`, `?`, `&mut`) makes Verus reject the twin => UNDECIDED naming the helper."""

    def __init__(self, repo):
        self.repo = repo
        self.inv = {}
        for it in repo.file(PLAN).items():
            if it["kind"] == "fn":
                self.inv.setdefault(it["name"], ("fn:%s" % it["name"], None))
        for owner in OWNERS:
            for n in range(8):
                a = "impl:%s#%d" % (owner, n)
                try:
                    reg = repo.at(PLAN, a)
                except AnchorLost:
                    break
                for it in reg.items():
                    if it["kind"] == "fn":
                        self.inv.setdefault(it["name"], ("%s/fn:%s" % (a, it["name"]), owner))
        self.done = set()

    def known(self, *names):
        self.done.update(names)

    def calls(self, text):
        out = []
        for m in re.finditer(r"\b(\w+)\s*(?:::\s*<[^>]*>\s*)?\(", text):
            n = m.group(1)
            if n in self.inv and n not in self.done and n not in out:
                out.append(n)
        return out

    def emit(self, vf, texts):
        """Emit (transitively) every unknown helper called from `texts`."""
        work = []
        for t in texts:
            work.extend(self.calls(t))
        while work:
            n = work.pop(0)
            if n in self.done:
                continue
            self.done.add(n)
            anchor, owner = self.inv[n]
            reg = self.repo.at(PLAN, anchor)
            from vlib.verus import drop_vis
            text = drop_vis(strip_docs(reg.text)).strip("\n")
            ch = SetChains(n)
            text2 = option_map(ch(text))
            fname, generics, self_form, params, ret = fn_params(text2)
            head, _, where, body = split_fn(text2)
            text3 = prologue(SCAN_FACTS)(text2)
            fq = "%s::%s" % (owner, n) if owner else n
            twinable = ret is not None and not generics and self_form in (None, "&self", "self") and not any("mut" in t.split() for _, t in params)
            contract, attrs = None, ""
            if not twinable and ret is not None:
                raise Undecided("helper %s (%s) is called by a function under contract but its signature (generics / `mut` / `&mut self`) is outside "
                                "what the twin construction handles: its result would be unknown to the callers" % (n, anchor))
            if twinable:
                args = ", ".join(p for p, _ in params)
                twin_head = re.sub(r"\bfn\s+%s\b" % re.escape(n), "spec fn spec__%s" % n, head, count=1)
                twin = "%s -> %s %s\n" % (twin_head, ret, body)
                callee = ("self.spec__%s(%s)" % (n, args)) if self_form else ("spec__%s(%s)" % (n, args))
                contract = Contract(ensures=[Clause("is_what_its_body_computes", ("C11",), "r == %s" % callee)])
                attrs = "#[verifier::when_used_as_spec(spec__%s)]" % n
            blk = vf.block("impl %s" % owner) if owner else None
            if blk:
                blk.__enter__()
            if twinable:
                vf.raw(twin)
            vf.fn_text(fq, text3, contract, ("C17", "C11"), file=PLAN, lines=reg.lines(), anchor=anchor, attrs=attrs)
            vf.rewrites_used.append("helper-twin @ %s" % anchor)
            if blk:
                blk.__exit__()
            self.lemmas.extend(emit_generated(vf, ch, fq, reg, ("C17", "C11")))
            work.extend(self.calls(text2))
            for _, _, t, _ in ch.generated:
                work.extend(self.calls(t))

    lemmas = []


# ======================================================================================================================
def build(repo):
    vf = VerusFile(NAME, repo)
    lock_stubs = C18.BITCOIN_STUBS.split("// BIP68: bit 22")[0]
    if "pub mod relative" not in lock_stubs or "pub mod absolute" not in lock_stubs or "fn implied_by" not in lock_stubs:
        raise Undecided("c18_semantic.BITCOIN_STUBS no longer starts with the relative / absolute LockTime stubs")
    vf.raw(PRELUDE, keep_vis=True)
    vf.raw(lock_stubs, keep_vis=True)
    vf.raw(LOCK_EXTRA, keep_vis=True)
    vf.trust("BTreeSet<T> (external_body) with `elems()` = iteration sequence, `has` = membership; new / contains / insert / extend; "
             "btree_set_iter_as_vec, btree_set_from_vec (external_body)",
             "alloc::collections::BTreeSet: `iter()` yields every element exactly once (duplicate-free, same element set); contains / insert / "
             "extend / collect are the set operations; element equality of the set (Ord) is the structural equality of the stubs")
    vf.trust("assume_specification [Option::or], [<[T]>::contains]", "std: `a.or(b)` is a if a is Some else b; slice contains = some element is `==`")
    vf.trust("bip32::{Fingerprint, ChildNumber (real enum), DerivationPath (Vec newtype: PartialEq = same steps, Index<RangeTo> = prefix slice, "
             "panics beyond len), KeySource}", "bitcoin::bip32 as compiled (same model as unit c16_keys)")
    vf.trust("sha256 / hash256 / ripemd160 / hash160 ::Hash, TapLeafHash, bitcoin::PublicKey, XOnlyPublicKey (stubs) + PartialEqSpecImpl glue",
             "byte-array newtypes with derived (structural) equality; four DISTINCT hash types")
    vf.trust("DefiniteDescriptorKey / DescriptorPublicKey (opaque): master_fingerprint, full_derivation_paths (external_body)",
             "unit c16_keys: a definite key has exactly one full derivation path (origin path ++ key path); fingerprint and paths are functions of the key")
    vf.trust("relative::LockTime / absolute::LockTime with is_implied_by, to_consensus_u32 (external_body); the types and is_implied_by imported from unit c18_semantic",
             "BIP68 / BIP65 comparison (same unit and <=); checked against the compiled bitcoin crate by Kani unit k18_policy (lock_stub_rel / lock_stub_abs)")

    # ---- the real types ------------------------------------------------------------------------------------------------------
    vf.item(PLAN, "struct:CanSign", rewrites=[DERIVE_OFF])
    vf.item(PLAN, "struct:TaprootCanSign", rewrites=[DERIVE_OFF])
    vf.item(PLAN, "enum:TaprootAvailableLeaves", rewrites=[DERIVE_OFF])
    vf.item(PLAN, "struct:Assets", rewrites=[DERIVE_OFF])
    vf.raw(ORACLE, keep_vis=True)
    vf.raw(GLUE)
    vf.trust("impl Default for Assets (external_body)", "derived Default: empty sets and None")
    vf.trust("trait IntoAssets (stub + spec fn into_assets_post)", "one-method trait; the extra spec fn carries each impl's oracle")

    helpers = Helpers(repo)
    texts = []          # verified texts, scanned for calls of unknown helpers
    lemmas = []

    def fn(anchor, qual, contract=None, rewrites=(), attrs="", chains=None, props=("C17", "C11")):
        rws = list(rewrites)
        if chains is not None:
            # R10: the facts about the generated scans (broadcast group defined at the end of the file)
            rws = [chains, option_map] + rws + [prologue(SCAN_FACTS)]
        reg = vf.fn(PLAN, anchor, qual=qual, props=props, contract=contract, rewrites=rws, attrs=attrs)
        texts.append(reg.text)
        return reg

    # ---- leaf functions ------------------------------------------------------------------------------------------------------
    helpers.known("is_key_direct_child_of", "sig_len", "is_available", "default", "has_ecdsa_key", "has_taproot_internal_key",
                  "has_taproot_script_key", "new", "add", "older", "after", "append", "from_iter", "into_assets")
    INV = ("for pk_derivation_path in it: pk.full_derivation_paths()\n        invariant it.seq().len() == 1, it.seq()[0].steps() == pk.spec_full_path(),\n"
           "            forall|j: int| 0 <= j < it.index() ==> !o_direct_child(#[trigger] it.seq()[j].steps(), derivation_path.steps()),\n    {")
    fn("fn:is_key_direct_child_of", None, attrs="#[verifier::when_used_as_spec(spec_is_key_direct_child_of)]",
       rewrites=[sub("R10", r"for pk_derivation_path in pk\.full_derivation_paths\(\)\s*\{", lambda m: INV)],
       contract=Contract(ensures=[
           C("same_path_or_one_step_below", "r == o_direct_child(pk.spec_full_path(), derivation_path.steps())", ("C17", "C11"))]))
    with vf.block("impl TaprootCanSign"):
        vf.raw("spec fn spec_sig_len(&self) -> usize { o_schnorr_sig_len(self.sighash_default) }")
        fn("impl:TaprootCanSign/fn:sig_len", "TaprootCanSign", attrs="#[verifier::when_used_as_spec(spec_sig_len)]", contract=Contract(ensures=[
            C("bip341_signature_length", "r == o_schnorr_sig_len(self.sighash_default)", ("C17", "C09"))]))
    with vf.block("impl TaprootAvailableLeaves"):
        vf.raw("spec fn spec_is_available(&self, lh: &TapLeafHash) -> bool { o_leaf_allowed(*self, *lh) }")
        fn("impl:TaprootAvailableLeaves/fn:is_available", "TaprootAvailableLeaves", attrs="#[verifier::when_used_as_spec(spec_is_available)]",
           contract=Contract(ensures=[
               C("none_allows_no_leaf", "*self is None ==> !r"),
               C("any_allows_every_leaf", "*self is Any ==> r"),
               C("single_allows_exactly_that_leaf", "*self matches TaprootAvailableLeaves::Single(h) ==> r == (h == *lh)"),
               C("many_allows_exactly_the_listed_leaves", "*self matches TaprootAvailableLeaves::Many(list) ==> r == list@.contains(*lh)"),
               C("is_the_documented_rule", "r == o_leaf_allowed(*self, *lh)")]))
    with vf.block("impl Default for TaprootCanSign"):
        fn("impl:Default for TaprootCanSign/fn:default", "TaprootCanSign", contract=Contract(ensures=[
            C("documented_default", "r == o_default_taproot_can_sign()")]))
    with vf.block("impl Default for CanSign"):
        fn("impl:Default for CanSign/fn:default", "CanSign", contract=Contract(ensures=[
            C("documented_default", "r == o_default_can_sign()")]))

    # ---- the capability queries ------------------------------------------------------------------------------------------------
    pending = []
    with vf.block("impl Assets"):
        ch = SetChains("has_ecdsa_key")
        reg = fn("impl:Assets/fn:has_ecdsa_key", "Assets", chains=ch, contract=Contract(ensures=[
            C("any_granting_record_suffices", "o_can_ecdsa(*self, *pk) ==> r", ("C17", "C02")),
            C("only_if_a_matching_record_grants_ecdsa", "r ==> o_can_ecdsa(*self, *pk)")]))
        pending.append((ch, "Assets::has_ecdsa_key", reg))
        ch = SetChains("has_taproot_internal_key")
        reg = fn("impl:Assets/fn:has_taproot_internal_key", "Assets", chains=ch, contract=Contract(ensures=[
            C("any_granting_record_suffices", "o_can_key_spend(*self, *pk) ==> r is Some", ("C17", "C02")),
            C("only_if_a_matching_record_grants_key_spend", "r is Some ==> o_can_key_spend(*self, *pk)"),
            C("size_is_the_schnorr_length_of_a_granting_record", "r is Some ==> o_key_spend_size_ok(*self, *pk, r->Some_0)", ("C17", "C09"))]))
        pending.append((ch, "Assets::has_taproot_internal_key", reg))
        ch = SetChains("has_taproot_script_key")
        reg = fn("impl:Assets/fn:has_taproot_script_key", "Assets", chains=ch, contract=Contract(ensures=[
            C("any_granting_record_suffices", "o_can_script_spend(*self, *pk, *tap_leaf_hash) ==> r is Some", ("C17", "C02")),
            C("only_if_a_matching_record_allows_this_leaf", "r is Some ==> o_can_script_spend(*self, *pk, *tap_leaf_hash)"),
            C("size_is_the_schnorr_length_of_a_granting_record", "r is Some ==> o_script_spend_size_ok(*self, *pk, *tap_leaf_hash, r->Some_0)", ("C17", "C09"))]))
        pending.append((ch, "Assets::has_taproot_script_key", reg))
    for ch, fq, reg in pending:
        lemmas.extend(emit_generated(vf, ch, fq, reg, ("C17", "C11")))
        for _, _, t, _ in ch.generated:
            texts.append(t)

    # ---- AssetProvider ---------------------------------------------------------------------------------------------------------
    NONE = {"provider_lookup_raw_pkh_pk", "provider_lookup_raw_pkh_x_only_pk", "provider_lookup_raw_pkh_ecdsa_sig", "provider_lookup_raw_pkh_tap_leaf_script_sig"}
    with vf.block("trait AssetProvider<Pk: MiniscriptKey>"):
        for it in repo.at(PLAN, "trait:AssetProvider").items():
            if it["kind"] != "fn":
                continue
            c = None
            if it["name"] in NONE:
                # "All the methods have a default implementation that returns `false` or `None`"; Assets holds key SOURCES
                # (fingerprints), no public keys, so it cannot resolve a raw key hash
                c = Contract(ensures=[C("assets_hold_no_key_for_a_raw_hash", "r is None")])
            vf.fn(PLAN, "trait:AssetProvider/fn:" + it["name"], qual="AssetProvider", props=("C11",), contract=c, rewrites=[name_anonymous_params])
    IMPL = "impl:AssetProvider<DefiniteDescriptorKey> for Assets"
    PROVIDER = {
        "provider_lookup_ecdsa_sig": [
            C("available_iff_some_matching_record_can_sign_ecdsa", "r == o_can_ecdsa(*self, *pk)", ("C17", "C02"))],
        "provider_lookup_tap_key_spend_sig": [
            C("available_iff_some_matching_record_can_key_spend", "r is Some <==> o_can_key_spend(*self, *pk)", ("C17", "C02")),
            C("announced_size_is_the_schnorr_length_of_a_granting_record", "r is Some ==> o_key_spend_size_ok(*self, *pk, r->Some_0)", ("C17", "C09"))],
        "provider_lookup_tap_leaf_script_sig": [
            C("available_iff_some_matching_record_can_sign_for_this_leaf", "r is Some <==> o_can_script_spend(*self, *pk, *tap_leaf_hash)", ("C17", "C02")),
            C("announced_size_is_the_schnorr_length_of_a_granting_record", "r is Some ==> o_script_spend_size_ok(*self, *pk, *tap_leaf_hash, r->Some_0)", ("C17", "C09"))],
        "provider_lookup_sha256": [C("available_iff_in_the_sha256_set", "r == self.sha256_preimages.has(*hash)", ("C17", "C02"))],
        "provider_lookup_hash256": [C("available_iff_in_the_hash256_set", "r == self.hash256_preimages.has(*hash)", ("C17", "C02"))],
        "provider_lookup_ripemd160": [C("available_iff_in_the_ripemd160_set", "r == self.ripemd160_preimages.has(*hash)", ("C17", "C02"))],
        "provider_lookup_hash160": [C("available_iff_in_the_hash160_set", "r == self.hash160_preimages.has(*hash)", ("C17", "C02"))],
        "check_older": [C("allowed_iff_same_unit_and_not_above_the_maximum", "r == o_older_allowed(*self, s)", ("C17", "C02"))],
        "check_after": [C("allowed_iff_same_unit_and_not_above_the_maximum", "r == o_after_allowed(*self, l)", ("C17", "C02"))],
    }
    pending = []
    seen = set()
    with vf.block("impl AssetProvider<DefiniteDescriptorKey> for Assets"):
        for it in repo.at(PLAN, IMPL).items():
            if it["kind"] != "fn":
                continue
            seen.add(it["name"])
            ch = SetChains(it["name"])
            cl = PROVIDER.get(it["name"])
            reg = fn(IMPL + "/fn:" + it["name"], "<Assets as AssetProvider>", chains=ch, contract=Contract(ensures=cl) if cl else None)
            pending.append((ch, "<Assets as AssetProvider>::" + it["name"], reg))
    missing = set(PROVIDER) - seen
    if missing:
        raise Undecided("impl AssetProvider for Assets no longer overrides %s" % sorted(missing))
    for ch, fq, reg in pending:
        lemmas.extend(emit_generated(vf, ch, fq, reg, ("C17", "C11")))
        for _, _, t, _ in ch.generated:
            texts.append(t)

    # ---- builders ------------------------------------------------------------------------------------------------------------------
    def assets_impl_with(name):
        for n in range(8):
            a = "impl:Assets#%d" % n
            try:
                repo.at(PLAN, a)
            except AnchorLost:
                break
            try:
                repo.at(PLAN, a + "/fn:" + name)
                return a + "/fn:" + name
            except AnchorLost:
                continue
        raise AnchorLost("%s: no `impl Assets` block with fn %s" % (PLAN, name))
    FRAME_HASHES = ("r.sha256_preimages == self.sha256_preimages && r.hash256_preimages == self.hash256_preimages && "
                    "r.ripemd160_preimages == self.ripemd160_preimages && r.hash160_preimages == self.hash160_preimages")
    COLLECT = sub("R15", r"vec!\[(\w+)\]\s*\.into_iter\(\)\s*\.collect\(\)", r"btree_set_from_vec(vec![\1])")
    with vf.block("impl Assets"):
        fn(assets_impl_with("new"), "Assets", contract=Contract(ensures=[C("holds_nothing", "o_no_assets(r)")]))
        fn(assets_impl_with("older"), "Assets", rewrites=[mut_self], contract=Contract(ensures=[
            C("the_given_lock_becomes_the_maximum", "r.relative_timelock == Some(seq)"),
            C("allows_exactly_the_locks_it_implies", "forall|s: relative::LockTime| o_older_allowed(r, s) <==> s.implied_by(seq)", ("C17", "C02")),
            C("everything_else_is_kept", "r.keys == self.keys && r.absolute_timelock == self.absolute_timelock && " + FRAME_HASHES)]))
        fn(assets_impl_with("after"), "Assets", rewrites=[mut_self], contract=Contract(ensures=[
            C("the_given_lock_becomes_the_maximum", "r.absolute_timelock == Some(lt)"),
            C("allows_exactly_the_locks_it_implies", "forall|l: absolute::LockTime| o_after_allowed(r, l) <==> l.implied_by(lt)", ("C17", "C02")),
            C("everything_else_is_kept", "r.keys == self.keys && r.relative_timelock == self.relative_timelock && " + FRAME_HASHES)]))
        fn(assets_impl_with("append"), "Assets", contract=Contract(ensures=[
            C("key_records_of_both_sides", "o_keys_union(*final(self), *old(self), b)", ("C17", "C02")),
            C("preimages_of_both_sides", "o_hashes_union(*final(self), *old(self), b)", ("C17", "C02")),
            C("no_lock_invented_or_lost", "o_lock_merged(final(self).absolute_timelock, old(self).absolute_timelock, b.absolute_timelock) && "
              "o_lock_merged(final(self).relative_timelock, old(self).relative_timelock, b.relative_timelock)")]))
        fn(assets_impl_with("add"), "Assets", rewrites=[mut_self], contract=Contract(ensures=[
            C("holds_what_either_side_holds", "exists|b: Assets| #[trigger] asset.into_assets_post(b) && o_is_union(r, self, b)", ("C17", "C02"))]))
        # FromIterator<DescriptorPublicKey>::from_iter at I = Vec<DescriptorPublicKey>
        OUTER = ("for pk in it: iter\n            invariant it.seq() == iter@, o_records_sound(keys, iter@, it.index() as int, 0), o_records_complete(keys, iter@, it.index() as int, 0),\n        {")
        INNER = ("for deriv_path in it2: pk.full_derivation_paths()\n                invariant it.seq() == iter@, 0 <= it.index() < iter@.len(), pk == iter@[it.index() as int],\n"
                 "                    it2.seq().len() == pk.spec_full_paths().len(), forall|j: int| 0 <= j < it2.seq().len() ==> (#[trigger] it2.seq()[j]).steps() == pk.spec_full_paths()[j],\n"
                 "                    o_records_sound(keys, iter@, it.index() as int, it2.index() as int), o_records_complete(keys, iter@, it.index() as int, it2.index() as int),\n            {")
        GHOST_BEFORE = "let ghost keys0 = keys; let ghost rec0 = ((pk.spec_master_fingerprint(), deriv_path), o_default_can_sign());\n                "
        GHOST_AFTER = "\n                proof { lemma_records_insert(keys0, keys, rec0, iter@, it.index() as int, it2.index() as int); }"
        GHOST_NEXT = "\n            proof { lemma_records_next_key(keys, iter@, it.index() as int); }"
        fn("impl:FromIterator<DescriptorPublicKey> for Assets/fn:from_iter", "Assets", attrs="#[verifier::loop_isolation(false)]", rewrites=[
            sub("R8-specialise", r"fn from_iter<I: IntoIterator<Item = DescriptorPublicKey>>\(iter: I\)", "fn from_iter(iter: Vec<DescriptorPublicKey>)"),
            sub("R10", r"for pk in iter \{", lambda m: OUTER),
            sub("R10", r"for deriv_path in pk\.full_derivation_paths\(\) \{", lambda m: INNER),
            sub("R10", r"(keys\.insert\([^;]*\);)(\s*\})", lambda m: GHOST_BEFORE + m.group(1) + GHOST_AFTER + m.group(2) + GHOST_NEXT),
        ], contract=Contract(ensures=[
            C("a_record_per_key_and_path_with_every_capability", "o_records_complete(r.keys, iter@, iter@.len() as int, 0)", ("C17", "C02")),
            C("no_other_key_record", "o_records_sound(r.keys, iter@, iter@.len() as int, 0)"),
            C("nothing_else", "o_from_keys(r, iter@)")]))

    # ---- IntoAssets ----------------------------------------------------------------------------------------------------------------
    def into_assets(ty, post, tag, rewrites=()):
        with vf.block("impl IntoAssets for %s" % ty):
            vf.raw("spec fn into_assets_post(self, r: Assets) -> bool { %s }" % post)
            fn("impl:IntoAssets for %s/fn:into_assets" % ty, "<%s as IntoAssets>" % ty, rewrites=list(rewrites),
               contract=Contract(ensures=[C(tag, "self.into_assets_post(r)", ("C17", "C02"))]))
    HASH_FIELDS = ["sha256", "hash256", "ripemd160", "hash160"]
    for h in HASH_FIELDS:
        others = " && ".join("r.%s_preimages.elems().len() == 0" % o for o in HASH_FIELDS if o != h)
        post = ("r.keys.elems().len() == 0 && (forall|x: %s::Hash| #[trigger] r.%s_preimages.has(x) <==> x == self) && %s && r.absolute_timelock is None && r.relative_timelock is None"
                % (h, h, others))
        into_assets("%s::Hash" % h, post, "exactly_this_%s_preimage" % h, [COLLECT])
    into_assets("Assets", "r == self", "itself")
    into_assets("Vec<DescriptorPublicKey>", "o_from_keys(r, self@)", "the_assets_of_these_keys")
    into_assets("DescriptorPublicKey", "exists|v: Seq<DescriptorPublicKey>| v.len() == 1 && v[0] == self && #[trigger] o_from_keys(r, v)", "the_assets_of_this_key")

    # ---- end to end: keys handed over as assets (from_iter's contract composed with the capability oracle) -----------------------------
    vf.spec_obligation("keys_as_assets__can_sign_for_their_direct_children", KEYS_AS_ASSETS, ("C17", "C02"))

    # ---- helpers the texts above call -------------------------------------------------------------------------------------------
    helpers.lemmas = []
    helpers.emit(vf, texts)
    lemmas.extend(helpers.lemmas)
    vf.raw("broadcast group scan_lemmas { %s }\n" % ", ".join(lemmas))
    return vf
