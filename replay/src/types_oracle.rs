// GENERATED from contracts/oracle/types_spec.rs by `pub open spec fn` -> `pub fn`; do not edit
#![allow(dead_code)]
// Oracle for C05: the Miniscript specification's type tables (bitcoin.sipa.be/miniscript,
// "Correctness properties" and "Malleability properties" tables), written in the specification's
// own vocabulary  B V K W / z o n d u / e f s m  --  NOT transcribed from the Rust code.
//
// The text is in the common subset of Verus `spec fn` bodies and plain Rust, so that the very
// same file is (a) included in the Verus units as the postcondition oracle and (b) compiled,
// with `open spec fn` rewritten to `fn`, into the replay binary that enumerates the finite
// domain against the real crate.
#[derive(PartialEq, Eq, Clone, Copy, Debug)]
pub enum ABase { B, V, K, W }

#[derive(PartialEq, Eq, Clone, Copy, Debug)]
pub struct ACorr { pub base: ABase, pub z: bool, pub o: bool, pub n: bool, pub d: bool, pub u: bool }

#[derive(PartialEq, Eq, Clone, Copy, Debug)]
pub struct AMall { pub e: bool, pub f: bool, pub s: bool, pub m: bool }

// "x is at most as strong as y": every property claimed by x is granted by y, same base.
pub fn corr_leq(x: ACorr, y: ACorr) -> bool {
    x.base == y.base && (!x.z || y.z) && (!x.o || y.o) && (!x.n || y.n) && (!x.d || y.d) && (!x.u || y.u)
}
pub fn mall_leq(x: AMall, y: AMall) -> bool {
    (!x.e || y.e) && (!x.f || y.f) && (!x.s || y.s) && (!x.m || y.m)
}

// ---- leaves --------------------------------------------------------------------------------
pub fn spec_corr_false() -> ACorr { ACorr { base: ABase::B, z: true, o: false, n: false, d: true, u: true } }
pub fn spec_mall_false() -> AMall { AMall { e: true, f: false, s: true, m: true } }
pub fn spec_corr_true() -> ACorr { ACorr { base: ABase::B, z: true, o: false, n: false, d: false, u: true } }
pub fn spec_mall_true() -> AMall { AMall { e: false, f: true, s: false, m: true } }
pub fn spec_corr_pk_k() -> ACorr { ACorr { base: ABase::K, z: false, o: true, n: true, d: true, u: true } }
pub fn spec_corr_pk_h() -> ACorr { ACorr { base: ABase::K, z: false, o: false, n: true, d: true, u: true } }
pub fn spec_mall_key() -> AMall { AMall { e: true, f: false, s: true, m: true } }
pub fn spec_corr_time() -> ACorr { ACorr { base: ABase::B, z: true, o: false, n: false, d: false, u: false } }
pub fn spec_mall_time() -> AMall { AMall { e: false, f: true, s: false, m: true } }
pub fn spec_corr_hash() -> ACorr { ACorr { base: ABase::B, z: false, o: true, n: true, d: true, u: true } }
pub fn spec_mall_hash() -> AMall { AMall { e: false, f: false, s: false, m: true } }
pub fn spec_corr_multi() -> ACorr { ACorr { base: ABase::B, z: false, o: false, n: true, d: true, u: true } }
pub fn spec_corr_multi_a() -> ACorr { ACorr { base: ABase::B, z: false, o: false, n: false, d: true, u: true } }

// ---- wrappers ------------------------------------------------------------------------------
// a:X   X is B -> W; d=dX; u=uX
pub fn spec_alt_ok(x: ACorr) -> bool { x.base == ABase::B }
pub fn spec_alt(x: ACorr) -> ACorr { ACorr { base: ABase::W, z: false, o: false, n: false, d: x.d, u: x.u } }
// s:X   X is Bo -> W; d=dX; u=uX
pub fn spec_swap_ok(x: ACorr) -> bool { x.base == ABase::B && x.o }
pub fn spec_swap(x: ACorr) -> ACorr { ACorr { base: ABase::W, z: false, o: false, n: false, d: x.d, u: x.u } }
// c:X   X is K -> B; o=oX; n=nX; d=dX; u
pub fn spec_check_ok(x: ACorr) -> bool { x.base == ABase::K }
pub fn spec_check(x: ACorr) -> ACorr { ACorr { base: ABase::B, z: x.z, o: x.o, n: x.n, d: x.d, u: true } }
// d:X   X is Vz -> B; o; n; d; (u only under Tapscript)
pub fn spec_dupif_ok(x: ACorr) -> bool { x.base == ABase::V && x.z }
pub fn spec_dupif(x: ACorr, tapscript: bool) -> ACorr { ACorr { base: ABase::B, z: false, o: true, n: true, d: true, u: tapscript } }
// v:X   X is B -> V; z=zX; o=oX; n=nX
pub fn spec_verify_ok(x: ACorr) -> bool { x.base == ABase::B }
pub fn spec_verify(x: ACorr) -> ACorr { ACorr { base: ABase::V, z: x.z, o: x.o, n: x.n, d: false, u: false } }
// j:X   X is Bn -> B; o=oX; n; d; u=uX
pub fn spec_nonzero_ok(x: ACorr) -> bool { x.base == ABase::B && x.n }
pub fn spec_nonzero(x: ACorr) -> ACorr { ACorr { base: ABase::B, z: false, o: x.o, n: true, d: true, u: x.u } }
// n:X   X is B -> B; z=zX; o=oX; n=nX; d=dX; u
pub fn spec_zeronotequal_ok(x: ACorr) -> bool { x.base == ABase::B }
pub fn spec_zeronotequal(x: ACorr) -> ACorr { ACorr { base: ABase::B, z: x.z, o: x.o, n: x.n, d: x.d, u: true } }
// t:X = and_v(X,1);  l:X = or_i(0,X);  u:X = or_i(X,0)
pub fn spec_true_ok(x: ACorr) -> bool { spec_and_v_ok(x, spec_corr_true()) }
pub fn spec_true(x: ACorr) -> ACorr { spec_and_v(x, spec_corr_true()) }
pub fn spec_likely_ok(x: ACorr) -> bool { spec_or_i_ok(spec_corr_false(), x) }
pub fn spec_likely(x: ACorr) -> ACorr { spec_or_i(spec_corr_false(), x) }
pub fn spec_unlikely_ok(x: ACorr) -> bool { spec_or_i_ok(x, spec_corr_false()) }
pub fn spec_unlikely(x: ACorr) -> ACorr { spec_or_i(x, spec_corr_false()) }

// malleability of wrappers: a s c n keep everything;  d: s=sX, e, m=mX;  v: s=sX, f, m=mX;
// j: s=sX, e=fX, m=mX
pub fn spec_mall_same(x: AMall) -> AMall { x }
pub fn spec_mall_dupif(x: AMall) -> AMall { AMall { e: true, f: false, s: x.s, m: x.m } }
pub fn spec_mall_verify(x: AMall) -> AMall { AMall { e: false, f: true, s: x.s, m: x.m } }
pub fn spec_mall_nonzero(x: AMall) -> AMall { AMall { e: x.f, f: false, s: x.s, m: x.m } }
pub fn spec_mall_true_w(x: AMall) -> AMall { spec_mall_and_v(x, spec_mall_true()) }
pub fn spec_mall_likely(x: AMall) -> AMall { spec_mall_or_i(spec_mall_false(), x) }
pub fn spec_mall_unlikely(x: AMall) -> AMall { spec_mall_or_i(x, spec_mall_false()) }

// ---- binary / ternary ----------------------------------------------------------------------
// and_v(X,Y)  X is V; Y is B, K, or V -> same as Y; z=zXzY; o=zXoY or zYoX; n=nX or zXnY; u=uY
pub fn spec_and_v_ok(x: ACorr, y: ACorr) -> bool { x.base == ABase::V && (y.base == ABase::B || y.base == ABase::K || y.base == ABase::V) }
pub fn spec_and_v(x: ACorr, y: ACorr) -> ACorr {
    ACorr { base: y.base, z: x.z && y.z, o: (x.z && y.o) || (y.z && x.o), n: x.n || (x.z && y.n), d: false, u: y.u }
}
pub fn spec_mall_and_v(x: AMall, y: AMall) -> AMall { AMall { e: false, f: x.s || y.f, s: x.s || y.s, m: x.m && y.m } }
// and_b(X,Y)  X is B; Y is W -> B; z=zXzY; o=zXoY or zYoX; n=nX or zXnY; d=dXdY; u
pub fn spec_and_b_ok(x: ACorr, y: ACorr) -> bool { x.base == ABase::B && y.base == ABase::W }
pub fn spec_and_b(x: ACorr, y: ACorr) -> ACorr {
    ACorr { base: ABase::B, z: x.z && y.z, o: (x.z && y.o) || (y.z && x.o), n: x.n || (x.z && y.n), d: x.d && y.d, u: true }
}
// s=sX or sY; f=fXfY or sXfX or sYfY; e=eXeYsXsY; m=mXmY
pub fn spec_mall_and_b(x: AMall, y: AMall) -> AMall {
    AMall { e: x.e && y.e && x.s && y.s, f: (x.f && y.f) || (x.s && x.f) || (y.s && y.f), s: x.s || y.s, m: x.m && y.m }
}
// or_b(X,Z)  X is Bd; Z is Wd -> B; z=zXzZ; o=zXoZ or zZoX; d; u
pub fn spec_or_b_ok(x: ACorr, z: ACorr) -> bool { x.base == ABase::B && x.d && z.base == ABase::W && z.d }
pub fn spec_or_b(x: ACorr, z: ACorr) -> ACorr {
    ACorr { base: ABase::B, z: x.z && z.z, o: (x.z && z.o) || (z.z && x.o), n: false, d: true, u: true }
}
// s=sXsZ; e; m=mXmZeXeZ(sX or sZ)
pub fn spec_mall_or_b(x: AMall, z: AMall) -> AMall {
    AMall { e: true, f: false, s: x.s && z.s, m: x.m && z.m && x.e && z.e && (x.s || z.s) }
}
// or_c(X,Z)  X is Bdu; Z is V -> V; z=zXzZ; o=oXzZ
pub fn spec_or_c_ok(x: ACorr, z: ACorr) -> bool { x.base == ABase::B && x.d && x.u && z.base == ABase::V }
pub fn spec_or_c(x: ACorr, z: ACorr) -> ACorr {
    ACorr { base: ABase::V, z: x.z && z.z, o: x.o && z.z, n: false, d: false, u: false }
}
// s=sXsZ; f; m=mXmZeX(sX or sZ)
pub fn spec_mall_or_c(x: AMall, z: AMall) -> AMall {
    AMall { e: false, f: true, s: x.s && z.s, m: x.m && z.m && x.e && (x.s || z.s) }
}
// or_d(X,Z)  X is Bdu; Z is B -> B; z=zXzZ; o=oXzZ; d=dZ; u=uZ
pub fn spec_or_d_ok(x: ACorr, z: ACorr) -> bool { x.base == ABase::B && x.d && x.u && z.base == ABase::B }
pub fn spec_or_d(x: ACorr, z: ACorr) -> ACorr {
    ACorr { base: ABase::B, z: x.z && z.z, o: x.o && z.z, n: false, d: z.d, u: z.u }
}
// s=sXsZ; f=fZ; e=eZ; m=mXmZeX(sX or sZ)
pub fn spec_mall_or_d(x: AMall, z: AMall) -> AMall {
    AMall { e: z.e, f: z.f, s: x.s && z.s, m: x.m && z.m && x.e && (x.s || z.s) }
}
// or_i(X,Z)  both are B, K, or V -> same; o=zXzZ; u=uXuZ; d=dX or dZ
pub fn spec_or_i_ok(x: ACorr, z: ACorr) -> bool { x.base == z.base && (x.base == ABase::B || x.base == ABase::K || x.base == ABase::V) }
pub fn spec_or_i(x: ACorr, z: ACorr) -> ACorr {
    ACorr { base: x.base, z: false, o: x.z && z.z, n: false, d: x.d || z.d, u: x.u && z.u }
}
// s=sXsZ; f=fXfZ; e=eXfZ or fXeZ; m=mXmZ(sX or sZ)
pub fn spec_mall_or_i(x: AMall, z: AMall) -> AMall {
    AMall { e: (x.e && z.f) || (x.f && z.e), f: x.f && z.f, s: x.s && z.s, m: x.m && z.m && (x.s || z.s) }
}
// andor(X,Y,Z)  X is Bdu; Y and Z are both B, K, or V -> same as Y/Z; z=zXzYzZ; o=zXoYoZ or oXzYzZ; u=uYuZ; d=dZ
pub fn spec_and_or_ok(x: ACorr, y: ACorr, z: ACorr) -> bool {
    x.base == ABase::B && x.d && x.u && y.base == z.base && (y.base == ABase::B || y.base == ABase::K || y.base == ABase::V)
}
pub fn spec_and_or(x: ACorr, y: ACorr, z: ACorr) -> ACorr {
    ACorr { base: y.base, z: x.z && y.z && z.z, o: (x.z && y.o && z.o) || (x.o && y.z && z.z), n: false, d: z.d, u: y.u && z.u }
}
// s=sZ(sX or sY); f=fZ(sX or fY); e=eZ(sX or fY); m=mXmYmZeX(sX or sY or sZ)
pub fn spec_mall_and_or(x: AMall, y: AMall, z: AMall) -> AMall {
    AMall { e: z.e && (x.s || y.f), f: z.f && (x.s || y.f), s: z.s && (x.s || y.s), m: x.m && y.m && z.m && x.e && (x.s || y.s || z.s) }
}
