//! Replay binary: evaluates real functions of the crate built from /repo (or $VERIF_REPO) next to
//! the executable rendering of the oracles, on a recorded input or over a finite domain.
//!
//!   verif-replay types <rule>          exhaustive search of one typing rule's finite domain
//!   verif-replay types-at <rule> <input>   re-evaluate one recorded input
mod types_oracle;
use miniscript::miniscript::types::{Base, Correctness, Dissat, Input, Malleability, Type};
use types_oracle::*;

fn bases() -> [Base; 4] { [Base::B, Base::V, Base::K, Base::W] }
fn inputs() -> [Input; 5] { [Input::Zero, Input::One, Input::Any, Input::OneNonZero, Input::AnyNonZero] }
fn dissats() -> [Dissat; 3] { [Dissat::None, Dissat::Unique, Dissat::Unknown] }

fn all_corr() -> Vec<Correctness> {
    let mut v = vec![];
    for base in bases() { for input in inputs() { for d in [false, true] { for u in [false, true] {
        v.push(Correctness { base, input, dissatisfiable: d, unit: u });
    }}}}
    v
}
fn all_mall() -> Vec<Malleability> {
    let mut v = vec![];
    for dissat in dissats() { for s in [false, true] { for m in [false, true] {
        v.push(Malleability { dissat, signed: s, non_malleable: m });
    }}}
    v
}
fn abs_base(b: Base) -> ABase { match b { Base::B => ABase::B, Base::V => ABase::V, Base::K => ABase::K, Base::W => ABase::W } }
fn abs_corr(c: Correctness) -> ACorr {
    let (z, o, n) = match c.input {
        Input::Zero => (true, false, false), Input::One => (false, true, false), Input::Any => (false, false, false),
        Input::OneNonZero => (false, true, true), Input::AnyNonZero => (false, false, true) };
    ACorr { base: abs_base(c.base), z, o, n, d: c.dissatisfiable, u: c.unit }
}
fn abs_mall(m: Malleability) -> AMall {
    AMall { e: m.dissat == Dissat::Unique, f: m.dissat == Dissat::None, s: m.signed, m: m.non_malleable }
}
fn wf_corr(c: ACorr) -> bool {
    (c.base != ABase::K || (c.u && !c.z)) && (c.base != ABase::V || (!c.u && !c.d)) && (c.base != ABase::W || (!c.n && !c.z && !c.o))
        && !(c.z && c.o) && !(c.z && c.n)
}

type R1 = fn(Correctness) -> Result<Correctness, miniscript::miniscript::types::ErrorKind>;
type R2 = fn(Correctness, Correctness) -> Result<Correctness, miniscript::miniscript::types::ErrorKind>;

fn report(rule: &str, inputs: &[Correctness], got: Option<Correctness>, ok: bool, want: ACorr) {
    println!("COUNTEREXAMPLE rule={} inputs={:?} real={:?} spec_ok={} spec={:?}", rule, inputs, got, ok, want);
}

fn check1(rule: &str, f: R1, ok: fn(ACorr) -> bool, spec: fn(ACorr) -> ACorr) -> usize {
    let mut bad = 0;
    for x in all_corr() {
        let r = f(x);
        let (o, s) = (ok(abs_corr(x)), spec(abs_corr(x)));
        let wrong = r.is_ok() != o || (r.is_ok() && wf_corr(abs_corr(x)) && abs_corr(r.unwrap()) != s);
        if wrong { if bad < 3 { report(rule, &[x], r.ok(), o, s); } bad += 1; }
    }
    bad
}
fn check2(rule: &str, f: R2, ok: fn(ACorr, ACorr) -> bool, spec: fn(ACorr, ACorr) -> ACorr) -> usize {
    let mut bad = 0;
    for x in all_corr() { for y in all_corr() {
        let r = f(x, y);
        let (o, s) = (ok(abs_corr(x), abs_corr(y)), spec(abs_corr(x), abs_corr(y)));
        let wrong = r.is_ok() != o || (r.is_ok() && wf_corr(abs_corr(x)) && wf_corr(abs_corr(y)) && abs_corr(r.unwrap()) != s);
        if wrong { if bad < 3 { report(rule, &[x, y], r.ok(), o, s); } bad += 1; }
    }}
    bad
}
fn mall2(rule: &str, f: fn(Malleability, Malleability) -> Malleability, spec: fn(AMall, AMall) -> AMall) -> usize {
    let mut bad = 0;
    for x in all_mall() { for y in all_mall() {
        let r = f(x, y);
        let s = spec(abs_mall(x), abs_mall(y));
        if abs_mall(r) != s { if bad < 3 { println!("COUNTEREXAMPLE rule=Malleability::{} inputs={:?} real={:?} spec={:?}", rule, (x, y), r, s); } bad += 1; }
    }}
    bad
}
fn mall1(rule: &str, f: fn(Malleability) -> Malleability, spec: fn(AMall) -> AMall, need_f: bool) -> usize {
    let mut bad = 0;
    for x in all_mall() {
        if need_f && !abs_mall(x).f { continue; }
        let r = f(x);
        let s = spec(abs_mall(x));
        if abs_mall(r) != s { if bad < 3 { println!("COUNTEREXAMPLE rule=Malleability::{} inputs={:?} real={:?} spec={:?}", rule, x, r, s); } bad += 1; }
    }
    bad
}

fn types(rule: &str) -> usize {
    let dupif = |x: ACorr| spec_dupif(x, false);
    match rule {
        "Correctness::cast_alt" => check1(rule, Correctness::cast_alt, spec_alt_ok, spec_alt),
        "Correctness::cast_swap" => check1(rule, Correctness::cast_swap, spec_swap_ok, spec_swap),
        "Correctness::cast_check" => check1(rule, Correctness::cast_check, spec_check_ok, spec_check),
        "Correctness::cast_dupif" => check1(rule, Correctness::cast_dupif, spec_dupif_ok, dupif),
        "Correctness::cast_verify" => check1(rule, Correctness::cast_verify, spec_verify_ok, spec_verify),
        "Correctness::cast_nonzero" => check1(rule, Correctness::cast_nonzero, spec_nonzero_ok, spec_nonzero),
        "Correctness::cast_zeronotequal" => check1(rule, Correctness::cast_zeronotequal, spec_zeronotequal_ok, spec_zeronotequal),
        "Correctness::cast_true" => check1(rule, Correctness::cast_true, spec_true_ok, spec_true),
        "Correctness::cast_or_i_false" => check1(rule, Correctness::cast_or_i_false, spec_likely_ok, spec_likely) + check1(rule, Correctness::cast_or_i_false, spec_unlikely_ok, spec_unlikely),
        "Correctness::and_b" => check2(rule, Correctness::and_b, spec_and_b_ok, spec_and_b),
        "Correctness::and_v" => check2(rule, Correctness::and_v, spec_and_v_ok, spec_and_v),
        "Correctness::or_b" => check2(rule, Correctness::or_b, spec_or_b_ok, spec_or_b),
        "Correctness::or_d" => check2(rule, Correctness::or_d, spec_or_d_ok, spec_or_d),
        "Correctness::or_c" => check2(rule, Correctness::or_c, spec_or_c_ok, spec_or_c),
        "Correctness::or_i" => check2(rule, Correctness::or_i, spec_or_i_ok, spec_or_i),
        "Correctness::and_or" => {
            let mut bad = 0;
            for x in all_corr() { for y in all_corr() { for z in all_corr() {
                let r = Correctness::and_or(x, y, z);
                let (o, s) = (spec_and_or_ok(abs_corr(x), abs_corr(y), abs_corr(z)), spec_and_or(abs_corr(x), abs_corr(y), abs_corr(z)));
                let wf = wf_corr(abs_corr(x)) && wf_corr(abs_corr(y)) && wf_corr(abs_corr(z));
                if r.is_ok() != o || (r.is_ok() && wf && abs_corr(r.unwrap()) != s) { if bad < 3 { report(rule, &[x, y, z], r.ok(), o, s); } bad += 1; }
            }}}
            bad
        }
        "Malleability::and_b" => mall2("and_b", Malleability::and_b, spec_mall_and_b),
        "Malleability::and_v" => mall2("and_v", Malleability::and_v, spec_mall_and_v),
        "Malleability::or_b" => mall2("or_b", Malleability::or_b, spec_mall_or_b),
        "Malleability::or_d" => mall2("or_d", Malleability::or_d, spec_mall_or_d),
        "Malleability::or_c" => mall2("or_c", Malleability::or_c, spec_mall_or_c),
        "Malleability::or_i" => mall2("or_i", Malleability::or_i, spec_mall_or_i),
        "Malleability::and_or" => {
            let mut bad = 0;
            for x in all_mall() { for y in all_mall() { for z in all_mall() {
                let r = Malleability::and_or(x, y, z);
                let s = spec_mall_and_or(abs_mall(x), abs_mall(y), abs_mall(z));
                if abs_mall(r) != s { if bad < 3 { println!("COUNTEREXAMPLE rule=Malleability::and_or inputs={:?} real={:?} spec={:?}", (x, y, z), r, s); } bad += 1; }
            }}}
            bad
        }
        "Malleability::cast_dupif" => mall1("cast_dupif", Malleability::cast_dupif, spec_mall_dupif, true),
        "Malleability::cast_verify" => mall1("cast_verify", Malleability::cast_verify, spec_mall_verify, false),
        "Malleability::cast_nonzero" => mall1("cast_nonzero", Malleability::cast_nonzero, spec_mall_nonzero, false),
        "Malleability::cast_true" => mall1("cast_true", Malleability::cast_true, spec_mall_true_w, false),
        "Malleability::cast_or_i_false" => mall1("cast_or_i_false", Malleability::cast_or_i_false, spec_mall_likely, false) + mall1("cast_or_i_false", Malleability::cast_or_i_false, spec_mall_unlikely, false),
        "Malleability::cast_alt" => mall1("cast_alt", Malleability::cast_alt, spec_mall_same, false),
        "Malleability::cast_swap" => mall1("cast_swap", Malleability::cast_swap, spec_mall_same, false),
        "Malleability::cast_check" => mall1("cast_check", Malleability::cast_check, spec_mall_same, false),
        "Malleability::cast_zeronotequal" => mall1("cast_zeronotequal", Malleability::cast_zeronotequal, spec_mall_same, false),
        _ => { println!("NO-SEARCH rule={}", rule); usize::MAX }
    }
}

fn main() {
    let args: Vec<String> = std::env::args().collect();
    let _ = Type::TRUE;
    match args.get(1).map(|s| s.as_str()) {
        Some("types") => {
            let n = types(&args[2]);
            if n == usize::MAX { std::process::exit(3) }
            println!("SEARCHED rule={} counterexamples={}", args[2], n);
            std::process::exit(if n > 0 { 1 } else { 0 })
        }
        _ => { eprintln!("usage: verif-replay types <rule>"); std::process::exit(2) }
    }
}
