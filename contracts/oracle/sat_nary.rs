// Oracle for C01/C02/C03/C17, n-ary rows: `multi`, `multi_a`, `thresh` of the Miniscript specification's table
// "satisfactions and dissatisfactions" (bitcoin.sipa.be/miniscript) and its non-malleable satisfaction rules.
// Written from the specification, not from the Rust code.  Builds on contracts/oracle/sat_table.rs (ASat, t_seq,
// t_elems) and the leaf vocabulary of unit c01_satisfier (sig_available, is_sig_elem, no_locks).

// ---- oracle, n-ary rows of the satisfaction table ---------------------------------------------------
//   multi(k, key_1..key_n):   dsat  0 0 .. 0 (k+1 times)     sat  0 sig .. sig (k signatures, in key order)
//   multi_a(k, key_1..key_n): dsat  0 .. 0 (n times)          sat  per key, last key first: its signature or 0, k signatures
//   thresh(k, X_1..X_n):      dsat  dsat(X_n) .. dsat(X_1)     sat  [sat|dsat](X_n) .. [sat|dsat](X_1), exactly k sats
spec fn zeros<Pk: MiniscriptKey>(n: int) -> Seq<Placeholder<Pk>> { Seq::new(n as nat, |i: int| Placeholder::PushZero) }
// how many of keys[lo..hi) have a signature available
spec fn count_avail<Pk: MiniscriptKey, S: AssetProvider<Pk>>(stfr: &S, keys: Seq<Pk>, lo: int, hi: int, lh: Option<TapLeafHash>) -> int
    decreases hi - lo
{
    if hi <= lo { 0 } else { count_avail(stfr, keys, lo, hi - 1, lh) + (if sig_available(stfr, &keys[hi - 1], lh) { 1int } else { 0int }) }
}
// w consists of signature placeholders of DISTINCT keys among keys[0..i), each with an available signature, in key order
spec fn sigs_in_key_order<Pk: MiniscriptKey, S: AssetProvider<Pk>>(w: Seq<Placeholder<Pk>>, stfr: &S, keys: Seq<Pk>, i: int, lh: Option<TapLeafHash>) -> bool
    decreases i
{
    if i <= 0 { w.len() == 0 }
    else {
        sigs_in_key_order(w, stfr, keys, i - 1, lh)
        || (w.len() > 0 && sig_available(stfr, &keys[i - 1], lh) && is_sig_elem(w.last(), stfr, &keys[i - 1], lh)
            && sigs_in_key_order(w.drop_last(), stfr, keys, i - 1, lh))
    }
}
// multi_a: witness element j answers the CHECKSIG(ADD) of key n-1-j (the first key's check consumes the top element,
// i.e. the LAST element of the witness): either the empty push or that key's script-spend signature
spec fn multi_a_slot<Pk: MiniscriptKey, S: AssetProvider<Pk>>(e: Placeholder<Pk>, stfr: &S, keys: Seq<Pk>, j: int, lh: Option<TapLeafHash>) -> bool {
    e == Placeholder::<Pk>::PushZero
    || (sig_available(stfr, &keys[keys.len() - 1 - j], lh) && is_sig_elem(e, stfr, &keys[keys.len() - 1 - j], lh))
}
// number of elements that are not the empty push
spec fn count_nonzero<Pk: MiniscriptKey>(w: Seq<Placeholder<Pk>>) -> int decreases w.len() {
    if w.len() == 0 { 0 } else { count_nonzero(w.drop_last()) + (if w.last() != Placeholder::<Pk>::PushZero { 1int } else { 0int }) }
}

// ---- oracle, row thresh(k, X_1..X_n) ------------------------------------------------------------------
//   sat: [sat|dsat](X_n) .. [sat|dsat](X_1) with exactly k sats (X_1's entry is consumed first = on top = last)
spec fn t_concat<Pk: MiniscriptKey>(e: Seq<ASat<Pk>>, m: int) -> ASat<Pk> decreases m {
    if m <= 0 { t_elems(Seq::empty()) } else { t_seq(e[m - 1], t_concat(e, m - 1)) }
}
spec fn count_true(sel: Seq<bool>, m: int) -> int decreases m { if m <= 0 { 0 } else { count_true(sel, m - 1) + (if sel[m - 1] { 1int } else { 0int }) } }
// sel marks the k children that contribute their satisfaction
spec fn is_selection(sel: Seq<bool>, k: int, n: int) -> bool { sel.len() == n && count_true(sel, n) == k }
spec fn chosen<Pk: MiniscriptKey>(sel: Seq<bool>, sats: Seq<Satisfaction<Placeholder<Pk>>>, dissats: Seq<Satisfaction<Placeholder<Pk>>>) -> Seq<ASat<Pk>> {
    Seq::new(sel.len(), |j: int| if sel[j] { abs_sat(sats[j]) } else { abs_sat(dissats[j]) })
}
// sufficiency of the reported locks (C17): a result that exists for somebody reports no lock of its own -- each lock
// it reports is the lock of one of the children's (possible) satisfactions / dissatisfactions
spec fn carries_abs<Pk: MiniscriptKey>(e: Satisfaction<Placeholder<Pk>>, l: Option<AbsLockTime>) -> bool { wkind(e.stack) != 2 && e.absolute_timelock == l }
spec fn carries_rel<Pk: MiniscriptKey>(e: Satisfaction<Placeholder<Pk>>, l: Option<RelLockTime>) -> bool { wkind(e.stack) != 2 && e.relative_timelock == l }
spec fn locks_inherited<Pk: MiniscriptKey>(r: Satisfaction<Placeholder<Pk>>, a: Seq<Satisfaction<Placeholder<Pk>>>, b: Seq<Satisfaction<Placeholder<Pk>>>) -> bool {
    wkind(r.stack) != 2 ==> {
        &&& (r.absolute_timelock is Some ==> exists|j: int| 0 <= j < a.len() && j < b.len() && (carries_abs(#[trigger] a[j], r.absolute_timelock) || carries_abs(b[j], r.absolute_timelock)))
        &&& (r.relative_timelock is Some ==> exists|j: int| 0 <= j < a.len() && j < b.len() && (carries_rel(#[trigger] a[j], r.relative_timelock) || carries_rel(b[j], r.relative_timelock)))
    }
}
// completeness (malleable mode): when k children have an available satisfaction (and every child an available
// dissatisfaction: they are all `d`), the entries that are put together are all available -- the result is then a
// witness unless two of its time locks can never be met together (t_seq)
spec fn k_available<Pk: MiniscriptKey>(s: Seq<bool>, sats: Seq<Satisfaction<Placeholder<Pk>>>, k: int, n: int) -> bool {
    is_selection(s, k, n) && (forall|j: int| 0 <= j < n && s[j] ==> wkind((#[trigger] sats[j]).stack) == 0)
}
spec fn all_concrete<Pk: MiniscriptKey>(e: Seq<ASat<Pk>>) -> bool { forall|j: int| 0 <= j < e.len() ==> (#[trigger] e[j]).kind == 0 }
// non-malleable mode.  A satisfaction that exists for somebody (not impossible) and needs no signature can be
// swapped in by a third party.  (A) a witness may only be returned when no child outside the selection has one;
// (B) when k+1 children have one (the k selected and another) there is no non-malleable witness: nothing is
// returned, and the refusal carries neither signature nor lock.
spec fn possible_unsigned<Pk: MiniscriptKey>(s: Satisfaction<Placeholder<Pk>>) -> bool { wkind(s.stack) != 2 && !s.has_sig }
spec fn nm_clean<Pk: MiniscriptKey>(sel: Seq<bool>, sats: Seq<Satisfaction<Placeholder<Pk>>>) -> bool {
    forall|j: int| 0 <= j < sel.len() && !sel[j] ==> !possible_unsigned(#[trigger] sats[j])
}
spec fn nm_surplus<Pk: MiniscriptKey>(sel: Seq<bool>, sats: Seq<Satisfaction<Placeholder<Pk>>>) -> bool {
    &&& (forall|j: int| 0 <= j < sel.len() && sel[j] ==> possible_unsigned(#[trigger] sats[j]))
    &&& (exists|j: int| 0 <= j < sel.len() && !sel[j] && possible_unsigned(#[trigger] sats[j]))
}
spec fn thresh_nonmall_row<Pk: MiniscriptKey>(r: Satisfaction<Placeholder<Pk>>, sel: Seq<bool>, sats: Seq<Satisfaction<Placeholder<Pk>>>, dissats: Seq<Satisfaction<Placeholder<Pk>>>) -> bool {
    (abs_sat(r) == t_concat(chosen(sel, sats, dissats), sel.len() as int) && nm_clean(sel, sats))
    || (wkind(r.stack) == 1 && !r.has_sig && no_locks(r) && nm_surplus(sel, sats))
}
// precondition on the children of thresh (all are `d` by the typing rule): third conjunct of c01_satisfier's sd_inv
spec fn dissat_of_d_child<Pk: MiniscriptKey>(malleable: bool, s: Satisfaction<Placeholder<Pk>>) -> bool {
    !s.has_sig && (if malleable { wkind(s.stack) == 0 } else { wkind(s.stack) != 2 })
}

// ---- ordering of the candidates (what sort_by_key's key must be) -----------------------------------------
// first the children somebody can satisfy, among them first those needing no signature
spec fn nm_key<Pk: MiniscriptKey>(s: Satisfaction<Placeholder<Pk>>) -> (bool, bool) { (wkind(s.stack) == 2, s.has_sig) }
spec fn key_le(a: (bool, bool), b: (bool, bool)) -> bool { (!a.0 && b.0) || (a.0 == b.0 && (!a.1 || b.1)) }
// cost of satisfying instead of dissatisfying; a child we cannot satisfy comes last, one we cannot dissatisfy first
spec fn cost_rank<Pk: MiniscriptKey>(s: Witness<Placeholder<Pk>>, d: Witness<Placeholder<Pk>>) -> int {
    if wkind(s) != 0 { i64::MAX as int } else if wkind(d) != 0 { i64::MIN as int } else { spec_witness_size(wseq(s)) - spec_witness_size(wseq(d)) }
}
