// Oracle for C01/C02/C03/C17: the Miniscript specification's table "satisfactions and
// dissatisfactions" (bitcoin.sipa.be/miniscript) and its "non-malleable satisfaction algorithm",
// with time locks per BIP65 / BIP68.  Written from the specification, not from the Rust code.
//
// A table entry is evaluated to an `ASat` (see the unit's prelude):
//   kind 0 = a concrete witness (element sequence, bottom of the stack first, i.e. in the order the
//            table lists the constituents: "sat(Y) sat(X)" = elements of sat(Y) then elements of sat(X)),
//   kind 1 = unavailable to us (a third party might know it: hash preimages, unknown pkh keys,
//            time locks when the root carries no signature),
//   kind 2 = impossible for everybody (missing signature, conflicting time locks, no such row).

// ---- time locks: a witness needs the larger of two locks of the same unit; two locks of different
// units of the same kind can never be met together (BIP65: height vs time; BIP68: type flag) --------
// A relative lock is abstracted to what BIP68 looks at: (type flag, masked 16-bit value).
spec fn merge_abs(a: Option<AbsLockTime>, b: Option<AbsLockTime>) -> Option<AbsLockTime> {
    match (a, b) {
        (None, x) => x,
        (x, None) => x,
        (Some(x), Some(y)) => Some(abs_larger(x, y)),
    }
}
spec fn merge_rel(a: Option<ARel>, b: Option<ARel>) -> Option<ARel> {
    match (a, b) {
        (None, x) => x,
        (x, None) => x,
        (Some(x), Some(y)) => Some(if x.value >= y.value { x } else { y }),
    }
}
spec fn locks_conflict(a: Option<AbsLockTime>, b: Option<AbsLockTime>, c: Option<ARel>, d: Option<ARel>) -> bool {
    (a is Some && b is Some && !abs_same_unit(a->Some_0, b->Some_0)) || (c is Some && d is Some && c->Some_0.time != d->Some_0.time)
}

// constants of the table
spec fn t_elems<Pk: MiniscriptKey>(s: Seq<Placeholder<Pk>>) -> ASat<Pk> { ASat { kind: 0, stack: s, has_sig: false, abs: None, rel: None } }
spec fn t_none<Pk: MiniscriptKey>() -> ASat<Pk> { ASat { kind: 2, stack: Seq::empty(), has_sig: false, abs: None, rel: None } }

// ---- juxtaposition "A B" of the table --------------------------------------------------------------
//   impossible if either is impossible or their time locks conflict; otherwise unavailable if either is;
//   otherwise the concatenation (A's elements first); it carries a signature iff one of them does; it
//   needs both locks, i.e. the larger one.
spec fn t_seq<Pk: MiniscriptKey>(a: ASat<Pk>, b: ASat<Pk>) -> ASat<Pk> {
    if a.kind == 2 || b.kind == 2 || locks_conflict(a.abs, b.abs, a.rel, b.rel) {
        t_none()
    } else if a.kind == 1 || b.kind == 1 {
        ASat { kind: 1, stack: Seq::empty(), has_sig: a.has_sig || b.has_sig, abs: merge_abs(a.abs, b.abs), rel: merge_rel(a.rel, b.rel) }
    } else {
        ASat { kind: 0, stack: a.stack + b.stack, has_sig: a.has_sig || b.has_sig, abs: merge_abs(a.abs, b.abs), rel: merge_rel(a.rel, b.rel) }
    }
}
// an entry followed by one constant element ("sat(X) 1", "dsat(Z) 0")
spec fn t_then<Pk: MiniscriptKey>(a: ASat<Pk>, e: Placeholder<Pk>) -> ASat<Pk> { t_seq(a, t_elems(seq![e])) }

// ---- choosing between two alternatives "A ; B" of a row -------------------------------------------
// `r` is the concrete witness `a`, with a's locks; r may claim a signature only if a has one
spec fn realises<Pk: MiniscriptKey>(r: Satisfaction<Placeholder<Pk>>, a: ASat<Pk>) -> bool {
    a.kind == 0 && wkind(r.stack) == 0 && wseq(r.stack) == a.stack && r.absolute_timelock == a.abs && arel_opt(r.relative_timelock) == a.rel && (r.has_sig ==> a.has_sig)
}
// malleable mode: any available alternative may be returned; one is returned whenever one exists
// (completeness, C02).
spec fn is_choice_mall<Pk: MiniscriptKey>(r: Satisfaction<Placeholder<Pk>>, a: ASat<Pk>, b: ASat<Pk>) -> bool {
    &&& (wkind(r.stack) == 0 <==> a.kind == 0 || b.kind == 0)
    &&& (wkind(r.stack) == 0 ==> realises(r, a) || realises(r, b))
    // the result is marked as signature-protected only if every available alternative carries one
    &&& (wkind(r.stack) == 0 && r.has_sig ==> (a.kind == 0 ==> a.has_sig) && (b.kind == 0 ==> b.has_sig))
}
// non-malleable mode (the specification's algorithm): an impossible alternative is ignored; if neither of
// two possible alternatives needs a signature a third party can switch between them: return nothing;
// if exactly one needs no signature it must be taken (the third party could otherwise strip the
// signature and use it), and the result is then not protected by a signature; if both need
// signatures either may be taken, an available one first.
spec fn is_choice_nonmall<Pk: MiniscriptKey>(r: Satisfaction<Placeholder<Pk>>, a: ASat<Pk>, b: ASat<Pk>) -> bool {
    if a.kind == 2 { abs_sat(r) == b }
    else if b.kind == 2 { abs_sat(r) == a }
    else if !a.has_sig && !b.has_sig { wkind(r.stack) == 1 && !r.has_sig }
    else if !a.has_sig { abs_sat(r) == a }
    else if !b.has_sig { abs_sat(r) == b }
    else { (abs_sat(r) == a || abs_sat(r) == b) && (wkind(r.stack) == 0 <==> a.kind == 0 || b.kind == 0) }
}
