// Kani harnesses backing the trusted stubs of the Verus units c04_lex / c04_encode.
// Oracle: Bitcoin Core script/script.h (opcode values) and CScript::operator<<(int64) / CScriptNum::serialize
// (length of a number push).  Complete: full u32 domain, loops bounded by the 9 bytes of an i64 script number.

// bytes a script needs to push n >= 0: OP_0 / OP_1..OP_16 are a single opcode; otherwise one length byte plus the
// minimal little-endian sign-magnitude encoding (an extra 0x00 when the top bit of the top byte is set)
fn oracle_scriptnum_push_len(n: u64) -> usize {
    if n <= 16 {
        return 1;
    }
    let mut bytes = 0usize;
    let mut v = n;
    let mut top = 0u64;
    while v != 0 {
        top = v & 0xff;
        v >>= 8;
        bytes += 1;
    }
    1 + bytes + if top & 0x80 != 0 { 1 } else { 0 }
}

#[kani::proof]
#[kani::unwind(12)]
fn pushint_len() {
    let n: u32 = kani::any();
    kani::cover!(n > 0x7fff_ffff);
    kani::cover!(n <= 16);
    let predicted = script_num_size(n as usize);
    let actual = bitcoin::script::Builder::new().push_int(n as i64).into_script().len();
    assert!(actual == oracle_scriptnum_push_len(n as u64), "C04,C09:pushint_len.builder_push_int_len_equals_cscriptnum");
    assert!(predicted == actual, "C04,C09:pushint_len.script_num_size_equals_builder_push_int");
}

// the constants the Verus stubs stand for really have the consensus byte values
#[kani::proof]
fn opcode_values() {
    use bitcoin::opcodes::{self, all};
    kani::cover!(true);
    assert!(all::OP_BOOLAND.to_u8() == 0x9a, "C04:opcode_values.consensus_bytes"); // script.h OP_BOOLAND
    assert!(all::OP_BOOLOR.to_u8() == 0x9b, "C04:opcode_values.consensus_bytes"); // script.h OP_BOOLOR
    assert!(all::OP_ADD.to_u8() == 0x93, "C04:opcode_values.consensus_bytes"); // script.h OP_ADD
    assert!(all::OP_EQUAL.to_u8() == 0x87, "C04:opcode_values.consensus_bytes"); // script.h OP_EQUAL
    assert!(all::OP_NUMEQUAL.to_u8() == 0x9c, "C04:opcode_values.consensus_bytes"); // script.h OP_NUMEQUAL
    assert!(all::OP_CHECKSIG.to_u8() == 0xac, "C04:opcode_values.consensus_bytes"); // script.h OP_CHECKSIG
    assert!(all::OP_CHECKSIGADD.to_u8() == 0xba, "C04:opcode_values.consensus_bytes"); // script.h OP_CHECKSIGADD
    assert!(all::OP_CHECKMULTISIG.to_u8() == 0xae, "C04:opcode_values.consensus_bytes"); // script.h OP_CHECKMULTISIG
    assert!(all::OP_CSV.to_u8() == 0xb2, "C04:opcode_values.consensus_bytes"); // script.h OP_CHECKSEQUENCEVERIFY
    assert!(all::OP_CLTV.to_u8() == 0xb1, "C04:opcode_values.consensus_bytes"); // script.h OP_CHECKLOCKTIMEVERIFY
    assert!(all::OP_FROMALTSTACK.to_u8() == 0x6c, "C04:opcode_values.consensus_bytes"); // script.h OP_FROMALTSTACK
    assert!(all::OP_TOALTSTACK.to_u8() == 0x6b, "C04:opcode_values.consensus_bytes"); // script.h OP_TOALTSTACK
    assert!(all::OP_DUP.to_u8() == 0x76, "C04:opcode_values.consensus_bytes"); // script.h OP_DUP
    assert!(all::OP_IF.to_u8() == 0x63, "C04:opcode_values.consensus_bytes"); // script.h OP_IF
    assert!(all::OP_IFDUP.to_u8() == 0x73, "C04:opcode_values.consensus_bytes"); // script.h OP_IFDUP
    assert!(all::OP_NOTIF.to_u8() == 0x64, "C04:opcode_values.consensus_bytes"); // script.h OP_NOTIF
    assert!(all::OP_ELSE.to_u8() == 0x67, "C04:opcode_values.consensus_bytes"); // script.h OP_ELSE
    assert!(all::OP_ENDIF.to_u8() == 0x68, "C04:opcode_values.consensus_bytes"); // script.h OP_ENDIF
    assert!(all::OP_0NOTEQUAL.to_u8() == 0x92, "C04:opcode_values.consensus_bytes"); // script.h OP_0NOTEQUAL
    assert!(all::OP_SIZE.to_u8() == 0x82, "C04:opcode_values.consensus_bytes"); // script.h OP_SIZE
    assert!(all::OP_SWAP.to_u8() == 0x7c, "C04:opcode_values.consensus_bytes"); // script.h OP_SWAP
    assert!(all::OP_RIPEMD160.to_u8() == 0xa6, "C04:opcode_values.consensus_bytes"); // script.h OP_RIPEMD160
    assert!(all::OP_HASH160.to_u8() == 0xa9, "C04:opcode_values.consensus_bytes"); // script.h OP_HASH160
    assert!(all::OP_SHA256.to_u8() == 0xa8, "C04:opcode_values.consensus_bytes"); // script.h OP_SHA256
    assert!(all::OP_HASH256.to_u8() == 0xaa, "C04:opcode_values.consensus_bytes"); // script.h OP_HASH256
    assert!(all::OP_EQUALVERIFY.to_u8() == 0x88, "C04:opcode_values.consensus_bytes"); // script.h OP_EQUALVERIFY
    assert!(all::OP_NUMEQUALVERIFY.to_u8() == 0x9d, "C04:opcode_values.consensus_bytes"); // script.h OP_NUMEQUALVERIFY
    assert!(all::OP_CHECKSIGVERIFY.to_u8() == 0xad, "C04:opcode_values.consensus_bytes"); // script.h OP_CHECKSIGVERIFY
    assert!(all::OP_CHECKMULTISIGVERIFY.to_u8() == 0xaf, "C04:opcode_values.consensus_bytes"); // script.h OP_CHECKMULTISIGVERIFY
    assert!(all::OP_DROP.to_u8() == 0x75, "C04:opcode_values.consensus_bytes"); // script.h OP_DROP
    assert!(all::OP_VERIFY.to_u8() == 0x69, "C04:opcode_values.consensus_bytes"); // script.h OP_VERIFY
    assert!(all::OP_PUSHNUM_NEG1.to_u8() == 0x4f, "C04:opcode_values.consensus_bytes"); // script.h OP_1NEGATE
    assert!(all::OP_PUSHBYTES_0.to_u8() == 0x00, "C04:opcode_values.consensus_bytes"); // script.h OP_0
    assert!(all::OP_PUSHNUM_1.to_u8() == 0x51, "C04:opcode_values.consensus_bytes"); // script.h OP_1
    assert!(all::OP_PUSHNUM_2.to_u8() == 0x52, "C04:opcode_values.consensus_bytes"); // script.h OP_2
    assert!(all::OP_PUSHNUM_3.to_u8() == 0x53, "C04:opcode_values.consensus_bytes"); // script.h OP_3
    assert!(all::OP_PUSHNUM_4.to_u8() == 0x54, "C04:opcode_values.consensus_bytes"); // script.h OP_4
    assert!(all::OP_PUSHNUM_5.to_u8() == 0x55, "C04:opcode_values.consensus_bytes"); // script.h OP_5
    assert!(all::OP_PUSHNUM_6.to_u8() == 0x56, "C04:opcode_values.consensus_bytes"); // script.h OP_6
    assert!(all::OP_PUSHNUM_7.to_u8() == 0x57, "C04:opcode_values.consensus_bytes"); // script.h OP_7
    assert!(all::OP_PUSHNUM_8.to_u8() == 0x58, "C04:opcode_values.consensus_bytes"); // script.h OP_8
    assert!(all::OP_PUSHNUM_9.to_u8() == 0x59, "C04:opcode_values.consensus_bytes"); // script.h OP_9
    assert!(all::OP_PUSHNUM_10.to_u8() == 0x5a, "C04:opcode_values.consensus_bytes"); // script.h OP_10
    assert!(all::OP_PUSHNUM_11.to_u8() == 0x5b, "C04:opcode_values.consensus_bytes"); // script.h OP_11
    assert!(all::OP_PUSHNUM_12.to_u8() == 0x5c, "C04:opcode_values.consensus_bytes"); // script.h OP_12
    assert!(all::OP_PUSHNUM_13.to_u8() == 0x5d, "C04:opcode_values.consensus_bytes"); // script.h OP_13
    assert!(all::OP_PUSHNUM_14.to_u8() == 0x5e, "C04:opcode_values.consensus_bytes"); // script.h OP_14
    assert!(all::OP_PUSHNUM_15.to_u8() == 0x5f, "C04:opcode_values.consensus_bytes"); // script.h OP_15
    assert!(all::OP_PUSHNUM_16.to_u8() == 0x60, "C04:opcode_values.consensus_bytes"); // script.h OP_16
    assert!(opcodes::OP_TRUE.to_u8() == 0x51 && opcodes::OP_FALSE.to_u8() == 0x00, "C04:opcode_values.consensus_bytes");
}
