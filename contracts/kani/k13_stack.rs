// Contracts for the interpreter's abstract stack (src/interpreter/stack.rs), property C13.
//
// Oracles (none of them read off the code):
//   * BIP65  OP_CHECKLOCKTIMEVERIFY : fails if the two values are of different kinds (threshold
//             500_000_000), or if n > nLockTime.  (Its third rule -- the input's nSequence is
//             0xffffffff -- cannot be stated on `evaluate_after`, which is not given the sequence; it is a
//             clause of the `After` arm of `Iter::iter_next` in unit c13_iter_step.)
//   * BIP112 OP_CHECKSEQUENCEVERIFY : (n has no disable flag: guaranteed by Miniscript's older(n))
//             fails if the input's nSequence has bit 31 set, or if the type flags (bit 22) differ, or if
//             n & 0xffff > nSequence & 0xffff.  (tx.version >= 2 cannot be stated: the interpreter is
//             never given the transaction version.)
//   * Bitcoin Script truth values of the two canonical booleans: `OP_1` / the one-byte vector [1] is
//             what a satisfied fragment leaves, the empty vector is what a dissatisfied fragment leaves.
//   * Miniscript hash fragments `SIZE <32> EQUALVERIFY <H> <h> EQUAL`: a top element whose size is not
//             32 aborts; otherwise the result is (H(top) == h).
const LOCKTIME_THRESHOLD: u32 = 500_000_000;
const SEQ_DISABLE: u32 = 1 << 31;
const SEQ_TYPE_FLAG: u32 = 1 << 22;
const SEQ_MASK: u32 = 0x0000_ffff;

fn bool_elem(b: bool) -> Element<'static> { if b { Element::Satisfied } else { Element::Dissatisfied } }
// NOTE: never use the derived `==` of Element on two symbolic elements in a harness: its Push/Push arm is a memcmp
// of symbolic length, which CBMC unwinds forever.  Booleans are compared by pattern, pushes by pointer and length.
fn same_bool(a: Element<'_>, b: Element<'_>) -> bool {
    matches!((a, b), (Element::Satisfied, Element::Satisfied) | (Element::Dissatisfied, Element::Dissatisfied))
}
fn same_elem(a: Element<'_>, b: Element<'_>) -> bool {
    match (a, b) {
        (Element::Push(x), Element::Push(y)) => x.as_ptr() == y.as_ptr() && x.len() == y.len(),
        _ => same_bool(a, b),
    }
}

// ---------------------------------------------------------------------------------------------------
// evaluate_after  (complete: loop-free, u32 x u32)
// ---------------------------------------------------------------------------------------------------
#[kani::proof]
fn evaluate_after_bip65() {
    let n_raw: u32 = kani::any();
    let lt_raw: u32 = kani::any();
    let n = absolute::LockTime::from_consensus(n_raw);
    let lock_time = absolute::LockTime::from_consensus(lt_raw);
    let bottom = bool_elem(kani::any());
    let mut st = Stack::from(vec![bottom]);
    kani::cover!(true);
    let r = st.evaluate_after(&n, lock_time);

    let same_unit = (n_raw < LOCKTIME_THRESHOLD) == (lt_raw < LOCKTIME_THRESHOLD);
    let bip65_pass = same_unit && n_raw <= lt_raw;
    kani::cover!(bip65_pass);
    kani::cover!(!same_unit);
    kani::cover!(same_unit && !bip65_pass);
    assert!(r.is_some(), "C13:evaluate_after.always_yields");
    assert!(matches!(r, Some(Ok(_))) == bip65_pass, "C13:evaluate_after.bip65");
    if bip65_pass {
        assert!(matches!(r, Some(Ok(SatisfiedConstraint::AbsoluteTimelock { n: m })) if m == n), "C13:evaluate_after.reports_n");
        assert!(st.0.len() == 2 && same_bool(st.0[0], bottom) && matches!(st.0[1], Element::Satisfied), "C13:evaluate_after.pushes_satisfied");
    } else {
        assert!(st.0.len() == 1 && same_bool(st.0[0], bottom), "C13:evaluate_after.stack_untouched_on_error");
        if same_unit {
            assert!(matches!(r, Some(Err(Error::AbsoluteLockTimeNotMet(a))) if a == n), "C13:evaluate_after.error_not_met");
        } else {
            assert!(matches!(r, Some(Err(Error::AbsoluteLockTimeComparisonInvalid(a, b))) if a == n && b == lock_time), "C13:evaluate_after.error_unit_mismatch");
        }
    }
    core::mem::forget(r); // keep the drop glue of interpreter::Error (crate::Error, Vec, String, ...) out of the model
}

// The `After` arm of Iter::iter_next builds the argument as `absolute::LockTime::from(*n)` with n: AbsLockTime.
#[kani::proof]
fn after_arm_conversion() {
    let n_raw: u32 = kani::any();
    kani::assume(n_raw >= 1 && n_raw <= 0x7fff_ffff); // the domain of Miniscript's after(n)
    let abs = crate::AbsLockTime::from_consensus(n_raw).unwrap();
    kani::cover!(true);
    let n = absolute::LockTime::from(abs);
    assert!(n.to_consensus_u32() == n_raw, "C13:after_arm.conversion_preserves_n");
    assert!(n == absolute::LockTime::from_consensus(n_raw), "C13:after_arm.conversion_is_from_consensus");
}

// ---------------------------------------------------------------------------------------------------
// evaluate_older  (complete: loop-free, u32 x u32; n built exactly as the `Older` arm does: (*n).into())
// ---------------------------------------------------------------------------------------------------
#[kani::proof]
fn evaluate_older_bip112() {
    let n_raw: u32 = kani::any();
    let seq_raw: u32 = kani::any();
    kani::assume(n_raw != 0 && n_raw & SEQ_DISABLE == 0); // the domain of Miniscript's older(n)
    let rel = crate::RelLockTime::from_consensus(n_raw).unwrap();
    let n: relative::LockTime = rel.into();
    let sequence = Sequence::from_consensus(seq_raw);
    let bottom = bool_elem(kani::any());
    let mut st = Stack::from(vec![bottom]);
    kani::cover!(true);
    let r = st.evaluate_older(&n, sequence);

    let disabled = seq_raw & SEQ_DISABLE != 0;
    let same_type = (n_raw & SEQ_TYPE_FLAG) == (seq_raw & SEQ_TYPE_FLAG);
    let bip112_pass = !disabled && same_type && (n_raw & SEQ_MASK) <= (seq_raw & SEQ_MASK);
    kani::cover!(bip112_pass);
    kani::cover!(disabled);
    kani::cover!(!disabled && !same_type);
    kani::cover!(!disabled && same_type && !bip112_pass);
    assert!(r.is_some(), "C13:evaluate_older.always_yields");
    assert!(matches!(r, Some(Ok(_))) == bip112_pass, "C13:evaluate_older.bip112");
    // the relative lock handed to the evaluator is the script's n (masked as BIP68 masks it)
    assert!(n.to_consensus_u32() == n_raw & (SEQ_TYPE_FLAG | SEQ_MASK), "C13:older_arm.conversion_preserves_n");
    if bip112_pass {
        assert!(matches!(r, Some(Ok(SatisfiedConstraint::RelativeTimelock { n: m })) if m == n), "C13:evaluate_older.reports_n");
        assert!(st.0.len() == 2 && same_bool(st.0[0], bottom) && matches!(st.0[1], Element::Satisfied), "C13:evaluate_older.pushes_satisfied");
    } else {
        assert!(st.0.len() == 1 && same_bool(st.0[0], bottom), "C13:evaluate_older.stack_untouched_on_error");
        if disabled {
            assert!(matches!(r, Some(Err(Error::RelativeLockTimeDisabled(a))) if a == n), "C13:evaluate_older.error_disabled");
        } else {
            assert!(matches!(r, Some(Err(Error::RelativeLockTimeNotMet(a))) if a == n), "C13:evaluate_older.error_not_met");
        }
    }
    core::mem::forget(r);
}

// ---------------------------------------------------------------------------------------------------
// Element::from(&[u8]) / from_instruction.  The byte string has a CONCRETE length per instance (so that CBMC
// folds the length tests) and fully symbolic contents: lengths 0, 1, 2, 20, 32, 33, 80 (bounded in the length only;
// the code inspects nothing but len() and, for len 1, byte 0).
// ---------------------------------------------------------------------------------------------------
fn check_element_from<const L: usize>() {
    let buf: [u8; L] = kani::any();
    let v: &[u8] = &buf[..];
    let e = Element::from(v);
    let is_one = L == 1 && buf[0] == 1;
    kani::cover!(is_one || L != 1);
    assert!(matches!(e, Element::Satisfied) == is_one, "C13:element_from.one_is_satisfied");
    assert!(matches!(e, Element::Dissatisfied) == (L == 0), "C13:element_from.empty_is_dissatisfied");
    if !(L == 0 || is_one) {
        assert!(matches!(e, Element::Push(p) if p.len() == L && p.as_ptr() == v.as_ptr()), "C13:element_from.else_push_same_bytes");
    }
}

#[kani::proof]
fn element_from_slice() {
    check_element_from::<0>();
    check_element_from::<1>();
    check_element_from::<2>();
    check_element_from::<20>();
    check_element_from::<32>();
    check_element_from::<33>();
    check_element_from::<80>();
}

// a push instruction carrying bytes v is the element of v
fn check_push_instruction<const L: usize>() {
    let buf: [u8; L] = kani::any();
    let v: &[u8] = &buf[..];
    let e = Element::from(v);
    let pb: &script::PushBytes = <&script::PushBytes>::try_from(v).unwrap();
    let r = Element::from_instruction(Ok(script::Instruction::PushBytes(pb)));
    kani::cover!(true);
    assert!(matches!(r, Ok(e2) if same_elem(e2, e)), "C13:from_instruction.push_is_element_from");
    core::mem::forget(r);
}

#[kani::proof]
fn element_from_push_instruction() {
    check_push_instruction::<0>();
    check_push_instruction::<1>();
    check_push_instruction::<33>();
}

// complete over the 256 opcodes; plus a script decoding error
#[kani::proof]
fn element_from_instruction() {
    let op: u8 = kani::any();
    kani::cover!(op == 0x51);
    kani::cover!(op != 0x51);
    let r = Element::from_instruction(Ok(script::Instruction::Op(opcodes::Opcode::from(op))));
    assert!(matches!(r, Ok(Element::Satisfied)) == (op == 0x51), "C13:from_instruction.op1_is_satisfied");
    assert!(matches!(r, Err(Error::ExpectedPush)) == (op != 0x51), "C13:from_instruction.other_opcodes_refused");
    core::mem::forget(r);
    let r = Element::from_instruction(Err(script::Error::EarlyEndOfScript));
    assert!(matches!(r, Err(Error::ExpectedPush)), "C13:from_instruction.script_error_refused");
    core::mem::forget(r);
}

// ---------------------------------------------------------------------------------------------------
// hash evaluators: the 32-byte preimage-size rule and the non-push / empty-stack cases.
// Top element: Dissatisfied, Satisfied, Push of length 1 / 31 / 33 with symbolic contents: the hash function is then not reachable,
// nothing is stubbed.  (For ALL lengths, and for the size == 32 path -- compare H(top) with h, push Satisfied /
// Dissatisfied -- the evaluators are verified on their extracted text with H uninterpreted in unit c13_iter_step.)
// ---------------------------------------------------------------------------------------------------
macro_rules! hash_size_rule {
    ($name:ident, $check:ident, $eval:ident, $hash_ty:ty, $tagbad:literal, $tagnon:literal, $tagend:literal, $tagstack:literal) => {
        // `top` always has a CONCRETE discriminant (a symbolic one would leave the slice length of the Push payload
        // unconstrained on the infeasible path and send CBMC into the hash function's loops)
        fn $check(h: &$hash_ty, top: Element<'_>) {
            let bottom = bool_elem(kani::any());
            let mut st = Stack::from(vec![bottom, top]);
            let r = st.$eval(h);
            // SIZE <32> EQUALVERIFY aborts for every element whose size is not 32 -- including the booleans [] and [1]
            assert!(matches!(r, Some(Err(_))), $tagbad);
            if let Element::Push(_) = top {
                assert!(matches!(r, Some(Err(Error::HashPreimageLengthMismatch))), $tagnon);
            }
            assert!(st.0.len() == 1 && same_bool(st.0[0], bottom), $tagstack);
            core::mem::forget(r);
        }
        #[kani::proof]
        fn $name() {
            let h = <$hash_ty as Hash>::from_byte_array(kani::any());
            kani::cover!(true);
            let (b1, b31, b33): ([u8; 1], [u8; 31], [u8; 33]) = (kani::any(), kani::any(), kani::any());
            $check(&h, Element::Dissatisfied); // the empty vector, size 0
            $check(&h, Element::Satisfied); // the vector [1], size 1
            $check(&h, Element::Push(&b1[..]));
            $check(&h, Element::Push(&b31[..]));
            $check(&h, Element::Push(&b33[..]));
            let mut st = Stack::from(vec![]);
            let r = st.$eval(&h);
            assert!(matches!(r, Some(Err(Error::UnexpectedStackEnd))) && st.0.is_empty(), $tagend);
            core::mem::forget(r);
        }
    };
}
hash_size_rule!(sha256_size_rule, chk_sha256, evaluate_sha256, sha256::Hash, "C13:evaluate_sha256.size_not_32_aborts", "C13:evaluate_sha256.error_kind", "C13:evaluate_sha256.empty_stack", "C13:evaluate_sha256.frame");
hash_size_rule!(hash256_size_rule, chk_hash256, evaluate_hash256, hash256::Hash, "C13:evaluate_hash256.size_not_32_aborts", "C13:evaluate_hash256.error_kind", "C13:evaluate_hash256.empty_stack", "C13:evaluate_hash256.frame");
// evaluate_hash160 / evaluate_ripemd160: no Kani harness (goto-instrument exhausts memory on RIPEMD160 next to other harnesses);
// the same clause is proved on their extracted text, for all lengths, in the Verus unit c13_iter_step.
