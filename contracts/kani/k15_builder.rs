// Contracts for TapTreeBuilder::{new, push_inner_node, push_leaf, finalize} and TapTree::combine
// (src/descriptor/tr/taptree.rs).
//
// Oracle (BIP341, "Constructing and spending Taproot outputs"): a script tree is a binary tree whose leaves
// sit at depth 0..=128 (the control block carries m <= 128 path elements).  The descriptor text lists the tree
// in depth-first pre-order (`{` = inner node with exactly two children).  While such a listing is consumed,
// the only state needed is, for every depth d >= 1 on the path from the root to the cursor, whether the LEFT
// child of the node at depth d-1 (i.e. the left subtree rooted at depth d) is already finished:
//     done(d)  for d in 1..=128.
// After a leaf at depth h: every node on the path whose left subtree was already finished is now finished
// itself, so the cursor climbs to  h' = max { d <= h : d == 0 or !done(d) },  all flags in (h', h] are cleared,
// flag h' (if h' > 0) becomes set, and the next item of the listing sits at depth h'.
// The builder stores done(1..=127) in bits 1..=127 of `complete_heights` and done(128) in `complete_128`.
//
// Key type: bitcoin::PublicKey (never constructed: all leaves are keyless `1` / `0` / `older(n)` fragments);
// leaves are identified by Arc pointer identity.

type K = bitcoin::PublicKey;
type Ms = Miniscript<K, Tap>;

fn done(heights: u128, c128: bool, d: u8) -> bool {
    if d == 128 { c128 } else { (heights >> d) & 1 == 1 }
}

/// Builder invariant: cursor within 0..=128, no flag above the cursor, bit 0 unused.
fn wf(heights: u128, c128: bool, h: u8) -> bool {
    h <= 128
        && heights & 1 == 0
        && (h >= 127 || heights >> (h + 1) == 0)
        && (!c128 || h == 128)
}

fn mk_builder(heights: u128, c128: bool, h: u8) -> TapTreeBuilder<K> {
    TapTreeBuilder { depths_leaves: Vec::new(), complete_heights: heights, complete_128: c128, current_height: h }
}

#[kani::proof]
fn builder_new() {
    let b = TapTreeBuilder::<K>::new();
    assert!(wf(b.complete_heights, b.complete_128, b.current_height), "C15:builder_new.invariant");
    assert!(b.current_height == 0 && b.depths_leaves.is_empty(), "C15:builder_new.empty_at_root");
}

// COMPLETE: loop-free, all of (complete_heights, complete_128, current_height) symbolic under the invariant.
#[kani::proof]
fn builder_push_inner_node() {
    let heights: u128 = kani::any();
    let c128: bool = kani::any();
    let h: u8 = kani::any();
    kani::assume(wf(heights, c128, h));
    kani::cover!(h == 128);
    kani::cover!(h == 127);
    kani::cover!(h == 0);
    let mut b = mk_builder(heights, c128, h);
    let r = b.push_inner_node();
    // BIP341: a child of a node at depth h sits at depth h+1, which must be <= 128
    assert!(r.is_err() == (h as usize + 1 > 128), "C10,C15:push_inner_node.err_iff_depth_exceeds_128");
    if r.is_ok() {
        assert!(b.current_height == h + 1, "C10,C15:push_inner_node.descends_one_level");
        assert!(b.complete_heights == heights && b.complete_128 == c128, "C10,C15:push_inner_node.flags_unchanged");
        assert!(wf(b.complete_heights, b.complete_128, b.current_height), "C10,C15:push_inner_node.invariant");
        // the freshly entered level has no finished left subtree
        assert!(!done(b.complete_heights, b.complete_128, b.current_height), "C10,C15:push_inner_node.new_level_not_done");
    }
    assert!(b.depths_leaves.is_empty(), "C10,C15:push_inner_node.leaves_unchanged");
    core::mem::forget(b);
}

// COMPLETE, by enumeration of the cursor: `complete_heights` (u128), `complete_128` and the probe level `i` are
// symbolic, the cursor height h is enumerated 0..=128 inside the harnesses (eight harnesses partition the range).
// With a symbolic h the 128-fold unrolled carry loop with symbolic shift amounts takes CBMC ~10 min; with h
// concrete per call the shifts are constant masks and the loop unrolls exactly h times.  The carry loop runs at
// most 127 times; unwinding assertions are on.
fn push_leaf_at(h: u8, shared_leaf: &Arc<Ms>) {
    let heights: u128 = kani::any();
    let c128: bool = kani::any();
    let i: u8 = kani::any();
    kani::assume(wf(heights, c128, h));
    kani::assume(i <= 128);
    kani::cover!(h == 0 || h == 128 || heights == ((1u128 << h) | ((1u128 << h) - 2)));   // 1..=127: carry all the way to the root
    let keep = Arc::clone(shared_leaf);
    let mut b = mk_builder(heights, c128, h);
    b.push_leaf(Arc::clone(shared_leaf));
    let (heights2, c128_2, h2) = (b.complete_heights, b.complete_128, b.current_height);

    // the leaf is recorded at the depth of the cursor
    assert!(b.depths_leaves.len() == 1, "C10,C15:push_leaf.records_one_leaf");
    assert!(b.depths_leaves[0].0 == h, "C10,C15:push_leaf.records_current_depth");
    assert!(Arc::ptr_eq(&b.depths_leaves[0].1, &keep), "C10,C15:push_leaf.records_the_leaf");

    // carry (see header): h2 = max { d <= h : d == 0 or !done(d) }
    assert!(h2 <= h, "C10,C15:push_leaf.cursor_never_descends");
    assert!(h2 == 0 || !done(heights, c128, h2), "C10,C15:push_leaf.stops_at_unfinished_left");
    if i > h2 && i <= h {
        assert!(done(heights, c128, i), "C10,C15:push_leaf.climbs_only_over_finished_left");
        assert!(!done(heights2, c128_2, i), "C10,C15:push_leaf.clears_climbed_levels");
    }
    if h2 > 0 {
        assert!(done(heights2, c128_2, h2), "C10,C15:push_leaf.marks_left_finished");
    }
    if i < h2 || i > h {
        assert!(done(heights2, c128_2, i) == done(heights, c128, i), "C10,C15:push_leaf.other_levels_unchanged");
    }
    assert!(wf(heights2, c128_2, h2), "C10,C15:push_leaf.invariant");
    // never run the (recursive) drop glue of Arc<Miniscript> under CBMC
    core::mem::forget(b);
    core::mem::forget(keep);
}

fn push_leaf_range(lo: u8, hi: u8) {
    let leaf: Arc<Ms> = Arc::new(Ms::TRUE);
    let mut h = lo;
    while h <= hi {
        push_leaf_at(h, &leaf);
        h += 1;
    }
    core::mem::forget(leaf);
}

// the eight ranges partition current_height 0..=128 (balanced by the total number of carry-loop iterations)
#[kani::proof]
#[kani::unwind(131)]
fn builder_push_leaf_h000_031() { push_leaf_range(0, 31) }
#[kani::proof]
#[kani::unwind(131)]
fn builder_push_leaf_h032_055() { push_leaf_range(32, 55) }
#[kani::proof]
#[kani::unwind(131)]
fn builder_push_leaf_h056_072() { push_leaf_range(56, 72) }
#[kani::proof]
#[kani::unwind(131)]
fn builder_push_leaf_h073_086() { push_leaf_range(73, 86) }
#[kani::proof]
#[kani::unwind(131)]
fn builder_push_leaf_h087_098() { push_leaf_range(87, 98) }
#[kani::proof]
#[kani::unwind(131)]
fn builder_push_leaf_h099_109() { push_leaf_range(99, 109) }
#[kani::proof]
#[kani::unwind(131)]
fn builder_push_leaf_h110_119() { push_leaf_range(110, 119) }
#[kani::proof]
#[kani::unwind(131)]
fn builder_push_leaf_h120_128() { push_leaf_range(120, 128) }

// ---------------------------------------------------------------------------------------------------------
// BOUNDED end-to-end: every pre-order listing of a binary tree with <= 4 leaves (<= 7 tokens, 9 shapes), fed to
// the real builder, yields the leaves in order with the depths given by an independent oracle (stack of
// "children still missing" counters).  The listings are concrete (a symbolic token array makes CBMC run out of
// memory on the Vec growth paths); `{` = true.
const MAXTOK: usize = 7;

fn preorder_case(n: usize, toks: [bool; MAXTOK]) {
    // oracle: pre-order walk with a stack of "children still missing" counters; depth of a leaf = stack size
    let mut missing = [0u8; MAXTOK + 1];
    let mut sp: usize = 0;
    let mut exp_depth = [0u8; MAXTOK];
    let mut nleaves: usize = 0;
    let mut t = 0;
    while t < n {
        if toks[t] {
            missing[sp] = 2;
            sp += 1;
        } else {
            exp_depth[nleaves] = sp as u8;
            nleaves += 1;
            // a finished subtree completes its ancestors while it was their last missing child
            while sp > 0 {
                missing[sp - 1] -= 1;
                if missing[sp - 1] == 0 { sp -= 1; } else { break; }
            }
        }
        t += 1;
    }
    assert!(sp == 0 && nleaves >= 1 && nleaves <= 4); // the listing is a complete tree (harness-internal)

    let leaves: [Arc<Ms>; 4] = [Arc::new(Ms::TRUE), Arc::new(Ms::FALSE), Arc::new(Ms::TRUE), Arc::new(Ms::FALSE)];
    let mut b = TapTreeBuilder::<K>::new();
    let mut li = 0;
    let mut t = 0;
    while t < n {
        if toks[t] {
            assert!(b.push_inner_node().is_ok(), "C10,C15:builder_preorder.inner_node_accepted");
        } else {
            b.push_leaf(Arc::clone(&leaves[li]));
            li += 1;
        }
        assert!(wf(b.complete_heights, b.complete_128, b.current_height), "C10,C15:builder_preorder.invariant");
        t += 1;
    }
    assert!(b.current_height == 0 && b.complete_heights == 0 && !b.complete_128, "C10,C15:builder_preorder.ends_at_root");
    let tree = b.finalize();
    assert!(tree.depths_leaves.len() == nleaves, "C10,C15:builder_preorder.leaf_count");
    let mut j = 0;
    while j < nleaves {
        assert!(tree.depths_leaves[j].0 == exp_depth[j], "C10,C15:builder_preorder.depths");
        assert!(Arc::ptr_eq(&tree.depths_leaves[j].1, &leaves[j]), "C10,C15:builder_preorder.order");
        j += 1;
    }
    core::mem::forget(tree);
    core::mem::forget(leaves);
}

#[kani::proof]
#[kani::unwind(9)]
fn builder_preorder_depths() {
    const I: bool = true;
    const L: bool = false;
    kani::cover!(true);
    preorder_case(1, [L, L, L, L, L, L, L]);     // A
    preorder_case(3, [I, L, L, L, L, L, L]);     // {A,B}
    preorder_case(5, [I, L, I, L, L, L, L]);     // {A,{B,C}}
    preorder_case(5, [I, I, L, L, L, L, L]);     // {{A,B},C}
    preorder_case(7, [I, I, L, L, I, L, L]);     // {{A,B},{C,D}}
    preorder_case(7, [I, L, I, L, I, L, L]);     // {A,{B,{C,D}}}
    preorder_case(7, [I, L, I, I, L, L, L]);     // {A,{{B,C},D}}
    preorder_case(7, [I, I, I, L, L, L, L]);     // {{{A,B},C},D}
    preorder_case(7, [I, I, L, I, L, L, L]);     // {{A,{B,C}},D}
}

// finalize on an empty builder is a documented panic; the only caller (Tr::from_tree) pushes at least one leaf
// because an expression tree node is either curly (2 children) or a leaf.  Contract: non-empty => no panic,
// leaves handed over unchanged.
#[kani::proof]
fn builder_finalize() {
    let d: u8 = kani::any();
    let leaf: Arc<Ms> = Arc::new(Ms::TRUE);
    let b = TapTreeBuilder::<K> { depths_leaves: vec![(d, Arc::clone(&leaf))], complete_heights: 0, complete_128: false, current_height: 0 };
    let t = b.finalize();
    assert!(t.depths_leaves.len() == 1 && t.depths_leaves[0].0 == d && Arc::ptr_eq(&t.depths_leaves[0].1, &leaf),
            "C15:builder_finalize.leaves_unchanged");
    core::mem::forget(t);
    core::mem::forget(leaf);
}

// ---------------------------------------------------------------------------------------------------------
// TapTree::combine.  BOUNDED: 1+1 and 1+2 leaves (<= 3 in total), depths fully symbolic u8.
// Oracle (BIP341): joining two trees under a new root puts every leaf one level deeper, keeps the left-to-right
// order, and is impossible iff some leaf would land deeper than 128.
fn mk_tree(n: usize, d: [u8; 2], l: &[Arc<Ms>; 2]) -> TapTree<K> {
    let mut v = Vec::with_capacity(2);
    v.push((d[0], Arc::clone(&l[0])));
    if n == 2 { v.push((d[1], Arc::clone(&l[1]))); }
    TapTree { depths_leaves: v }
}

// The leaf counts are const parameters (one harness per (NL, NR)) and the unwind bound is the minimum the loops
// need: `combine` drops its arguments, CBMC does not resolve the Arc reference counts / Terminal discriminants of
// heap objects and explores the RECURSIVE drop glue of Miniscript up to the unwind bound (x28 per level; with
// unwind 6 the 1+2 case does not finish in 10 min, 2+2 runs out of memory).  Hence <= 3 leaves in total.
fn combine_case<const NL: usize, const NR: usize>() {
    let (nl, nr) = (NL, NR);
    let dl: [u8; 2] = kani::any();
    let dr: [u8; 2] = kani::any();
    let ll: [Arc<Ms>; 2] = [Arc::new(Ms::TRUE), Arc::new(Ms::FALSE)];
    let lr: [Arc<Ms>; 2] = [Arc::new(Ms::FALSE), Arc::new(Ms::TRUE)];
    let left = mk_tree(nl, dl, &ll);
    let right = mk_tree(nr, dr, &lr);
    let too_deep = dl[0] as u16 + 1 > 128 || (nl == 2 && dl[1] as u16 + 1 > 128)
        || dr[0] as u16 + 1 > 128 || (nr == 2 && dr[1] as u16 + 1 > 128);
    kani::cover!(too_deep);
    kani::cover!(!too_deep && dl[0] == 127);
    kani::cover!(dr[0] == 255);
    let r = TapTree::combine(left, right);
    assert!(r.is_err() == too_deep, "C15:combine.err_iff_some_depth_exceeds_128");
    if let Ok(t) = r {
        assert!(t.depths_leaves.len() == nl + nr, "C15:combine.leaf_count");
        assert!(t.depths_leaves[0].0 == dl[0] + 1 && Arc::ptr_eq(&t.depths_leaves[0].1, &ll[0]), "C15:combine.left_first_depth_plus_one");
        if nl == 2 {
            assert!(t.depths_leaves[1].0 == dl[1] + 1 && Arc::ptr_eq(&t.depths_leaves[1].1, &ll[1]), "C15:combine.left_first_depth_plus_one");
        }
        assert!(t.depths_leaves[nl].0 == dr[0] + 1 && Arc::ptr_eq(&t.depths_leaves[nl].1, &lr[0]), "C15:combine.right_after_left_depth_plus_one");
        if nr == 2 {
            assert!(t.depths_leaves[nl + 1].0 == dr[1] + 1 && Arc::ptr_eq(&t.depths_leaves[nl + 1].1, &lr[1]), "C15:combine.right_after_left_depth_plus_one");
        }
        core::mem::forget(t);
    }
    core::mem::forget(ll);
    core::mem::forget(lr);
}

#[kani::proof]
#[kani::unwind(3)]
fn taptree_combine_1_1() { combine_case::<1, 1>() }
#[kani::proof]
#[kani::unwind(4)]
fn taptree_combine_1_2() { combine_case::<1, 2>() }
// (combine_case::<2, 1> -- two leaves on the LEFT -- exceeds 8 GB in CBMC because of the drop-glue recursion and is
// not instantiated; the loop treats both sides alike through one `chain` iterator.)

// TapTree::leaf: a single leaf at depth 0 (BIP341: a tree consisting of one leaf has that leaf as root).
#[kani::proof]
fn taptree_leaf() {
    let a: Arc<Ms> = Arc::new(Ms::TRUE);
    let t = TapTree::<K>::leaf(Arc::clone(&a));
    assert!(t.depths_leaves.len() == 1 && t.depths_leaves[0].0 == 0 && Arc::ptr_eq(&t.depths_leaves[0].1, &a), "C15:taptree_leaf.depth_zero");
    // leaves() yields what is stored, in order
    let mut it = t.leaves();
    let x = it.next();
    assert!(x.is_some(), "C15:taptree_leaf.iter_yields");
    let x = x.unwrap();
    assert!(x.depth() == 0 && Arc::ptr_eq(x.miniscript(), &a), "C15:taptree_leaf.iter_depth_and_leaf");
    assert!(it.next().is_none(), "C15:taptree_leaf.iter_ends");
    core::mem::forget(t);
    core::mem::forget(a);
}
