// C16 (sorted-multisig half): `Threshold::into_sorted(serialize_fn)` -- the function behind
// `sortedmulti` / `sortedmulti_a` encoding and satisfaction (astelem.rs, sat_dissat.rs call it through
// `into_sorted_bip67[_xonly]`, which only supply the secp serialisation as `serialize_fn`).
//
// Oracle (BIP67 / BIP383 "sortedmulti": keys are sorted lexicographically by their serialisation before the
// script is built; the threshold is unchanged): the result is a permutation of the input, ordered by the
// key, with the same k  ==>  for pairwise distinct keys it does not depend on the order the items were listed.
//
// BOUNDED: n <= 4 items (one harness per n so that std's sort sees a concrete length), T = u8 with a symbolic
// 4-entry key table (the key of item t is TABLE[t & 3]); the real std `sort_by_key` is executed.
static mut TABLE: [u8; 4] = [0; 4];
#[allow(unsafe_code)]
fn key_of(t: &u8) -> u8 { unsafe { TABLE[(*t & 3) as usize] } }

fn items<const N: usize>(xs: &[u8; 4]) -> Vec<u8> {
    let mut v = Vec::with_capacity(N);
    let mut i = 0;
    while i < N {
        v.push(xs[i]);
        i += 1;
    }
    v
}

fn count(v: &[u8], x: u8) -> usize {
    let mut c = 0;
    let mut i = 0;
    while i < v.len() {
        if v[i] == x {
            c += 1;
        }
        i += 1;
    }
    c
}

#[allow(unsafe_code)]
fn sorted_permutation_case<const N: usize>() {
    let k: usize = kani::any();
    kani::assume(1 <= k && k <= N);
    unsafe { TABLE = kani::any(); }
    let before: [u8; 4] = kani::any();
    // struct literal (private fields are visible here): no error-formatting path of Threshold::new(..).unwrap()
    let thr: Threshold<u8, 0> = Threshold { k, inner: items::<N>(&before) };
    kani::cover!(key_of(&before[0]) > key_of(&before[N - 1]));
    let input_sorted = thr.is_sorted(key_of);
    let s = thr.into_sorted(key_of);
    assert!(s.k() == k, "C16:into_sorted.k_preserved");
    assert!(s.n() == N, "C16:into_sorted.n_preserved");
    let d = s.data();
    let mut i = 0;
    while i + 1 < N {
        assert!(key_of(&d[i]) <= key_of(&d[i + 1]), "C16:into_sorted.ordered_by_key");
        i += 1;
    }
    let mut i = 0;
    while i < N {
        assert!(count(d, before[i]) == count(&before[..N], before[i]), "C16:into_sorted.permutation");
        i += 1;
    }
    assert!(s.is_sorted(key_of), "C16:is_sorted.accepts_sorted");
    let mut ordered = true;
    let mut i = 0;
    while i + 1 < N {
        if key_of(&before[i]) > key_of(&before[i + 1]) {
            ordered = false;
        }
        i += 1;
    }
    assert!(input_sorted == ordered, "C16:is_sorted.definition");
}

#[allow(unsafe_code)]
fn order_independent_case<const N: usize>() {
    let k: usize = kani::any();
    kani::assume(1 <= k && k <= N);
    unsafe { TABLE = kani::any(); }
    let v: [u8; 4] = kani::any();
    // the same items listed in another order: a symbolic permutation built from N - 1 transpositions
    let mut w = v;
    let mut t = 0;
    while t + 1 < N {
        let b: usize = kani::any();
        kani::assume(t <= b && b < N);
        let tmp = w[t];
        w[t] = w[b];
        w[b] = tmp;
        t += 1;
    }
    // pairwise distinct keys (distinct public keys have distinct serialisations)
    let mut i = 0;
    while i < N {
        let mut j = i + 1;
        while j < N {
            kani::assume(key_of(&v[i]) != key_of(&v[j]));
            j += 1;
        }
        i += 1;
    }
    kani::cover!(w[0] == v[N - 1]);
    let s1: Threshold<u8, 0> = Threshold { k, inner: items::<N>(&v) }.into_sorted(key_of);
    let s2: Threshold<u8, 0> = Threshold { k, inner: items::<N>(&w) }.into_sorted(key_of);
    assert!(s1.k() == s2.k() && s1.n() == s2.n(), "C16:into_sorted.order_independent_k_n");
    let mut i = 0;
    while i < N {
        assert!(s1.data()[i] == s2.data()[i], "C16:into_sorted.order_independent");
        i += 1;
    }
}

#[kani::proof]
#[kani::unwind(6)]
fn into_sorted_sorted_permutation_n2() { sorted_permutation_case::<2>() }
#[kani::proof]
#[kani::unwind(6)]
fn into_sorted_sorted_permutation_n3() { sorted_permutation_case::<3>() }
#[kani::proof]
#[kani::unwind(6)]
fn into_sorted_sorted_permutation_n4() { sorted_permutation_case::<4>() }
#[kani::proof]
#[kani::unwind(6)]
fn into_sorted_order_independent_n2() { order_independent_case::<2>() }
#[kani::proof]
#[kani::unwind(6)]
fn into_sorted_order_independent_n3() { order_independent_case::<3>() }
#[kani::proof]
#[kani::unwind(6)]
fn into_sorted_order_independent_n4() { order_independent_case::<4>() }
