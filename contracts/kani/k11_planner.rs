// No-panic / prefix-rule contracts for the planner's key lookup (src/plan.rs):
//   is_key_direct_child_of, Assets::has_ecdsa_key, Assets::has_taproot_internal_key.
//
// Oracle: the documentation of `Assets::keys` and of `is_key_direct_child_of`:
//   "A pair (fingerprint, derivation_path) is provided, meaning that the user can sign using the key with
//    `fingerprint`, derived with either `derivation_path` or a derivation path that extends `derivation_path`
//    by exactly one child number."
//   direct_child(pk_path, dp)  :=  pk_path == dp  ||  (len(pk_path) == len(dp) + 1  &&  pk_path[..len(dp)] == dp)
// and C11: no input (here: any key origin path / any asset path, including the empty ones) may panic.
//
// Keys: DescriptorPublicKey::Single with an origin (fingerprint, path); the x-only key is a dummy value wrapped
// without any FFI call (the lookup never touches the key material).  BOUNDED: paths of length <= 3, child
// numbers fully symbolic (normal / hardened, any u31 index).

use bitcoin::bip32::{ChildNumber, DerivationPath, Fingerprint};

#[allow(unsafe_code)]
fn dummy_xonly() -> XOnlyPublicKey {
    let raw = unsafe { bitcoin::secp256k1::ffi::XOnlyPublicKey::from_array_unchecked([3u8; 64]) };
    raw.into()
}

fn any_child() -> ChildNumber {
    let index: u32 = kani::any();
    kani::assume(index < (1 << 31));
    if kani::any() { ChildNumber::Hardened { index } } else { ChildNumber::Normal { index } }
}

/// a symbolic path of length n <= 3 (fixed-size allocations per length)
fn any_path(n: usize) -> (Vec<ChildNumber>, DerivationPath) {
    let (a, b, c) = (any_child(), any_child(), any_child());
    let v = match n {
        0 => vec![],
        1 => vec![a],
        2 => vec![a, b],
        _ => vec![a, b, c],
    };
    (v.clone(), DerivationPath::from(v))
}

fn key_with_origin(fp: Fingerprint, path: DerivationPath) -> DefiniteDescriptorKey {
    let k = DescriptorPublicKey::Single(descriptor::SinglePub {
        origin: Some((fp, path)),
        key: descriptor::SinglePubKey::XOnly(dummy_xonly()),
    });
    DefiniteDescriptorKey::new(k).unwrap()
}

/// the documented rule, on plain vectors
fn direct_child(pk: &[ChildNumber], dp: &[ChildNumber]) -> bool {
    let mut prefix = pk.len() >= dp.len();
    let mut i = 0;
    while i < 3 {
        if prefix && i < dp.len() && pk[i] != dp[i] { prefix = false; }
        i += 1;
    }
    prefix && (pk.len() == dp.len() || pk.len() == dp.len() + 1)
}

// The prefix rule on the domain where the implementation is defined (non-empty key path).
#[kani::proof]
#[kani::unwind(6)]
fn direct_child_rule() {
    let np: usize = kani::any();
    let nd: usize = kani::any();
    kani::assume(np >= 1 && np <= 3 && nd <= 3);
    let (pv, pp) = any_path(np);
    let (dv, dp) = any_path(nd);
    let pk = key_with_origin(Fingerprint::from([1, 2, 3, 4]), pp);
    let want = direct_child(&pv, &dv);
    kani::cover!(want && np == nd);
    kani::cover!(want && np == nd + 1);
    kani::cover!(!want && np == nd + 1);
    kani::cover!(!want && np == nd);
    kani::cover!(nd == 0 && np == 1);
    let r = is_key_direct_child_of(&pk, &dp);
    assert!(r == want, "C11:is_key_direct_child_of.prefix_rule");
}

// C11: every key path / asset path of length <= 3, INCLUDING the empty key path (a bare key or an xpub used
// without derivation: `wpkh(xpub)`).  Expected to FAIL today (F4): `definite_path_len - 1` underflows.
#[kani::proof]
#[kani::unwind(6)]
fn direct_child_no_panic() {
    let np: usize = kani::any();
    let nd: usize = kani::any();
    kani::assume(np <= 3 && nd <= 3);
    let (pv, pp) = any_path(np);
    let (dv, dp) = any_path(nd);
    let pk = key_with_origin(Fingerprint::from([1, 2, 3, 4]), pp);
    kani::cover!(np == 0 && nd == 0);
    kani::cover!(np == 0 && nd == 1);
    let r = is_key_direct_child_of(&pk, &dp);
    // reached only if the call returned: the panic itself is reported by Kani as the failed check
    // "attempt to subtract with overflow" (driver id k11_planner.direct_child_no_panic.auto)
    assert!(r == direct_child(&pv, &dv), "C11:is_key_direct_child_of.no_panic");
}

// Assets::has_ecdsa_key / has_taproot_internal_key with one key source: found iff fingerprint matches, the
// signing capability is there and the path is a direct child.  Non-empty key path (see above).
#[kani::proof]
#[kani::unwind(6)]
fn assets_lookup_rule() {
    let np: usize = kani::any();
    let nd: usize = kani::any();
    kani::assume(np >= 1 && np <= 2 && nd <= 2);
    let (pv, pp) = any_path(np);
    let (dv, dp) = any_path(nd);
    let fpk: [u8; 4] = kani::any();
    let fpa: [u8; 4] = kani::any();
    let pk = key_with_origin(Fingerprint::from(fpk), pp);
    let ecdsa: bool = kani::any();
    let key_spend: bool = kani::any();
    let sighash_default: bool = kani::any();
    let can = CanSign { ecdsa, taproot: TaprootCanSign { key_spend, script_spend: TaprootAvailableLeaves::Any, sighash_default } };
    let mut assets = Assets::new();
    assets.keys.insert(((Fingerprint::from(fpa), dp), can));
    let child = direct_child(&pv, &dv);
    kani::cover!(child && fpk == fpa && ecdsa);
    kani::cover!(child && fpk != fpa);
    let r1 = assets.has_ecdsa_key(&pk);
    assert!(r1 == (ecdsa && fpk == fpa && child), "C11:has_ecdsa_key.fingerprint_and_prefix_rule");
    let r2 = assets.has_taproot_internal_key(&pk);
    let want2 = if key_spend && fpk == fpa && child { Some(if sighash_default { 64 } else { 65 }) } else { None };
    assert!(r2 == want2, "C11:has_taproot_internal_key.fingerprint_and_prefix_rule");
}
