// C18 -- abstract-policy transformations, Kani side (injected into src/policy/semantic.rs).
//
// Part 1 (complete, numeric): the BIP68 / BIP65 rules that the Verus unit c18_semantic ASSUMES for its stubs of
// the bitcoin crate (`relative::LockTime::from(RelLockTime)`, `is_implied_by`, `absolute::LockTime::from(AbsLockTime)`,
// `is_block_height`) are checked here against the compiled dependency, over the full u32 domain.
//
// Part 2 (bounded truth-table harnesses over real policies): dropped, see the end of this file.

const BIP65_THRESHOLD: u32 = 500_000_000;
const BIP68_TYPE_FLAG: u32 = 1 << 22;

#[kani::proof]
fn lock_stub_rel() {
    let n: u32 = kani::any();
    let m: u32 = kani::any();
    let (t, a) = match (RelLockTime::from_consensus(n), RelLockTime::from_consensus(m)) {
        (Ok(t), Ok(a)) => (t, a),
        _ => return,
    };
    kani::cover!(n & BIP68_TYPE_FLAG != 0 && m & BIP68_TYPE_FLAG != 0);
    kani::cover!(n & BIP68_TYPE_FLAG == 0 && m & BIP68_TYPE_FLAG != 0);
    let n_time = n & BIP68_TYPE_FLAG != 0;
    let m_time = m & BIP68_TYPE_FLAG != 0;
    assert!(t.is_time_locked() == n_time && t.is_height_locked() == !n_time, "C18:lock_stub_rel.type_flag");
    let lt = relative::LockTime::from(t);
    let la = relative::LockTime::from(a);
    let unit_value_ok = match lt {
        relative::LockTime::Blocks(h) => !n_time && h.value() == (n & 0xffff) as u16,
        relative::LockTime::Time(x) => n_time && x.value() == (n & 0xffff) as u16,
    };
    assert!(unit_value_ok, "C18:lock_stub_rel.from_is_bip68");
    // BIP68: a lock is implied by an nSequence of the same unit whose 16-bit value is at least the lock's
    assert!(lt.is_implied_by(la) == (n_time == m_time && (n & 0xffff) <= (m & 0xffff)), "C18:lock_stub_rel.implied_by_is_bip68");
}

#[kani::proof]
fn lock_stub_abs() {
    let n: u32 = kani::any();
    let m: u32 = kani::any();
    let t = match AbsLockTime::from_consensus(n) {
        Ok(t) => t,
        Err(_) => return,
    };
    kani::cover!(n < BIP65_THRESHOLD && m < BIP65_THRESHOLD);
    kani::cover!(n >= BIP65_THRESHOLD && m < BIP65_THRESHOLD);
    let lt = absolute::LockTime::from(t);
    let la = absolute::LockTime::from_consensus(m);
    assert!(lt.is_block_height() == (n < BIP65_THRESHOLD) && lt.is_block_time() == (n >= BIP65_THRESHOLD), "C18:lock_stub_abs.from_is_bip65");
    assert!(lt.to_consensus_u32() == n, "C18:lock_stub_abs.value");
    // BIP65: satisfied by an nLockTime of the same unit that is at least the lock
    assert!(lt.is_implied_by(la) == ((n < BIP65_THRESHOLD) == (m < BIP65_THRESHOLD) && n <= m), "C18:lock_stub_abs.implied_by_is_bip65");
}

// ---------------------------------------------------------------------------------------------------------------
// Part 2 was attempted and DROPPED (see units/k18_policy.py for the measurements): bounded truth-table harnesses for
// normalized / sorted / entails / minimum_n_keys / Concrete::lift over real policy trees built with a one-byte key
// type `K(u8)`.  Even `Policy::Thresh(1, [Key, Trivial]).normalized()` on a fully CONCRETE policy (unwind 3, result
// leaked with mem::forget) did not finish in 320 s; a symbolic variant selector over leaves did not finish in 600 s.
// No `#[kani::proof]` is left here for them, so that no check can hang.
