// C14 / C11: `util::witness_to_scriptsig` -- turns the satisfaction of a legacy (bare / sh(ms)) input into its
// scriptSig inside `Descriptor::get_satisfaction`, i.e. inside PSBT finalization.  A finalization may fail with an
// error; it must never crash.
//
// Oracle: the largest element of a Miniscript satisfaction is an ECDSA signature push: BIP66 DER encoding is at most
// 72 bytes (0x30 len 0x02 0x21 <33-byte r> 0x02 0x21 <33-byte s>), plus the sighash byte = 73 bytes; consensus
// allows any push <= 520 bytes in a scriptSig.  So a 73-byte non-final element must be accepted.
//
// BOUNDED: 2-element witness (a 72- resp. 73-byte push, then a 5-byte redeem script); one harness per length.
fn case<const LEN: usize>() {
    let sig = vec![0x30u8; LEN];
    let witness = [sig, vec![0xacu8, 0xac, 0xac, 0xac, 0xac]];
    // must return (no assert! / expect inside may fire): Kani's automatic panic checks
    let s = witness_to_scriptsig(&witness);
    // push opcode + data for both elements: (1 + LEN) for LEN <= 75, then (1 + 5)
    assert!(s.len() == 1 + LEN + 6, "C14,C11:witness_to_scriptsig.pushes_all_elements");
}
#[kani::proof]
#[kani::unwind(76)]
fn witness_to_scriptsig_accepts_72_byte_push() { case::<72>() }
#[kani::proof]
#[kani::unwind(76)]
fn witness_to_scriptsig_accepts_73_byte_signature_push() { case::<73>() }
