// C12 -- top-level checks and descriptor constructors (appended to src/descriptor/mod.rs as a child module).
//
// BOUNDED: every harness works on one fixed tiny AST (`multi(1,K1,K2)` as root, or `c:pk_h(K)`) whose keys, root type
// and static-analysis data are symbolic.  Oracle (property C12): whatever a constructor / top-level check accepts
//   * is a complete boolean script: root base type B                                  (.accepted_is_b)
//   * has consistent multipath keys (BIP389)                                          (.multipath_consistent)
//   * is accepted by `Miniscript::validate` with the context's CONSENSUS parameters   (.accepted_obeys_consensus_params)
//
// Results are `mem::forget`-ed: the recursive drop glue of Miniscript / Error is not what is being checked and is costly in CBMC.
// Keys: one byte, bit 0 = uncompressed, bit 1 = x-only, bits 2.. = number of derivation paths (DESIGN 3.5).
use crate::miniscript::types::{Base, Correctness, Dissat, ExtData, Input, Malleability, Type};
use crate::miniscript::types::extra_props::{SatData, TimelockInfo};
use crate::miniscript::BareCtx;
use crate::{MiniscriptKey, ScriptContext, Threshold};

#[derive(Clone, Copy, PartialEq, Eq, PartialOrd, Ord, Hash, Debug)]
struct K(u8);
impl core::fmt::Display for K {
    fn fmt(&self, f: &mut core::fmt::Formatter) -> core::fmt::Result { f.write_str("K") }
}
impl MiniscriptKey for K {
    type Sha256 = bitcoin::hashes::sha256::Hash;
    type Hash256 = crate::hash256::Hash;
    type Ripemd160 = bitcoin::hashes::ripemd160::Hash;
    type Hash160 = bitcoin::hashes::hash160::Hash;
    fn is_uncompressed(&self) -> bool { self.0 & 1 != 0 }
    fn is_x_only_key(&self) -> bool { self.0 & 2 != 0 }
    fn num_der_paths(&self) -> usize { (self.0 >> 2) as usize }
}

fn any_base() -> Base {
    match kani::any::<u8>() & 3 { 0 => Base::B, 1 => Base::V, 2 => Base::K, _ => Base::W }
}
fn any_type() -> Type {
    let input = match kani::any::<u8>() % 5 { 0 => Input::Zero, 1 => Input::One, 2 => Input::Any, 3 => Input::OneNonZero, _ => Input::AnyNonZero };
    let dissat = match kani::any::<u8>() % 3 { 0 => Dissat::None, 1 => Dissat::Unique, _ => Dissat::Unknown };
    Type {
        corr: Correctness { base: any_base(), input, dissatisfiable: kani::any(), unit: kani::any() },
        mall: Malleability { dissat, signed: kani::any(), non_malleable: kani::any() },
    }
}
fn any_small() -> usize { (kani::any::<u16>() as usize) & 0x0fff }
fn any_sat() -> Option<SatData> {
    if kani::any() {
        Some(SatData {
            max_witness_stack_size: any_small(), max_witness_stack_count: any_small(), max_script_sig_size: any_small(),
            max_exec_stack_count: any_small(), max_exec_op_count: any_small(),
        })
    } else { None }
}
fn any_ext() -> ExtData {
    ExtData {
        pk_cost: any_small(), has_free_verify: kani::any(), static_ops: any_small(), sat_data: any_sat(), dissat_data: None,
        timelock_info: TimelockInfo { csv_with_height: kani::any(), csv_with_time: kani::any(), cltv_with_height: kani::any(), cltv_with_time: kani::any(), contains_combination: kani::any() },
        tree_height: 1,
    }
}
// root `multi(1,K1,K2)` with symbolic keys, symbolic root type and symbolic analysis data
fn multi_root<Ctx: ScriptContext>(k1: K, k2: K) -> Miniscript<K, Ctx> {
    let th = Threshold::<K, MAX_PUBKEYS_PER_MULTISIG>::new(1, vec![k1, k2]).unwrap();
    Miniscript::from_components_unchecked(Terminal::Multi(th), any_type(), any_ext())
}
fn mp_consistent(k1: K, k2: K) -> bool { !(k1.num_der_paths() >= 2 && k2.num_der_paths() >= 2) || k1.num_der_paths() == k2.num_der_paths() }

macro_rules! top_level_harness {
    ($name:ident, $ctx:ty) => {
        #[kani::proof]
        #[kani::unwind(4)]
        fn $name() {
            let (k1, k2) = (K(kani::any()), K(kani::any()));
            let ms = multi_root::<$ctx>(k1, k2);
            kani::cover!(true);
            let r = <$ctx>::top_level_checks(&ms);
            kani::cover!(r.is_ok());
            kani::cover!(r.is_err());
            if r.is_ok() {
                assert!(ms.ty.corr.base == Base::B, "C12:top_level_checks.accepted_is_b");
                assert!(mp_consistent(k1, k2), "C12:top_level_checks.multipath_consistent");
            } else {
                // this shape (a bare-standard 1-of-2 multisig) can only be refused for a type or multipath reason
                assert!(ms.ty.corr.base != Base::B || !mp_consistent(k1, k2), "C12:top_level_checks.rejects_only_for_cause");
            }
            core::mem::forget(r);
            core::mem::forget(ms);
        }
    };
}
top_level_harness!(top_level_checks_segwitv0, Segwitv0);
top_level_harness!(top_level_checks_legacy, Legacy);
top_level_harness!(top_level_checks_tap, Tap);
top_level_harness!(top_level_checks_bare, BareCtx);

// ---- descriptor constructors: which checks do they run? --------------------------------------------------------------
#[kani::proof]
#[kani::unwind(4)]
fn wsh_new_root_type() {
    let (k1, k2) = (K(kani::any()), K(kani::any()));
    let ms = multi_root::<Segwitv0>(k1, k2);
    let base = ms.ty.corr.base;
    kani::cover!(true);
    let r = Wsh::new(ms);
    kani::cover!(r.is_ok());
    assert!(r.is_err() || base == Base::B, "C12:wsh_new.accepted_is_b");
    assert!(r.is_err() || mp_consistent(k1, k2), "C12:wsh_new.multipath_consistent");
    core::mem::forget(r);
}
#[kani::proof]
#[kani::unwind(4)]
fn sh_new_root_type() {
    let (k1, k2) = (K(kani::any()), K(kani::any()));
    let ms = multi_root::<Legacy>(k1, k2);
    let base = ms.ty.corr.base;
    kani::cover!(true);
    let r = Sh::new(ms);
    kani::cover!(r.is_ok());
    assert!(r.is_err() || base == Base::B, "C12:sh_new.accepted_is_b");
    assert!(r.is_err() || mp_consistent(k1, k2), "C12:sh_new.multipath_consistent");
    core::mem::forget(r);
}
#[kani::proof]
#[kani::unwind(4)]
fn bare_new_root_type() {
    let (k1, k2) = (K(kani::any()), K(kani::any()));
    let ms = multi_root::<BareCtx>(k1, k2);
    let base = ms.ty.corr.base;
    kani::cover!(true);
    let r = Bare::new(ms);
    kani::cover!(r.is_ok());
    assert!(r.is_err() || base == Base::B, "C12:bare_new.accepted_is_b");
    assert!(r.is_err() || mp_consistent(k1, k2), "C12:bare_new.multipath_consistent");
    core::mem::forget(r);
}
// Tr::new checks the internal key only; a leaf is whatever TapTree::leaf was given
#[kani::proof]
#[kani::unwind(4)]
fn tr_new_internal_key() {
    let ik = K(kani::any());
    kani::cover!(true);
    let r = Tr::new(ik, None);
    assert!(r.is_ok() == !ik.is_uncompressed(), "C12:tr_new.internal_key_kind");
    core::mem::forget(r);
}
// (internal key fixed to a compressed key: the error path would run the recursive drop glue of the tree, which CBMC cannot afford)
#[kani::proof]
#[kani::unwind(4)]
fn tr_new_leaf_type() {
    let (k1, k2) = (K(kani::any()), K(kani::any()));
    let th = Threshold::<K, { crate::miniscript::limits::MAX_PUBKEYS_IN_CHECKSIGADD }>::new(1, vec![k1, k2]).unwrap();
    let ms: Miniscript<K, Tap> = Miniscript::from_components_unchecked(Terminal::MultiA(th), any_type(), any_ext());
    let base = ms.ty.corr.base;
    kani::cover!(true);
    let r = Tr::new(K(0), Some(TapTree::leaf(ms)));
    kani::cover!(r.is_ok());
    assert!(r.is_err() || base == Base::B, "C12:tr_new.leaf_is_b");
    core::mem::forget(r);
}

// NOTE: "accepted by the constructor ==> accepted by `validate` with the context's CONSENSUS parameters" is NOT checked here: a harness over
// the two-node AST c:pk_h(K) (real node types, check_global_validity, Wsh::new) ran > 20 min / out of memory in CBMC.  The node-level form of
// that implication is proved / refuted in the Verus unit c12_validation (law_<Ctx>_*_match_params, <Ctx>::check_global_consensus_validity.key_kinds_pk_h).
