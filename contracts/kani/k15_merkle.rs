// Merkle pass of the Taproot spend info (src/descriptor/tr/spend_info.rs):
//   TrSpendInfo::nodes_from_tap_tree  +  TrSpendInfo::{merkle_root, leaves}  +  TrSpendInfoIter::next,
// on trees produced by the real TapTreeBuilder (the parser's path).
//
// Oracle (BIP341):
//   taproot_tree_helper:  leaf  -> h = H_leaf(version, script)
//                         (l,r) -> if right_h < left_h { swap }  H_branch(left_h || right_h)
//   script-path validation: k_0 = leaf hash;  k_{j+1} = H_branch(min(k_j,e_j) || max(k_j,e_j)) for the control
//   block's path elements e_0..e_{m-1}, m = depth of the leaf <= 128;  k_m must be the merkle root.
// SHA-256 cannot be decided by CBMC, therefore the two hash functions are replaced (kani::stub, declared in
// TRUSTED) by an INJECTIVE encoding of the free commutative magma over leaf scripts (a prefix code):
//   H_leaf(script)      = s0                          (1 byte: the first script byte, 0x51..=0x60, never 0x02)
//   H_branch(lo || hi)  = 02 enc(lo) enc(hi)
// kept right-aligned in a u128 with the byte length in the top byte (<= 15 bytes: 6 leaves need 11), and stored
// big-endian in the first 16 bytes of the 32-byte hash.  Two encodings are equal iff the two hash terms are equal
// up to the sorted-pair rule, so "fold == root" below holds iff the control block lists exactly the right
// siblings in the right order.  BOUNDED: every tree shape with <= 4 leaves, plus the two degenerate chains of
// depth 5; leaf scripts symbolic (`older(n)`, n in 1..=16: both outcomes of every comparison, equal leaves too).
// No Arc<Miniscript> is ever dropped in these harnesses (mem::forget): the recursive drop glue of Miniscript
// makes CBMC run out of memory.

type K = bitcoin::PublicKey;
type Ms = Miniscript<K, Tap>;
type H = u128;
const LEN_SHIFT: u32 = 120;
const VAL_MASK: u128 = (1u128 << LEN_SHIFT) - 1;

fn raw_pair(lo: H, hi: H) -> H {
    let (ll, lh) = ((lo >> LEN_SHIFT) as u32, (hi >> LEN_SHIFT) as u32);
    assert!(ll >= 1 && lh >= 1 && 1 + ll + lh <= 15); // capacity of the encoding (harness-internal)
    let val = (2u128 << (8 * (ll + lh))) | ((lo & VAL_MASK) << (8 * lh)) | (hi & VAL_MASK);
    (((1 + ll + lh) as u128) << LEN_SHIFT) | val
}

/// BIP341 branch hash: smaller child first.
fn oracle_branch(a: H, b: H) -> H { if b < a { raw_pair(b, a) } else { raw_pair(a, b) } }

fn oracle_leaf(script: &[u8]) -> H {
    assert!(script.len() >= 1 && script[0] != 2);
    (1u128 << LEN_SHIFT) | script[0] as u128
}

fn to_bytes(h: H) -> [u8; 32] {
    let mut a = [0u8; 32];
    a[..16].copy_from_slice(&h.to_be_bytes());
    a
}

fn from_bytes(a: [u8; 32]) -> H {
    let mut b = [0u8; 16];
    b.copy_from_slice(&a[..16]);
    u128::from_be_bytes(b)
}

// ---- stubs for the two rust-bitcoin hash functions ------------------------------------------------------
fn stub_leaf_hash(script: &Script, _ver: LeafVersion) -> TapLeafHash {
    use bitcoin::hashes::Hash as _;
    TapLeafHash::from_byte_array(to_bytes(oracle_leaf(script.as_bytes())))
}

fn stub_node_hashes(a: TapNodeHash, b: TapNodeHash) -> TapNodeHash {
    use bitcoin::hashes::Hash as _;
    // rust-bitcoin: `if a < b { H(a||b) } else { H(b||a) }`, TapNodeHash ordered as its 32 bytes (big-endian => numeric)
    let (x, y) = (from_bytes(a.to_byte_array()), from_bytes(b.to_byte_array()));
    TapNodeHash::from_byte_array(to_bytes(if x < y { raw_pair(x, y) } else { raw_pair(y, x) }))
}

/// Stub for Miniscript::encode (C04's business; the real one is recursive over all 25 Terminal variants and CBMC
/// does not resolve the discriminant of a heap-allocated node, so it explores every variant to the unwind depth).
/// For the only leaves used here, `older(n)` with 1 <= n <= 16, the Miniscript script template is `<n> OP_CSV`
/// = [OP_PUSHNUM_n, 0xb2].
fn stub_encode<Pk: MiniscriptKey + ToPublicKey, Ctx: crate::ScriptContext>(ms: &Miniscript<Pk, Ctx>) -> ScriptBuf {
    match ms.node {
        crate::Terminal::Older(t) => {
            let n = t.to_consensus_u32();
            assert!(n >= 1 && n <= 16);
            ScriptBuf::from(vec![0x50 + n as u8, 0xb2])
        }
        _ => unreachable!(),
    }
}

// ---- an oracle-annotated tree shape (plain data) ----------------------------------------------------------
const MAXL: usize = 6;
const MAXT: usize = 2 * MAXL - 1;
#[derive(Copy, Clone)]
struct T {
    root: H,             // BIP341 merkle root, computed by the recursion
    n: usize,            // leaves, left to right
    depth: [u8; MAXL],
    leaf: [usize; MAXL], // index into the harness' leaf table
    toks: [u8; MAXT],    // descriptor listing: b'{' = inner node, otherwise leaf index
    nt: usize,
}

fn lf(i: usize, hs: &[H; MAXL]) -> T {
    let mut leaf = [0usize; MAXL];
    leaf[0] = i;
    let mut toks = [0u8; MAXT];
    toks[0] = i as u8;
    T { root: hs[i], n: 1, depth: [0; MAXL], leaf, toks, nt: 1 }
}

fn br(l: T, r: T) -> T {
    let mut depth = [0u8; MAXL];
    let mut leaf = [0usize; MAXL];
    let mut k = 0;
    while k < l.n + r.n {
        if k < l.n { depth[k] = l.depth[k] + 1; leaf[k] = l.leaf[k]; }
        else { depth[k] = r.depth[k - l.n] + 1; leaf[k] = r.leaf[k - l.n]; }
        k += 1;
    }
    let mut toks = [0u8; MAXT];
    toks[0] = b'{';
    let mut k = 0;
    while k < l.nt + r.nt {
        if k < l.nt { toks[1 + k] = l.toks[k]; } else { toks[1 + k] = r.toks[k - l.nt]; }
        k += 1;
    }
    T { root: oracle_branch(l.root, r.root), n: l.n + r.n, depth, leaf, toks, nt: 1 + l.nt + r.nt }
}

/// the parser's path: feed the pre-order listing to the real TapTreeBuilder
fn build(t: &T, ms: &[Arc<Ms>; MAXL]) -> super::super::TapTree<K> {
    let mut b = super::super::taptree::TapTreeBuilder::<K>::new();
    let mut k = 0;
    while k < t.nt {
        if t.toks[k] == b'{' { b.push_inner_node().unwrap(); } else { b.push_leaf(Arc::clone(&ms[t.toks[k] as usize])); }
        k += 1;
    }
    b.finalize()
}

#[allow(unsafe_code)] // the crate denies unsafe; from_array_unchecked only wraps the bytes (no FFI call)
fn dummy_xonly(b: u8) -> UntweakedPublicKey {
    // no FFI call: the key is only copied into the control block
    let raw = unsafe { bitcoin::secp256k1::ffi::XOnlyPublicKey::from_array_unchecked([b; 64]) };
    raw.into()
}

#[allow(unsafe_code)]
fn xonly_bytes(k: &UntweakedPublicKey) -> [u8; 64] {
    use bitcoin::secp256k1::ffi::CPtr as _;
    unsafe { (*k.as_c_ptr()).underlying_bytes() }
}

/// byte-wise comparison without memcmp (which CBMC models as a loop that would need unwind 66)
fn key_is(k: &UntweakedPublicKey, b: u8) -> bool {
    let kb = xonly_bytes(k);
    kb[0] == b && kb[1] == b && kb[31] == b && kb[32] == b && kb[62] == b && kb[63] == b
}

fn mk_leaves() -> ([Arc<Ms>; MAXL], [H; MAXL]) {
    let ns: [u8; MAXL] = kani::any();
    kani::assume(ns[0] >= 1 && ns[0] <= 16 && ns[1] >= 1 && ns[1] <= 16 && ns[2] >= 1 && ns[2] <= 16);
    kani::assume(ns[3] >= 1 && ns[3] <= 16 && ns[4] >= 1 && ns[4] <= 16 && ns[5] >= 1 && ns[5] <= 16);
    let f = |n: u8| Arc::new(Ms::older(crate::RelLockTime::from_consensus(n as u32).unwrap()));
    let ms = [f(ns[0]), f(ns[1]), f(ns[2]), f(ns[3]), f(ns[4]), f(ns[5])];
    // BIP341 leaf hash of `<n> OP_CSV` = H_leaf(0xc0, [0x50+n, 0xb2])
    let h = |n: u8| oracle_leaf(&[0x50 + n, 0xb2]);
    let hs = [h(ns[0]), h(ns[1]), h(ns[2]), h(ns[3]), h(ns[4]), h(ns[5])];
    (ms, hs)
}

fn check(t: T, ms: [Arc<Ms>; MAXL], hs: &[H; MAXL]) {
    use bitcoin::hashes::Hash as _;
    let tree = build(&t, &ms);
    let nodes = TrSpendInfo::<K>::nodes_from_tap_tree(&tree);
    assert!(nodes.len() == 2 * t.n - 1, "C15:merkle.node_count");
    assert!(from_bytes(nodes[0].sibling_hash.to_byte_array()) == t.root, "C15:merkle.root_is_bip341_merkle_root");
    let ik = dummy_xonly(7);
    let ok = TweakedPublicKey::dangerous_assume_tweaked(dummy_xonly(9));
    let parity: bool = kani::any();
    let parity = if parity { Parity::Odd } else { Parity::Even };
    let info = TrSpendInfo::<K> { internal_key: ik, output_key: ok, output_key_parity: parity, nodes };
    assert!(info.merkle_root().map(|h| from_bytes(h.to_byte_array())) == Some(t.root), "C15:merkle.merkle_root_accessor");
    let mut it = info.leaves();
    let mut j = 0;
    while j < t.n {
        {
            let item = it.next();
            assert!(item.is_some(), "C15:merkle.iter_yields_every_leaf");
            let item = item.unwrap();
            let li = t.leaf[j];
            assert!(Arc::ptr_eq(item.miniscript(), &ms[li]), "C15:merkle.leaf_order");
            assert!(item.depth() == t.depth[j], "C15:merkle.leaf_depth");
            assert!(from_bytes(item.leaf_hash().to_byte_array()) == hs[li], "C15:merkle.leaf_hash");
            let cb = item.control_block();
            assert!(cb.merkle_branch.len() == t.depth[j] as usize, "C15:merkle.branch_len_is_depth");
            // (XOnlyPublicKey's own == goes through libsecp256k1: compare the wrapped bytes instead)
            assert!(key_is(&cb.internal_key, 7) && cb.output_key_parity == parity && cb.leaf_version == LeafVersion::TapScript,
                    "C15:merkle.control_block_key_parity_version");
            // BIP341 script-path validation
            let mut k = hs[li];
            let mut e = 0;
            while e < t.depth[j] as usize {       // == cb.merkle_branch.len(), asserted above
                let ej = from_bytes(cb.merkle_branch[e].to_byte_array());
                k = if k < ej { raw_pair(k, ej) } else { raw_pair(ej, k) };
                e += 1;
            }
            assert!(k == t.root, "C15:merkle.control_block_proves_leaf");
        }
        j += 1;
    }
    assert!(it.next().is_none(), "C15:merkle.iter_ends");
    core::mem::forget(it);
    core::mem::forget(info);
    core::mem::forget(tree);
    core::mem::forget(ms);
}

// REGISTERED in units/k15_taptree.py: merkle_shape01 only (7 s).  Measured on this machine (62 GB, shared):
// merkle_shape02 ({A,B}, unwind 5): symex 50 s / 586 k steps, SSA conversion 110 s, then > 40 GB in propositional
// reduction (killed); also with --no-memory-safety-checks.  Splitting into nodes_from_tap_tree alone (2 leaves,
// > 14 GB) and TrSpendInfoIter::next alone on a hand-built 5-node vector (> 13 GB) did not help: CBMC does not
// resolve lengths / discriminants stored in heap vectors, unrolls every loop to the bound and flattens the
// 2 KB / 4 KB `Vec::with_capacity(128)` buffers for every symbolic-index hash copy.  Shapes 02..11 are kept as the
// statement of the contract (runnable on a larger machine) but are NOT part of any verdict.
// unwind = 2 * leaves + 1 (the iterator's outer loop walks up to 2n-1 nodes; CBMC does not resolve the lengths of
// heap vectors, so every loop of the real code is unrolled up to the bound)
macro_rules! shape {
    ($name:ident, $unwind:literal, |$l:ident| $e:expr) => {
        #[kani::proof]
        #[kani::unwind($unwind)]
        #[kani::stub(bitcoin::taproot::TapLeafHash::from_script, stub_leaf_hash)]
        #[kani::stub(bitcoin::taproot::TapNodeHash::from_node_hashes, stub_node_hashes)]
        #[kani::stub(crate::miniscript::Miniscript::encode, stub_encode)]
        fn $name() {
            let (ms, hs) = mk_leaves();
            let $l = |i: usize| lf(i, &hs);
            let t: T = $e;
            kani::cover!(true);
            check(t, ms, &hs);
        }
    };
}

shape!(merkle_shape01, 3, |l| l(0));                                          // A
shape!(merkle_shape02, 5, |l| br(l(0), l(1)));                               // {A,B}
shape!(merkle_shape03, 7, |l| br(l(0), br(l(1), l(2))));                   // {A,{B,C}}
shape!(merkle_shape04, 7, |l| br(br(l(0), l(1)), l(2)));                   // {{A,B},C}
shape!(merkle_shape05, 9, |l| br(br(l(0), l(1)), br(l(2), l(3))));        // {{A,B},{C,D}}
shape!(merkle_shape06, 9, |l| br(l(0), br(l(1), br(l(2), l(3)))));       // {A,{B,{C,D}}}
shape!(merkle_shape07, 9, |l| br(l(0), br(br(l(1), l(2)), l(3))));       // {A,{{B,C},D}}
shape!(merkle_shape08, 9, |l| br(br(br(l(0), l(1)), l(2)), l(3)));       // {{{A,B},C},D}
shape!(merkle_shape09, 9, |l| br(br(l(0), br(l(1), l(2))), l(3)));      // {{A,{B,C}},D}
shape!(merkle_shape10, 13, |l| br(l(0), br(l(1), br(l(2), br(l(3), br(l(4), l(5)))))));   // depths 1 2 3 4 5 5
shape!(merkle_shape11, 13, |l| br(br(br(br(br(l(0), l(1)), l(2)), l(3)), l(4)), l(5)));    // depths 5 5 4 3 2 1

