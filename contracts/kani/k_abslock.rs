// Contracts for AbsLockTime (oracle: BIP65 -- values < 500_000_000 are heights, >= are times;
// Miniscript `after(n)` requires 1 <= n < 2^31).  Complete: loop-free, full u32 domain.
const THRESHOLD: u32 = 500_000_000;

#[kani::proof]
fn abs_from_consensus() {
    let n: u32 = kani::any();
    let r = AbsLockTime::from_consensus(n);
    assert!(r.is_ok() == (n >= 1 && n <= 0x7FFF_FFFF), "C12:abs_from_consensus.range");
    if let Ok(t) = r {
        assert!(t.to_consensus_u32() == n, "C12:abs_from_consensus.value");
        assert!(t.is_block_height() == (n < THRESHOLD), "C12:abs_from_consensus.height_unit");
        assert!(t.is_block_time() == (n >= THRESHOLD), "C12:abs_from_consensus.time_unit");
    }
}

#[kani::proof]
fn abs_max() {
    let a: u32 = kani::any();
    let b: u32 = kani::any();
    kani::assume(a >= 1 && a <= 0x7FFF_FFFF && b >= 1 && b <= 0x7FFF_FFFF);
    let ta = AbsLockTime::from_consensus(a).unwrap();
    let tb = AbsLockTime::from_consensus(b).unwrap();
    kani::cover!(true);
    let r = AbsLockTime::max(ta, tb);
    let same_unit = (a < THRESHOLD) == (b < THRESHOLD);
    assert!(r.is_some() == same_unit, "C02,C17:abs_max.none_iff_units_differ");
    if let Some(t) = r {
        assert!(t.to_consensus_u32() == if a >= b { a } else { b }, "C02,C17:abs_max.is_larger");
    }
    let c = ta.cmp_by_consensus(tb);
    assert!((c == core::cmp::Ordering::Less) == (a < b) && (c == core::cmp::Ordering::Equal) == (a == b), "C19:abs_cmp_by_consensus.total");
}
