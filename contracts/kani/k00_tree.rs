// Bounded check of the traversal contract of src/iter/tree.rs (twin of the Verus unit c00_tree):
// the four REAL iterators are run to exhaustion on every ordered tree shape with at most MAXN nodes and
// compared, item by item and field by field, with recursive oracle traversals written here.
//
// `nary[i]` makes node i announce itself as Tree::Nary whatever its arity (arity >= 4 is always Nary), so that all
// five `Tree` kinds and the n-ary accessors (`nary_len`, `nary_index`, Rtl's mirrored index) are exercised for
// arities 0..4.

const MAXN: usize = 5;
const MAXV: usize = 2 * MAXN - 1; // verbose pre-order yields n + (n - 1) items

// Tree encoding (harness-local): nodes numbered in LEVEL ORDER, node 0 is the root, the children of node i are the
// consecutive nodes fc[i] .. fc[i] + ar[i]  (fc[i] = 1 + ar[0] + .. + ar[i-1]).  Every ordered tree has exactly one
// level-order numbering, so the arity sequences `ar` with  sum = n - 1  and  fc[i] > i  (a node is numbered before
// its children) are in bijection with the ordered tree shapes with n nodes (Catalan(n-1): 1, 1, 2, 5, 14).
// Everything is loop-free and pointer-free: a node handle is a plain VALUE (CBMC case-splits every pointer loaded
// from the iterators' heap-allocated stacks, and cannot constant-fold loops over data read back from them).
#[derive(Clone, Copy)]
struct Shape {
    n: usize,
    ar: [usize; MAXN],
    fc: [usize; MAXN],
    nary: [bool; MAXN],
}

// the shape under test lives in a global; a node handle is ONE BYTE (the node number), so the iterators' stacks are
// byte vectors
static mut SHAPE: Shape = Shape { n: 1, ar: [0; MAXN], fc: [1; MAXN], nary: [false; MAXN] };
#[allow(unsafe_code)]
fn sh() -> Shape { unsafe { SHAPE } }

#[derive(Clone, Copy)]
struct Nd(u8);

impl Nd {
    fn i(&self) -> usize { self.0 as usize }
    fn n_kids(&self) -> usize { sh().ar[self.i()] }
    fn kid(&self, idx: usize) -> Nd {
        assert!(idx < sh().ar[self.i()], "C11:treelike.child_index_in_range");
        Nd((sh().fc[self.i()] + idx) as u8)
    }
}

impl TreeLike for Nd {
    type NaryChildren = Nd;
    fn nary_len(tc: &Nd) -> usize { tc.n_kids() }
    fn nary_index(tc: Nd, idx: usize) -> Self { tc.kid(idx) }
    fn as_node(&self) -> Tree<Self, Nd> {
        let k = self.n_kids();
        if sh().nary[self.i()] || k > 3 {
            Tree::Nary(*self)
        } else if k == 0 {
            Tree::Nullary
        } else if k == 1 {
            Tree::Unary(self.kid(0))
        } else if k == 2 {
            Tree::Binary(self.kid(0), self.kid(1))
        } else {
            Tree::Ternary(self.kid(0), self.kid(1), self.kid(2))
        }
    }
}

// any ordered tree shape with 1 <= n <= max_n nodes, any choice of Nary announcements
#[allow(unsafe_code)]
fn any_shape(max_n: usize) -> Shape {
    let n: usize = kani::any();
    kani::assume(n >= 1 && n <= max_n);
    let mut ar = [0usize; MAXN];
    let mut fc = [0usize; MAXN];
    let mut nary = [false; MAXN];
    let mut next = 1; // number of the next child to hand out
    let mut i = 0;
    while i < MAXN {
        if i < n {
            kani::assume(next > i); // node i has been handed out as somebody's child (or is the root)
            let a: usize = kani::any();
            kani::assume(a <= n - next);
            ar[i] = a;
            fc[i] = next;
            next += a;
            nary[i] = kani::any();
        }
        i += 1;
    }
    kani::assume(next == n);
    let s = Shape { n, ar, fc, nary };
    unsafe { SHAPE = s; }
    s
}

// ---- oracles: textbook recursive traversals over the parent array ------------------------------------
struct Order {
    seq: [usize; MAXN], // seq[k] = node yielded k-th
    pos: [usize; MAXN], // pos[node] = k
    len: usize,
}

fn oracle_pre(s: &Shape, i: usize, o: &mut Order) {
    o.seq[o.len] = i;
    o.pos[i] = o.len;
    o.len += 1;
    let mut j = 0;
    while j < s.ar[i] {
        oracle_pre(s, s.fc[i] + j, o);
        j += 1;
    }
}

// left-to-right post-order: children in increasing order, then the node
fn oracle_post(s: &Shape, i: usize, o: &mut Order) {
    let mut j = 0;
    while j < s.ar[i] {
        oracle_post(s, s.fc[i] + j, o);
        j += 1;
    }
    o.seq[o.len] = i;
    o.pos[i] = o.len;
    o.len += 1;
}

// right-to-left post-order (post-order of the mirrored tree): children in DEcreasing order, then the node
fn oracle_rtl_post(s: &Shape, i: usize, o: &mut Order) {
    let mut j = s.ar[i];
    while j > 0 {
        j -= 1;
        oracle_rtl_post(s, s.fc[i] + j, o);
    }
    o.seq[o.len] = i;
    o.pos[i] = o.len;
    o.len += 1;
}

#[derive(Clone, Copy)]
struct V {
    node: usize,
    parent: usize, // MAXN = none
    index: usize,
    k: usize,
    complete: bool,
}

struct VOrder {
    seq: [V; MAXV],
    len: usize,
    fresh: usize,
}

// verbose pre-order: node, then for every child: the child's whole sequence followed by the node again
fn oracle_verbose(s: &Shape, i: usize, parent: usize, o: &mut VOrder) {
    let idx = o.fresh;
    o.fresh += 1;
    let n = s.ar[i];
    o.seq[o.len] = V { node: i, parent, index: idx, k: 0, complete: n == 0 };
    o.len += 1;
    let mut k = 0;
    while k < n {
        oracle_verbose(s, s.fc[i] + k, i, o);
        k += 1;
        o.seq[o.len] = V { node: i, parent, index: idx, k, complete: k == n };
        o.len += 1;
    }
}

fn new_order() -> Order { Order { seq: [MAXN; MAXN], pos: [MAXN; MAXN], len: 0 } }

// ---- checks ------------------------------------------------------------------------------------------
fn check_pre(s: Shape) {
    let mut o = new_order();
    oracle_pre(&s, 0, &mut o);
    assert!(o.len == s.n, "C01,C02,C03,C04,C07,C09,C17,C19,C20:oracle.visits_all");
    let mut it = Nd(0).pre_order_iter();
    let mut k = 0;
    while k < s.n + 1 {
        match it.next() {
            None => break,
            Some(nd) => {
                assert!(k < o.len, "C01,C02,C03,C04,C07,C09,C17,C19,C20:pre.no_extra_item");
                assert!(nd.i() == o.seq[k], "C01,C02,C03,C04,C07,C09,C17,C19,C20:pre.order");
            }
        }
        k += 1;
    }
    assert!(k == o.len, "C01,C02,C03,C04,C07,C09,C17,C19,C20:pre.yields_every_node_once");
}

// the child_indices of the item of node `i` must be the yield positions of its children, in SOURCE order
fn check_child_indices(s: &Shape, i: usize, o: &Order, ci: &[usize]) -> bool {
    if ci.len() != s.ar[i] {
        return false;
    }
    let mut k = 0;
    while k < s.ar[i] {
        if ci[k] != o.pos[s.fc[i] + k] {
            return false;
        }
        k += 1;
    }
    true
}

fn check_post(s: Shape, rtl: bool) {
    let mut o = new_order();
    if rtl {
        oracle_rtl_post(&s, 0, &mut o);
    } else {
        oracle_post(&s, 0, &mut o);
    }
    assert!(o.len == s.n, "C01,C02,C03,C04,C07,C09,C17,C19,C20:oracle.visits_all");
    let root = Nd(0);
    let mut k = 0;
    if rtl {
        let mut it = root.rtl_post_order_iter();
        while k < s.n + 1 {
            match it.next() {
                None => break,
                Some(item) => {
                    assert!(k < o.len, "C01,C02,C03,C04,C07,C09,C17,C19,C20:rtl.no_extra_item");
                    assert!(item.node.i() == o.seq[k], "C01,C02,C03,C04,C07,C09,C17,C19,C20:rtl.order");
                    assert!(item.index == k, "C01,C02,C03,C04,C07,C09,C17,C19,C20:rtl.index_counts_yields");
                    assert!(check_child_indices(&s, item.node.i(), &o, &item.child_indices), "C01,C02,C03,C04,C07,C09,C17,C19,C20:rtl.child_indices");
                }
            }
            k += 1;
        }
        assert!(k == o.len, "C01,C02,C03,C04,C07,C09,C17,C19,C20:rtl.yields_every_node_once");
    } else {
        let mut it = root.post_order_iter();
        while k < s.n + 1 {
            match it.next() {
                None => break,
                Some(item) => {
                    assert!(k < o.len, "C01,C02,C03,C04,C07,C09,C17,C19,C20:post.no_extra_item");
                    assert!(item.node.i() == o.seq[k], "C01,C02,C03,C04,C07,C09,C17,C19,C20:post.order");
                    assert!(item.index == k, "C01,C02,C03,C04,C07,C09,C17,C19,C20:post.index_counts_yields");
                    assert!(check_child_indices(&s, item.node.i(), &o, &item.child_indices), "C01,C02,C03,C04,C07,C09,C17,C19,C20:post.child_indices");
                }
            }
            k += 1;
        }
        assert!(k == o.len, "C01,C02,C03,C04,C07,C09,C17,C19,C20:post.yields_every_node_once");
    }
}

fn check_verbose(s: Shape) {
    let blank = V { node: MAXN, parent: MAXN, index: 0, k: 0, complete: false };
    let mut o = VOrder { seq: [blank; MAXV], len: 0, fresh: 0 };
    oracle_verbose(&s, 0, MAXN, &mut o);
    assert!(o.len == 2 * s.n - 1, "C01,C02,C03,C04,C07,C09,C17,C19,C20:oracle.visits_all");
    let mut it = Nd(0).verbose_pre_order_iter();
    let mut k = 0;
    while k < 2 * s.n {
        match it.next() {
            None => break,
            Some(item) => {
                assert!(k < o.len, "C01,C02,C03,C04,C07,C09,C17,C19,C20:verbose.no_extra_item");
                let e = o.seq[k];
                assert!(item.node.i() == e.node, "C01,C02,C03,C04,C07,C09,C17,C19,C20:verbose.order");
                let p = match item.parent {
                    None => MAXN,
                    Some(p) => p.i(),
                };
                assert!(p == e.parent, "C01,C02,C03,C04,C07,C09,C17,C19,C20:verbose.parent");
                assert!(item.index == e.index, "C01,C02,C03,C04,C07,C09,C17,C19,C20:verbose.index_of_first_yield");
                assert!(item.n_children_yielded == e.k, "C01,C02,C03,C04,C07,C09,C17,C19,C20:verbose.n_children_yielded");
                assert!(item.is_complete == e.complete, "C01,C02,C03,C04,C07,C09,C17,C19,C20:verbose.is_complete");
            }
        }
        k += 1;
    }
    assert!(k == o.len, "C01,C02,C03,C04,C07,C09,C17,C19,C20:verbose.yields_n_plus_1_times");
}

// provided accessors agree with the tree (all five Tree kinds), including the mirrored adaptor
fn check_accessors(max_n: usize) {
    let s = any_shape(max_n);
    kani::cover!(s.n == max_n);
    let i: usize = kani::any();
    kani::assume(i < s.n);
    let nd = Nd(i as u8);
    let n = nd.n_kids();
    assert!(nd.n_children() == n, "C01,C02,C03,C04,C07,C09,C17,C19,C20:n_children.counts_children");
    assert!(Rtl(nd).n_children() == n, "C01,C02,C03,C04,C07,C09,C17,C19,C20:rtl.n_children");
    let j: usize = kani::any();
    kani::assume(j <= MAXN);
    match nd.nth_child(j) {
        None => assert!(j >= n, "C01,C02,C03,C04,C07,C09,C17,C19,C20:nth_child.some_iff_in_range"),
        Some(c) => {
            assert!(j < n, "C01,C02,C03,C04,C07,C09,C17,C19,C20:nth_child.some_iff_in_range");
            assert!(c.i() == nd.kid(j).i(), "C01,C02,C03,C04,C07,C09,C17,C19,C20:nth_child.is_nth");
        }
    }
    match Rtl(nd).nth_child(j) {
        None => assert!(j >= n, "C01,C02,C03,C04,C07,C09,C17,C19,C20:rtl.nth_child_some_iff_in_range"),
        Some(c) => {
            assert!(j < n, "C01,C02,C03,C04,C07,C09,C17,C19,C20:rtl.nth_child_some_iff_in_range");
            assert!(c.0.i() == nd.kid(n - 1 - j).i(), "C01,C02,C03,C04,C07,C09,C17,C19,C20:rtl.nth_child_is_mirrored");
        }
    }
}

// ---- all ordered tree shapes with n nodes, as level-order arity sequences (Catalan(n-1) of them) ------------
// CONCRETE tables: with a symbolic shape every `push` of the real iterators may or may not reallocate and CBMC
// does not finish even for 3 nodes; with concrete shapes CBMC constant-folds the Vec bookkeeping.
const SHAPES1: [[usize; MAXN]; 1] = [[0, 0, 0, 0, 0]];
const SHAPES2: [[usize; MAXN]; 1] = [[1, 0, 0, 0, 0]];
const SHAPES3: [[usize; MAXN]; 2] = [[1, 1, 0, 0, 0], [2, 0, 0, 0, 0]];
const SHAPES4: [[usize; MAXN]; 5] = [[1, 1, 1, 0, 0], [1, 2, 0, 0, 0], [2, 0, 1, 0, 0], [2, 1, 0, 0, 0], [3, 0, 0, 0, 0]];
const SHAPES5: [[usize; MAXN]; 14] = [
    [1, 1, 1, 1, 0], [1, 1, 2, 0, 0], [1, 2, 0, 1, 0], [1, 2, 1, 0, 0], [1, 3, 0, 0, 0], [2, 0, 1, 1, 0], [2, 0, 2, 0, 0],
    [2, 1, 0, 1, 0], [2, 1, 1, 0, 0], [2, 2, 0, 0, 0], [3, 0, 0, 1, 0], [3, 0, 1, 0, 0], [3, 1, 0, 0, 0], [4, 0, 0, 0, 0],
];

// the tables are complete: every symbolic shape (any_shape = the definition of "ordered tree with n nodes") is in them
fn in_table(s: &Shape) -> bool {
    let mut found = false;
    let mut k = 0;
    while k < 14 {
        let row: [usize; MAXN] = if s.n == 5 { SHAPES5[k] } else if s.n == 4 { SHAPES4[k % 5] } else if s.n == 3 { SHAPES3[k % 2] } else if s.n == 2 { SHAPES2[0] } else { SHAPES1[0] };
        if row[0] == s.ar[0] && row[1] == s.ar[1] && row[2] == s.ar[2] && row[3] == s.ar[3] && row[4] == s.ar[4] {
            found = true;
        }
        k += 1;
    }
    found
}

#[kani::proof]
#[kani::unwind(16)]
fn shape_tables_complete() {
    let s = any_shape(MAXN);
    kani::cover!(s.n == 5 && s.ar[0] == 2);
    assert!(in_table(&s), "C01,C02,C03,C04,C07,C09,C17,C19,C20:shapes.table_complete");
}

#[allow(unsafe_code)]
fn install(n: usize, ar: [usize; MAXN], all_nary: bool) -> Shape {
    // (loop-free on purpose: the harness unwind bound is sized for the iterators, not for this table)
    let fc = [1, 1 + ar[0], 1 + ar[0] + ar[1], 1 + ar[0] + ar[1] + ar[2], 1 + ar[0] + ar[1] + ar[2] + ar[3]];
    let s = Shape { n, ar, fc, nary: [all_nary; MAXN] };
    unsafe { SHAPE = s; }
    s
}

// run `$body` on every shape of `$table`, once with every node announced by its arity kind and once with every
// node announced as Nary
macro_rules! all_shapes {
    ($name:ident, $n:expr, $table:ident, $count:expr, $unwind:expr, |$s:ident| $body:expr) => {
        #[kani::proof]
        #[kani::unwind($unwind)]
        fn $name() {
            kani::cover!(true);
            let mut k = 0;
            while k < $count {
                let $s = install($n, $table[k], false);
                $body;
                let $s = install($n, $table[k], true);
                $body;
                k += 1;
            }
        }
    };
}

#[kani::proof]
#[kani::unwind(7)]
fn accessors_le5() { check_accessors(5); }

// PreOrderIter: Vec<Nd> is a byte vector, CBMC constant-folds it: 3 s / 13 s / 58 s for 3 / 4 / 5 nodes
all_shapes!(pre_order_n1, 1, SHAPES1, 1, 7, |s| check_pre(s));
all_shapes!(pre_order_n2, 2, SHAPES2, 1, 7, |s| check_pre(s));
all_shapes!(pre_order_n3, 3, SHAPES3, 2, 7, |s| check_pre(s));
all_shapes!(pre_order_n4, 4, SHAPES4, 5, 7, |s| check_pre(s));
all_shapes!(pre_order_n5, 5, SHAPES5, 14, 16, |s| check_pre(s));

// PostOrderIter / RtlPostOrderIter: the stack is a Vec of items that own a Vec (pointers stored in heap memory) and
// `next` is recursive; CBMC cannot constant-fold anything read back from that stack, explores the recursion to the
// unwind bound at every call and exceeds 12 GB after 10 min already for the 2-node tree (3 nodes: no result in 15 min;
// even ONE call of `next` on root(leaf, leaf) exceeds 10 GB after 2 min).  Only the single-leaf tree is
// feasible (1 s); it still pins down `index` (off-by-one) and the empty child_indices.
all_shapes!(post_order_n1, 1, SHAPES1, 1, 4, |s| check_post(s, false));
all_shapes!(rtl_post_order_n1, 1, SHAPES1, 1, 4, |s| check_post(s, true));
// VerbosePreOrderIter (24-byte items, no nested Vec): 1 s / 33 s for 1 / 2 nodes, > 10 GB for 3 nodes
all_shapes!(verbose_n1, 1, SHAPES1, 1, 4, |s| check_verbose(s));
all_shapes!(verbose_n2, 2, SHAPES2, 1, 6, |s| check_verbose(s));

