// C05 -- `Type::threshold`, `Correctness::threshold`, `Malleability::threshold` (un-rewritten, iterator-generic real
// code) against the `thresh(k, X_1, .., X_n)` row of the Miniscript specification's type tables.
//
// Injected as a child module of src/miniscript/types/mod.rs.  BOUNDED: n = 1..=4 children, each a fully symbolic
// `Type` (every base x input x d x u x dissat x s x m combination, also the ones no fragment can have), symbolic
// 1 <= k <= n (the invariant of `Threshold`).
//
// Specification (https://bitcoin.sipa.be/miniscript/, "Correctness properties" and "Malleability" tables):
//   thresh(k,X_1,..,X_n): X_1 is Bdu, X_2..X_n are Wdu  ->  B;  z = all are z;  o = all are z except one is o;  d;  u
//                         s = at most k-1 children are non-s;  e = all are e and all are s;
//                         m = all are e, all are m, and at most k children are non-s;  never f;  never n.
// Vocabulary <-> code (abstraction):  z: input == Zero;  o: input in {One, OneNonZero};  n: input in {OneNonZero,
// AnyNonZero};  d: dissatisfiable;  u: unit;  e: dissat == Unique;  f: dissat == None;  s: signed;  m: non_malleable.

fn any_base() -> Base {
    let d: u8 = kani::any();
    kani::assume(d < 4);
    match d {
        0 => Base::B,
        1 => Base::K,
        2 => Base::V,
        _ => Base::W,
    }
}

fn any_input() -> Input {
    let d: u8 = kani::any();
    kani::assume(d < 5);
    match d {
        0 => Input::Zero,
        1 => Input::One,
        2 => Input::Any,
        3 => Input::OneNonZero,
        _ => Input::AnyNonZero,
    }
}

fn any_dissat() -> Dissat {
    let d: u8 = kani::any();
    kani::assume(d < 3);
    match d {
        0 => Dissat::None,
        1 => Dissat::Unique,
        _ => Dissat::Unknown,
    }
}

fn any_type() -> Type {
    Type {
        corr: Correctness { base: any_base(), input: any_input(), dissatisfiable: kani::any(), unit: kani::any() },
        mall: Malleability { dissat: any_dissat(), signed: kani::any(), non_malleable: kani::any() },
    }
}

// abstraction functions
fn is_z(c: &Correctness) -> bool { matches!(c.input, Input::Zero) }
fn is_o(c: &Correctness) -> bool { matches!(c.input, Input::One | Input::OneNonZero) }
fn is_n(c: &Correctness) -> bool { matches!(c.input, Input::OneNonZero | Input::AnyNonZero) }
fn is_e(m: &Malleability) -> bool { matches!(m.dissat, Dissat::Unique) }
fn is_f(m: &Malleability) -> bool { matches!(m.dissat, Dissat::None) }

/// see k09_extdata.rs: a nondeterministic guard puts every clause on a path of its own (kani::assert assumes the
/// condition afterwards and would mask later clauses).
macro_rules! chk {
    ($cond:expr, $msg:expr $(,)?) => {
        if kani::any::<bool>() {
            kani::assert($cond, $msg);
        }
    };
}

fn check_thresh<const N: usize>(k: usize, subs: [Type; N]) {
    // ---- oracle: the table row, computed over the abstraction
    let mut args_ok = true;
    let (mut n_z, mut n_o, mut n_non_s, mut all_e, mut all_m) = (0usize, 0usize, 0usize, true, true);
    let mut i = 0;
    while i < N {
        let c = &subs[i].corr;
        let want = if i == 0 { Base::B } else { Base::W };
        args_ok = args_ok && c.base == want && c.dissatisfiable && c.unit;
        n_z += is_z(c) as usize;
        n_o += is_o(c) as usize;
        n_non_s += (!subs[i].mall.signed) as usize;
        all_e = all_e && is_e(&subs[i].mall);
        all_m = all_m && subs[i].mall.non_malleable;
        i += 1;
    }
    let spec_z = n_z == N;
    let spec_o = n_z == N - 1 && n_o == 1;
    let spec_s = n_non_s <= k - 1;
    let spec_e = all_e && n_non_s == 0;
    let spec_m = all_e && all_m && n_non_s <= k;

    // ---- the real functions
    let r = Type::threshold(k, subs.iter());
    chk!(r.is_ok() == args_ok, "C05:thresh.rejects_exactly");
    if let Ok(t) = r {
        chk!(t.corr.base == Base::B, "C05:thresh.base");
        chk!(is_z(&t.corr) == spec_z, "C05:thresh.z");
        chk!(is_o(&t.corr) == spec_o, "C05:thresh.o");
        chk!(!is_n(&t.corr), "C05:thresh.not_n");
        chk!(t.corr.dissatisfiable, "C05:thresh.d");
        chk!(t.corr.unit, "C05:thresh.u");
        chk!(t.mall.signed == spec_s, "C05:thresh.s");
        chk!(is_e(&t.mall) == spec_e, "C05:thresh.e");
        chk!(!is_f(&t.mall), "C05:thresh.not_f");
        chk!(t.mall.non_malleable == spec_m, "C05:thresh.m");
    }
    // the two halves called directly (what `Type::threshold` must be the pair of)
    let rc = Correctness::threshold(k, subs.iter().map(|s| &s.corr));
    let rm = Malleability::threshold(k, subs.iter().map(|s| &s.mall));
    chk!(rc.is_ok() == args_ok, "C05:thresh.corr_rejects_exactly");
    match (r, rc) {
        (Ok(t), Ok(c)) => chk!(t.corr == c && t.mall == rm, "C05:thresh.type_is_pair"),
        (Err(_), Err(_)) => {}
        _ => chk!(false, "C05:thresh.type_is_pair"),
    }
    chk!(rm.signed == spec_s && is_e(&rm) == spec_e && !is_f(&rm) && rm.non_malleable == spec_m, "C05:thresh.mall_row");
}

fn any_k(n: usize) -> usize {
    let k: usize = kani::any();
    kani::assume(1 <= k && k <= n);
    k
}

#[kani::proof]
#[kani::unwind(6)]
fn c05_thresh_n1() {
    let subs = [any_type()];
    kani::cover!(subs[0].corr.base == Base::B && subs[0].corr.dissatisfiable && subs[0].corr.unit);
    kani::cover!(subs[0].corr.base == Base::W);
    check_thresh::<1>(1, subs);
}

#[kani::proof]
#[kani::unwind(6)]
fn c05_thresh_n2() {
    let k = any_k(2);
    let subs = [any_type(), any_type()];
    kani::cover!(k == 2 && subs[0].corr.base == Base::B && subs[1].corr.base == Base::W && !subs[1].corr.unit);
    kani::cover!(k == 1 && subs[0].mall.signed && !subs[1].mall.signed);
    check_thresh::<2>(k, subs);
}

#[kani::proof]
#[kani::unwind(6)]
fn c05_thresh_n3() {
    let k = any_k(3);
    let subs = [any_type(), any_type(), any_type()];
    kani::cover!(k == 2 && subs[0].corr.base == Base::B && subs[1].corr.base == Base::W && subs[2].corr.base == Base::W);
    kani::cover!(subs[2].corr.base == Base::B);
    check_thresh::<3>(k, subs);
}

#[kani::proof]
#[kani::unwind(6)]
fn c05_thresh_n4() {
    let k = any_k(4);
    let subs = [any_type(), any_type(), any_type(), any_type()];
    kani::cover!(k == 3 && subs[0].corr.base == Base::B && subs[3].corr.base == Base::W && !subs[3].corr.dissatisfiable);
    kani::cover!(k == 4 && !subs[0].mall.signed && !subs[1].mall.signed && !subs[2].mall.signed && !subs[3].mall.signed);
    check_thresh::<4>(k, subs);
}
