// C14 / C01 -- the numeric half of `PsbtInputSatisfier`'s lock-time checks, on the COMPILED crate and dependency.
//
// (1) `dep_*`: every fact about the `bitcoin` dependency that the Verus unit c14_psbt_satisfier states as a trusted stub
//     (Sequence flag tests, Sequence::to_relative_lock_time, relative / absolute LockTime::is_implied_by, the derived
//     ordering of transaction::Version) -- full u32 / i32 / u16 domains, loop-free => complete.
// (2) `seq_check_older_bip112`, `abs_check_after_bip65`: the lock-time satisfiers of satisfy/mod.rs against BIP112 /
//     BIP65 on raw values (twin of the Verus proof of the same bodies).
// (3) `psbt_check_after_bip65`, `psbt_check_older_bip112`: `PsbtInputSatisfier::{check_after, check_older}` on a real
//     two-input `Psbt` (symbolic nVersion, nLockTime, both nSequence values, index, operand): twin of the Verus clauses,
//     including the frame "the OTHER input's nSequence is irrelevant".
//
// Oracles: BIP65 (final input / same kind / n <= nLockTime), BIP68 + BIP112 (tx.version >= 2 as uint32, disable flag,
// type flag, 16-bit value).  `Pk` is instantiated at bitcoin::PublicKey; no key VALUE is ever built (no secp).
use bitcoin::{OutPoint, Transaction, TxIn, Witness};

type K = bitcoin::PublicKey;
const DISABLE: u32 = 1 << 31;
const TYPE_FLAG: u32 = 1 << 22;
const VALUE_MASK: u32 = 0xffff;
const THRESHOLD: u32 = 500_000_000;
const FINAL: u32 = 0xffff_ffff;

fn bip65_values_ok(n: u32, lock_time: u32) -> bool { ((n < THRESHOLD) == (lock_time < THRESHOLD)) && n <= lock_time }
fn bip112_values_ok(n: u32, seq: u32) -> bool {
    seq & DISABLE == 0 && (n & TYPE_FLAG) == (seq & TYPE_FLAG) && (n & VALUE_MASK) <= (seq & VALUE_MASK)
}
// every value of relative::LockTime (enum of two u16 newtypes)
fn rel_any() -> relative::LockTime {
    let v: u16 = kani::any();
    if kani::any() { relative::LockTime::from_height(v) } else { relative::LockTime::from_512_second_intervals(v) }
}
fn txin(s: u32) -> TxIn {
    TxIn { previous_output: OutPoint::null(), script_sig: ScriptBuf::new(), sequence: bitcoin::Sequence(s), witness: Witness::new() }
}

// ---- (1) dependency facts ------------------------------------------------------------------------------------------
#[kani::proof]
fn dep_sequence_flags() {
    let s: u32 = kani::any();
    let seq = bitcoin::Sequence(s);
    kani::cover!(s == FINAL);
    kani::cover!(s & DISABLE == 0);
    assert!(seq.is_relative_lock_time() == (s & DISABLE == 0), "C14:dep_sequence.is_relative_lock_time");
    assert!(seq.enables_absolute_lock_time() == (s != FINAL), "C14:dep_sequence.enables_absolute_lock_time");
    let i = txin(s);
    assert!(i.enables_lock_time() == (s != FINAL), "C14:dep_txin.enables_lock_time");
    core::mem::forget(i);
}

#[kani::proof]
fn dep_to_relative_lock_time() {
    let s: u32 = kani::any();
    let r = bitcoin::Sequence(s).to_relative_lock_time();
    kani::cover!(s & DISABLE == 0);
    kani::cover!(s & DISABLE != 0);
    assert!(r.is_none() == (s & DISABLE != 0), "C14:dep_to_relative_lock_time.none_iff_disabled");
    if let Some(l) = r {
        assert!(l.to_consensus_u32() == s & (TYPE_FLAG | VALUE_MASK), "C14:dep_to_relative_lock_time.type_flag_and_value");
    }
}

#[kani::proof]
fn dep_rel_is_implied_by() {
    let a = rel_any();
    let b = rel_any();
    let (ca, cb) = (a.to_consensus_u32(), b.to_consensus_u32());
    kani::cover!((ca & TYPE_FLAG) == (cb & TYPE_FLAG) && (ca & VALUE_MASK) <= (cb & VALUE_MASK));
    kani::cover!((ca & TYPE_FLAG) != (cb & TYPE_FLAG));
    assert!(ca & !(TYPE_FLAG | VALUE_MASK) == 0, "C14:dep_rel_lock_time.consensus_is_flag_and_value");
    assert!(a.is_implied_by(b) == ((ca & TYPE_FLAG) == (cb & TYPE_FLAG) && (ca & VALUE_MASK) <= (cb & VALUE_MASK)), "C14:dep_rel_is_implied_by.same_unit_and_le");
}

#[kani::proof]
fn dep_abs_is_implied_by() {
    let a: u32 = kani::any();
    let b: u32 = kani::any();
    let (la, lb) = (absolute::LockTime::from_consensus(a), absolute::LockTime::from_consensus(b));
    kani::cover!(bip65_values_ok(a, b));
    kani::cover!(a <= b && !bip65_values_ok(a, b));
    assert!(la.to_consensus_u32() == a, "C14:dep_abs_lock_time.consensus_roundtrip");
    assert!(la.is_implied_by(lb) == bip65_values_ok(a, b), "C14:dep_abs_is_implied_by.same_unit_and_le");
}

#[kani::proof]
fn dep_version_lt_two() {
    let v: i32 = kani::any();
    kani::cover!(v < 0);
    assert!((transaction::Version(v) < transaction::Version::TWO) == (v < 2), "C14:dep_version.lt_two_is_signed_lt_2");
    assert!(transaction::Version::TWO.0 == 2, "C14:dep_version.two_is_2");
}

// ---- (2) the crate's lock-time satisfiers (src/miniscript/satisfy/mod.rs) -----------------------------------------------
#[kani::proof]
fn seq_check_older_bip112() {
    let s: u32 = kani::any();
    let n = rel_any();
    let r = <bitcoin::Sequence as Satisfier<K>>::check_older(&bitcoin::Sequence(s), n);
    kani::cover!(bip112_values_ok(n.to_consensus_u32(), s));
    kani::cover!(s & DISABLE == 0 && !bip112_values_ok(n.to_consensus_u32(), s));
    assert!(r == bip112_values_ok(n.to_consensus_u32(), s), "C14,C01:seq_check_older.bip112");
    // a bare Sequence knows no nLockTime
    assert!(!<bitcoin::Sequence as Satisfier<K>>::check_after(&bitcoin::Sequence(s), absolute::LockTime::from_consensus(kani::any())), "C14,C01:seq_check_after.never");
}

#[kani::proof]
fn abs_check_after_bip65() {
    let lt: u32 = kani::any();
    let n: u32 = kani::any();
    let r = <absolute::LockTime as Satisfier<K>>::check_after(&absolute::LockTime::from_consensus(lt), absolute::LockTime::from_consensus(n));
    kani::cover!(bip65_values_ok(n, lt));
    kani::cover!((n < THRESHOLD) == (lt < THRESHOLD) && !bip65_values_ok(n, lt));
    assert!(r == bip65_values_ok(n, lt), "C14,C01:abs_check_after.bip65_values");
    assert!(!<absolute::LockTime as Satisfier<K>>::check_older(&absolute::LockTime::from_consensus(lt), rel_any()), "C14,C01:abs_check_older.never");
}

// ---- (3) PsbtInputSatisfier on a real two-input PSBT ----------------------------------------------------------------------
fn psbt2(version: i32, lock_time: u32, s0: u32, s1: u32) -> Psbt {
    Psbt {
        unsigned_tx: Transaction {
            version: transaction::Version(version),
            lock_time: absolute::LockTime::from_consensus(lock_time),
            input: vec![txin(s0), txin(s1)],
            output: vec![],
        },
        version: 0,
        xpub: BTreeMap::new(),
        proprietary: BTreeMap::new(),
        unknown: BTreeMap::new(),
        inputs: vec![psbt::Input::default(), psbt::Input::default()],
        outputs: vec![],
    }
}

#[kani::proof]
fn psbt_check_after_bip65() {
    let (version, lt, s0, s1, n): (i32, u32, u32, u32, u32) = (kani::any(), kani::any(), kani::any(), kani::any(), kani::any());
    let index: usize = kani::any();
    kani::assume(index < 2); // the precondition the finalizer establishes: index < inputs.len() == unsigned_tx.input.len()
    let p = psbt2(version, lt, s0, s1);
    let sat = PsbtInputSatisfier::new(&p, index);
    let r = <PsbtInputSatisfier as Satisfier<K>>::check_after(&sat, absolute::LockTime::from_consensus(n));
    let mine = if index == 0 { s0 } else { s1 };
    kani::cover!(index == 1 && mine != FINAL && bip65_values_ok(n, lt));
    kani::cover!(mine == FINAL && bip65_values_ok(n, lt));
    if r {
        assert!(mine != FINAL, "C14,C01:psbt_check_after.input_not_final");
        assert!((n < THRESHOLD) == (lt < THRESHOLD), "C14,C01:psbt_check_after.same_kind");
        assert!(n <= lt, "C14,C01:psbt_check_after.value_reached");
    }
    assert!(r == (mine != FINAL && bip65_values_ok(n, lt)), "C14:psbt_check_after.exactly_bip65");
    core::mem::forget(p);
}

#[kani::proof]
fn psbt_check_older_bip112() {
    let (version, lt, s0, s1): (i32, u32, u32, u32) = (kani::any(), kani::any(), kani::any(), kani::any());
    let n = rel_any();
    let index: usize = kani::any();
    kani::assume(index < 2);
    let p = psbt2(version, lt, s0, s1);
    let sat = PsbtInputSatisfier::new(&p, index);
    let r = <PsbtInputSatisfier as Satisfier<K>>::check_older(&sat, n);
    let mine = if index == 0 { s0 } else { s1 };
    let cn = n.to_consensus_u32();
    kani::cover!(index == 1 && version >= 2 && bip112_values_ok(cn, mine));
    kani::cover!(version < 2 && bip112_values_ok(cn, mine));
    if r {
        // consensus reads nVersion as uint32
        assert!((version as u32) >= 2, "C14,C01:psbt_check_older.version_at_least_2");
        assert!(mine & DISABLE == 0, "C14,C01:psbt_check_older.sequence_is_relative");
        assert!((cn & TYPE_FLAG) == (mine & TYPE_FLAG), "C14,C01:psbt_check_older.same_unit");
        assert!((cn & VALUE_MASK) <= (mine & VALUE_MASK), "C14,C01:psbt_check_older.value_reached");
    }
    // completeness on the versions where i32 and uint32 comparison agree (negative nVersion: the satisfier is conservative)
    if version >= 0 {
        assert!(r == (version >= 2 && bip112_values_ok(cn, mine)), "C14:psbt_check_older.exactly_bip112_for_nonnegative_version");
    }
    core::mem::forget(p);
}
