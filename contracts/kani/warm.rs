// trivial harness used by `./check --setup` to compile the dependency graph for Kani once
#[kani::proof]
fn warm_harness() {
    let x: u8 = kani::any();
    assert!(x as u16 + 1 > 0);
}
