// Contracts for RelLockTime (oracle: BIP68 -- bit 31 disable flag, bit 22 type flag (set = time),
// low 16 bits value; Miniscript `older(n)` requires 1 <= n < 2^31).  Complete: loop-free, full u32 domain.
const DISABLE: u32 = 1 << 31;
const TYPE_FLAG: u32 = 1 << 22;

#[kani::proof]
fn rel_from_consensus() {
    let n: u32 = kani::any();
    let r = RelLockTime::from_consensus(n);
    assert!(r.is_ok() == (n != 0 && n & DISABLE == 0), "C12:rel_from_consensus.range");
    if let Ok(t) = r {
        assert!(t.to_consensus_u32() == n, "C12:rel_from_consensus.value");
        assert!(t.is_time_locked() == (n & TYPE_FLAG != 0), "C12:rel_from_consensus.time_unit");
        assert!(t.is_height_locked() == (n & TYPE_FLAG == 0), "C12:rel_from_consensus.height_unit");
    }
}

#[kani::proof]
fn rel_max() {
    let a: u32 = kani::any();
    let b: u32 = kani::any();
    kani::assume(a != 0 && a & DISABLE == 0 && b != 0 && b & DISABLE == 0);
    let ta = RelLockTime::from_consensus(a).unwrap();
    let tb = RelLockTime::from_consensus(b).unwrap();
    kani::cover!(true);
    let r = RelLockTime::max(ta, tb);
    let same_unit = (a & TYPE_FLAG) == (b & TYPE_FLAG);
    assert!(r.is_some() == same_unit, "C02,C17:rel_max.none_iff_units_differ");
    if let Some(t) = r {
        // BIP68 compares the masked 16-bit values
        let (va, vb) = (a & 0xFFFF, b & 0xFFFF);
        let tv = t.to_consensus_u32();
        assert!(tv == a || tv == b, "C02,C17:rel_max.is_one_of_them");
        assert!(tv & 0xFFFF == if va >= vb { va } else { vb }, "C02,C17:rel_max.is_larger");
    }
}
