// C14 -- the one dependency fact the Verus unit c14_finalize trusts about the REAL bitcoin::psbt::Input:
// its derived `Default` is "every Option None, every map empty".  That value is what `mem::take` leaves behind in
// `finalize_input`, i.e. what BIP174's "all other data ... should be cleared" amounts to in the crate.
// No inputs => complete (loop-free, the whole (empty) input domain).
//
// History (recorded because DESIGN.md planned the state machine itself for Kani): a 2-input harness over
// `finalize_input` with `finalize_input_helper` replaced through kani::stub and the frame stated field-wise
// (no Psbt::clone, no Input ==, all maps empty) did not get out of CBMC in 20 min, and a lighter variant not in
// 10 min (drop glue of ~30 BTreeMaps / Vecs per PSBT).  The state machine is decided by Verus instead
// (units/c14_finalize.py: real function text, real field list, every input count).
fn maps_empty(i: &bitcoin::psbt::Input) -> bool {
    i.partial_sigs.is_empty() && i.bip32_derivation.is_empty() && i.ripemd160_preimages.is_empty() && i.sha256_preimages.is_empty()
        && i.hash160_preimages.is_empty() && i.hash256_preimages.is_empty() && i.tap_script_sigs.is_empty() && i.tap_scripts.is_empty()
        && i.tap_key_origins.is_empty()
}

#[kani::proof]
#[kani::unwind(2)]
fn input_default_is_all_empty() {
    let i = bitcoin::psbt::Input::default();
    assert!(i.non_witness_utxo.is_none() && i.witness_utxo.is_none() && i.final_script_sig.is_none() && i.final_script_witness.is_none(), "C14:input_default.utxo_and_final_none");
    assert!(i.sighash_type.is_none() && i.redeem_script.is_none() && i.witness_script.is_none() && i.tap_key_sig.is_none()
        && i.tap_internal_key.is_none() && i.tap_merkle_root.is_none(), "C14:input_default.options_none");
    assert!(maps_empty(&i) && i.proprietary.is_empty() && i.unknown.is_empty(), "C14:input_default.maps_empty");
    core::mem::forget(i);
}
