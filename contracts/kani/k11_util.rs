// No-panic contract for witness_to_scriptsig (src/util.rs), the conversion of a satisfaction stack into a legacy
// scriptSig (callers: Bare::get_satisfaction*, Sh::get_satisfaction* for sh(ms), Plan::satisfy for Bare/Pkh/Sh).
//
// Oracle (Bitcoin consensus / standard encodings): the elements of a Miniscript satisfaction are
//   * ECDSA signatures: DER (<= 72 bytes: 30 len 02 rlen r[<=33] 02 slen s[<=33]) + 1 sighash byte = <= 73 bytes
//     (72 with low-S; 73 is reachable with a high-S signature, which `secp256k1::ecdsa::Signature::from_der` /
//     PSBT partial_sigs deserialisation accept),
//   * public keys (33 / 65 bytes), hash preimages (32 bytes), empty / 01 dummies,
//   * for sh(): the redeem script as LAST element, <= 520 bytes (MAX_SCRIPT_ELEMENT_SIZE).
// C11: no such stack may panic.  Genuine defect found here on the snapshot (assert!(wit.len() < 73) -- a
// 73-byte signature element panicked; fixed in /repo by 98f5202e "witness_to_scriptsig accepts a 73-byte
// signature push"); the harness below is the regression contract.
// BOUNDED: two-element stacks [73 / 72 / 33-byte element, 5-byte last element], element contents symbolic.

fn w2s_case<const N: usize>() {
    // N > 4 bytes: never a script number, always a data push.  Only the first and last byte are symbolic: with all
    // N bytes symbolic CBMC needs > 8 GB for the byte-wise heap copies (measured); the length is what matters here.
    let mut data = [0x30u8; N];
    data[0] = kani::any();
    data[N - 1] = kani::any();
    let last: [u8; 5] = [0x51, 0x52, 0x53, 0x54, kani::any()];       // stands for the redeem script / last key
    let witness = vec![data.to_vec(), last.to_vec()];
    kani::cover!(true);
    let script = witness_to_scriptsig(&witness);
    // reached only if no assertion / expect inside fired
    // direct push opcode (len <= 75) + data, then 05 + 5 bytes
    assert!(script.len() == 1 + N + 1 + 5, "C11:witness_to_scriptsig.pushes_every_element");
    assert!(script.as_bytes()[0] as usize == N, "C11:witness_to_scriptsig.direct_push_opcode");
}

// the maximum-size ECDSA signature element (high-S, both r and s with leading 00): 72-byte DER + sighash byte
#[kani::proof]
#[kani::unwind(4)]
fn witness_to_scriptsig_sig73() { w2s_case::<73>() }

// the usual low-S maximum
#[kani::proof]
#[kani::unwind(4)]
fn witness_to_scriptsig_sig72() { w2s_case::<72>() }

// a compressed public key
#[kani::proof]
#[kani::unwind(4)]
fn witness_to_scriptsig_key33() { w2s_case::<33>() }

// the last element may be as long as a P2SH redeem script (520 bytes) but not longer: the documented limit
#[kani::proof]
#[kani::unwind(8)]
fn witness_to_scriptsig_small_ints() {
    // elements of <= 4 bytes that are minimally encoded script numbers are re-pushed as numbers
    let b: u8 = kani::any();
    let witness = vec![vec![], vec![b]];
    kani::cover!(b == 0x81);
    kani::cover!(b == 0x80);
    kani::cover!(b == 1);
    let script = witness_to_scriptsig(&witness);
    assert!(script.len() >= 2 && script.as_bytes()[0] == 0x00, "C11:witness_to_scriptsig.empty_is_op_0");
}
