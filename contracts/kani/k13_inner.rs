// Contract for `script_from_stack_elem` (src/interpreter/inner.rs), property C13.
//
// Oracle (BIP141 / BIP16): the script that is executed is the BYTE STRING of the last witness element (P2WSH) or of
// the last scriptSig push (P2SH), and that byte string is what the scriptPubKey commits to.  The one-byte string 0x01
// is `OP_PUSHBYTES_1` with its data missing -- not a script at all, and certainly not the script `OP_1` (0x51).
// `from_txdata` compares the hash of the RE-ENCODED Miniscript with the scriptPubKey, so whatever
// `script_from_stack_elem` returns for an element must re-encode to that element's bytes, or be an error.
#[kani::proof]
fn script_elem_is_its_bytes() {
    let bytes = [1u8];
    let e = stack::Element::from(&bytes[..]);
    kani::cover!(matches!(e, stack::Element::Satisfied));
    let r = script_from_stack_elem::<crate::Segwitv0>(&e);
    // Miniscript has no fragment whose script is the byte string 0x01
    assert!(r.is_err(), "C13:script_from_stack_elem.bytes_01_are_not_op_1");
    core::mem::forget(r);
}
