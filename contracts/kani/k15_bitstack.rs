// Contracts for BitStack128 (src/descriptor/tr/spend_info.rs), the stack of "left child done" bits the
// spend-info iterator keeps while it walks a Taproot tree of depth <= 128 (BIP341: control block carries
// at most 128 Merkle path elements, hence at most 128 open inner nodes at any time).
//
// Oracle: the abstract data type "stack of booleans of height h <= 128": element i (0 = bottom) is bit i
// of `inner`.  push(b) appends b at position h; pop removes and returns position h-1; everything below is
// untouched.  Complete: loop-free, `inner: u128`, `height`, `bit` and the probe index all symbolic.

fn bit_at(inner: u128, i: u8) -> bool { (inner >> i) & 1 == 1 }

#[kani::proof]
fn bitstack_push() {
    let inner: u128 = kani::any();
    let height: u8 = kani::any();
    let bit: bool = kani::any();
    let i: u8 = kani::any();
    // precondition: the stack is not full (documented: "Will panic if the user attempts to push more than 128 bits")
    kani::assume(height < 128);
    kani::assume(i < 128);
    kani::cover!(height == 127);
    kani::cover!(height == 0);
    let mut st = BitStack128 { inner, height };
    st.push(bit);
    assert!(st.height == height + 1, "C15:bitstack_push.height_plus_one");
    assert!(bit_at(st.inner, height) == bit, "C15:bitstack_push.sets_top_bit");
    if i < height {
        assert!(bit_at(st.inner, i) == bit_at(inner, i), "C15:bitstack_push.lower_bits_unchanged");
    }
    // stronger frame: no bit other than `height` changes at all
    if i != height {
        assert!(bit_at(st.inner, i) == bit_at(inner, i), "C15:bitstack_push.frame_all_other_bits");
    }
}

#[kani::proof]
fn bitstack_pop() {
    let inner: u128 = kani::any();
    let height: u8 = kani::any();
    let i: u8 = kani::any();
    kani::assume(height <= 128);
    kani::assume(i < 128);
    kani::cover!(height == 128);
    kani::cover!(height == 0);
    let mut st = BitStack128 { inner, height };
    let r = st.pop();
    assert!(r.is_none() == (height == 0), "C15:bitstack_pop.none_iff_empty");
    match r {
        None => {
            assert!(st.height == 0 && st.inner == inner, "C15:bitstack_pop.empty_unchanged");
        }
        Some(b) => {
            assert!(st.height == height - 1, "C15:bitstack_pop.height_minus_one");
            assert!(b == bit_at(inner, height - 1), "C15:bitstack_pop.returns_top_bit");
            if i < st.height {
                assert!(bit_at(st.inner, i) == bit_at(inner, i), "C15:bitstack_pop.lower_bits_unchanged");
            }
        }
    }
}

// push then pop is the identity on the abstract stack (LIFO law), for every reachable height.
#[kani::proof]
fn bitstack_lifo() {
    let inner: u128 = kani::any();
    let height: u8 = kani::any();
    let bit: bool = kani::any();
    let i: u8 = kani::any();
    kani::assume(height < 128);
    kani::assume(i < height);
    kani::cover!(true);
    let mut st = BitStack128 { inner, height };
    st.push(bit);
    let r = st.pop();
    assert!(r == Some(bit), "C15:bitstack_lifo.lifo");
    assert!(st.height == height, "C15:bitstack_lifo.height_restored");
    assert!(bit_at(st.inner, i) == bit_at(inner, i), "C15:bitstack_lifo.contents_restored");
}

// The documented limit is sharp: pushing onto a full stack (height == 128) is outside the contract.  This
// harness records that the precondition `height < 128` is what the callers must establish (it is established
// by the depth <= 128 invariant of TapTree, see k15_builder.rs); nothing is asserted here about height 128.
