// C18 -- mixed height/time lock detection: TimelockInfo::{combine_and, combine_or, combine_threshold}
// and the leaves that create TimelockInfo (ExtData::after / ExtData::older).
//
// Oracle (written from the property's statement, NOT from the fold in the code):
//   * every unit flag of the result is the union (OR) of the children's flags;
//   * contains_combination  <==>  some child already contains a combination,
//                                 OR ( k > 1  AND  there are two DIFFERENT children i != j such that
//                                      child i needs a height lock and child j a time lock of the SAME kind:
//                                      (csv-height_i, csv-time_j)  or  (cltv-height_i, cltv-time_j) ).
//   * BIP65: after(n) is a height lock iff n < 500_000_000, else a time lock.
//   * BIP68: older(n) is a time lock iff bit 22 (type flag) of n is set, else a height lock.
// The code folds an accumulator over the children; the harnesses prove the fold equal to the pairwise statement.

const BIP65_THRESHOLD: u32 = 500_000_000;
const BIP68_TYPE_FLAG: u32 = 1 << 22;
const BIP68_DISABLE_FLAG: u32 = 1 << 31;

fn any_tl() -> TimelockInfo {
    TimelockInfo {
        csv_with_height: kani::any(),
        csv_with_time: kani::any(),
        cltv_with_height: kani::any(),
        cltv_with_time: kani::any(),
        contains_combination: kani::any(),
    }
}

/// ordered pair: `a` needs a height lock, `b` a time lock, of the same kind (csv/csv or cltv/cltv)
fn spec_conflict(a: &TimelockInfo, b: &TimelockInfo) -> bool {
    (a.csv_with_height && b.csv_with_time) || (a.cltv_with_height && b.cltv_with_time)
}

/// the property's pairwise statement over the first `n` entries of `ts`
fn spec_combine(k: usize, ts: &[TimelockInfo; 4], n: usize) -> TimelockInfo {
    let mut r = TimelockInfo {
        csv_with_height: false,
        csv_with_time: false,
        cltv_with_height: false,
        cltv_with_time: false,
        contains_combination: false,
    };
    let mut i = 0;
    while i < 4 {
        if i < n {
            r.csv_with_height = r.csv_with_height || ts[i].csv_with_height;
            r.csv_with_time = r.csv_with_time || ts[i].csv_with_time;
            r.cltv_with_height = r.cltv_with_height || ts[i].cltv_with_height;
            r.cltv_with_time = r.cltv_with_time || ts[i].cltv_with_time;
            r.contains_combination = r.contains_combination || ts[i].contains_combination;
            let mut j = 0;
            while j < 4 {
                if j < n && i != j && k > 1 && spec_conflict(&ts[i], &ts[j]) {
                    r.contains_combination = true;
                }
                j += 1;
            }
        }
        i += 1;
    }
    r
}

fn check_against_spec(r: TimelockInfo, s: TimelockInfo, which: u8) {
    // one tag per field and per entry point so that a mutation names the broken half
    match which {
        0 => {
            assert!(r.csv_with_height == s.csv_with_height && r.csv_with_time == s.csv_with_time
                && r.cltv_with_height == s.cltv_with_height && r.cltv_with_time == s.cltv_with_time, "C18,C12:combine_and.flags_are_union");
            assert!(r.contains_combination == s.contains_combination, "C18,C12:combine_and.combination_iff_pairwise_conflict");
        }
        1 => {
            assert!(r.csv_with_height == s.csv_with_height && r.csv_with_time == s.csv_with_time
                && r.cltv_with_height == s.cltv_with_height && r.cltv_with_time == s.cltv_with_time, "C18,C12:combine_or.flags_are_union");
            assert!(r.contains_combination == s.contains_combination, "C18,C12:combine_or.combination_only_inherited");
        }
        _ => {
            assert!(r.csv_with_height == s.csv_with_height && r.csv_with_time == s.csv_with_time
                && r.cltv_with_height == s.cltv_with_height && r.cltv_with_time == s.cltv_with_time, "C18,C12:combine_threshold.flags_are_union");
            assert!(r.contains_combination == s.contains_combination, "C18,C12:combine_threshold.combination_iff_pairwise_conflict");
        }
    }
}

// complete: two fully symbolic TimelockInfo (10 bools); the iterator is once().chain(once()) -- 2 elements,
// unwinding assertions on.
#[kani::proof]
#[kani::unwind(6)]
fn tl_combine_and() {
    let a = any_tl();
    let b = any_tl();
    kani::cover!(a.csv_with_height && b.csv_with_time);
    let r = TimelockInfo::combine_and(a, b);
    let ts = [a, b, TimelockInfo::new(), TimelockInfo::new()];
    check_against_spec(r, spec_combine(2, &ts, 2), 0);
    // stated directly as well (an `and` of two: k = 2 > 1, the only pair is (a, b) in both orders)
    let direct = a.contains_combination || b.contains_combination
        || (a.csv_with_height && b.csv_with_time) || (b.csv_with_height && a.csv_with_time)
        || (a.cltv_with_height && b.cltv_with_time) || (b.cltv_with_height && a.cltv_with_time);
    assert!(r.contains_combination == direct, "C18,C12:combine_and.combination_direct");
}

#[kani::proof]
#[kani::unwind(6)]
fn tl_combine_or() {
    let a = any_tl();
    let b = any_tl();
    kani::cover!(a.csv_with_height && b.csv_with_time);
    let r = TimelockInfo::combine_or(a, b);
    let ts = [a, b, TimelockInfo::new(), TimelockInfo::new()];
    check_against_spec(r, spec_combine(1, &ts, 2), 1);
    assert!(r.contains_combination == (a.contains_combination || b.contains_combination), "C18,C12:combine_or.combination_direct");
}

// bounded: n <= 4 children, symbolic k (any usize, including 0 and k > n), un-rewritten closure fold
#[kani::proof]
#[kani::unwind(6)]
fn tl_combine_threshold_n4() {
    let ts = [any_tl(), any_tl(), any_tl(), any_tl()];
    let n: usize = kani::any();
    let k: usize = kani::any();
    kani::assume(n <= 4);
    kani::cover!(n == 4 && k == 2);
    kani::cover!(n == 3 && k == 1);
    let r = TimelockInfo::combine_threshold(k, ts.iter().copied().take(n));
    check_against_spec(r, spec_combine(k, &ts, n), 2);
}

// leaves: ExtData::after / ExtData::older -- complete over the full valid u32 domain
#[kani::proof]
fn tl_leaf_after() {
    let n: u32 = kani::any();
    let t = match AbsLockTime::from_consensus(n) {
        Ok(t) => t,
        Err(_) => return,
    };
    kani::cover!(n < BIP65_THRESHOLD);
    kani::cover!(n >= BIP65_THRESHOLD);
    let i = ExtData::after(t).timelock_info;
    assert!(i.cltv_with_height == (n < BIP65_THRESHOLD), "C18,C12:leaf_after.height_iff_below_500M");
    assert!(i.cltv_with_time == (n >= BIP65_THRESHOLD), "C18,C12:leaf_after.time_iff_at_least_500M");
    assert!(!i.csv_with_height && !i.csv_with_time && !i.contains_combination, "C18,C12:leaf_after.nothing_else");
}

#[kani::proof]
fn tl_leaf_older() {
    let n: u32 = kani::any();
    let t = match RelLockTime::from_consensus(n) {
        Ok(t) => t,
        Err(_) => return,
    };
    kani::cover!(n & BIP68_TYPE_FLAG != 0);
    kani::cover!(n & BIP68_TYPE_FLAG == 0);
    assert!(n & BIP68_DISABLE_FLAG == 0 && n != 0, "C18,C12:leaf_older.domain");
    let i = ExtData::older(t).timelock_info;
    assert!(i.csv_with_time == (n & BIP68_TYPE_FLAG != 0), "C18,C12:leaf_older.time_iff_type_flag");
    assert!(i.csv_with_height == (n & BIP68_TYPE_FLAG == 0), "C18,C12:leaf_older.height_iff_no_type_flag");
    assert!(!i.cltv_with_height && !i.cltv_with_time && !i.contains_combination, "C18,C12:leaf_older.nothing_else");
}
