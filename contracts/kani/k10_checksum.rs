// Contracts for the descriptor checksum (src/descriptor/checksum.rs) against BIP380.
//
// ORACLE: the reference Python code of BIP380 ("Checksum" section), transcribed here function by function
// (descsum_polymod, descsum_expand, descsum_create, descsum_check; INPUT_CHARSET, CHECKSUM_CHARSET, GENERATOR).
// Nothing below is derived from the Rust implementation: the implementation goes through the `bech32` crate's
// generic polynomial engine and a 95-entry inverse table, the reference through `str.find` and a list of symbols.
//
//   def descsum_polymod(symbols):
//       chk = 1
//       for value in symbols:
//           top = chk >> 35
//           chk = (chk & 0x7ffffffff) << 5 ^ value
//           for i in range(5): chk ^= GENERATOR[i] if ((top >> i) & 1) else 0
//       return chk
//   def descsum_expand(s):
//       groups = []; symbols = []
//       for c in s:
//           if not c in INPUT_CHARSET: return None
//           v = INPUT_CHARSET.find(c)
//           symbols.append(v & 31); groups.append(v >> 5)
//           if len(groups) == 3: symbols.append(groups[0] * 9 + groups[1] * 3 + groups[2]); groups = []
//       if len(groups) == 1: symbols.append(groups[0])
//       elif len(groups) == 2: symbols.append(groups[0] * 3 + groups[1])
//       return symbols
//   def descsum_create(s):
//       symbols = descsum_expand(s) + [0]*8
//       checksum = descsum_polymod(symbols) ^ 1
//       return s + '#' + ''.join(CHECKSUM_CHARSET[(checksum >> (5 * (7 - i))) & 31] for i in range(8))
//   def descsum_check(s):
//       if s[-9] != '#': return False
//       if not all(x in CHECKSUM_CHARSET for x in s[-8:]): return False
//       symbols = descsum_expand(s[:-9]) + [CHECKSUM_CHARSET.find(x) for x in s[-8:]]
//       return descsum_polymod(symbols) == 1

const BIP380_INPUT_CHARSET: &[u8; 95] =
    b"0123456789()[],'/*abcdefgh@:$%{}IJKLMNOPQRSTUVWXYZ&+-.;<=>?!^_|~ijklmnopqrstuvwxyzABCDEFGH`#\"\\ ";
const BIP380_CHECKSUM_CHARSET: &[u8; 32] = b"qpzry9x8gf2tvdw0s3jn54khce6mua7l";
const BIP380_GENERATOR: [u64; 5] = [0xf5dee51989, 0xa9fdca3312, 0x1bab10e32d, 0x3706b1677a, 0x644d626ffd];

/// `INPUT_CHARSET.find(c)` (None = -1 = "not c in INPUT_CHARSET"), literally: first index holding c
fn ref_input_find_loop(c: u32) -> Option<u64> {
    let mut i = 0;
    while i < 95 {
        if BIP380_INPUT_CHARSET[i] as u32 == c { return Some(i as u64); }
        i += 1;
    }
    None
}

/// The same function tabulated by rustc's const evaluator from the BIP380 string (so that harnesses which call it
/// many times need no 95-fold loop unwinding); `charset_ref_table` proves it equal to the loop for every c.
const fn build_find_table() -> [i16; 128] {
    let mut t = [-1i16; 128];
    let mut i = 95;
    while i > 0 {
        i -= 1;
        t[BIP380_INPUT_CHARSET[i] as usize] = i as i16; // descending: the FIRST occurrence wins, like str.find
    }
    t
}
const REF_FIND: [i16; 128] = build_find_table();

fn ref_input_find(c: u32) -> Option<u64> {
    if c >= 128 { return None; }
    let v = REF_FIND[c as usize];
    if v < 0 { None } else { Some(v as u64) }
}

fn ref_checksum_find(c: u8) -> Option<u64> {
    let mut i = 0;
    while i < 32 {
        if BIP380_CHECKSUM_CHARSET[i] == c { return Some(i as u64); }
        i += 1;
    }
    None
}

/// one iteration of the loop of descsum_polymod
fn ref_polymod_step(chk: u64, value: u64) -> u64 {
    let top = chk >> 35;
    let mut chk = ((chk & 0x7ffffffff) << 5) ^ value;
    let mut i = 0;
    while i < 5 {
        if (top >> i) & 1 == 1 { chk ^= BIP380_GENERATOR[i]; }
        i += 1;
    }
    chk
}

/// streaming form of descsum_expand + descsum_polymod: `chk` after all symbols emitted so far, pending `groups`
#[derive(Copy, Clone)]
struct Ref { chk: u64, groups: [u64; 3], ngroups: usize }

impl Ref {
    fn new() -> Self { Ref { chk: 1, groups: [0; 3], ngroups: 0 } }
    /// body of `for c in s` for a character with INPUT_CHARSET.find(c) == v
    fn step(&mut self, v: u64) {
        self.chk = ref_polymod_step(self.chk, v & 31);
        self.groups[self.ngroups] = v >> 5;
        self.ngroups += 1;
        if self.ngroups == 3 {
            self.chk = ref_polymod_step(self.chk, self.groups[0] * 9 + self.groups[1] * 3 + self.groups[2]);
            self.ngroups = 0;
        }
    }
    /// the tail of descsum_expand (pending groups)
    fn flush(&mut self) {
        if self.ngroups == 1 { self.chk = ref_polymod_step(self.chk, self.groups[0]); }
        else if self.ngroups == 2 { self.chk = ref_polymod_step(self.chk, self.groups[0] * 3 + self.groups[1]); }
        self.ngroups = 0;
    }
    /// descsum_create: the 8 checksum characters
    fn create(mut self) -> [u8; 8] {
        self.flush();
        let mut i = 0;
        while i < 8 { self.chk = ref_polymod_step(self.chk, 0); i += 1; }
        let checksum = self.chk ^ 1;
        let mut out = [0u8; 8];
        let mut i = 0;
        while i < 8 {
            out[i] = BIP380_CHECKSUM_CHARSET[((checksum >> (5 * (7 - i))) & 31) as usize];
            i += 1;
        }
        out
    }
    /// descsum_check for the 8 characters after '#'
    fn check(mut self, cs: &[u8; 8]) -> bool {
        self.flush();
        let mut i = 0;
        while i < 8 {
            match ref_checksum_find(cs[i]) {
                None => return false,
                Some(v) => self.chk = ref_polymod_step(self.chk, v),
            }
            i += 1;
        }
        self.chk == 1
    }
    /// the library's (cls, clscount) representation of the pending groups (abstraction function)
    fn cls(&self) -> u64 {
        match self.ngroups { 0 => 0, 1 => self.groups[0], _ => self.groups[0] * 3 + self.groups[1] }
    }
}

/// all bytes < 128 (assumed by every caller) => valid UTF-8; core::str::from_utf8's validation loops cost CBMC
/// thousands of unwindings, so the check is skipped
#[allow(unsafe_code)]
fn ascii_str(b: &[u8]) -> &str { unsafe { core::str::from_utf8_unchecked(b) } }
/// bytes produced by char::encode_utf8 after an ASCII prefix
#[allow(unsafe_code)]
fn utf8_str(b: &[u8]) -> &str { unsafe { core::str::from_utf8_unchecked(b) } }

fn same_state(e: &Engine, r: &Ref) -> bool {
    *e.inner.residue() == r.chk && e.clscount == r.ngroups as u64 && e.cls == r.cls()
}

// ---------------------------------------------------------------------------------------------------------
// (1) COMPLETE over every Unicode scalar value: a character is accepted iff it is in BIP380's INPUT_CHARSET,
//     and the table the engine indexes agrees with INPUT_CHARSET.find.
#[kani::proof]
#[kani::solver(kissat)]
#[kani::unwind(97)]
fn charset_table_complete() {
    let ch: char = kani::any();
    let code = ch as u32;
    let found = ref_input_find_loop(code);
    kani::cover!(found.is_some());
    kani::cover!(found.is_none() && code < 128);
    kani::cover!(code > 0xffff);
    // the acceptance test used by Engine::input and verify_checksum
    let accepted = (32..127).contains(&u32::from(ch));
    assert!(accepted == found.is_some(), "C10:charset.accepts_exactly_input_charset");
    if let Some(v) = found {
        assert!(u64::from(CHAR_MAP[code as usize - 32]) == v, "C10:charset.char_map_is_input_charset_find");
    }
}

// the tabulated oracle equals the literal one, for every u32 (COMPLETE)
#[kani::proof]
#[kani::solver(kissat)]
#[kani::unwind(97)]
fn charset_ref_table() {
    let c: u32 = kani::any();
    assert!(ref_input_find(c) == ref_input_find_loop(c), "C10:charset.tabulated_oracle_is_str_find");
}

// the same for all 256 byte values fed to input_unchecked's index expression (no underflow / out of bounds
// exactly on the charset)
#[kani::proof]
#[kani::solver(kissat)]
#[kani::unwind(97)]
fn charset_bytes_complete() {
    let b: u8 = kani::any();
    let found = ref_input_find_loop(b as u32);
    let idx = (b as usize).checked_sub(32);
    let in_table = match idx { Some(i) => i < CHAR_MAP.len(), None => false };
    assert!(in_table == found.is_some(), "C10:charset.table_domain_is_input_charset");
    if in_table {
        assert!(Some(u64::from(CHAR_MAP[idx.unwrap()])) == found, "C10:charset.char_map_is_input_charset_find");
        assert!(CHAR_MAP[idx.unwrap()] < 95, "C10:charset.char_map_in_range");
    }
}

// Engine::input on a one-character ASCII string: Err(InvalidCharacter{ch,pos:0}) iff not in INPUT_CHARSET; on
// success the state is the reference state.  BOUNDED to the 128 one-byte strings: decoding multi-byte UTF-8 with
// `char_indices` costs CBMC > 15 min; the acceptance predicate itself is decided for every `char` by
// charset_table_complete above.
#[kani::proof]
#[kani::solver(kissat)]
#[kani::unwind(7)]
fn engine_input_one_ascii() {
    let b: u8 = kani::any();
    kani::assume(b < 128);
    let buf = [b];
    let s: &str = ascii_str(&buf);
    let ch = b as char;
    let found = ref_input_find(b as u32);
    kani::cover!(found.is_some());
    kani::cover!(found.is_none());
    let mut e = Engine::new();
    let r = e.input(s);
    assert!(r.is_ok() == found.is_some(), "C10:engine_input.rejects_exactly_non_charset");
    match r {
        Err(err) => assert!(err == Error::InvalidCharacter { ch, pos: 0 }, "C10:engine_input.error_names_char"),
        Ok(()) => {
            let mut rf = Ref::new();
            rf.step(found.unwrap());
            assert!(same_state(&e, &rf), "C10:engine_input.state_is_bip380");
        }
    }
}

// ---------------------------------------------------------------------------------------------------------
// (2a) COMPLETE inductive step: from EVERY engine state satisfying the invariant
//          residue < 2^40,  clscount in {0,1,2},  cls < 3^clscount
//      and every character of the charset, one real `input_unchecked` step equals one BIP380 loop iteration,
//      and the invariant is preserved.  With `engine_new` below this is an induction over the string length.
//      The bech32 engine's residue field is private; an arbitrary residue is installed by transmuting a u64
//      into `bech32::primitives::checksum::Engine<DescriptorChecksum>` (single-field struct) -- declared in TRUSTED.
#[allow(unsafe_code)]
fn engine_with(residue: u64, cls: u64, clscount: u64) -> Engine {
    let inner: bech32::primitives::checksum::Engine<DescriptorChecksum> = unsafe { core::mem::transmute(residue) };
    Engine { inner, cls, clscount }
}

fn any_state() -> (Engine, Ref) {
    let chk: u64 = kani::any();
    kani::assume(chk < (1u64 << 40));
    let ngroups: usize = kani::any();
    kani::assume(ngroups <= 2);
    let g: [u64; 3] = kani::any();
    kani::assume(g[0] < 3 && g[1] < 3 && g[2] < 3);
    let r = Ref { chk, groups: g, ngroups };
    let e = engine_with(chk, r.cls(), ngroups as u64);
    (e, r)
}

#[kani::proof]
#[kani::solver(kissat)]
fn engine_new() {
    let e = Engine::new();
    let r = Ref::new();
    assert!(same_state(&e, &r), "C10:engine_new.state_is_bip380_initial");
    assert!(*engine_with(0x12_3456_789a, 0, 0).inner.residue() == 0x12_3456_789a, "C10:engine_new.transmute_installs_residue");
}

#[kani::proof]
#[kani::solver(kissat)]
#[kani::unwind(7)]
fn engine_step_inductive() {
    let (mut e, mut r) = any_state();
    let b: u8 = kani::any();
    let v = ref_input_find(b as u32);
    kani::assume(v.is_some());
    kani::cover!(r.ngroups == 2);
    kani::cover!(r.ngroups == 0 && b == b'#');
    assert!(same_state(&e, &r), "C10:engine_step.abstraction_well_formed");
    e.input_unchecked(&[b]);
    r.step(v.unwrap());
    assert!(*e.inner.residue() == r.chk, "C10:engine_step.polymod_is_bip380");
    assert!(e.clscount == r.ngroups as u64, "C10:engine_step.group_count_is_bip380");
    assert!(e.cls == r.cls(), "C10:engine_step.group_value_is_bip380");
    assert!(*e.inner.residue() < (1u64 << 40) && e.clscount <= 2 && (e.clscount != 0 || e.cls == 0)
            && (e.clscount != 1 || e.cls < 3) && (e.clscount != 2 || e.cls < 9), "C10:engine_step.invariant_preserved");
}

// (3a) COMPLETE finalisation: from every invariant state, checksum_chars() is descsum_create's 8 characters.
#[kani::proof]
#[kani::solver(kissat)]
#[kani::unwind(10)]
fn checksum_chars_inductive() {
    let (mut e, r) = any_state();
    kani::cover!(r.ngroups == 1);
    kani::cover!(r.ngroups == 2);
    kani::cover!(r.ngroups == 0);
    let got = e.checksum_chars();
    let want = r.create();
    let mut i = 0;
    while i < 8 {
        assert!(got[i] == want[i] as char, "C10:checksum_chars.is_descsum_create");
        i += 1;
    }
}

// ---------------------------------------------------------------------------------------------------------
// (2b)/(3b) BOUNDED, without the transmute: every string of <= 4 charset characters fed through the real
//      Engine::new / input_unchecked reaches the BIP380 state, and checksum_chars equals descsum_create.
#[kani::proof]
#[kani::solver(kissat)]
#[kani::unwind(10)]
fn engine_reachable_le4() {
    let n: usize = kani::any();
    kani::assume(n <= 4);
    let bytes: [u8; 4] = kani::any();
    let mut r = Ref::new();
    let mut i = 0;
    while i < 4 {
        if i < n {
            let v = ref_input_find(bytes[i] as u32);
            kani::assume(v.is_some());
            r.step(v.unwrap());
        }
        i += 1;
    }
    kani::cover!(n == 4);
    kani::cover!(n == 0);
    let mut e = Engine::new();
    e.input_unchecked(&bytes[..n]);
    assert!(same_state(&e, &r), "C10:engine_reachable.state_is_bip380");
    let got = e.checksum_chars();
    let want = r.create();
    let mut i = 0;
    while i < 8 {
        assert!(got[i] == want[i] as char, "C10:engine_reachable.checksum_is_descsum_create");
        i += 1;
    }
}

// ---------------------------------------------------------------------------------------------------------
// (4) verify_checksum.  Oracle: a string without '#' is its own payload; otherwise it must be
//     payload '#' c1..c8 with descsum_check true (the '#' at position -9 is then the last one, since '#' is not
//     in CHECKSUM_CHARSET).  BOUNDED: payload of P charset characters, P <= 2, then optionally '#' and
//     0..=9 further symbolic printable characters.  unwind 34 where the real code compares two [char; 8] (memcmp
//     over 32 bytes) and the oracle scans CHECKSUM_CHARSET (32 entries).
/// Stub for core's cold str-slicing failure path: the real `slice_error_fail` formats its message by slicing the
/// string again (mutually recursive with `str::index`); CBMC unrolls that recursion 2^unwind times and runs out
/// of memory.  The stub still panics, so an out-of-range / non-boundary slice in verify_checksum is still reported.
fn stub_slice_error_fail(_s: &str, _begin: usize, _end: usize) -> ! { panic!("str slice index error") }

fn verify_case<const P: usize, const T: usize>(with_hash: bool) -> Option<bool> {
    // layout: P payload chars, ['#', T tail chars]
    let mut buf = [0u8; 12];
    let mut r = Ref::new();
    let mut i = 0;
    while i < P {
        let b: u8 = kani::any();
        kani::assume(b >= 32 && b < 127 && b != b'#');
        buf[i] = b;
        r.step(ref_input_find(b as u32).unwrap());
        i += 1;
    }
    let mut len = P;
    let mut tail = [0u8; 8];
    if with_hash {
        buf[len] = b'#';
        len += 1;
        let mut j = 0;
        while j < T {
            let b: u8 = kani::any();
            kani::assume(b >= 32 && b < 127 && b != b'#');
            buf[len] = b;
            if j < 8 { tail[j] = b; }
            len += 1;
            j += 1;
        }
    }
    let s = ascii_str(&buf[..len]);
    let res = verify_checksum(s);
    if !with_hash {
        assert!(res == Ok(s), "C10:verify_checksum.no_hash_is_payload");
        None
    } else if T != 8 {
        assert!(res == Err(Error::InvalidChecksumLength { actual: T, expected: 8 }), "C10:verify_checksum.wrong_length_rejected");
        None
    } else {
        let valid = r.check(&tail);
        assert!(res.is_ok() == valid, "C10:verify_checksum.ok_iff_descsum_check");
        match res {
            Ok(p) => assert!(p.len() == P && p.as_bytes() == &buf[..P], "C10:verify_checksum.returns_payload"),
            Err(Error::InvalidChecksum { actual, expected }) => {
                let want = r.create();
                let mut k = 0;
                while k < 8 {
                    assert!(expected[k] == want[k] as char && actual[k] == tail[k] as char, "C10:verify_checksum.error_reports_expected");
                    k += 1;
                }
            }
            Err(_) => assert!(false, "C10:verify_checksum.error_kind"),
        }
        Some(valid)
    }
}

#[kani::proof]
#[kani::solver(kissat)]
#[kani::unwind(13)]
#[kani::stub(core::str::slice_error_fail, stub_slice_error_fail)]
fn verify_checksum_no_hash() { kani::cover!(true); verify_case::<2, 0>(false); }

#[kani::proof]
#[kani::solver(kissat)]
#[kani::unwind(34)]
#[kani::stub(core::str::slice_error_fail, stub_slice_error_fail)]
fn verify_checksum_one_char_len8() { let v = verify_case::<1, 8>(true); kani::cover!(v == Some(true)); kani::cover!(v == Some(false)); }

#[kani::proof]
#[kani::solver(kissat)]
#[kani::unwind(34)]
#[kani::stub(core::str::slice_error_fail, stub_slice_error_fail)]
fn verify_checksum_nopayload_len8() { let v = verify_case::<0, 8>(true); kani::cover!(v == Some(true)); kani::cover!(v == Some(false)); }

#[kani::proof]
#[kani::solver(kissat)]
#[kani::unwind(13)]
#[kani::stub(core::str::slice_error_fail, stub_slice_error_fail)]
fn verify_checksum_short() { kani::cover!(true); verify_case::<1, 7>(true); }

#[kani::proof]
#[kani::solver(kissat)]
#[kani::unwind(34)]
#[kani::stub(core::str::slice_error_fail, stub_slice_error_fail)]
fn verify_checksum_long() { kani::cover!(true); verify_case::<1, 9>(true); }

#[kani::proof]
#[kani::solver(kissat)]
#[kani::unwind(13)]
#[kani::stub(core::str::slice_error_fail, stub_slice_error_fail)]
fn verify_checksum_empty_tail() { kani::cover!(true); verify_case::<1, 0>(true); }

// two '#': the LAST one delimits the checksum, the first belongs to the payload ('#' is in INPUT_CHARSET)
#[kani::proof]
#[kani::solver(kissat)]
#[kani::unwind(34)]
#[kani::stub(core::str::slice_error_fail, stub_slice_error_fail)]
fn verify_checksum_two_hashes() {
    let mut buf = [0u8; 11];
    buf[0] = b'a';
    buf[1] = b'#';
    buf[2] = b'#';
    let mut r = Ref::new();
    r.step(ref_input_find(b'a' as u32).unwrap());
    r.step(ref_input_find(b'#' as u32).unwrap());
    let mut tail = [0u8; 8];
    let mut j = 0;
    while j < 8 {
        let b: u8 = kani::any();
        kani::assume(b >= 32 && b < 127 && b != b'#');
        buf[3 + j] = b;
        tail[j] = b;
        j += 1;
    }
    let s = ascii_str(&buf[..]);
    let valid = r.check(&tail);
    kani::cover!(valid);
    let res = verify_checksum(s);
    assert!(res.is_ok() == valid, "C10:verify_checksum.last_hash_delimits");
    if let Ok(p) = res { assert!(p.as_bytes() == b"a#", "C10:verify_checksum.returns_payload"); }
}

// non-ASCII / control characters are rejected with their position (one symbolic char after a 1-char payload)
#[kani::proof]
#[kani::solver(kissat)]
#[kani::unwind(13)]
#[kani::stub(core::str::slice_error_fail, stub_slice_error_fail)]
fn verify_checksum_invalid_char() {
    let ch: char = kani::any();
    kani::assume(!(32..127).contains(&(ch as u32)));
    let mut buf = [0u8; 5];
    buf[0] = b'a';
    let l = ch.encode_utf8(&mut buf[1..]).len();
    let s = utf8_str(&buf[..1 + l]);
    kani::cover!(l == 4);
    kani::cover!(l == 1);
    let res = verify_checksum(s);
    assert!(res == Err(Error::InvalidCharacter { ch, pos: 1 }), "C10:verify_checksum.invalid_char_rejected");
}
