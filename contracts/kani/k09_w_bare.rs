// C09 -- `Pkh::max_weight_to_satisfy` (src/descriptor/bare.rs): everything is in the scriptSig, whose bytes (with its
// CompactSize length prefix) weigh 4 wu each; an empty scriptSig is the single byte 0.
// pkh: scriptSig = <sig> (1+72) <key> (1+33 compressed, 1+65 uncompressed).

/// Bitcoin CompactSize length.
fn cs(n: usize) -> usize {
    if n < 253 {
        1
    } else if n <= 0xffff {
        3
    } else if n <= 0xffff_ffff {
        5
    } else {
        9
    }
}

/// one-bit key type (parametricity in Pk: the weight formulas only ask `is_uncompressed`)
#[derive(Clone, PartialEq, Eq, PartialOrd, Ord, Debug, Hash)]
struct K {
    unc: bool,
}
impl core::fmt::Display for K {
    fn fmt(&self, f: &mut core::fmt::Formatter) -> core::fmt::Result { f.write_str("K") }
}
impl MiniscriptKey for K {
    type Sha256 = u8;
    type Hash256 = u8;
    type Ripemd160 = u8;
    type Hash160 = u8;
    fn is_uncompressed(&self) -> bool { self.unc }
    fn is_x_only_key(&self) -> bool { false }
    fn num_der_paths(&self) -> usize { 0 }
}

#[kani::proof]
fn c09_pkh_weight() {
    let unc: bool = kani::any();
    kani::cover!(unc);
    kani::cover!(!unc);
    let r = Pkh { pk: K { unc } }.max_weight_to_satisfy();
    let g = 73 + if unc { 66 } else { 34 };
    assert!(r.to_wu() == 4 * (cs(g) - cs(0) + g) as u64, "C09:pkh_weight.value");
}
