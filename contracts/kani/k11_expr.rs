// No-panic contracts for the expression-tree front end (src/expression/mod.rs):
//   parse_num / parse_num_nonzero, Tree::parse_pre_check, Tree::from_str_inner.
//
// Oracle: C11 ("no text given to any parser makes the library panic") plus the structural facts the code itself
// asserts at the end of from_str_inner (capacity == number of nodes / maximum depth computed by the pre-check):
// they must hold for EVERY string the pre-check accepts, otherwise the assert_eq! is a reachable panic.
// Independent count used below: number of nodes of an accepted expression = 1 + number of ',' + number of
// opening brackets (every '(' / '{' opens exactly one first child; every ',' one more sibling).
// BOUNDED: strings of <= 4 characters over the alphabet  ( ) { } , a 1  (symbolic), no checksum.
// NOT REGISTERED (tree_* harnesses): CBMC needs > 8 GB even at this bound (measured); only parse_num_no_panic is run.

fn stub_slice_error_fail(_s: &str, _begin: usize, _end: usize) -> ! { panic!("str slice index error") }

/// verify_checksum is under contract in k10_checksum; for the '#'-free printable-ASCII strings used here BIP380 /
/// k10 say it returns the string unchanged -- stubbed to keep the checksum engine out of these harnesses.
fn stub_verify_checksum(s: &str) -> Result<&str, crate::descriptor::checksum::Error> { Ok(s) }

#[allow(unsafe_code)]
fn ascii_str(b: &[u8]) -> &str { unsafe { core::str::from_utf8_unchecked(b) } }

const MAXS: usize = 4;

fn any_expr_bytes() -> ([u8; MAXS], usize) {
    let n: usize = kani::any();
    kani::assume(n <= MAXS);
    let sel: [u8; MAXS] = kani::any();
    let mut buf = [b'a'; MAXS];
    let mut i = 0;
    while i < MAXS {
        kani::assume(sel[i] < 7);
        buf[i] = match sel[i] { 0 => b'(', 1 => b')', 2 => b'{', 3 => b'}', 4 => b',', 5 => b'a', _ => b'1' };
        i += 1;
    }
    (buf, n)
}

#[kani::proof]
#[kani::unwind(6)]
#[kani::stub(crate::descriptor::checksum::verify_checksum, stub_verify_checksum)]
#[kani::stub(core::str::slice_error_fail, stub_slice_error_fail)]
fn tree_parse_pre_check_no_panic() {
    let (buf, n) = any_expr_bytes();
    let s = ascii_str(&buf[..n]);
    let r = Tree::parse_pre_check(s);
    kani::cover!(r.is_ok() && n == MAXS);
    kani::cover!(r.is_err());
    if let Ok((rest, max_depth, n_nodes)) = r {
        // independent count
        let (mut opens, mut commas) = (0usize, 0usize);
        let mut i = 0;
        while i < MAXS {
            if i < n {
                if buf[i] == b'(' || buf[i] == b'{' { opens += 1; }
                if buf[i] == b',' { commas += 1; }
            }
            i += 1;
        }
        assert!(rest.len() == n, "C11:parse_pre_check.no_checksum_keeps_string");
        assert!(n_nodes == 1 + opens + commas, "C11:parse_pre_check.node_count");
        assert!(max_depth <= opens, "C11:parse_pre_check.depth_bounded_by_opens");
    }
}

#[kani::proof]
#[kani::unwind(6)]
#[kani::stub(crate::descriptor::checksum::verify_checksum, stub_verify_checksum)]
#[kani::stub(core::str::slice_error_fail, stub_slice_error_fail)]
fn tree_from_str_inner_no_panic() {
    let (buf, n) = any_expr_bytes();
    let s = ascii_str(&buf[..n]);
    kani::cover!(n == MAXS);
    let r = Tree::from_str_inner(s);
    // reached only if none of the three capacity assert_eq!s / expect / slicing panicked
    kani::cover!(r.is_ok() && n == MAXS);
    if let Ok(t) = r {
        assert!(t.nodes.len() >= 1 && t.nodes.len() <= n + 1, "C11:from_str_inner.node_count_bounded");
        core::mem::forget(t);
    }
}

// parse_num on every string of <= 3 symbolic ASCII digits / signs: no panic, and the documented grammar
// ("0" or a decimal without leading zero / sign).
#[kani::proof]
#[kani::unwind(12)]
#[kani::stub(core::str::slice_error_fail, stub_slice_error_fail)]
fn parse_num_no_panic() {
    let n: usize = kani::any();
    kani::assume(n <= 3);
    let buf: [u8; 3] = kani::any();
    kani::assume(buf[0] < 128 && buf[1] < 128 && buf[2] < 128);
    let s = ascii_str(&buf[..n]);
    let r = parse_num(s);
    // oracle: decimal digits only, first digit nonzero unless the string is exactly "0"
    let mut all_digits = n > 0;
    let mut val: u32 = 0;
    let mut i = 0;
    while i < 3 {
        if i < n {
            if buf[i] < b'0' || buf[i] > b'9' { all_digits = false; } else { val = val * 10 + (buf[i] - b'0') as u32; }
        }
        i += 1;
    }
    let want_ok = all_digits && (buf[0] != b'0' || n == 1);
    kani::cover!(want_ok && n == 3);
    kani::cover!(!want_ok && all_digits);
    assert!(r.is_ok() == want_ok, "C11:parse_num.grammar");
    if let Ok(v) = r { assert!(v == val, "C11:parse_num.value"); }
}
