// C09 -- per-fragment static accounting (`ExtData`) against the Miniscript specification.
//
// Injected as a child module of src/miniscript/types/extra_props.rs.  Every harness builds the children's
// `ExtData` field by field from `kani::any()` (all `usize` fields < 2^40: the stated precondition that excludes
// arithmetic overflow -- a real script is < 2^32 bytes), calls the REAL row function and checks the result
// against an oracle written from the specification (https://bitcoin.sipa.be/miniscript/):
//
//   * column "Bitcoin Script"      -> `pk_cost` (EQUAL to the template's byte length), `static_ops` (number of
//                                     non-push opcodes, i.e. opcodes > OP_16, of the template; `X VERIFY` fused
//                                     into `EQUALVERIFY/CHECKSIGVERIFY/..` is ONE opcode), `has_free_verify`
//                                     (template ends in EQUAL / NUMEQUAL / CHECKSIG / CHECKMULTISIG)
//   * table "satisfactions and dissatisfactions" -> for EVERY alternative witness of the row that the library's
//                                     satisfier implements, the node's figure bounds the alternative's measure
//                                     given that the children's figures bound the children's witnesses
//                                     (the inductive step of "figure >= measured on any produced satisfaction");
//                                     `sat_data`/`dissat_data` is `None` exactly when no alternative exists.
//   * Bitcoin encodings            -> witness element = CompactSize(len) + bytes: empty `0` = 1 byte, `1` = 2 bytes,
//                                     32-byte preimage = 33, compressed key = 34, uncompressed key = 66,
//                                     x-only key = 33; ECDSA signature element = 73 (the crate's documented unit:
//                                     72 bytes DER(low-S)+sighash byte, plus the length byte), Schnorr = 66
//                                     (64 + sighash byte + length byte).  scriptSig push of the same data: same
//                                     numbers except `0`/`1` are the one-byte opcodes OP_0/OP_1.
//   * Bitcoin `EvalScript`         -> executed-opcode count = static opcodes + (for every EXECUTED
//                                     CHECKMULTISIG) its number of keys.
//   * BIP65/BIP68/BIP112           -> `timelock_info` (and = conjunction: height/time mix flagged; or = union).
//
// `max_exec_stack_count` is only checked as a monotone bound (>= the figure of every child that is executed in the
// alternative): its exact meaning needs a Script interpreter.
//
// Tags: `C09:<row>.<aspect>`.  Rows ending in `_unc` are the uncompressed-key instances (known finding F7 lives
// there), `cast_dupif.sat_*` is known finding F8.

const LIM: usize = 1 << 40;

// ------------------------------------------------------------------------------------------------ symbolic inputs
fn any_sat() -> SatData {
    let d = SatData {
        max_witness_stack_size: kani::any(),
        max_witness_stack_count: kani::any(),
        max_script_sig_size: kani::any(),
        max_exec_stack_count: kani::any(),
        max_exec_op_count: kani::any(),
    };
    kani::assume(d.max_witness_stack_size < LIM);
    kani::assume(d.max_witness_stack_count < LIM);
    kani::assume(d.max_script_sig_size < LIM);
    kani::assume(d.max_exec_stack_count < LIM);
    kani::assume(d.max_exec_op_count < LIM);
    d
}

fn any_opt_sat() -> Option<SatData> {
    if kani::any() {
        Some(any_sat())
    } else {
        None
    }
}

fn any_tl() -> TimelockInfo {
    TimelockInfo {
        csv_with_height: kani::any(),
        csv_with_time: kani::any(),
        cltv_with_height: kani::any(),
        cltv_with_time: kani::any(),
        contains_combination: kani::any(),
    }
}

fn any_ext() -> ExtData {
    let e = ExtData {
        pk_cost: kani::any(),
        has_free_verify: kani::any(),
        static_ops: kani::any(),
        sat_data: any_opt_sat(),
        dissat_data: any_opt_sat(),
        timelock_info: any_tl(),
        tree_height: kani::any(),
    };
    kani::assume(e.pk_cost < LIM && e.static_ops < LIM && e.tree_height < LIM);
    e
}

// ------------------------------------------------------------------------------------------------ oracle vocabulary
/// Measure of one witness alternative of the satisfaction table.
#[derive(Copy, Clone)]
struct W {
    count: usize, // number of witness elements
    size: usize,  // serialized bytes, each element with its CompactSize length prefix
    ssig: usize,  // bytes of the same elements as scriptSig pushes
    ops: usize,   // additionally executed op count (keys of executed CHECKMULTISIGs)
    exec: usize,  // max over the executed children's exec-stack figures (monotone bound only)
}

const EMPTY_W: W = W { count: 0, size: 0, ssig: 0, ops: 0, exec: 0 };

/// Bound of a child's witness by induction hypothesis: the child's figures.
fn w(d: SatData) -> W {
    W {
        count: d.max_witness_stack_count,
        size: d.max_witness_stack_size,
        ssig: d.max_script_sig_size,
        ops: d.max_exec_op_count,
        exec: d.max_exec_stack_count,
    }
}

fn ow(d: Option<SatData>) -> Option<W> { d.map(w) }

/// Concatenation of two witnesses (both sub-scripts are executed).
fn cat(a: W, b: W) -> W {
    W {
        count: a.count + b.count,
        size: a.size + b.size,
        ssig: a.ssig + b.ssig,
        ops: a.ops + b.ops,
        exec: if a.exec >= b.exec { a.exec } else { b.exec },
    }
}

fn ocat(a: Option<W>, b: Option<W>) -> Option<W> {
    match (a, b) {
        (Some(a), Some(b)) => Some(cat(a, b)),
        _ => None,
    }
}

/// One more witness element of `wit` serialized bytes (`ssig` bytes as a scriptSig push).
fn push(a: W, wit: usize, ssig: usize) -> W { W { count: a.count + 1, size: a.size + wit, ssig: a.ssig + ssig, ..a } }

// element sizes (witness bytes incl. length prefix, scriptSig bytes incl. push opcode)
const ZERO_WIT: usize = 1; // empty vector: CompactSize(0)
const ZERO_SSIG: usize = 1; // OP_0
const ONE_WIT: usize = 2; // CompactSize(1) 0x01
const ONE_SSIG: usize = 1; // OP_1
const ECDSA_SIG: usize = 73; // 1 + 72
const SCHNORR_SIG: usize = 66; // 1 + 64 + 1
const KEY_COMPRESSED: usize = 34; // 1 + 33
const KEY_UNCOMPRESSED: usize = 66; // 1 + 65
const KEY_XONLY: usize = 33; // 1 + 32
const PREIMAGE: usize = 33; // 1 + 32
const HASH32_PUSH: usize = 33;
const HASH20_PUSH: usize = 21;

fn push_zero(a: W) -> W { push(a, ZERO_WIT, ZERO_SSIG) }
fn push_one(a: W) -> W { push(a, ONE_WIT, ONE_SSIG) }

/// Bitcoin `CScript::operator<<(int64)`: 0 -> OP_0, 1..=16 -> OP_1..OP_16 (one byte); otherwise a direct push
/// of `CScriptNum::serialize(n)` = minimal little-endian magnitude, plus one byte if its top bit is set.
fn spec_scriptnum_push(n: u64) -> usize {
    if n <= 16 {
        return 1;
    }
    let mut bytes = 0;
    let mut v = n;
    let mut last = 0;
    while v > 0 {
        last = v & 0xff;
        v >>= 8;
        bytes += 1;
    }
    if last & 0x80 != 0 {
        bytes += 1;
    }
    1 + bytes
}

const NO_TL: TimelockInfo = TimelockInfo {
    csv_with_height: false,
    csv_with_time: false,
    cltv_with_height: false,
    cltv_with_time: false,
    contains_combination: false,
};

/// Time-lock summary of two sub-expressions; `conj`: both may have to be satisfied in the same witness, so a
/// height-based and a time-based lock of the same kind (BIP65: one nLockTime; BIP68: one nSequence) can never
/// be met together.
fn spec_tl(a: TimelockInfo, b: TimelockInfo, conj: bool) -> TimelockInfo {
    let clash = (a.csv_with_height && b.csv_with_time)
        || (a.csv_with_time && b.csv_with_height)
        || (a.cltv_with_height && b.cltv_with_time)
        || (a.cltv_with_time && b.cltv_with_height);
    TimelockInfo {
        csv_with_height: a.csv_with_height || b.csv_with_height,
        csv_with_time: a.csv_with_time || b.csv_with_time,
        cltv_with_height: a.cltv_with_height || b.cltv_with_height,
        cltv_with_time: a.cltv_with_time || b.cltv_with_time,
        contains_combination: a.contains_combination || b.contains_combination || (conj && clash),
    }
}

fn max2(a: usize, b: usize) -> usize {
    if a >= b {
        a
    } else {
        b
    }
}

// ------------------------------------------------------------------------------------------------ clause macros
/// One named clause.  `kani::assert` is assert-then-assume: a failing clause would mask every later clause on the
/// same inputs.  The nondeterministic guard puts every clause on a path of its own (it is still checked for ALL
/// inputs, namely on the paths where its guard is true), so each red clause is reported by name.
macro_rules! chk {
    ($cond:expr, $msg:expr $(,)?) => {
        if kani::any::<bool>() {
            kani::assert($cond, $msg);
        }
    };
}

/// Script-template clauses: pk_cost (equality), static_ops, has_free_verify, tree_height, timelock_info.
macro_rules! statics {
    ($row:literal, $r:expr, $pk:expr, $ops:expr, $fv:expr, $h:expr, $tl:expr) => {{
        let r: ExtData = $r;
        chk!(r.pk_cost == $pk, concat!("C09:", $row, ".pk_cost"));
        chk!(r.static_ops == $ops, concat!("C09:", $row, ".static_ops"));
        chk!(r.has_free_verify == $fv, concat!("C09:", $row, ".free_verify"));
        chk!(r.tree_height == $h, concat!("C09:", $row, ".height"));
        chk!(r.timelock_info == $tl, concat!("C09:", $row, ".timelock"));
    }};
}

/// One alternative of the satisfaction table: if it exists (children's figures present) the node's figure exists
/// and bounds it.
macro_rules! bound {
    ($row:literal, $side:literal, $fig:expr, $alt:expr) => {{
        let fig: Option<SatData> = $fig;
        let alt: Option<W> = $alt;
        if let Some(a) = alt {
            chk!(fig.is_some(), concat!("C09:", $row, ".", $side, "_exists"));
            if let Some(f) = fig {
                chk!(f.max_witness_stack_count >= a.count, concat!("C09:", $row, ".", $side, "_count"));
                chk!(f.max_witness_stack_size >= a.size, concat!("C09:", $row, ".", $side, "_size"));
                chk!(f.max_script_sig_size >= a.ssig, concat!("C09:", $row, ".", $side, "_ssig"));
                chk!(f.max_exec_op_count >= a.ops, concat!("C09:", $row, ".", $side, "_ops"));
                chk!(f.max_exec_stack_count >= a.exec, concat!("C09:", $row, ".", $side, "_exec"));
            }
        }
    }};
}

/// The figure exists only if some alternative of the table exists.
macro_rules! only_if {
    ($row:literal, $side:literal, $fig:expr, $some_alt:expr) => {{
        let fig: Option<SatData> = $fig;
        chk!(!fig.is_some() || $some_alt, concat!("C09:", $row, ".", $side, "_only_if"));
    }};
}

// ------------------------------------------------------------------------------------------------ key type
#[derive(Clone, PartialEq, Eq, PartialOrd, Ord, Debug, Hash)]
struct K {
    unc: bool,
}
impl core::fmt::Display for K {
    fn fmt(&self, f: &mut core::fmt::Formatter) -> core::fmt::Result { f.write_str("K") }
}
impl MiniscriptKey for K {
    type Sha256 = u8;
    type Hash256 = u8;
    type Ripemd160 = u8;
    type Hash160 = u8;
    fn is_uncompressed(&self) -> bool { self.unc }
    fn is_x_only_key(&self) -> bool { false }
    fn num_der_paths(&self) -> usize { 0 }
}

// ================================================================================================ constants
// `0`: script OP_0 (1 byte, no opcode > OP_16); sat: -, dsat: (empty).   `1`: OP_1; sat: (empty), dsat: -.
#[kani::proof]
fn c09_consts() {
    kani::cover!(true);
    let f = ExtData::FALSE;
    statics!("false", f, 1, 0, false, 0, NO_TL);
    only_if!("false", "sat", f.sat_data, false);
    bound!("false", "dsat", f.dissat_data, Some(EMPTY_W));
    let t = ExtData::TRUE;
    statics!("true", t, 1, 0, false, 0, NO_TL);
    bound!("true", "sat", t.sat_data, Some(EMPTY_W));
    only_if!("true", "dsat", t.dissat_data, false);
}

// ================================================================================================ pk_k / pk_h
// pk_k(key): script <key>; sat: sig; dsat: 0.
fn check_pk_k_ecdsa<Ctx: ScriptContext>(unc: bool) {
    let r = ExtData::pk_k::<K, Ctx>(&K { unc });
    let sat = push(EMPTY_W, ECDSA_SIG, ECDSA_SIG);
    let dsat = push_zero(EMPTY_W);
    if unc {
        statics!("pk_k_unc", r, KEY_UNCOMPRESSED, 0, false, 0, NO_TL);
        bound!("pk_k_unc", "sat", r.sat_data, Some(sat));
        bound!("pk_k_unc", "dsat", r.dissat_data, Some(dsat));
    } else {
        statics!("pk_k", r, KEY_COMPRESSED, 0, false, 0, NO_TL);
        bound!("pk_k", "sat", r.sat_data, Some(sat));
        bound!("pk_k", "dsat", r.dissat_data, Some(dsat));
    }
}

#[kani::proof]
fn c09_pk_k() {
    let unc: bool = kani::any();
    kani::cover!(unc);
    kani::cover!(!unc);
    check_pk_k_ecdsa::<crate::Legacy>(unc);
    check_pk_k_ecdsa::<crate::BareCtx>(unc);
    check_pk_k_ecdsa::<crate::Segwitv0>(unc);
    // Tapscript: 32-byte x-only key, Schnorr signature, no scriptSig
    let r = ExtData::pk_k::<K, crate::Tap>(&K { unc: false });
    statics!("pk_k", r, KEY_XONLY, 0, false, 0, NO_TL);
    bound!("pk_k", "sat", r.sat_data, Some(push(EMPTY_W, SCHNORR_SIG, 0)));
    bound!("pk_k", "dsat", r.dissat_data, Some(push(EMPTY_W, ZERO_WIT, 0)));
}

// pk_h(key): script DUP HASH160 <20-byte hash> EQUALVERIFY (1+1+21+1 bytes, 3 opcodes, ends in a VERIFY: nothing
// left to fuse); sat: sig key; dsat: 0 key.
fn check_pk_h_ecdsa<Ctx: ScriptContext>(unc: bool) {
    let r = ExtData::pk_h::<K, Ctx>(Some(&K { unc }));
    if unc {
        let sat = push(push(EMPTY_W, ECDSA_SIG, ECDSA_SIG), KEY_UNCOMPRESSED, KEY_UNCOMPRESSED);
        let dsat = push(push_zero(EMPTY_W), KEY_UNCOMPRESSED, KEY_UNCOMPRESSED);
        statics!("pk_h_unc", r, 24, 3, false, 0, NO_TL);
        bound!("pk_h_unc", "sat", r.sat_data, Some(sat));
        bound!("pk_h_unc", "dsat", r.dissat_data, Some(dsat));
    } else {
        let sat = push(push(EMPTY_W, ECDSA_SIG, ECDSA_SIG), KEY_COMPRESSED, KEY_COMPRESSED);
        let dsat = push(push_zero(EMPTY_W), KEY_COMPRESSED, KEY_COMPRESSED);
        statics!("pk_h", r, 24, 3, false, 0, NO_TL);
        bound!("pk_h", "sat", r.sat_data, Some(sat));
        bound!("pk_h", "dsat", r.dissat_data, Some(dsat));
    }
}

#[kani::proof]
fn c09_pk_h() {
    let unc: bool = kani::any();
    kani::cover!(unc);
    kani::cover!(!unc);
    check_pk_h_ecdsa::<crate::Legacy>(unc);
    check_pk_h_ecdsa::<crate::BareCtx>(unc);
    check_pk_h_ecdsa::<crate::Segwitv0>(unc);
    let r = ExtData::pk_h::<K, crate::Tap>(Some(&K { unc: false }));
    statics!("pk_h", r, 24, 3, false, 0, NO_TL);
    bound!("pk_h", "sat", r.sat_data, Some(push(push(EMPTY_W, SCHNORR_SIG, 0), KEY_XONLY, 0)));
    bound!("pk_h", "dsat", r.dissat_data, Some(push(push(EMPTY_W, ZERO_WIT, 0), KEY_XONLY, 0)));
}

// pk_h with only the hash known (`expr_raw_pkh`, produced by script decoding): the key that will be revealed is
// compressed in Segwitv0 (consensus/standardness rule of the context), x-only in Tapscript, and may be
// UNCOMPRESSED in Legacy/Bare -- the worst case there is the 66-byte element.
#[kani::proof]
fn c09_raw_pkh() {
    kani::cover!(true);
    let r = ExtData::pk_h::<K, crate::Segwitv0>(None);
    statics!("pk_h_raw", r, 24, 3, false, 0, NO_TL);
    bound!("pk_h_raw", "sat", r.sat_data, Some(push(push(EMPTY_W, ECDSA_SIG, ECDSA_SIG), KEY_COMPRESSED, KEY_COMPRESSED)));
    bound!("pk_h_raw", "dsat", r.dissat_data, Some(push(push_zero(EMPTY_W), KEY_COMPRESSED, KEY_COMPRESSED)));
    let r = ExtData::pk_h::<K, crate::Tap>(None);
    statics!("pk_h_raw", r, 24, 3, false, 0, NO_TL);
    bound!("pk_h_raw", "sat", r.sat_data, Some(push(push(EMPTY_W, SCHNORR_SIG, 0), KEY_XONLY, 0)));
    bound!("pk_h_raw", "dsat", r.dissat_data, Some(push(push(EMPTY_W, ZERO_WIT, 0), KEY_XONLY, 0)));
    let r = ExtData::pk_h::<K, crate::Legacy>(None);
    statics!("pk_h_raw_legacy", r, 24, 3, false, 0, NO_TL);
    bound!("pk_h_raw_legacy", "sat", r.sat_data, Some(push(push(EMPTY_W, ECDSA_SIG, ECDSA_SIG), KEY_UNCOMPRESSED, KEY_UNCOMPRESSED)));
    bound!("pk_h_raw_legacy", "dsat", r.dissat_data, Some(push(push_zero(EMPTY_W), KEY_UNCOMPRESSED, KEY_UNCOMPRESSED)));
}

// ================================================================================================ multi / multi_a
// multi(k, key_1..key_n): script <k> <key_1> .. <key_n> <n> CHECKMULTISIG (one opcode, fusable);
// sat: 0 sig_1 .. sig_k; dsat: 0 0 .. 0 (k+1 zeros); the executed CHECKMULTISIG adds n to the op count in both.
fn spec_multi_w(k: usize, n: usize, sat: bool) -> W {
    let elem = if sat { ECDSA_SIG } else { ZERO_WIT };
    W { count: 1 + k, size: ZERO_WIT + k * elem, ssig: ZERO_SSIG + k * elem, ops: n, exec: 0 }
}

fn check_multi(k: usize, keys: Vec<K>, any_unc: bool, key_bytes: usize, sorted: bool) {
    let n = keys.len();
    let thresh = crate::Threshold::<K, MAX_PUBKEYS_PER_MULTISIG>::new(k, keys).unwrap();
    let r = if sorted { ExtData::sortedmulti(&thresh) } else { ExtData::multi(&thresh) };
    let pk = spec_scriptnum_push(k as u64) + key_bytes + spec_scriptnum_push(n as u64) + 1;
    if any_unc {
        statics!("multi_unc", r, pk, 1, true, 0, NO_TL);
        bound!("multi_unc", "sat", r.sat_data, Some(spec_multi_w(k, n, true)));
        bound!("multi_unc", "dsat", r.dissat_data, Some(spec_multi_w(k, n, false)));
    } else {
        statics!("multi", r, pk, 1, true, 0, NO_TL);
        bound!("multi", "sat", r.sat_data, Some(spec_multi_w(k, n, true)));
        bound!("multi", "dsat", r.dissat_data, Some(spec_multi_w(k, n, false)));
    }
}

// BOUNDED: n <= 3 keys, each symbolically compressed / uncompressed, symbolic 1 <= k <= n.
#[kani::proof]
#[kani::unwind(6)]
fn c09_multi_n3() {
    let n: usize = kani::any();
    let k: usize = kani::any();
    kani::assume(1 <= n && n <= 3 && 1 <= k && k <= n);
    let sorted: bool = kani::any();
    let mut keys = Vec::with_capacity(3);
    let mut any_unc = false;
    let mut key_bytes = 0;
    let mut i = 0;
    while i < n {
        let unc: bool = kani::any();
        any_unc = any_unc || unc;
        key_bytes += if unc { KEY_UNCOMPRESSED } else { KEY_COMPRESSED };
        keys.push(K { unc });
        i += 1;
    }
    kani::cover!(n == 3 && k == 2 && any_unc);
    kani::cover!(n == 3 && k == 3 && !any_unc);
    check_multi(k, keys, any_unc, key_bytes, sorted);
}

// BOUNDED: n in {16, 17, 20} compressed keys, symbolic k: the two-byte pushes of k > 16 and n > 16.
#[kani::proof]
#[kani::unwind(23)]
fn c09_multi_n20() {
    let n: usize = kani::any();
    let k: usize = kani::any();
    kani::assume((n == 16 || n == 17 || n == 20) && 1 <= k && k <= n);
    let mut keys = Vec::with_capacity(20);
    let mut i = 0;
    while i < n {
        keys.push(K { unc: false });
        i += 1;
    }
    kani::cover!(n == 20 && k == 17);
    kani::cover!(n == 17 && k == 16);
    kani::cover!(n == 16);
    check_multi(k, keys, false, n * KEY_COMPRESSED, false);
}

// multi_a(k, key_1..key_n): script <key_1> CHECKSIG <key_2> CHECKSIGADD .. <key_n> CHECKSIGADD <k> NUMEQUAL
// (n 33-byte pushes, n opcodes, the number k, NUMEQUAL); sat: one element per key, k Schnorr signatures and
// n-k empty; dsat: n empty.  Tapscript only: no scriptSig, no op limit.
// Domain: 1 <= k <= n <= 999 (invariant of `Threshold<Pk, MAX_PUBKEYS_IN_CHECKSIGADD>`, which every call site passes;
// 999 keys + the script = the 1000-element stack limit of BIP342).
#[kani::proof]
#[kani::unwind(10)]
fn c09_multi_a() {
    let n: usize = kani::any();
    let k: usize = kani::any();
    kani::assume(1 <= k && k <= n && n <= 999);
    let sorted: bool = kani::any();
    kani::cover!(n > 16 && k <= 16);
    kani::cover!(k > 127);
    kani::cover!(n <= 16);
    let r = if sorted { ExtData::sortedmulti_a(k, n) } else { ExtData::multi_a(k, n) };
    let spec_pk = n * KEY_XONLY + n + spec_scriptnum_push(k as u64) + 1;
    // deliberately conservative (upstream): the library charges the push of k like `multi` does (one byte up to 16,
    // two above; plus one more if n > 16 although n is not pushed), which over-counts by at most one byte when
    // n > 16.  Claimed: exact for n <= 16, never below and at most one above otherwise.
    chk!(r.pk_cost >= spec_pk, "C09:multi_a.pk_cost_upper_bound");
    chk!(r.pk_cost <= spec_pk + 1 && (n > 16 || r.pk_cost == spec_pk), "C09:multi_a.pk_cost_tight");
    chk!(r.has_free_verify, "C09:multi_a.free_verify");
    chk!(r.tree_height == 0, "C09:multi_a.height");
    chk!(r.timelock_info == NO_TL, "C09:multi_a.timelock");
    let sat = W { count: n, size: k * SCHNORR_SIG + (n - k) * ZERO_WIT, ssig: 0, ops: 0, exec: 0 };
    let dsat = W { count: n, size: n * ZERO_WIT, ssig: 0, ops: 0, exec: 0 };
    bound!("multi_a", "sat", r.sat_data, Some(sat));
    bound!("multi_a", "dsat", r.dissat_data, Some(dsat));
}

// ================================================================================================ hashes
// sha256(h): SIZE <32> EQUALVERIFY SHA256 <h> EQUAL: 1 + 2 + 1 + 1 + (1+|h|) + 1 bytes, 4 opcodes, ends in EQUAL;
// sat: the 32-byte preimage; dsat: any other 32-byte value.
#[kani::proof]
fn c09_hashes() {
    kani::cover!(true);
    let one = push(EMPTY_W, PREIMAGE, PREIMAGE);
    let r = ExtData::sha256();
    statics!("sha256", r, 6 + HASH32_PUSH, 4, true, 0, NO_TL);
    bound!("sha256", "sat", r.sat_data, Some(one));
    bound!("sha256", "dsat", r.dissat_data, Some(one));
    let r = ExtData::hash256();
    statics!("hash256", r, 6 + HASH32_PUSH, 4, true, 0, NO_TL);
    bound!("hash256", "sat", r.sat_data, Some(one));
    bound!("hash256", "dsat", r.dissat_data, Some(one));
    let r = ExtData::ripemd160();
    statics!("ripemd160", r, 6 + HASH20_PUSH, 4, true, 0, NO_TL);
    bound!("ripemd160", "sat", r.sat_data, Some(one));
    bound!("ripemd160", "dsat", r.dissat_data, Some(one));
    let r = ExtData::hash160();
    statics!("hash160", r, 6 + HASH20_PUSH, 4, true, 0, NO_TL);
    bound!("hash160", "sat", r.sat_data, Some(one));
    bound!("hash160", "dsat", r.dissat_data, Some(one));
}

// ================================================================================================ time locks
// after(n): <n> CHECKLOCKTIMEVERIFY; sat: (empty); dsat: -.   1 <= n < 2^31; n < 500_000_000 is a height.
#[kani::proof]
#[kani::unwind(10)]
fn c09_after() {
    let n: u32 = kani::any();
    kani::assume(1 <= n && n <= 0x7fff_ffff);
    kani::cover!(n > 0x7f_ffff);
    kani::cover!(n <= 16);
    let r = ExtData::after(AbsLockTime::from_consensus(n).unwrap());
    let height = n < 500_000_000;
    let tl = TimelockInfo { cltv_with_height: height, cltv_with_time: !height, ..NO_TL };
    statics!("after", r, spec_scriptnum_push(n as u64) + 1, 1, false, 0, tl);
    bound!("after", "sat", r.sat_data, Some(EMPTY_W));
    only_if!("after", "dsat", r.dissat_data, false);
}

// older(n): <n> CHECKSEQUENCEVERIFY; 1 <= n < 2^31 (BIP68 disable flag clear); bit 22 set = time.
#[kani::proof]
#[kani::unwind(10)]
fn c09_older() {
    let n: u32 = kani::any();
    kani::assume(1 <= n && n <= 0x7fff_ffff);
    kani::cover!(n > 0x7f_ffff);
    kani::cover!(n <= 16);
    let r = ExtData::older(RelLockTime::from_consensus(n).unwrap());
    let time = n & (1 << 22) != 0;
    let tl = TimelockInfo { csv_with_height: !time, csv_with_time: time, ..NO_TL };
    statics!("older", r, spec_scriptnum_push(n as u64) + 1, 1, false, 0, tl);
    bound!("older", "sat", r.sat_data, Some(EMPTY_W));
    only_if!("older", "dsat", r.dissat_data, false);
}

// ================================================================================================ wrappers
// a:X = TOALTSTACK [X] FROMALTSTACK; sat/dsat as X.
#[kani::proof]
fn c09_cast_alt() {
    let x = any_ext();
    kani::cover!(x.sat_data.is_some() && x.dissat_data.is_none());
    let r = ExtData::cast_alt(x);
    statics!("cast_alt", r, x.pk_cost + 2, x.static_ops + 2, false, x.tree_height + 1, x.timelock_info);
    bound!("cast_alt", "sat", r.sat_data, ow(x.sat_data));
    bound!("cast_alt", "dsat", r.dissat_data, ow(x.dissat_data));
    only_if!("cast_alt", "sat", r.sat_data, x.sat_data.is_some());
    only_if!("cast_alt", "dsat", r.dissat_data, x.dissat_data.is_some());
}

// s:X = SWAP [X]; the last opcode is X's.
#[kani::proof]
fn c09_cast_swap() {
    let x = any_ext();
    kani::cover!(x.sat_data.is_some() && x.dissat_data.is_none());
    let r = ExtData::cast_swap(x);
    statics!("cast_swap", r, x.pk_cost + 1, x.static_ops + 1, x.has_free_verify, x.tree_height + 1, x.timelock_info);
    bound!("cast_swap", "sat", r.sat_data, ow(x.sat_data));
    bound!("cast_swap", "dsat", r.dissat_data, ow(x.dissat_data));
    only_if!("cast_swap", "sat", r.sat_data, x.sat_data.is_some());
    only_if!("cast_swap", "dsat", r.dissat_data, x.dissat_data.is_some());
}

// c:X = [X] CHECKSIG.
#[kani::proof]
fn c09_cast_check() {
    let x = any_ext();
    kani::cover!(x.sat_data.is_some() && x.dissat_data.is_none());
    let r = ExtData::cast_check(x);
    statics!("cast_check", r, x.pk_cost + 1, x.static_ops + 1, true, x.tree_height + 1, x.timelock_info);
    bound!("cast_check", "sat", r.sat_data, ow(x.sat_data));
    bound!("cast_check", "dsat", r.dissat_data, ow(x.dissat_data));
    only_if!("cast_check", "sat", r.sat_data, x.sat_data.is_some());
    only_if!("cast_check", "dsat", r.dissat_data, x.dissat_data.is_some());
}

// d:X = DUP IF [X] ENDIF; sat: [sat X] 1; dsat: 0.
#[kani::proof]
fn c09_cast_dupif() {
    let x = any_ext();
    kani::cover!(x.sat_data.is_some());
    kani::cover!(x.sat_data.is_none());
    let r = ExtData::cast_dupif(x);
    statics!("cast_dupif", r, x.pk_cost + 3, x.static_ops + 3, false, x.tree_height + 1, x.timelock_info);
    bound!("cast_dupif", "sat", r.sat_data, ow(x.sat_data).map(push_one));
    bound!("cast_dupif", "dsat", r.dissat_data, Some(push_zero(EMPTY_W)));
    only_if!("cast_dupif", "sat", r.sat_data, x.sat_data.is_some());
}

// v:X = [X] VERIFY, or X's last opcode replaced by its -VERIFY form (no extra byte, no extra opcode); dsat: -.
#[kani::proof]
fn c09_cast_verify() {
    let x = any_ext();
    kani::cover!(x.has_free_verify);
    kani::cover!(!x.has_free_verify);
    let r = ExtData::cast_verify(x);
    let extra = if x.has_free_verify { 0 } else { 1 };
    statics!("cast_verify", r, x.pk_cost + extra, x.static_ops + extra, false, x.tree_height + 1, x.timelock_info);
    bound!("cast_verify", "sat", r.sat_data, ow(x.sat_data));
    only_if!("cast_verify", "sat", r.sat_data, x.sat_data.is_some());
    only_if!("cast_verify", "dsat", r.dissat_data, false);
}

// j:X = SIZE 0NOTEQUAL IF [X] ENDIF; sat: [sat X]; dsat: 0.
#[kani::proof]
fn c09_cast_nonzero() {
    let x = any_ext();
    kani::cover!(x.sat_data.is_some());
    let r = ExtData::cast_nonzero(x);
    statics!("cast_nonzero", r, x.pk_cost + 4, x.static_ops + 4, false, x.tree_height + 1, x.timelock_info);
    bound!("cast_nonzero", "sat", r.sat_data, ow(x.sat_data));
    bound!("cast_nonzero", "dsat", r.dissat_data, Some(push_zero(EMPTY_W)));
    only_if!("cast_nonzero", "sat", r.sat_data, x.sat_data.is_some());
}

// n:X = [X] 0NOTEQUAL.
#[kani::proof]
fn c09_cast_zeronotequal() {
    let x = any_ext();
    kani::cover!(x.sat_data.is_some() && x.dissat_data.is_none());
    let r = ExtData::cast_zeronotequal(x);
    statics!("cast_zeronotequal", r, x.pk_cost + 1, x.static_ops + 1, false, x.tree_height + 1, x.timelock_info);
    bound!("cast_zeronotequal", "sat", r.sat_data, ow(x.sat_data));
    bound!("cast_zeronotequal", "dsat", r.dissat_data, ow(x.dissat_data));
    only_if!("cast_zeronotequal", "sat", r.sat_data, x.sat_data.is_some());
    only_if!("cast_zeronotequal", "dsat", r.dissat_data, x.dissat_data.is_some());
}

// t:X = and_v(X,1) = [X] 1; sat: [sat X]; dsat: - (canonical).
#[kani::proof]
fn c09_cast_true() {
    let x = any_ext();
    kani::cover!(x.sat_data.is_some());
    let r = ExtData::cast_true(x);
    statics!("cast_true", r, x.pk_cost + 1, x.static_ops, false, x.tree_height + 1, x.timelock_info);
    bound!("cast_true", "sat", r.sat_data, ow(x.sat_data));
    only_if!("cast_true", "sat", r.sat_data, x.sat_data.is_some());
    only_if!("cast_true", "dsat", r.dissat_data, false);
}

// l:X = or_i(0,X) = IF 0 ELSE [X] ENDIF; sat: [sat X] 0; dsat: 1, or [dsat X] 0.
#[kani::proof]
fn c09_cast_likely() {
    let x = any_ext();
    kani::cover!(x.sat_data.is_some() && x.dissat_data.is_some());
    kani::cover!(x.dissat_data.is_none());
    let r = ExtData::cast_likely(x);
    statics!("cast_likely", r, x.pk_cost + 4, x.static_ops + 3, false, x.tree_height + 1, x.timelock_info);
    bound!("cast_likely", "sat", r.sat_data, ow(x.sat_data).map(push_zero));
    bound!("cast_likely", "dsat", r.dissat_data, Some(push_one(EMPTY_W)));
    bound!("cast_likely", "dsat", r.dissat_data, ow(x.dissat_data).map(push_zero));
    only_if!("cast_likely", "sat", r.sat_data, x.sat_data.is_some());
}

// u:X = or_i(X,0) = IF [X] ELSE 0 ENDIF; sat: [sat X] 1; dsat: 0, or [dsat X] 1.
#[kani::proof]
fn c09_cast_unlikely() {
    let x = any_ext();
    kani::cover!(x.sat_data.is_some() && x.dissat_data.is_some());
    kani::cover!(x.dissat_data.is_none());
    let r = ExtData::cast_unlikely(x);
    statics!("cast_unlikely", r, x.pk_cost + 4, x.static_ops + 3, false, x.tree_height + 1, x.timelock_info);
    bound!("cast_unlikely", "sat", r.sat_data, ow(x.sat_data).map(push_one));
    bound!("cast_unlikely", "dsat", r.dissat_data, Some(push_zero(EMPTY_W)));
    bound!("cast_unlikely", "dsat", r.dissat_data, ow(x.dissat_data).map(push_one));
    only_if!("cast_unlikely", "sat", r.sat_data, x.sat_data.is_some());
}

// ================================================================================================ binary / ternary
fn cover_pair(l: &ExtData, r: &ExtData) {
    kani::cover!(l.sat_data.is_some() && l.dissat_data.is_some() && r.sat_data.is_some() && r.dissat_data.is_some());
    kani::cover!(l.sat_data.is_some() && l.dissat_data.is_none() && r.sat_data.is_none() && r.dissat_data.is_some());
}

// and_b(X,Y) = [X] [Y] BOOLAND; sat: [sat Y][sat X]; dsat: [dsat Y][dsat X].
// (The table's non-canonical dissatisfactions [sat Y][dsat X], [dsat Y][sat X] are not produced by the library's
// satisfier and are not claimed.)
#[kani::proof]
fn c09_and_b() {
    let (x, y) = (any_ext(), any_ext());
    cover_pair(&x, &y);
    let r = ExtData::and_b(x, y);
    statics!("and_b", r, x.pk_cost + y.pk_cost + 1, x.static_ops + y.static_ops + 1, false,
             1 + max2(x.tree_height, y.tree_height), spec_tl(x.timelock_info, y.timelock_info, true));
    bound!("and_b", "sat", r.sat_data, ocat(ow(x.sat_data), ow(y.sat_data)));
    bound!("and_b", "dsat", r.dissat_data, ocat(ow(x.dissat_data), ow(y.dissat_data)));
    only_if!("and_b", "sat", r.sat_data, x.sat_data.is_some() && y.sat_data.is_some());
    only_if!("and_b", "dsat", r.dissat_data, x.dissat_data.is_some() && y.dissat_data.is_some());
}

// and_v(X,Y) = [X] [Y]; sat: [sat Y][sat X]; dsat: - (canonical); the last opcode is Y's.
// Row `and_v_noncanon`: the table's NON-canonical dissatisfaction [dsat Y][sat X].  The library's satisfier does
// implement it (sat_dissat.rs, `Terminal::AndV` arm), so a parent (`or_i`, then `or_d`/`andor`/`thresh`..) can use it
// through `get_satisfaction_mall`; the figures must then cover it.
#[kani::proof]
fn c09_and_v() {
    let (x, y) = (any_ext(), any_ext());
    cover_pair(&x, &y);
    let r = ExtData::and_v(x, y);
    statics!("and_v", r, x.pk_cost + y.pk_cost, x.static_ops + y.static_ops, y.has_free_verify,
             1 + max2(x.tree_height, y.tree_height), spec_tl(x.timelock_info, y.timelock_info, true));
    bound!("and_v", "sat", r.sat_data, ocat(ow(x.sat_data), ow(y.sat_data)));
    only_if!("and_v", "sat", r.sat_data, x.sat_data.is_some() && y.sat_data.is_some());
    only_if!("and_v", "dsat", r.dissat_data, x.sat_data.is_some() && y.dissat_data.is_some());
    bound!("and_v_noncanon", "dsat", r.dissat_data, ocat(ow(x.sat_data), ow(y.dissat_data)));
}

// or_b(X,Z) = [X] [Z] BOOLOR; sat: [dsat Z][sat X], [sat Z][dsat X]; dsat: [dsat Z][dsat X].
// (The malleable [sat Z][sat X] is not produced by the library's satisfier.)
#[kani::proof]
fn c09_or_b() {
    let (x, z) = (any_ext(), any_ext());
    cover_pair(&x, &z);
    let r = ExtData::or_b(x, z);
    statics!("or_b", r, x.pk_cost + z.pk_cost + 1, x.static_ops + z.static_ops + 1, false,
             1 + max2(x.tree_height, z.tree_height), spec_tl(x.timelock_info, z.timelock_info, false));
    bound!("or_b", "sat", r.sat_data, ocat(ow(x.sat_data), ow(z.dissat_data)));
    bound!("or_b", "sat", r.sat_data, ocat(ow(x.dissat_data), ow(z.sat_data)));
    bound!("or_b", "dsat", r.dissat_data, ocat(ow(x.dissat_data), ow(z.dissat_data)));
    only_if!("or_b", "sat", r.sat_data,
             (x.sat_data.is_some() && z.dissat_data.is_some()) || (x.dissat_data.is_some() && z.sat_data.is_some()));
    only_if!("or_b", "dsat", r.dissat_data, x.dissat_data.is_some() && z.dissat_data.is_some());
}

// or_c(X,Z) = [X] NOTIF [Z] ENDIF; sat: [sat X], [sat Z][dsat X]; dsat: -.
#[kani::proof]
fn c09_or_c() {
    let (x, z) = (any_ext(), any_ext());
    cover_pair(&x, &z);
    let r = ExtData::or_c(x, z);
    statics!("or_c", r, x.pk_cost + z.pk_cost + 2, x.static_ops + z.static_ops + 2, false,
             1 + max2(x.tree_height, z.tree_height), spec_tl(x.timelock_info, z.timelock_info, false));
    bound!("or_c", "sat", r.sat_data, ow(x.sat_data));
    bound!("or_c", "sat", r.sat_data, ocat(ow(x.dissat_data), ow(z.sat_data)));
    only_if!("or_c", "sat", r.sat_data, x.sat_data.is_some() || (x.dissat_data.is_some() && z.sat_data.is_some()));
    only_if!("or_c", "dsat", r.dissat_data, false);
}

// or_d(X,Z) = [X] IFDUP NOTIF [Z] ENDIF; sat: [sat X], [sat Z][dsat X]; dsat: [dsat Z][dsat X].
#[kani::proof]
fn c09_or_d() {
    let (x, z) = (any_ext(), any_ext());
    cover_pair(&x, &z);
    let r = ExtData::or_d(x, z);
    statics!("or_d", r, x.pk_cost + z.pk_cost + 3, x.static_ops + z.static_ops + 3, false,
             1 + max2(x.tree_height, z.tree_height), spec_tl(x.timelock_info, z.timelock_info, false));
    bound!("or_d", "sat", r.sat_data, ow(x.sat_data));
    bound!("or_d", "sat", r.sat_data, ocat(ow(x.dissat_data), ow(z.sat_data)));
    bound!("or_d", "dsat", r.dissat_data, ocat(ow(x.dissat_data), ow(z.dissat_data)));
    only_if!("or_d", "sat", r.sat_data, x.sat_data.is_some() || (x.dissat_data.is_some() && z.sat_data.is_some()));
    only_if!("or_d", "dsat", r.dissat_data, x.dissat_data.is_some() && z.dissat_data.is_some());
}

// or_i(X,Z) = IF [X] ELSE [Z] ENDIF; sat: [sat X] 1, [sat Z] 0; dsat: [dsat X] 1, [dsat Z] 0.
#[kani::proof]
fn c09_or_i() {
    let (x, z) = (any_ext(), any_ext());
    cover_pair(&x, &z);
    let r = ExtData::or_i(x, z);
    statics!("or_i", r, x.pk_cost + z.pk_cost + 3, x.static_ops + z.static_ops + 3, false,
             1 + max2(x.tree_height, z.tree_height), spec_tl(x.timelock_info, z.timelock_info, false));
    bound!("or_i", "sat", r.sat_data, ow(x.sat_data).map(push_one));
    bound!("or_i", "sat", r.sat_data, ow(z.sat_data).map(push_zero));
    bound!("or_i", "dsat", r.dissat_data, ow(x.dissat_data).map(push_one));
    bound!("or_i", "dsat", r.dissat_data, ow(z.dissat_data).map(push_zero));
    only_if!("or_i", "sat", r.sat_data, x.sat_data.is_some() || z.sat_data.is_some());
    only_if!("or_i", "dsat", r.dissat_data, x.dissat_data.is_some() || z.dissat_data.is_some());
}

// andor(X,Y,Z) = [X] NOTIF [Z] ELSE [Y] ENDIF; sat: [sat Y][sat X], [sat Z][dsat X]; dsat: [dsat Z][dsat X].
// (The non-canonical dissatisfaction [dsat Y][sat X] is not produced by the library's satisfier.)
// Time locks: (X and Y) or Z.
#[kani::proof]
fn c09_and_or() {
    let (x, y, z) = (any_ext(), any_ext(), any_ext());
    kani::cover!(x.sat_data.is_some() && x.dissat_data.is_some() && y.sat_data.is_some() && z.sat_data.is_some() && z.dissat_data.is_some());
    kani::cover!(x.dissat_data.is_none());
    let r = ExtData::and_or(x, y, z);
    statics!("and_or", r, x.pk_cost + y.pk_cost + z.pk_cost + 3, x.static_ops + y.static_ops + z.static_ops + 3, false,
             1 + max2(x.tree_height, max2(y.tree_height, z.tree_height)),
             spec_tl(spec_tl(x.timelock_info, y.timelock_info, true), z.timelock_info, false));
    bound!("and_or", "sat", r.sat_data, ocat(ow(x.sat_data), ow(y.sat_data)));
    bound!("and_or", "sat", r.sat_data, ocat(ow(x.dissat_data), ow(z.sat_data)));
    bound!("and_or", "dsat", r.dissat_data, ocat(ow(x.dissat_data), ow(z.dissat_data)));
    only_if!("and_or", "sat", r.sat_data,
             (x.sat_data.is_some() && y.sat_data.is_some()) || (x.dissat_data.is_some() && z.sat_data.is_some()));
    only_if!("and_or", "dsat", r.dissat_data, x.dissat_data.is_some() && z.dissat_data.is_some());
}

// ================================================================================================ SatData helpers
#[kani::proof]
fn c09_fieldwise_max() {
    let (a, b) = (any_sat(), any_sat());
    kani::cover!(true);
    // through the Option wrapper the rows use (a private two-argument helper may or may not exist)
    let m = SatData::fieldwise_max_opt(Some(a), Some(b)).unwrap();
    // least upper bound, field by field
    bound!("fieldwise_max", "ub", Some(m), Some(w(a)));
    bound!("fieldwise_max", "ub", Some(m), Some(w(b)));
    chk!(
        (m.max_witness_stack_count == a.max_witness_stack_count || m.max_witness_stack_count == b.max_witness_stack_count)
            && (m.max_witness_stack_size == a.max_witness_stack_size || m.max_witness_stack_size == b.max_witness_stack_size)
            && (m.max_script_sig_size == a.max_script_sig_size || m.max_script_sig_size == b.max_script_sig_size)
            && (m.max_exec_stack_count == a.max_exec_stack_count || m.max_exec_stack_count == b.max_exec_stack_count)
            && (m.max_exec_op_count == a.max_exec_op_count || m.max_exec_op_count == b.max_exec_op_count),
        "C09:fieldwise_max.least",
    );
    let (oa, ob) = (any_opt_sat(), any_opt_sat());
    kani::cover!(oa.is_some() && ob.is_none());
    let om = SatData::fieldwise_max_opt(oa, ob);
    bound!("fieldwise_max_opt", "ub", om, ow(oa));
    bound!("fieldwise_max_opt", "ub", om, ow(ob));
    only_if!("fieldwise_max_opt", "ub", om, oa.is_some() || ob.is_some());
    chk!(!(oa.is_some() && ob.is_none()) || om == oa, "C09:fieldwise_max_opt.identity");
    chk!(!(oa.is_none() && ob.is_some()) || om == ob, "C09:fieldwise_max_opt.identity");
}

// sat_op_count: the figure compared with MAX_OPS_PER_SCRIPT = all opcodes of the script + keys of executed
// CHECKMULTISIGs on the satisfaction path.
#[kani::proof]
fn c09_sat_op_count() {
    let x = any_ext();
    kani::cover!(x.sat_data.is_some());
    let r = x.sat_op_count();
    match x.sat_data {
        Some(d) => chk!(r == Some(x.static_ops + d.max_exec_op_count), "C09:sat_op_count.value"),
        None => chk!(r.is_none(), "C09:sat_op_count.value"),
    }
}

// ================================================================================================ thresh
// thresh(k, X_1..X_n) = [X_1] [X_2] ADD .. [X_n] ADD <k> EQUAL: n-1 ADDs, the number k, EQUAL (ends in EQUAL);
// sat: for EVERY subset S of exactly k children, [sat X_i] for i in S and [dsat X_i] otherwise;
// dsat: all [dsat X_i].  Time locks: conjunction iff two children can be satisfied together (k >= 2).
// BOUNDED: n <= N children, symbolic k, fully symbolic children.
fn check_thresh<const N: usize>(k: usize, subs: [ExtData; N]) {
    let n = N;
    let r = ExtData::threshold(k, n, |i| subs[i]);
    let mut pk = spec_scriptnum_push(k as u64) + 1 + (n - 1);
    let mut ops = 1 + (n - 1);
    let mut h = 0;
    let mut all_dis = Some(EMPTY_W);
    let mut all_dis_some = true;
    let mut tl = NO_TL;
    let mut i = 0;
    while i < n {
        pk += subs[i].pk_cost;
        ops += subs[i].static_ops;
        h = max2(h, subs[i].tree_height);
        all_dis = ocat(all_dis, ow(subs[i].dissat_data));
        all_dis_some = all_dis_some && subs[i].dissat_data.is_some();
        tl = spec_tl(tl, subs[i].timelock_info, k >= 2);
        i += 1;
    }
    statics!("thresh", r, pk, ops, true, h + 1, tl);
    bound!("thresh", "dsat", r.dissat_data, all_dis);
    only_if!("thresh", "dsat", r.dissat_data, all_dis_some);
    // every subset of exactly k children (bit mask)
    let mut some_subset = false;
    let mut mask: usize = 0;
    while mask < (1 << n) {
        let mut bits = 0;
        let mut alt = Some(EMPTY_W);
        let mut j = 0;
        while j < n {
            if mask & (1 << j) != 0 {
                bits += 1;
                alt = ocat(alt, ow(subs[j].sat_data));
            } else {
                alt = ocat(alt, ow(subs[j].dissat_data));
            }
            j += 1;
        }
        if bits == k {
            some_subset = some_subset || alt.is_some();
            bound!("thresh", "sat", r.sat_data, alt);
        }
        mask += 1;
    }
    only_if!("thresh", "sat", r.sat_data, some_subset);
}

/// A child of `thresh`: the type rule makes every child dissatisfiable (`d`), so `dissat_data` is present.
fn any_d_ext() -> ExtData {
    let e = any_ext();
    kani::assume(e.dissat_data.is_some());
    e
}

#[kani::proof]
#[kani::unwind(6)]
fn c09_thresh_n1() {
    let subs = [any_d_ext()];
    kani::cover!(subs[0].sat_data.is_some());
    check_thresh::<1>(1, subs);
}

#[kani::proof]
#[kani::unwind(6)]
fn c09_thresh_n2_k1() {
    let subs = [any_d_ext(), any_d_ext()];
    kani::cover!(subs[0].sat_data.is_some() && subs[1].sat_data.is_none());
    check_thresh::<2>(1, subs);
}

#[kani::proof]
#[kani::unwind(6)]
fn c09_thresh_n2_k2() {
    let subs = [any_d_ext(), any_d_ext()];
    kani::cover!(subs[0].sat_data.is_some() && subs[1].sat_data.is_some());
    check_thresh::<2>(2, subs);
}

#[kani::proof]
#[kani::unwind(10)]
fn c09_thresh_n3_k1() {
    let subs = [any_d_ext(), any_d_ext(), any_d_ext()];
    kani::cover!(subs[0].sat_data.is_some() && subs[1].sat_data.is_some() && subs[2].sat_data.is_none());
    check_thresh::<3>(1, subs);
}

#[kani::proof]
#[kani::unwind(10)]
fn c09_thresh_n3_k2() {
    let subs = [any_d_ext(), any_d_ext(), any_d_ext()];
    kani::cover!(subs[0].sat_data.is_some() && subs[1].sat_data.is_some() && subs[2].sat_data.is_none());
    check_thresh::<3>(2, subs);
}

#[kani::proof]
#[kani::unwind(10)]
fn c09_thresh_n3_k3() {
    let subs = [any_d_ext(), any_d_ext(), any_d_ext()];
    kani::cover!(subs[0].sat_data.is_some() && subs[1].sat_data.is_some() && subs[2].sat_data.is_some());
    check_thresh::<3>(3, subs);
}
