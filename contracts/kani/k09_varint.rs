// C09 -- `varint_len` (src/util.rs) against Bitcoin's CompactSize encoding (serialize.h `WriteCompactSize`):
//   n < 253 -> 1 byte;  n <= 0xFFFF -> 0xFD + 2 bytes;  n <= 0xFFFFFFFF -> 0xFE + 4 bytes;  else 0xFF + 8 bytes.
// Complete: loop-free, every usize.
#[kani::proof]
fn c09_varint_len() {
    let n: usize = kani::any();
    kani::cover!(n == 252);
    kani::cover!(n == 253);
    kani::cover!(n > 0xffff_ffff);
    let spec = if n < 253 {
        1
    } else if n <= 0xffff {
        3
    } else if n <= 0xffff_ffff {
        5
    } else {
        9
    };
    assert!(varint_len(n) == spec, "C09:varint_len.compact_size");
}
