// C11 -- no text given to the descriptor-key parser makes the library panic (BOUNDED harnesses).
//
// `parse_key_origin` (src/descriptor/key.rs) slices its input at BYTE offsets (`s[1..]`, and its caller
// `DescriptorPublicKey::from_str` slices the returned key part at `[0..2]`).  A `&str` slice panics when the offset is
// not a character boundary, so the slices are safe only because the function first rejects every string with a byte
// >= 128 (then every character is one byte long and every offset is a boundary).  The harnesses pose exactly that
// obligation on the REAL function for EVERY valid UTF-8 string of the stated length: no panic / failed slice-boundary
// check is reachable, and an accepted key part is pure ASCII (what the caller's `key_part[0..2]` relies on).  The
// strings are symbolic bytes filtered by the real `core::str::from_utf8`, so multi-byte first characters (2-byte
// U+0080..U+07FF, 3-byte U+0800..U+FFFF) are among the inputs.
//
// Two stubs, both PANICKING (so neither can hide a reachable path -- reaching one fails the harness):
//  * `core::str::slice_error_fail`, the cold panic path of a failed `&str` slice (recursive, formats): a plain panic
//    carrying the obligation tag;
//  * `bip32::Fingerprint::from_hex`: with <= 3 bytes the origin fingerprint can never have its 8 characters, so the
//    fingerprint / derivation-path parsing behind the length check is unreachable; the panicking stub lets CBMC cut that
//    code (hex decoding, Vec growth, `u32::from_str`: > 15 min / > 8 GB otherwise) and PROVES it unreachable within the
//    bound (tag keyparse.bound_does_not_reach_fingerprint_parser).

fn stub_slice_error_fail(_s: &str, _begin: usize, _end: usize) -> ! {
    panic!("C11:keyparse.str_slice_on_char_boundary")
}

fn stub_fp_from_hex(_s: &str) -> Result<bip32::Fingerprint, bitcoin::hex::HexToArrayError> {
    panic!("C11:keyparse.bound_does_not_reach_fingerprint_parser")
}

// every valid UTF-8 string of exactly N bytes
macro_rules! key_origin_harness {
    ($name:ident, $n:expr, $unwind:expr) => {
        #[kani::proof]
        #[kani::unwind($unwind)]
        #[kani::stub(core::str::slice_error_fail, stub_slice_error_fail)]
        #[kani::stub(bitcoin::bip32::Fingerprint::from_hex, stub_fp_from_hex)]
        fn $name() {
            let bytes: [u8; $n] = kani::any();
            if let Ok(s) = core::str::from_utf8(&bytes) {
                kani::cover!(bytes[0] >= 0xC2);        // a multi-byte first character is among the inputs (N >= 2)
                kani::cover!(bytes[0] == b'[');        // so is the origin branch
                kani::cover!(bytes[0] == b'a');        // and a plain key part
                let r = parse_key_origin(s);
                if let Ok((key_part, _)) = &r {
                    let kb = key_part.as_bytes();
                    let mut i = 0;
                    while i < $n {
                        if i < kb.len() {
                            assert!(kb[i] < 128, "C11:keyparse.accepted_key_part_is_ascii");
                        }
                        i += 1;
                    }
                }
                core::mem::forget(r);
            }
        }
    };
}

key_origin_harness!(parse_key_origin_no_panic_utf8_len2, 2, 4);
key_origin_harness!(parse_key_origin_no_panic_utf8_len3, 3, 5);

// lengths 0 and 1 (no multi-byte character possible; the empty string must be rejected, not sliced)
#[kani::proof]
#[kani::unwind(3)]
#[kani::stub(core::str::slice_error_fail, stub_slice_error_fail)]
#[kani::stub(bitcoin::bip32::Fingerprint::from_hex, stub_fp_from_hex)]
fn parse_key_origin_no_panic_utf8_len01() {
    let bytes: [u8; 1] = kani::any();
    let len: usize = kani::any();
    kani::assume(len <= 1);
    if let Ok(s) = core::str::from_utf8(&bytes[..len]) {
        kani::cover!(len == 0);
        kani::cover!(len == 1 && bytes[0] == b'[');
        let r = parse_key_origin(s);
        assert!(len != 0 || r.is_err(), "C11:keyparse.empty_key_rejected");
        core::mem::forget(r);
    }
}
