fn stub_slice_error_fail(_s: &str, _begin: usize, _end: usize) -> ! {
    panic!("C11:keyparse.str_slice_on_char_boundary")
}

#[kani::proof]
#[kani::unwind(6)]
#[kani::stub(core::str::slice_error_fail, stub_slice_error_fail)]
fn probe_utf8_only() {
    let bytes: [u8; 2] = kani::any();
    let len: usize = kani::any();
    kani::assume(len <= 2);
    if let Ok(s) = core::str::from_utf8(&bytes[..len]) {
        kani::cover!(len >= 2 && bytes[0] >= 0xC2);
        assert!(s.len() == len);
    }
}

#[kani::proof]
#[kani::unwind(6)]
#[kani::stub(core::str::slice_error_fail, stub_slice_error_fail)]
fn probe_pko2() {
    let bytes: [u8; 2] = kani::any();
    let len: usize = kani::any();
    kani::assume(len <= 2);
    if let Ok(s) = core::str::from_utf8(&bytes[..len]) {
        kani::cover!(len >= 2 && bytes[0] >= 0xC2);
        let r = parse_key_origin(s);
        core::mem::forget(r);
    }
}
