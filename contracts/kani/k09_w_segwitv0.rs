// C09 -- `Wpkh::max_weight_to_satisfy` (src/descriptor/segwitv0.rs) against the BIP141/BIP144 serialization:
// weight(satisfied input) - weight(unsatisfied input); witness bytes count 1 wu each;
//   witness = CompactSize(#items) + sum over items (CompactSize(len) + bytes); an empty witness is the single byte 0.
// wpkh: items = signature (73 = 1+72) and compressed key (34 = 1+33).
// (`Wsh::max_weight_to_satisfy` needs a `Miniscript` value: even a one-node tree with symbolic figures did not
// finish in 20 min / 5 GB under CBMC -- not covered here.)

/// Bitcoin CompactSize length.
fn cs(n: usize) -> usize {
    if n < 253 {
        1
    } else if n <= 0xffff {
        3
    } else if n <= 0xffff_ffff {
        5
    } else {
        9
    }
}

/// one-bit key type (parametricity in Pk: the weight formulas only ask `is_uncompressed`)
#[derive(Clone, PartialEq, Eq, PartialOrd, Ord, Debug, Hash)]
struct K {
    unc: bool,
}
impl core::fmt::Display for K {
    fn fmt(&self, f: &mut core::fmt::Formatter) -> core::fmt::Result { f.write_str("K") }
}
impl MiniscriptKey for K {
    type Sha256 = u8;
    type Hash256 = u8;
    type Ripemd160 = u8;
    type Hash160 = u8;
    fn is_uncompressed(&self) -> bool { self.unc }
    fn is_x_only_key(&self) -> bool { false }
    fn num_der_paths(&self) -> usize { 0 }
}

#[kani::proof]
fn c09_wpkh_weight() {
    kani::cover!(true);
    let r = Wpkh { pk: K { unc: false } }.max_weight_to_satisfy();
    assert!(r.to_wu() == (cs(2) - cs(0) + 73 + 34) as u64, "C09:wpkh_weight.value");
}
