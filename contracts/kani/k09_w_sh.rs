// C09 -- `Sh::max_weight_to_satisfy` (src/descriptor/sh.rs), the sh(wpkh) arm:
//   scriptSig = push of the 22-byte witness program (23 bytes, 4 wu each incl. the length prefix) + the wpkh witness
//   (107 wu: signature element 73 + compressed key element 34, item count 2 encoded in the byte the empty witness has).

/// Bitcoin CompactSize length.
fn cs(n: usize) -> usize {
    if n < 253 {
        1
    } else if n <= 0xffff {
        3
    } else if n <= 0xffff_ffff {
        5
    } else {
        9
    }
}

/// one-bit key type (parametricity in Pk: the weight formulas only ask `is_uncompressed`)
#[derive(Clone, PartialEq, Eq, PartialOrd, Ord, Debug, Hash)]
struct K {
    unc: bool,
}
impl core::fmt::Display for K {
    fn fmt(&self, f: &mut core::fmt::Formatter) -> core::fmt::Result { f.write_str("K") }
}
impl MiniscriptKey for K {
    type Sha256 = u8;
    type Hash256 = u8;
    type Ripemd160 = u8;
    type Hash160 = u8;
    fn is_uncompressed(&self) -> bool { self.unc }
    fn is_x_only_key(&self) -> bool { false }
    fn num_der_paths(&self) -> usize { 0 }
}

#[kani::proof]
fn c09_sh_wpkh_weight() {
    kani::cover!(true);
    let wpkh = Wpkh::new(K { unc: false }).unwrap();
    let r = Sh { inner: ShInner::Wpkh(wpkh) }.max_weight_to_satisfy();
    let script_sig = 1 + 22;
    assert!(r.is_ok() && r.unwrap().to_wu() == (4 * (cs(script_sig) - cs(0) + script_sig) + 107) as u64, "C09:sh_weight.wpkh_value");
}
