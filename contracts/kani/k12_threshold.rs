// C12 -- Threshold::from_iter (appended to src/primitives/threshold.rs as a child module).
// Oracle (Miniscript specification): a threshold needs 1 <= k <= n and n within the cap MAX (0 = no cap); the
// constructor keeps k and the elements in order.
// BOUNDED: iterators of at most 4 elements; k is unconstrained in `from_iter_*` (full usize) -- the only loop is the
// element loop.

fn check_from_iter<const MAX: usize>(k: usize, n: usize) {
    let data = [10u8, 11, 12, 13];
    let r = Threshold::<u8, MAX>::from_iter(k, data[..n].iter().copied());
    let ok = 1 <= k && k <= n && (MAX == 0 || n <= MAX);
    assert!(r.is_ok() == ok, "C12:from_iter.ok_iff_in_range");
    match r {
        Ok(t) => {
            assert!(t.k() == k && t.n() == n, "C12:from_iter.keeps_k_and_n");
            let mut i = 0;
            while i < n { assert!(t.data()[i] == data[i], "C12:from_iter.keeps_data"); i += 1; }
            assert!(1 <= t.k() && t.k() <= t.n() && (MAX == 0 || t.n() <= MAX), "C12:from_iter.wf");
        }
        Err(e) => {
            assert!(e.k == k && e.n == n && e.max == if MAX > 0 { Some(MAX) } else { None }, "C12:from_iter.err_payload");
        }
    }
}

#[kani::proof]
#[kani::unwind(6)]
fn from_iter_capped() {
    let k: usize = kani::any();
    let n: usize = kani::any();
    kani::assume(n <= 4);
    kani::cover!(k >= 1 && k <= n && n <= 3);
    kani::cover!(n == 4);
    check_from_iter::<3>(k, n);
}

// k small: the contract proper
#[kani::proof]
#[kani::unwind(6)]
fn from_iter_uncapped() {
    let k: usize = kani::any();
    let n: usize = kani::any();
    kani::assume(n <= 4 && k <= 8);
    kani::cover!(k >= 1 && k <= n);
    kani::cover!(k > n);
    check_from_iter::<0>(k, n);
}

// k unconstrained: from_iter must return Err(k > n), not panic / abort (C11).  `Vec::with_capacity(max(k, size_hint))`
// is reached with the caller's k when MAX == 0.
#[kani::proof]
#[kani::unwind(6)]
fn from_iter_uncapped_any_k() {
    let k: usize = kani::any();
    let n: usize = kani::any();
    kani::assume(n <= 2);
    kani::cover!(k > 1 << 62);
    let data = [10u8, 11];
    let r = Threshold::<u8, 0>::from_iter(k, data[..n].iter().copied());
    assert!(r.is_ok() == (1 <= k && k <= n), "C12,C11:from_iter.any_k_no_panic");
}
