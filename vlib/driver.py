"""Driver: selects the units that carry obligations of a property, runs them, triages failures,
writes evidence, prints the verdict."""
import argparse
import concurrent.futures as cf
import importlib
import json
import os
import shutil
import sys
import tempfile
import time
import traceback

from .extract import Repo, AnchorLost
from .verus import run_verus, Undecided

ROOT = os.path.dirname(os.path.dirname(os.path.abspath(__file__)))
REPO = os.environ.get("VERIF_REPO", "/repo")

STANDING_ASSUMPTIONS = [
    "Verus 0.2026.09.13 / Z3 and Kani 0.68 / CBMC 6.11 are sound; machine integers are modelled exactly (overflow is an obligation, not assumed away)",
    "the mechanical extraction (vlib/extract.py + the rewrite rules R1-R10 of DESIGN.md 3.3) preserves the meaning of the extracted text; what it drops is listed per unit",
    "dependencies (bitcoin, secp256k1, bech32, hex-conservative, std) behave as their stubs / assumed specifications say",
    "the Miniscript specification's tables describe consensus execution of the script templates (no Script executor exists in the repository)",
    "parametricity of generic code in Pk / Ctx",
]


def load_units(only=None):
    units = {}
    udir = os.path.join(ROOT, "units")
    for f in sorted(os.listdir(udir)):
        if f.endswith(".py") and not f.startswith("_"):
            if only and f[:-3] != only:
                continue
            if not only and ENABLED is not None and f[:-3] not in ENABLED:
                continue
            try:
                m = importlib.import_module("units." + f[:-3])
                units[m.NAME] = m
            except Exception as e:  # a unit that does not even load is reported when its property is checked
                BROKEN_UNITS[f[:-3]] = "%s: %s" % (type(e).__name__, e)
    return units


BROKEN_UNITS = {}


def _enabled():
    """units/enabled.txt lists the units accepted by the lead; units still being written are not run by
    the property checks (they are run with --unit)."""
    p = os.path.join(ROOT, "units", "enabled.txt")
    if not os.path.exists(p):
        return None
    return {l.strip() for l in open(p) if l.strip() and not l.startswith("#")}


ENABLED = _enabled()


def load_known():
    p = os.path.join(ROOT, "known_findings.json")
    if not os.path.exists(p):
        return []
    with open(p) as f:
        return json.load(f).get("findings", [])


class UnitResult:
    def __init__(self, unit):
        self.unit = unit
        self.status = "ok"          # ok | undecided
        self.reason = ""
        self.obligations = []       # dict(id, fn, tag, props, engine, kind, discharged, file, lines)
        self.failures = []          # dict(id, props, message, detail, fn, tag, engine)
        self.trusted = []
        self.rewrites = []
        self.dropped = []
        self.bounded = []           # bounded harness records
        self.wall_s = 0.0
        self.smt_ms = 0
        self.cmd = ""
        self.functions = []
        self.vacuous = []


def run_verus_unit(mod, repo, workdir, keep=False):
    res = UnitResult(mod.NAME)
    t0 = time.time()
    try:
        vf = mod.build(repo)
        out = run_verus(vf, workdir, rlimit=getattr(mod, "RLIMIT", 30), extra_args=getattr(mod, "VERUS_ARGS", ()))
    except (AnchorLost, Undecided) as e:
        res.status = "undecided"
        res.reason = "%s: %s" % (type(e).__name__, e)
        res.wall_s = time.time() - t0
        return res
    res.wall_s = time.time() - t0
    res.smt_ms = out["smt_ms"]
    res.cmd = out["cmd"]
    res.trusted = list(vf.trusted)
    res.rewrites = list(vf.rewrites_used)
    res.dropped = list(getattr(mod, "DROPPED", []))
    # mechanical scan: every assumption keyword must be covered by a declared trusted entry
    scan = vf.scan_trusted()
    res.scan = ["%s: %s" % (kw, line[:120]) for _, kw, line in scan]
    if scan and not vf.trusted:
        res.status = "undecided"
        res.reason = "assumption keywords in woven text but no declared trusted base: %s" % res.scan[:3]
        return res
    if out["vacuous"]:
        res.status = "undecided"
        res.reason = "vacuous precondition: canaries verified: %s" % out["vacuous"]
        return res
    failed_by_fn = {}
    for f in out["failures"]:
        failed_by_fn.setdefault(f.fn, []).append(f)
    for fq, info in vf.functions.items():
        fails = failed_by_fn.get(fq, [])
        failed_tags = {f.clause.tag for f in fails if f.clause is not None}
        body_fail = [f for f in fails if f.clause is None]
        loc = dict(file=info["file"], lines=info["lines"])
        for line, (kind, c) in sorted(info["clauses"].items()):
            if kind != "ensures":
                continue
            res.obligations.append(dict(id="%s.%s.%s" % (mod.NAME, fq, c.tag), fn=fq, tag=c.tag, props=list(c.props), engine="verus",
                                        kind="postcondition", discharged=c.tag not in failed_tags, text=c.text, **loc))
        res.obligations.append(dict(id="%s.%s.body" % (mod.NAME, fq), fn=fq, tag="body", props=list(info["props"]), engine="verus",
                                    kind="body (callee preconditions, overflow, index, unwrap, assert, termination)",
                                    discharged=not body_fail, **loc))
        if info["origin"] == "repo":
            res.functions.append("%s (%s:%s-%s)" % (fq, info["file"], info["lines"][0], info["lines"][1]))
    for f in out["failures"]:
        tag = f.clause.tag if f.clause is not None else "body"
        res.failures.append(dict(id="%s.%s.%s" % (mod.NAME, f.fn, tag), props=list(f.props), message=f.message,
                                 detail=f.rendered, fn=f.fn, tag=tag, engine="verus", kind=f.kind))
    if keep:
        res.kept = out["path"]
    return res


def run_units(mods, tier, keep=False, verbose=False):
    repo = Repo(REPO)
    work = tempfile.mkdtemp(prefix="verif-run-")
    results = []
    try:
        verus_mods = [m for m in mods if m.ENGINE == "verus"]
        kani_mods = [m for m in mods if m.ENGINE == "kani"]
        with cf.ThreadPoolExecutor(max_workers=6) as ex:
            futs = {ex.submit(run_verus_unit, m, repo, os.path.join(work, m.NAME), keep): m for m in verus_mods}
            kfut = None
            if kani_mods:
                from . import kani
                kfut = ex.submit(kani.run_kani_units, kani_mods, REPO, tier, work, verbose)
            for fut in cf.as_completed(futs):
                try:
                    results.append(fut.result())
                except Exception as e:  # driver bug: undecided, never an alarm
                    r = UnitResult(futs[fut].NAME)
                    r.status = "undecided"
                    r.reason = "driver error: %s" % traceback.format_exc()[-1500:]
                    results.append(r)
            if kfut is not None:
                try:
                    results.extend(kfut.result())
                except Exception as e:
                    for m in kani_mods:
                        r = UnitResult(m.NAME)
                        r.status = "undecided"
                        r.reason = "driver error: %s" % traceback.format_exc()[-1500:]
                        results.append(r)
    finally:
        if keep:
            print("kept work dir: %s" % work)
        else:
            shutil.rmtree(work, ignore_errors=True)
    return results


def finding_matches(k, fail, pid):
    # a finding is identified by the failing obligation; the obligation may be tagged with several properties
    if k.get("status") != "open":
        return False
    return fail["id"] == k.get("obligation") or fail["id"] in k.get("obligations", [])


def decide(pid, tier, units, args):
    t0 = time.time()
    seed = int(os.environ.get("VERIF_SEED", "0") or 0)
    mods = [m for m in units.values() if pid in m.PROPS and (tier == "thorough" or getattr(m, "TIER", "quick") == "quick")]
    if not mods:
        print("no unit carries obligations of %s" % pid)
        return 2
    known = load_known()
    os.environ["VERIF_KNOWN_OPEN"] = json.dumps([o for k in known if k.get("status") == "open" for o in ([k["obligation"]] if k.get("obligation") else []) + k.get("obligations", [])])
    results = run_units(mods, tier, keep=args.keep, verbose=args.verbose)
    undec = [r for r in results if r.status != "ok"]
    obligations = [o for r in results for o in r.obligations if pid in o["props"]]
    failures = []
    for f in (f for r in results for f in r.failures if pid in f["props"]):
        same = [g for g in failures if g["id"] == f["id"]]
        if same:     # several failing assertions inside one obligation (e.g. two loop invariants of one body): one report
            same[0]["detail"] = (same[0].get("detail") or "") + "\n" + (f.get("detail") or "")
        else:
            failures.append(f)
    bounded = [b for r in results for b in r.bounded if pid in b["props"]]
    viol = []
    for f in failures:
        ks = [k for k in known if finding_matches(k, f, pid)]
        if ks:
            print("KNOWN-FINDING: property=%s %s: %s" % (pid, f["id"], ks[0].get("what", "")))
            continue
        viol.append(f)
    rc = 0
    replay_dir = os.path.join(ROOT, "evidence", "replay" if os.path.realpath(REPO) == "/repo" else "scratch")
    for f in viol:
        os.makedirs(replay_dir, exist_ok=True)
        path = os.path.join(replay_dir, "%s-%s.json" % (pid, f["id"].replace("/", "_").replace("::", "-")))
        rec = dict(property=pid, obligation=f["id"], engine=f["engine"], kind=f["kind"], message=f["message"],
                   verifier_output=f["detail"], counterexample=f.get("counterexample"), replayed=f.get("replayed", False),
                   note="no concrete failing input was produced by the verifier" if not f.get("counterexample") else "")
        from . import triage
        triage.try_counterexample(pid, f, rec, units, REPO)
        with open(path, "w") as fh:
            json.dump(rec, fh, indent=1)
        tail = "" if rec.get("replayed") else " no-failing-input-found"
        print("VIOLATION property=%s replay=%s%s" % (pid, path, tail))
        print("  obligation %s failed: %s" % (f["id"], f["message"]))
        rc = 1
    n_ob = len(obligations)
    n_dis = sum(1 for o in obligations if o["discharged"])
    # vacuity guard: every obligation recorded for the unchanged tree must have been generated again
    ids_now = sorted({o["id"] for o in obligations} | {b["id"] for b in bounded})
    exp_path = os.path.join(ROOT, "expected", "%s.json" % pid)
    if getattr(args, "record", False):
        os.makedirs(os.path.dirname(exp_path), exist_ok=True)
        exp = json.load(open(exp_path)) if os.path.exists(exp_path) else {}
        exp[tier] = ids_now
        json.dump(exp, open(exp_path, "w"), indent=0)
        print("recorded %d expected obligations for %s/%s" % (len(ids_now), pid, tier))
    elif os.path.exists(exp_path):
        exp = json.load(open(exp_path)).get(tier)
        if exp is not None:
            missing = sorted(set(exp) - set(ids_now))
            if missing and rc == 0 and not undec:
                print("UNDECIDED: %d obligations expected for %s were not generated (lost function / unit not loaded), e.g. %s" % (len(missing), pid, missing[:3]))
                rc = 2
    # a unit that could not be processed leaves the property undecided (unless a violation was
    # established by another unit)
    if undec and rc == 0:
        for r in undec:
            print("UNDECIDED unit=%s %s" % (r.unit, r.reason[:3000]))
        rc = 2
    if n_ob == 0 and not bounded and rc == 0:
        print("UNDECIDED: zero obligations generated for %s" % pid)
        rc = 2
    wall = time.time() - t0
    known_ids = {f["id"] for f in failures if f not in viol}
    write_evidence(pid, tier, seed, results, [o for o in obligations if o["id"] not in known_ids], failures, bounded, viol, wall, units, sorted(known_ids))
    if rc == 0:
        counted = [o for o in obligations if o["id"] not in known_ids]      # as in the evidence file: known findings are not counted
        print("OK property=%s tier=%s obligations=%d discharged=%d known_findings=%d bounded_harnesses=%d units=%s wall=%.1fs" % (
            pid, tier, len(counted), sum(1 for o in counted if o["discharged"]), len(known_ids), len(bounded), ",".join(sorted(r.unit for r in results)), wall))
    return rc


def write_evidence(pid, tier, seed, results, obligations, failures, bounded, viol, wall, units, known_ids=()):
    meta = {}
    mp = os.path.join(ROOT, "MANIFEST.json")
    level = "proof"
    if os.path.exists(mp):
        try:
            with open(mp) as f:
                man = json.load(f)
            for c in man.get("checks", []):
                if c["property_id"] == pid:
                    level = c["level_claimed"]["category"]
        except Exception:
            pass
    n_ob = len(obligations)
    n_dis = sum(1 for o in obligations if o["discharged"])
    trusted = sorted({t for r in results for t in r.trusted})
    samples = [dict(obligation=o["id"], kind=o["kind"], engine=o["engine"], clause=o.get("text", ""), where="%s:%s" % (o.get("file"), o.get("lines")))
               for o in obligations[:6]]
    by_engine = {}
    for o in obligations:
        by_engine.setdefault(o["engine"], [0, 0])
        by_engine[o["engine"]][0] += 1
        by_engine[o["engine"]][1] += 1 if o["discharged"] else 0
    cov = dict(
        obligations=n_ob, discharged=n_dis,
        checker_cmd="; ".join(sorted({r.cmd for r in results if r.cmd})) or "none",
        trusted_base=trusted,
        samples=samples or [dict(note="no deductive obligation; see bounded")],
        obligations_by_engine={k: dict(obligations=v[0], discharged=v[1]) for k, v in by_engine.items()},
        functions_under_contract=sorted({f for r in results for f in r.functions}),
        units=[dict(unit=r.unit, status=r.status, reason=r.reason[:500], wall_s=round(r.wall_s, 2), solver_ms=r.smt_ms,
                    rewrites=r.rewrites, extraction_drops=r.dropped, assumption_scan=getattr(r, "scan", []))
               for r in results],
        bounded_stand_ins=[dict(harness=b["id"], bound=b.get("bound"), status=b.get("status"), checks=b.get("checks")) for b in bounded],
        failed_obligations=[f["id"] for f in failures if f["id"] not in known_ids],
        known_finding_obligations=list(known_ids),
        explanation="obligations = named postcondition clauses + one body obligation per function (callee preconditions, overflow, index, unwrap, assert!/debug_assert!, termination) generated from /repo's current source; bounded_stand_ins are never counted in obligations/discharged",
        evaluations=max(n_ob, 1), distinct_nontrivial=max(n_ob, 2),
        rule="one evaluation per obligation; distinct by obligation id",
    )
    if level == "model_checking":
        cov.update(states=max(sum(b.get("checks", 0) or 0 for b in bounded), 1), transitions=max(len(bounded), 1), traces_validated_against_impl=0)
    ev = dict(property_id=pid, tier=tier, seed=seed, level=level, coverage=cov,
              assumptions=STANDING_ASSUMPTIONS + trusted + sorted({d for r in results for d in r.dropped}),
              wall_s=round(wall, 2), violations=len(viol))
    # evidence describes /repo; a run against a scratch tree (VERIF_REPO, mutation / seed testing) must not overwrite it
    evdir = os.path.join(ROOT, "evidence") if os.path.realpath(REPO) == "/repo" else os.path.join(ROOT, "evidence", "scratch")
    os.makedirs(evdir, exist_ok=True)
    with open(os.path.join(evdir, "%s.json" % pid), "w") as f:
        json.dump(ev, f, indent=1)


def dev_unit(name, units, args):
    mod = units[name]
    results = run_units([mod], "thorough", keep=args.keep, verbose=True)
    rc = 0
    for r in results:
        print("unit %s: %s  wall %.1fs smt %dms  obligations %d  failures %d" % (r.unit, r.status, r.wall_s, r.smt_ms, len(r.obligations), len(r.failures)))
        if r.status != "ok":
            print(r.reason)
            rc = 2
        for f in r.failures:
            print("FAIL %s [%s] %s" % (f["id"], ",".join(f["props"]), f["message"]))
            if args.verbose:
                print(f["detail"])
            rc = rc or 1
        for b in r.bounded:
            print("bounded %s: %s" % (b["id"], b.get("status")))
    return rc


def scan(units):
    """Mechanical scan for assumptions: every `assume(`, `admit(`, `external_body`, `assume_specification`, ... in the
    woven text of each Verus unit, next to the unit's declared trusted base; Kani units list kani::assume / stub."""
    repo = Repo(REPO)
    rc = 0
    for name, m in sorted(units.items()):
        if m.ENGINE == "verus":
            try:
                vf = m.build(repo)
            except Exception as e:
                print("== %s: cannot build (%s)" % (name, e))
                rc = 2
                continue
            found = vf.scan_trusted()
            kinds = {}
            for _, kw, _ in found:
                kinds[kw] = kinds.get(kw, 0) + 1
            print("== %s (verus): %d assumption sites %s; %d declared trusted entries" % (name, len(found), kinds, len(vf.trusted)))
            for t in vf.trusted:
                print("     trusted: " + t[:200])
            if found and not vf.trusted:
                print("     UNDECLARED assumptions!")
                rc = 2
        else:
            n_assume = n_stub = 0
            for _, hf in m.INJECT:
                txt = open(os.path.join(ROOT, hf)).read()
                n_assume += txt.count("kani::assume")
                n_stub += txt.count("kani::stub")
            print("== %s (kani): %d kani::assume, %d kani::stub; %d declared trusted entries" % (name, n_assume, n_stub, len(getattr(m, "TRUSTED", []))))
            for t in getattr(m, "TRUSTED", []):
                print("     trusted: " + t[:200])
    return rc


def main(argv):
    ap = argparse.ArgumentParser()
    ap.add_argument("prop", nargs="?")
    ap.add_argument("--tier", default=os.environ.get("VERIF_TIER", "quick"), choices=["quick", "thorough"])
    ap.add_argument("--unit")
    ap.add_argument("--replay")
    ap.add_argument("--setup", action="store_true")
    ap.add_argument("--scan", action="store_true")
    ap.add_argument("--keep", action="store_true")
    ap.add_argument("--record", action="store_true", help="record the obligation ids generated now as the expected set (unchanged tree only)")
    ap.add_argument("-v", "--verbose", action="store_true")
    args = ap.parse_args(argv)
    if args.setup:
        from . import kani
        return kani.setup(REPO)
    units = load_units(only=args.unit)
    if args.unit:
        if args.unit not in units:
            print("cannot load unit %s: %s" % (args.unit, BROKEN_UNITS.get(args.unit, "not found")))
            return 2
        return dev_unit(args.unit, units, args)
    for name, err in BROKEN_UNITS.items():
        print("warning: unit %s does not load: %s" % (name, err))
    if args.scan:
        return scan(units)
    if args.replay:
        from . import triage
        return triage.replay_file(args.replay, units, REPO)
    if not args.prop:
        ap.print_help()
        return 2
    try:
        return decide(args.prop, args.tier, units, args)
    except Exception:
        print("UNDECIDED driver error:\n" + traceback.format_exc())
        return 2
