"""Engine A: weave real /repo text + contracts into one Verus file, run it, map diagnostics back
to named obligations.

A unit builds a `VerusFile`:

    vf = VerusFile("c05_types", repo)
    vf.raw(PRELUDE)                                    # /verif text: stubs, oracle spec fns, lemmas
    with vf.block("impl Correctness"):
        vf.fn("src/miniscript/types/correctness.rs", "impl:Correctness/fn:and_b",
              contract=Contract(ensures=[Clause("ok", ("C05",), "r is Ok <==> ...")]),
              props=("C05", "C11"))
    res = vf.run(workdir)

Every contract clause is emitted on its own line and remembered by line number, so a Verus
diagnostic (JSON, --error-format=json) is mapped to (function, clause tag, properties).
"""
import json
import os
import re
import subprocess
import time

from .extract import AnchorLost, strip_docs, split_arms, lex, match_close


class Clause:
    def __init__(self, tag, props, text):
        self.tag = tag
        self.props = tuple(props) if not isinstance(props, str) else (props,)
        self.text = text.strip().rstrip(",")


class Contract:
    def __init__(self, requires=(), ensures=(), ret="r", decreases=None, canary=True, pre_props=None, opens=()):
        self.requires = [c if isinstance(c, Clause) else Clause("pre%d" % i, (), c) for i, c in enumerate(requires)]
        self.ensures = list(ensures)
        self.ret = ret
        self.decreases = decreases
        self.canary = canary
        self.opens = opens


class Undecided(Exception):
    """Anything that is not an obligation failure: lost anchor, unsupported construct, rustc
    error, rlimit.  The driver exits 2, never raises an alarm."""


def drop_vis(text):
    """R1: drop `pub`, `pub(crate)`, `pub(super)`, `pub(in ..)`."""
    out = []
    toks = list(lex(text))
    i = 0
    while i < len(toks):
        k, s, e = toks[i]
        if k == "ident" and text[s:e] == "pub":
            j = i + 1
            while j < len(toks) and toks[j][0] == "ws":
                j += 1
            if j < len(toks) and text[toks[j][1]:toks[j][2]] == "(":
                close = match_close(text, toks[j][1])
                while j < len(toks) and toks[j][1] <= close:
                    j += 1
                while j < len(toks) and toks[j][0] == "ws":
                    j += 1
            i = j
            continue
        out.append(text[s:e])
        i += 1
    return "".join(out)


def split_fn(text):
    """Split fn item text into (head_before_ret, ret_type or None, where_clause, body_with_braces).

    head_before_ret ends right after the closing paren of the parameter list.
    """
    toks = [t for t in lex(text) if t[0] not in ("ws", "comment", "doc")]
    # find `fn`
    i = 0
    while not (toks[i][0] == "ident" and text[toks[i][1]:toks[i][2]] == "fn"):
        i += 1
    # params: first '(' at angle depth 0 after name
    j = i + 2
    depth = 0
    while True:
        t = text[toks[j][1]:toks[j][2]]
        if t == "<":
            depth += 1
        elif t == ">" and text[toks[j][1] - 1] != "-":
            depth -= 1
        elif t == "(" and depth == 0:
            break
        j += 1
    pclose = match_close(text, toks[j][1])
    head = text[:pclose + 1]
    # rest: [-> T] [where ...] { body }
    k = j
    while toks[k][1] <= pclose:
        k += 1
    ret = None
    where = ""
    pos = pclose + 1
    # find body open: first `{` at depth 0 outside generics
    m = k
    ret_start = ret_end = where_start = None
    depth = 0
    while m < len(toks):
        kk, s, e = toks[m]
        t = text[s:e]
        if t == "-" and text[e:e + 1] == ">" and ret_start is None and where_start is None:
            ret_start = e + 1
            m += 2
            continue
        if kk == "ident" and t == "where" and depth == 0:
            where_start = s
            if ret_start is not None and ret_end is None:
                ret_end = s
        if t == "<":
            depth += 1
        elif t == ">" and text[s - 1] != "-":
            depth -= 1
        elif t in "([":
            close = match_close(text, s)
            while m < len(toks) and toks[m][1] <= close:
                m += 1
            continue
        elif t == "{" and depth == 0:
            body_open = s
            break
        elif t == ";" and depth == 0:
            body_open = s
            break
        m += 1
    if ret_start is not None:
        ret = text[ret_start:ret_end if ret_end is not None else body_open].strip()
    if where_start is not None:
        where = text[where_start:body_open].strip()
    body = text[body_open:]
    return head, ret, where, body


class VerusFile:
    def __init__(self, unit, repo):
        self.unit = unit
        self.repo = repo
        self.chunks = []          # (text, meta)
        self.functions = {}       # fname -> dict(props, file, lines, clauses)
        self.trusted = []         # declared trusted items (external_body etc.) with reason
        self.rewrites_used = []
        self.canaries = []        # names of canary fns expected to fail
        self.excluded_arms = []
        self._lines = 0

    # ------------------------------------------------------------------------------------------
    def _emit(self, text, meta=None):
        if not text.endswith("\n"):
            text += "\n"
        start = self._lines + 1
        self._lines += text.count("\n")
        self.chunks.append((text, dict(meta or {}, start=start, end=self._lines)))
        return start

    def raw(self, text, keep_vis=False):
        if not keep_vis:
            text = re.sub(r"\bpub\s+open\s+spec\b", "spec", text)
            text = re.sub(r"\bpub\s+closed\s+spec\b", "spec", text)
            text = drop_vis(text)
        return self._emit(text, dict(origin="verif"))

    def trust(self, what, why):
        self.trusted.append("%s — %s" % (what, why))

    class _Block:
        def __init__(self, vf, header):
            self.vf, self.header = vf, header

        def __enter__(self):
            self.vf._emit(self.header + " {", dict(origin="verif"))

        def __exit__(self, *a):
            self.vf._emit("}", dict(origin="verif"))

    def block(self, header):
        return VerusFile._Block(self, header)

    # ------------------------------------------------------------------------------------------
    def item(self, rel, anchor, rewrites=(), keep_derive=False):
        """A non-function item (struct / enum / const) copied verbatim (minus docs, visibility)."""
        reg = self.repo.at(rel, anchor)
        text = drop_vis(strip_docs(reg.text)).strip("\n")
        text = self._apply(text, rewrites, anchor)
        self._emit(text, dict(origin="repo", file=rel, lines=reg.lines(), anchor=anchor))
        return reg

    def _apply(self, text, rewrites, where):
        # R0 (global, after the unit's own rules so that their patterns still see the original text): Verus rejects a
        # wildcard closure parameter (`|_| e`); naming the ignored parameter does not change the meaning.
        rewrites = list(rewrites) + [R0_WILDCARD_CLOSURE_PARAM]
        for rw in rewrites:
            new = rw(text)
            if new is None:
                raise Undecided("rewrite %s found nothing to do in %s (anchor lost)" % (getattr(rw, "rule", rw), where))
            if new != text:
                self.rewrites_used.append("%s @ %s" % (getattr(rw, "rule", "rewrite"), where))
            text = new
        return text

    def fn(self, rel, anchor, contract=None, props=(), rewrites=(), rename=None, qual=None, text_override=None,
           attrs="", assumed=False, cases=None):
        """Extract a function, weave the contract between signature and body."""
        reg = self.repo.at(rel, anchor)
        text = text_override if text_override is not None else reg.text
        text = drop_vis(strip_docs(text)).strip("\n")
        text = self._apply(text, rewrites, anchor)
        name = rename or reg.item["name"]
        if rename:
            text = re.sub(r"\bfn\s+%s\b" % re.escape(reg.item["name"]), "fn " + rename, text, count=1)
        fq = (qual + "::" if qual else "") + name
        if assumed:
            # callee contract proved in another unit: signature + identical contract, body dropped
            head, ret, where, body = split_fn(text)
            text = text[:len(text) - len(body)] + "{ unimplemented!() }"
            if contract is not None:
                contract.canary = False
            self.fn_text(fq, text, contract, (), file=rel, lines=reg.lines(), anchor=anchor,
                         attrs="#[verifier::external_body]", origin="assumed")
            del self.functions[fq]
            return reg
        if cases:
            self.fn_cases(fq, text, contract, props, cases, file=rel, lines=reg.lines(), anchor=anchor, attrs=attrs)
            return reg
        self.fn_text(fq, text, contract, props, file=rel, lines=reg.lines(), anchor=anchor, attrs=attrs)
        return reg

    def fn_cases(self, fq, text, contract, props, cases, file=None, lines=None, anchor=None, attrs=""):
        """Case split by precondition (keeps each SMT query small): the same function text is verified
        once per case `(name, condition, [clauses])` under the extra precondition `condition`, with the
        shared clauses of `contract` plus the case's own; a generated lemma proves the cases exhaustive
        under the shared precondition.  Sound: the conjunction of the per-case results is the contract."""
        contract = contract or Contract()
        base = fq.split("::")[-1]
        for cname, cond, clauses in cases:
            c = Contract(requires=[x for x in contract.requires] + [Clause("case", (), cond)],
                         ensures=list(contract.ensures) + list(clauses), ret=contract.ret, decreases=contract.decreases,
                         canary=contract.canary)
            t2 = re.sub(r"\bfn\s+%s\b" % re.escape(base), "fn %s__%s" % (base, cname), text, count=1)
            self.fn_text("%s__%s" % (fq, cname), t2, c, props, file=file, lines=lines, anchor=anchor, attrs=attrs)
        head, ret, where, body = split_fn(text)
        m = re.search(r"\bfn\s+(\w+)\s*(<.*?>)?\s*\(", head, flags=re.S)
        i = head.index("(", m.end() - 1)
        params = re.sub(r"\bmut\s+(?=\w+\s*:)", "", head[i + 1:head.rindex(")")])
        pre = "".join("    requires %s,\n" % _oneline(c.text) for c in contract.requires[:1])
        if len(contract.requires) > 1:
            pre = "    requires " + ", ".join("(%s)" % _oneline(c.text) for c in contract.requires) + ",\n"
        lemma = "proof fn %s__cases_exhaustive%s(%s)\n    %s\n%s    ensures %s,\n{}\n" % (
            base, m.group(2) or "", params, where, pre, " || ".join("(%s)" % cond for _, cond, _ in cases))
        self.spec_obligation("%s__cases_exhaustive" % fq, lemma, props)

    def fn_text(self, fq, text, contract=None, props=(), file=None, lines=None, anchor=None, attrs="", origin="repo"):
        """Weave a contract into function text (already extracted / generated)."""
        contract = contract or Contract()
        head, ret, where, body = split_fn(text)
        out = []
        if attrs:
            out.append(attrs)
        sig = head
        if ret is not None:
            sig += " -> (%s: %s)" % (contract.ret, ret)
        out.append(sig)
        if where:
            out.append("    " + where)
        clause_lines = {}
        rel_line = sum(x.count("\n") + 1 for x in out)
        lines_out = []
        if contract.requires:
            lines_out.append("    requires")
            for c in contract.requires:
                lines_out.append("        %s, //@ %s.%s.%s" % (_oneline(c.text), self.unit, fq, c.tag))
                clause_lines[len(lines_out) - 1] = ("requires", c)
        if contract.ensures:
            lines_out.append("    ensures")
            for c in contract.ensures:
                lines_out.append("        %s, //@ %s.%s.%s [%s]" % (_oneline(c.text), self.unit, fq, c.tag, ",".join(c.props)))
                clause_lines[len(lines_out) - 1] = ("ensures", c)
        if contract.decreases:
            lines_out.append("    decreases %s," % contract.decreases)
        if contract.opens:
            lines_out.append("    opens_invariants none")
        pre = "\n".join(out)
        full = pre + "\n" + ("\n".join(lines_out) + "\n" if lines_out else "") + body
        start = self._emit(full, dict(origin=origin, file=file, lines=lines, anchor=anchor, fn=fq))
        base = start + pre.count("\n") + 1
        clauses = {}
        for idx, (kind, c) in clause_lines.items():
            clauses[base + idx] = (kind, c)
        self.functions[fq] = dict(props=tuple(props), file=file, lines=lines, clauses=clauses,
                                  start=start, end=self._lines, origin=origin)
        if contract.requires and contract.canary:
            self._canary(fq, head, where, contract)

    def step(self, rel, anchor, fq, signature, contract=None, props=(), rewrites=(), scrutinee=None,
             exclude=None, pre_match="", post_match="", arm_rewrites=None, attrs="", cases=None):
        """Per-node step extraction (DESIGN 3.2): cut the arms of the `match` at `anchor` verbatim and
        generate  `<signature> { <pre_match> let step_result = match <scrutinee> { ARMS }; <post_match> step_result }`.

        signature : text `fn name<..>(params) -> Ret` (+ optional where clause), written by the unit
        exclude   : {pattern-prefix: replacement body}  -- rule R9, the arm's body is replaced (the arm is
                    then NOT claimed); every exclusion is recorded in self.excluded_arms
        arm_rewrites : {pattern-prefix: [rewrite, ...]} applied to single arms
        Returns the list of arm patterns (so that units can check that every variant is covered).
        """
        reg = self.repo.at(rel, anchor)
        arms = split_arms(reg.src, reg.start, reg.end)
        if not arms:
            raise Undecided("no match arms at %s %s" % (rel, anchor))
        out = []
        pats = []
        used = set()
        for a in arms:
            pat_n = re.sub(r"\s+", " ", a["pat"])
            pats.append(pat_n)
            body = a["body"]
            key = None
            for k in (exclude or {}):
                if pat_n.startswith(k):
                    key = k
            if key is not None:
                used.add(key)
                body = (exclude[key])
                self.excluded_arms.append("%s: arm `%s` excluded (R9) at %s" % (fq, pat_n[:60], anchor))
            else:
                for k, rws in (arm_rewrites or {}).items():
                    if pat_n.startswith(k):
                        used.add(k)
                        body = self._apply(body, rws, "%s arm %s" % (anchor, k))
            guard = (" if " + a["guard"]) if a["guard"] else ""
            out.append("        %s%s => %s," % (a["pat"], guard, body))
        missing = (set(exclude or {}) | set(arm_rewrites or {})) - used
        if missing:
            raise Undecided("step %s: arms %s not found at %s (anchor lost)" % (fq, sorted(missing), anchor))
        scr = scrutinee or getattr(reg, "scrutinee", None)
        text = "%s {\n%s\n    let step_result = match %s {\n%s\n    };\n%s\n    step_result\n}\n" % (
            signature.strip(), pre_match, scr, "\n".join(out), post_match)
        text = drop_vis(strip_docs(text))
        text = self._apply(text, rewrites, anchor)
        if cases:
            self.fn_cases(fq, text, contract, props, cases, file=rel, lines=reg.lines(), anchor=anchor, attrs=attrs)
        else:
            self.fn_text(fq, text, contract, props, file=rel, lines=reg.lines(), anchor=anchor, attrs=attrs)
        return pats

    def const(self, rel, anchor, fq, ensures=(), props=(), rewrites=()):
        """A `const NAME: T = EXPR;` whose initializer calls exec functions (not usable as a Verus const,
        and `exec const` is rejected inside generic impls): emitted as `fn NAME() -> (r: T) ensures .. { EXPR }`
        (rule R12: a const is its initializer evaluated at each use; use sites are rewritten with
        `const_as_fn(NAME)`)."""
        reg = self.repo.at(rel, anchor)
        text = drop_vis(strip_docs(reg.text)).strip()
        text = self._apply(text, rewrites, anchor)
        m = re.match(r"const\s+(\w+)\s*:\s*(.*?)\s*=\s*(.*);\s*$", text, flags=re.S)
        if not m:
            raise Undecided("const %s: unexpected shape" % anchor)
        name, ty, expr = m.group(1), m.group(2), m.group(3)
        self.rewrites_used.append("R12 const-as-fn @ %s" % anchor)
        self.fn_text(fq, "fn %s() -> %s {\n    %s\n}" % (name, ty, expr), Contract(ensures=list(ensures)), props,
                     file=rel, lines=reg.lines(), anchor=anchor)

    def spec_obligation(self, fq, text, props):
        """A proof fn / lemma written in /verif (origin verif) that counts as an obligation."""
        start = self._emit(text, dict(origin="verif", fn=fq))
        self.functions[fq] = dict(props=tuple(props), file=None, lines=None, clauses={}, start=start,
                                  end=self._lines, origin="verif")

    def _canary(self, fq, head, where, contract):
        """proof fn canary_<fn>(params) requires <pre> ensures false {} -- must FAIL."""
        m = re.search(r"\bfn\s+(\w+)\s*(<.*?>)?\s*\(", head, flags=re.S)
        if not m:
            return
        cname = "canary_" + re.sub(r"\W+", "_", fq)
        # parameters: take the text between the parens; turn `self` forms into a typed param is
        # impossible outside the impl, so canaries for methods are emitted inside the same block
        # by the caller (they are emitted right after the fn, i.e. still inside the impl block).
        i = head.index("(", m.end() - 1)
        params = head[i + 1:head.rindex(")")]
        params = re.sub(r"\bmut\s+(?=\w+\s*:)", "", params)
        params = re.sub(r"&\s*mut\s+self\b", "&self", params)
        generics = m.group(2) or ""
        pre = ", ".join("(%s)" % _oneline(c.text) for c in contract.requires)
        pre = re.sub(r"\bold\(([^()]*)\)", r"\1", pre)
        text = "proof fn %s%s(%s)\n    %s\n    requires %s,\n    ensures false,\n{}\n" % (cname, generics, params, where, pre)
        if "&mut" in params:
            return  # cannot express; skip canary
        start = self._emit(text, dict(origin="verif", fn=cname, canary_for=fq))
        self.canaries.append((cname, fq, start, self._lines))

    # ------------------------------------------------------------------------------------------
    def text(self):
        return "".join(t for t, _ in self.chunks)

    def fn_at_line(self, line):
        for fq, f in self.functions.items():
            if f["start"] <= line <= f["end"]:
                return fq
        for cname, fq, s, e in self.canaries:
            if s <= line <= e:
                return cname
        return None

    def scan_trusted(self):
        """Mechanical scan of the woven text for assumption keywords."""
        found = []
        for i, line in enumerate(self.text().split("\n"), 1):
            code = line.split("//")[0]
            for kw in ("assume(", "admit(", "external_body", "assume_specification", "#[verifier::external", "external_fn_specification", "external_type_specification"):
                if kw in code:
                    found.append((i, kw, line.strip()))
        return found


def _oneline(s):
    return re.sub(r"\s*\n\s*", " ", s.strip())


VERIF_FAIL_MESSAGES = (
    "postcondition not satisfied",
    "precondition not satisfied",
    "assertion failed",
    "possible arithmetic underflow/overflow",
    "possible division by zero",
    "possible bit shift underflow/overflow",
    "invariant not satisfied",
    "loop invariant not preserved",
    "loop invariant not satisfied",
    "decreases not satisfied",
    "could not prove termination",
    "unreachable",
    "recommendation not met",
    "cannot show invariant",
    "failed to prove",
    "index out of bounds",
    "constructed value may fail to meet its declared type invariant",
    "possible overflow",
    "cannot prove that call to",
    "termination not proved",
    "fails to satisfy callee.requires",
    "Call to non-static function fails",
    "precondition not met",
    "unable to prove post-condition of closure",
)


class Failure:
    def __init__(self, fn, kind, message, line, clause=None, props=(), rendered=""):
        self.fn, self.kind, self.message, self.line = fn, kind, message, line
        self.clause, self.props, self.rendered = clause, tuple(props), rendered

    def ident(self, unit):
        return "%s.%s.%s" % (unit, self.fn, self.clause.tag if self.clause else self.kind)


def run_verus(vf, workdir, rlimit=30, extra_args=(), timeout=900):
    os.makedirs(workdir, exist_ok=True)
    path = os.path.join(workdir, vf.unit + ".rs")
    src = "#![allow(unused, non_snake_case, non_camel_case_types, dead_code, unreachable_patterns)]\nuse vstd::prelude::*;\nverus! {\n"
    offset = src.count("\n")
    body = vf.text()
    with open(path, "w") as f:
        f.write(src + body + "\n} // verus!\nfn main() {}\n")
    cmd = ["verus", path, "--output-json", "--time", "--error-format=json", "--multiple-errors", "40",
           "--rlimit", str(rlimit), "--no-report-long-running"] + list(extra_args)
    t0 = time.time()
    try:
        p = subprocess.run(cmd, capture_output=True, text=True, timeout=timeout, cwd=workdir)
    except subprocess.TimeoutExpired:
        raise Undecided("verus timed out after %ds on unit %s" % (timeout, vf.unit))
    wall = time.time() - t0
    try:
        summary = json.loads(p.stdout)
    except Exception:
        raise Undecided("verus produced no JSON summary for unit %s (rc=%s): %s" % (vf.unit, p.returncode, (p.stderr or p.stdout)[-2000:]))
    diags = []
    for line in p.stderr.split("\n"):
        line = line.strip()
        if line.startswith("{"):
            try:
                diags.append(json.loads(line))
            except Exception:
                pass
    vr = summary.get("verification-results", {})
    failures = []
    hard = []
    for d in diags:
        if d.get("level") != "error":
            continue
        msg = d.get("message", "")
        if msg.startswith("aborting due to"):
            continue
        spans = []
        for sp in d.get("spans", []):
            # a span inside a macro expansion (unreachable!, panic!, assert!, vec!) lies in library code:
            # walk the expansion chain back to the call site in the unit file
            cur = sp
            hops = 0
            while cur is not None and not str(cur.get("file_name", "")).endswith(vf.unit + ".rs") and hops < 12:
                exp = cur.get("expansion")
                cur = exp.get("span") if exp else None
                hops += 1
            if cur is not None:
                cur = dict(cur, is_primary=sp.get("is_primary"), label=sp.get("label"))
                spans.append(cur)
            else:
                spans.append(sp)
        prim = [s for s in spans if s.get("is_primary")] or spans
        line = (prim[0]["line_start"] - offset) if prim else 0
        is_verif = any(msg.startswith(m) or m in msg for m in VERIF_FAIL_MESSAGES)
        if "rlimit" in msg.lower() or "resource limit" in msg.lower():
            hard.append("rlimit: " + d.get("rendered", msg)[:600])
            continue
        if not is_verif:
            hard.append(d.get("rendered", msg)[:1500])
            continue
        # which function, which clause
        clause = None
        ckind = None
        fn = None
        for s in spans:
            l = s["line_start"] - offset
            f = vf.fn_at_line(l)
            if f and f in vf.functions and l in vf.functions[f]["clauses"]:
                ckind, clause = vf.functions[f]["clauses"][l]
                if ckind == "ensures":
                    fn = f
        if fn is None:
            fn = vf.fn_at_line(line)
            if fn is None:
                for s in spans:
                    fn = vf.fn_at_line(s["line_start"] - offset)
                    if fn:
                        break
        kind = "postcondition" if (clause is not None and ckind == "ensures") else (
            "callee-precondition" if msg.startswith("precondition") else
            "assertion" if msg.startswith("assertion") else
            "arithmetic" if "arithmetic" in msg or "overflow" in msg or "division" in msg else
            "other")
        props = ()
        if clause is not None and ckind == "ensures":
            props = clause.props
        elif fn in vf.functions:
            props = vf.functions[fn]["props"]
            clause = None
        else:
            clause = None
        failures.append(Failure(fn or "?", kind, msg, line, clause, props, d.get("rendered", "")))
    if vr.get("encountered-vir-error") or (hard and not failures) or (not vr and p.returncode != 0):
        raise Undecided("verus could not process unit %s: %s" % (vf.unit, "\n".join(hard)[:3000] or p.stderr[-2000:]))
    if "panicked at" in p.stderr or (not vr.get("success") and not failures):
        raise Undecided("verus crashed or failed without a diagnostic on unit %s: %s" % (vf.unit, p.stderr[-1500:]))
    if hard:
        raise Undecided("verus reported non-obligation errors in unit %s: %s" % (vf.unit, "\n".join(hard)[:3000]))
    # canaries
    canary_names = {c[0] for c in vf.canaries}
    failed_canaries = {f.fn for f in failures if f.fn in canary_names}
    vacuous = sorted(canary_names - failed_canaries)
    real = [f for f in failures if f.fn not in canary_names]
    times = summary.get("times-ms", {})
    fb = []
    for m in times.get("smt", {}).get("smt-run-module-times", []):
        fb.extend(m.get("function-breakdown", []))
    return dict(path=path, cmd=" ".join(cmd), wall_s=wall, summary=vr, failures=real, vacuous=vacuous,
                canaries=len(canary_names), smt_ms=times.get("smt", {}).get("smt-run", 0),
                total_ms=times.get("total", 0), fn_breakdown=fb, stderr=p.stderr)


# ----------------------------------------------------------------------------------------------
# common rewrite rules (section 3.3 of DESIGN.md).  Each returns the new text, or None when its
# `from` pattern is expected but absent.
# ----------------------------------------------------------------------------------------------

def rule(name):
    def deco(f):
        f.rule = name
        return f
    return deco


def _r0_wildcard(text):
    """`|_| e` / `|_: T| e` (a closure whose whole parameter list is one wildcard) -> `|_ignoredN| e`.  Deliberately narrow: a `_`
    inside a longer parameter list or a tuple pattern cannot be told from an or-pattern in a match arm by a regex."""
    n = [0]
    def repl(m):
        n[0] += 1
        return "|_ignored%d%s|" % (n[0], m.group(1) or "")
    return re.sub(r"\|_(\s*:[^|]*)?\|", repl, text)


_r0_wildcard.rule = "R0-wildcard-closure-param"
R0_WILDCARD_CLOSURE_PARAM = _r0_wildcard


def sub(name, pattern, repl, required=True, flags=0, count=0):
    @rule(name)
    def rw(text):
        new, n = re.subn(pattern, repl, text, count=count, flags=flags)
        if n == 0 and required:
            return None
        return new
    return rw


def lit(name, old, new, required=True):
    @rule(name)
    def rw(text):
        if old not in text:
            return None if required else text
        return text.replace(old, new)
    return rw


# R11: `a >= b` on two bool-typed field expressions -> `(a || !b)` (Verus' encoder crashes on ordered
# comparison of bools; for bools a >= b <=> a or not b)
def bool_ge(*fields):
    pats = "|".join(re.escape(f) for f in fields)

    @rule("R11")
    def rw(text):
        new, n = re.subn(r"(\b\w+\.(?:%s))\s*>=\s*(\b\w+\.(?:%s))\b" % (pats, pats), r"(\1 || !\2)", text)
        return new if n else None
    return rw


def _trim_derive(m):
    keep = [x.strip() for x in m.group(1).split(",") if x.strip() in ("Clone", "Copy", "PartialEq", "Eq")]
    return "#[derive(%s)]" % ", ".join(keep) if keep else ""


# R1: derives other than Clone/Copy/PartialEq/Eq (Debug, Hash, PartialOrd, Ord, Default) are dropped
DERIVE_TRIM = sub("R1-derive", r"#\[derive\(([^)]*)\)\]", _trim_derive, required=False)


def const_as_fn(name, required=True):
    """R12 use-site rewrite: `Self::NAME` -> `Self::NAME()`."""
    return sub("R12", r"\b(Self::%s)\b(?!\s*\()" % name, r"\1()", required=required)


R5_BOOL_OPASSIGN = sub("R5", r"(\b[\w.]+)\s*([|&])=\s*([^;]+);", lambda m: "%s = %s %s (%s);" % (m.group(1), m.group(1), m.group(2) * 2, m.group(3)), required=False)


def arms_of(region):
    return split_arms(region.src, region.start, region.end)


def replace_arm(scrutinee, pat_prefix, new_body, rule_name="R9", nth=0):
    """Rewrite on whole-function text: the body of the arm whose pattern starts with `pat_prefix`
    in `match <scrutinee> {..}` is replaced by `new_body`."""
    from .extract import Region

    @rule(rule_name)
    def rw(text):
        reg = Region("<text>", text, 0, len(text))
        try:
            m = reg._find_match(scrutinee, nth)
        except AnchorLost:
            return None
        for a in split_arms(text, m.start, m.end):
            if re.sub(r"\s+", " ", a["pat"]).startswith(pat_prefix):
                return text[:a["body_start"]] + new_body + text[a["body_end"]:]
        return None
    return rw
