"""Engine B: Kani harnesses / function contracts woven into a scratch copy of the real crate.

A Kani unit module declares

    NAME, ENGINE = "kani", PROPS
    INJECT = [(source file relative to /repo, harness file relative to /verif)]
        the harness file is appended to the source file as
            #[cfg(kani)] mod verif_<stem> { use super::*; include!("<abs path>"); }
        i.e. a child module of the real module, so private items are visible.  cfg(kani) is the
        guard: with it off the scratch copy is byte-identical to /repo.
    HARNESSES = [dict(name=<harness fn>, props=(..), kind="complete"|"bounded", bound=<text>,
                      tier="quick"|"thorough", fn=<function under contract>, tags=[assert tags])]
    KANI_ARGS (optional extra args)

Assertions in harnesses carry their obligation tag as message: `assert!(cond, "C09:or_b.sat_size")`.
"""
import json
import os
import re
import shutil
import subprocess
import time

CACHE = os.path.join(os.path.dirname(os.path.dirname(os.path.abspath(__file__))), ".cache")
TARGET = os.environ.get("VERIF_KANI_TARGET") or os.path.join(CACHE, "kani-target")
ENV = dict(os.environ, CARGO_NET_OFFLINE="true", CARGO_TARGET_DIR=TARGET)


def prepare_copy(repo_root, dest, units):
    """rsync /repo -> dest (no target/, no .git), append the cfg(kani) modules."""
    os.makedirs(dest, exist_ok=True)
    subprocess.run(["rsync", "-a", "--delete", "--exclude", "/target", "--exclude", "/.git", "--exclude", "/fuzz", "--exclude", "/bitcoind-tests",
                    "--exclude", "/embedded", repo_root.rstrip("/") + "/", dest + "/"], check=True)
    # the workspace may list members we excluded
    ct = os.path.join(dest, "Cargo.toml")
    txt = open(ct).read()
    txt2 = re.sub(r"\[workspace\].*?(?=\n\[|\Z)", "[workspace]\nmembers = []\n", txt, flags=re.S)
    if txt2 != txt:
        open(ct, "w").write(txt2)
    root = os.path.dirname(os.path.dirname(os.path.abspath(__file__)))
    woven = []
    for m in units:
        for rel, harness in m.INJECT:
            p = os.path.join(dest, rel)
            if not os.path.exists(p):
                raise FileNotFoundError("anchor file lost: %s" % rel)
            stem = os.path.splitext(os.path.basename(harness))[0]
            with open(p, "a") as f:
                f.write("\n#[cfg(kani)]\n#[allow(unused, dead_code)]\nmod verif_%s {\n    use super::*;\n    include!(\"%s\");\n}\n" % (stem, os.path.join(root, harness)))
            woven.append((rel, stem))
    # crate-level feature gates for loop contracts etc. are not needed for plain harnesses
    return woven


def parse_kani_output(out):
    """Split cargo-kani output per harness (handles the `Thread N:` interleaving of -j)."""
    res = {}
    cur = None          # harness currently receiving lines
    by_thread = {}
    for line in out.split("\n"):
        m = re.match(r"(?:Thread (\d+): )?Checking harness (\S+?)\.\.\.", line)
        if m:
            th, h = m.group(1), m.group(2)
            by_thread[th] = h
            res.setdefault(h, [])
            cur = h if th is None else None
            continue
        m = re.match(r"Thread (\d+): ?(.*)", line)
        if m:
            cur = by_thread.get(m.group(1))
            line = m.group(2)
        if re.match(r"(Manual Harness Summary|Complete - |Verification failed for)", line):
            cur = None
        if cur is not None:
            res[cur].append(line)
    return {k: "\n".join(v) for k, v in res.items()}


def harness_verdict(text):
    ok = "VERIFICATION:- SUCCESSFUL" in text
    failed = "VERIFICATION:- FAILED" in text
    if "CBMC failed" in text or "out of memory" in text or "CBMC timed out" in text or "Killed" in text:
        # resource exhaustion is never a verdict
        ok = failed = False
    m = re.search(r"\*\* (\d+) of (\d+) failed", text)
    nfail, ntotal = (int(m.group(1)), int(m.group(2))) if m else (0, 0)
    fails = []
    for fm in re.finditer(r"Failed Checks: (.*?)\n\s*File: \"([^\"]*)\", line (\d+)", text):
        fails.append((fm.group(1).strip(), fm.group(2), int(fm.group(3))))
    unsat_cover = re.findall(r"Check \d+: .*cover.*\n\s*- Status: (UNSATISFIABLE|UNREACHABLE)", text)
    cov_m = re.search(r"\*\* (\d+) of (\d+) cover properties satisfied", text)
    covers = (int(cov_m.group(1)), int(cov_m.group(2))) if cov_m else None
    tm = re.search(r"Verification Time: ([\d.]+)s", text)
    unwind = "unwinding assertion" in text and any("unwinding" in f[0] for f in fails)
    return dict(ok=ok and not failed, failed=failed, nfail=nfail, ntotal=ntotal, fails=fails, covers=covers,
                time=float(tm.group(1)) if tm else None, unwind_fail=unwind)


def run_kani_units(mods, repo_root, tier, work, verbose=False):
    from .driver import UnitResult
    results = {m.NAME: UnitResult(m.NAME) for m in mods}
    dest = os.path.join(work, "kani-repo")
    t0 = time.time()
    try:
        prepare_copy(repo_root, dest, mods)
    except Exception as e:
        for r in results.values():
            r.status = "undecided"
            r.reason = "cannot weave scratch copy: %s" % e
        return list(results.values())
    harnesses = []
    for m in mods:
        for h in m.HARNESSES:
            if tier == "thorough" or h.get("tier", "quick") == "quick":
                harnesses.append((m, h))
    if not harnesses:
        return list(results.values())
    os.makedirs(TARGET, exist_ok=True)
    extra = []
    for m in mods:
        extra += list(getattr(m, "KANI_ARGS", []))
    jobs = min(int(os.environ.get("VERIF_KANI_JOBS", "6")), max(1, len(harnesses)))
    cmd = ["cargo", "kani", "-Z", "function-contracts", "-Z", "stubbing", "--output-format", "terse", "-j", str(jobs)]
    for a in extra:
        if a not in cmd:
            cmd.append(a)
    for m, h in harnesses:
        cmd += ["--harness", h["name"]]
    timeout = int(os.environ.get("VERIF_KANI_TIMEOUT", "7200" if tier == "thorough" else "2400"))
    def limit():
        import resource
        gb = int(os.environ.get("VERIF_KANI_MEM_GB", "10"))
        resource.setrlimit(resource.RLIMIT_AS, (gb << 30, gb << 30))
    # own process group, so that a timeout takes the cbmc children down with cargo-kani (no orphans eating memory)
    import signal
    proc = subprocess.Popen(cmd, cwd=dest, env=ENV, stdout=subprocess.PIPE, stderr=subprocess.PIPE, text=True, preexec_fn=limit, start_new_session=True)
    try:
        so, se = proc.communicate(timeout=timeout)
        out = so + "\n" + se
    except subprocess.TimeoutExpired:
        try:
            os.killpg(proc.pid, signal.SIGKILL)
        except Exception:
            pass
        so, se = proc.communicate()
        out = (so or "") + "\n" + (se or "") + "\nTIMEOUT"
    wall = time.time() - t0
    if verbose:
        print(out[-6000:])
    per = parse_kani_output(out)
    if not per:
        for r in results.values():
            r.status = "undecided"
            r.reason = "cargo kani produced no harness result (build error?):\n" + out[-3000:]
            r.wall_s = wall
        return list(results.values())
    for m, h in harnesses:
        r = results[m.NAME]
        r.cmd = " ".join(cmd[:11]) + " --harness <each listed harness>  (in a scratch copy of /repo with #[cfg(kani)] modules appended)"
        r.wall_s = wall
        short = h["name"].split("::")[-1]
        key = next((k for k in per if k == h["name"] or k.endswith("::" + short)), None)
        hid = "%s.%s" % (m.NAME, short)
        bounded = h.get("kind") == "bounded"
        # a THOROUGH-ONLY BOUNDED stand-in that did not finish (time / memory limit of this machine under load) decides nothing and
        # is never counted as proof: it is reported as not completed in the evidence and does not make the check undecided.  Quick
        # harnesses and complete (full-domain) harnesses must finish.
        optional = bounded and h.get("tier") == "thorough"
        if key is None:
            if optional:
                r.bounded.append(dict(id=hid, props=list(h["props"]), bound=h.get("bound"), status="NOT COMPLETED (no result: time or memory limit)",
                                      checks=0, time=None, kind="bounded"))
                continue
            r.status = "undecided"
            r.reason += "harness %s: no result (timeout/OOM/build error)\n" % short
            continue
        v = harness_verdict(per[key])
        tags = h.get("tags") or []
        if not v["ok"] and not v["failed"]:
            if optional:
                r.bounded.append(dict(id=hid, props=list(h["props"]), bound=h.get("bound"), status="NOT COMPLETED (CBMC gave no verdict: time or memory limit)",
                                      checks=0, time=None, kind="bounded"))
                continue
            r.status = "undecided"
            r.reason += "harness %s: neither SUCCESSFUL nor FAILED:\n%s\n" % (short, per[key][-800:])
            continue
        if v["covers"] is not None and v["covers"][0] < v["covers"][1]:
            r.status = "undecided"
            r.reason += "harness %s: vacuity guard: only %d of %d cover properties reachable\n" % (short, v["covers"][0], v["covers"][1])
            continue
        failed_tags = set()
        other_fail = []
        tagmap = {}
        for t in tags:
            pr, _, nm = t.rpartition(":")
            tagmap[nm] = tuple(pr.split(",")) if pr else tuple(h["props"])
        for desc, f, l in v["fails"]:
            mt = re.search(r"\b((?:C\d\d,?)+):([\w.\-]+)", desc)
            if mt:
                failed_tags.add(mt.group(2))
                tagmap.setdefault(mt.group(2), tuple(mt.group(1).split(",")))
            else:
                other_fail.append("%s (%s:%d)" % (desc, f, l))
        if v["unwind_fail"]:
            # unwinding assertion failed: the bound was too small -- not a property failure
            r.status = "undecided"
            r.reason += "harness %s: unwinding assertion failed (bound too small)\n" % short
            continue
        rec = dict(id=hid, props=list(h["props"]), bound=h.get("bound"), status="SUCCESSFUL" if v["ok"] else "FAILED",
                   checks=v["ntotal"], time=v["time"], kind=h.get("kind"))
        if bounded:
            r.bounded.append(rec)
        else:
            for t, tprops in tagmap.items():
                r.obligations.append(dict(id="%s.%s" % (hid, t), fn=h.get("fn", short), tag=t, props=list(tprops), engine="kani",
                                          kind="postcondition (assert in full-domain harness)", discharged=t not in failed_tags,
                                          text=t, file=m.INJECT[0][0], lines=None))
            r.obligations.append(dict(id="%s.auto" % hid, fn=h.get("fn", short), tag="auto", props=list(h["props"]), engine="kani",
                                      kind="%d CBMC checks: overflow, bounds, unwrap, panic, unwinding" % v["ntotal"],
                                      discharged=not other_fail and (v["ok"] or bool(failed_tags)), text="automatic checks", file=m.INJECT[0][0], lines=None))
            if h.get("fn"):
                r.functions.append("%s (%s) [kani]" % (h["fn"], m.INJECT[0][0]))
        if v["failed"]:
            for t in sorted(failed_tags):
                r.failures.append(dict(id="%s.%s" % (hid, t), props=list(tagmap.get(t, h["props"])), message="Kani: assertion %s failed" % t,
                                       detail=per[key][-2500:], fn=h.get("fn", short), tag=t, engine="kani",
                                       kind="bounded-harness" if bounded else "postcondition"))
            if other_fail:
                r.failures.append(dict(id="%s.auto" % hid, props=list(h["props"]), message="Kani: " + "; ".join(other_fail)[:400],
                                       detail=per[key][-2500:], fn=h.get("fn", short), tag="auto", engine="kani",
                                       kind="bounded-harness" if bounded else "panic/overflow"))
        r.trusted = sorted(set(r.trusted) | set(getattr(m, "TRUSTED", [])))
        r.dropped = list(getattr(m, "DROPPED", []))
    # concrete playback: for failed harnesses ask Kani for the counterexample and run it natively against
    # the real code (cargo kani playback) -- that is the replay of the verifier's counterexample
    known_open = set(json.loads(os.environ.get("VERIF_KNOWN_OPEN", "[]")))
    failed = [(m, h) for m, h in harnesses if any(f["id"].startswith("%s.%s." % (m.NAME, h["name"].split("::")[-1])) and f["id"] not in known_open
                                                  for f in results[m.NAME].failures)]
    for m, h in failed[:3]:
        short = h["name"].split("::")[-1]
        try:
            cx = concrete_playback(dest, m, h, extra)
        except Exception as e:
            cx = dict(error=str(e)[:300])
        for f in results[m.NAME].failures:
            if f["id"].startswith("%s.%s." % (m.NAME, short)):
                f["counterexample"] = cx
                f["replayed"] = bool(cx.get("native_replay_failed_as_predicted"))
    # remove the crate's own build output, keep the dependency cache
    shutil.rmtree(dest, ignore_errors=True)
    return list(results.values())


def concrete_playback(dest, m, h, extra):
    short = h["name"].split("::")[-1]
    cmd = ["cargo", "kani", "-Z", "function-contracts", "-Z", "stubbing", "-Z", "concrete-playback", "--concrete-playback=print",
           "--output-format", "terse", "--harness", h["name"]] + [a for a in extra if a not in ("-Z", "function-contracts", "stubbing")]
    p = subprocess.run(cmd, cwd=dest, env=ENV, capture_output=True, text=True, timeout=900)
    out = p.stdout + p.stderr
    tests = re.findall(r"```\n(.*?)```", out, flags=re.S)
    if not tests:
        return dict(note="Kani produced no concrete playback test")
    tests = tests[:6]
    test = "\n".join(tests)
    tnames = re.findall(r"fn (kani_concrete_playback_\w+)", test)
    tname = "kani_concrete_playback_"
    values = re.findall(r"// (.*)\n\s*vec!\[([^\]]*)\]", tests[0])
    # append the generated tests to the woven module of the harness and run them natively
    rel, harness = next(((r, hf) for r, hf in m.INJECT if re.search(r"fn\s+%s\b" % re.escape(short), open(os.path.join(os.path.dirname(CACHE), hf)).read())), m.INJECT[0])
    stem = os.path.splitext(os.path.basename(harness))[0]
    path = os.path.join(dest, rel)
    src = open(path).read()
    marker = "mod verif_%s {\n    use super::*;" % stem
    if marker not in src:
        return dict(values=values, test=test, note="could not place playback test")
    src = src.replace(marker, marker + "\n" + test, 1)
    open(path, "w").write(src)
    q = subprocess.run(["cargo", "kani", "playback", "-Z", "concrete-playback", "--", tname], cwd=dest, env=ENV, capture_output=True, text=True, timeout=1800)
    qo = q.stdout + q.stderr
    failed_native = "test result: FAILED" in qo and any(t in qo for t in tnames)
    m2 = re.search(r"panicked at ([^\n]*)\n([^\n]*)", qo)
    return dict(kind="kani-concrete-playback", inputs=["%s = bytes[%s]" % (a.strip(), b.strip()) for a, b in values], test=test,
                native_replay_failed_as_predicted=failed_native, native_panic=(m2.group(0)[:300] if m2 else ""),
                replay_cmd="cargo kani playback -Z concrete-playback -- %s  (in a scratch copy of the tree with the harness module woven in)" % tname)


def setup(repo_root):
    """Offline setup: warm the Kani dependency cache with a trivial harness."""
    import tempfile
    work = tempfile.mkdtemp(prefix="verif-setup-")
    rc = 0
    try:
        dest = os.path.join(work, "kani-repo")

        class Warm:
            NAME = "warm"
            INJECT = [("src/util.rs", "contracts/kani/warm.rs")]
        prepare_copy(repo_root, dest, [Warm])
        os.makedirs(TARGET, exist_ok=True)
        p = subprocess.run(["cargo", "kani", "--harness", "warm_harness", "--output-format", "terse"], cwd=dest, env=ENV,
                           capture_output=True, text=True, timeout=1800)
        ok = "VERIFICATION:- SUCCESSFUL" in p.stdout
        print("kani warm-up: %s" % ("ok" if ok else "FAILED"))
        if not ok:
            print((p.stdout + p.stderr)[-3000:])
            rc = 1
        # warm verus (first run is slow)
        vt = os.path.join(work, "v.rs")
        open(vt, "w").write("use vstd::prelude::*;\nverus!{ fn f(x: u8) -> (r: u8) ensures r == x { x } }\nfn main(){}\n")
        p = subprocess.run(["verus", vt], capture_output=True, text=True, timeout=600)
        print("verus warm-up: %s" % ("ok" if "1 verified" in p.stdout else "FAILED " + p.stdout + p.stderr))
        if "1 verified" not in p.stdout:
            rc = 1
    finally:
        shutil.rmtree(work, ignore_errors=True)
    return rc
